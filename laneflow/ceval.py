"""Concrete evaluation of lane terms at explicit inputs (integers as bit patterns, binary32 / binary64 floats as bit patterns).

Used only to make a REFUTED verdict sound by exhibiting a witness: what is evaluated is a term *derived by the static analysis* (a path condition, a lane
value), never GLM code.  Any operator without an exact model raises NoValue, in which case no witness is claimed."""
import math
import struct
from . import term as tm


class NoValue(Exception):
    pass


def f2b(w, x):
    if w == 32:
        try:
            return struct.unpack('<I', struct.pack('<f', x))[0]
        except OverflowError:
            return 0x7f800000 if x > 0 else 0xff800000
    return struct.unpack('<Q', struct.pack('<d', x))[0]


def b2f(w, b):
    if w == 32:
        return struct.unpack('<f', struct.pack('<I', b & 0xffffffff))[0]
    return struct.unpack('<d', struct.pack('<Q', b & 0xffffffffffffffff))[0]


def _s(v, w):
    return v - (1 << w) if (v >> (w - 1)) & 1 else v


def _m(v, w):
    return v & ((1 << w) - 1)


def _round32(w, x):
    """result of a binary64 computation rounded to the width of the term"""
    return f2b(w, x)


_LIBM1 = {'floor': math.floor, 'ceil': math.ceil, 'trunc': math.trunc}


_APPROX = {'sin': (1, math.sin), 'cos': (1, math.cos), 'tan': (1, math.tan), 'asin': (1, math.asin), 'acos': (1, math.acos), 'atan': (1, math.atan), 'atan2': (2, math.atan2),
           'exp': (1, math.exp), 'log': (1, math.log), 'exp2': (1, lambda x: 2.0 ** x), 'log2': (1, math.log2), 'pow': (2, math.pow), 'sinh': (1, math.sinh), 'cosh': (1, math.cosh), 'tanh': (1, math.tanh),
           'asinh': (1, math.asinh), 'acosh': (1, math.acosh), 'atanh': (1, math.atanh)}


class Eval:
    def __init__(self, env, approx=False):
        """env: {input term: bit pattern (int)}"""
        self.env = env
        self.memo = {}
        self.approx = approx

    def v(self, t):
        r = self.memo.get(t)
        if r is None:
            r = self.memo[t] = self._v(t)
        return r

    def _v(self, t):
        op, w, a = t.op, t.w, t.args
        if op == 'const':
            return a[0]
        if op == 'in':
            if t not in self.env:
                raise NoValue('unbound input')
            return _m(self.env[t], w)
        if op == 'slice':
            return _m(self.v(a[0]) >> a[1], w)
        if op == 'concat':
            r, pos = 0, 0
            for p in a:
                r |= self.v(p) << pos
                pos += p.w
            return r
        if op in ('add', 'sub', 'mul'):
            x, y = self.v(a[0]), self.v(a[1])
            return _m(x + y if op == 'add' else x - y if op == 'sub' else x * y, w)
        if op in ('and', 'or', 'xor'):
            x, y = self.v(a[0]), self.v(a[1])
            return x & y if op == 'and' else x | y if op == 'or' else x ^ y
        if op == 'not':
            return _m(~self.v(a[0]), w)
        if op in ('shl', 'lshr', 'ashr'):
            x, k = self.v(a[0]), self.v(a[1])
            if k >= w:
                raise NoValue('shift by the width or more (poison)')
            if op == 'shl':
                return _m(x << k, w)
            if op == 'lshr':
                return x >> k
            return _m(_s(x, w) >> k, w)
        if op == 'zext':
            return self.v(a[0])
        if op == 'sext':
            return _m(_s(self.v(a[0]), a[0].w), w)
        if op == 'sextbits':
            x = self.v(a[0])
            return ((1 << w) - 1) if (x >> (a[0].w - 1)) & 1 else 0
        if op == 'iabs':
            x = _s(self.v(a[0]), w)
            return _m(abs(x), w)
        if op == 'ctpop':
            return bin(self.v(a[0])).count('1')
        if op in ('smin', 'smax', 'umin', 'umax'):
            x, y = self.v(a[0]), self.v(a[1])
            if op[0] == 's':
                x, y = _s(x, w), _s(y, w)
            return _m(min(x, y) if op.endswith('min') else max(x, y), w)
        if op in ('udiv', 'urem', 'sdiv', 'srem'):
            x, y = self.v(a[0]), self.v(a[1])
            if y == 0:
                raise NoValue('division by zero')
            if op == 'udiv':
                return x // y
            if op == 'urem':
                return x % y
            sx, sy = _s(x, w), _s(y, w)
            q = abs(sx) // abs(sy) * (1 if (sx < 0) == (sy < 0) else -1)
            if op == 'sdiv':
                if q >= 1 << (w - 1):
                    raise NoValue('sdiv overflow')
                return _m(q, w)
            return _m(sx - q * sy, w)
        if op == 'icmp':
            pred, x, y = a[0], self.v(a[1]), self.v(a[2])
            ww = a[1].w
            if pred[0] == 's':
                x, y = _s(x, ww), _s(y, ww)
            p = pred[-2:]
            return int({'eq': x == y, 'ne': x != y, 'lt': x < y, 'le': x <= y, 'gt': x > y, 'ge': x >= y}[p])
        if op == 'overflow':
            kind, x, y = a[0], self.v(a[1]), self.v(a[2])
            ww = a[1].w
            if kind[0] == 's':
                x, y = _s(x, ww), _s(y, ww)
                r = x + y if kind == 'sadd' else x - y if kind == 'ssub' else x * y
                return int(not (-(1 << (ww - 1)) <= r < (1 << (ww - 1))))
            r = x + y if kind == 'uadd' else x - y if kind == 'usub' else x * y
            return int(not (0 <= r < (1 << ww)))
        if op == 'select':
            return self.v(a[1]) if self.v(a[0]) else self.v(a[2])
        if op == 'fcmp':
            pred, x, y = a[0], b2f(a[1].w, self.v(a[1])), b2f(a[2].w, self.v(a[2]))
            un = x != x or y != y
            if pred == 'ord':
                return int(not un)
            if pred == 'uno':
                return int(un)
            if un:
                return int(pred[0] == 'u')
            p = pred[1:]
            return int({'eq': x == y, 'ne': x != y, 'lt': x < y, 'le': x <= y, 'gt': x > y, 'ge': x >= y}[p])
        if op in ('fadd', 'fsub', 'fmul', 'fdiv'):
            x, y = b2f(w, self.v(a[0])), b2f(w, self.v(a[1]))
            try:
                if op == 'fadd':
                    r = x + y
                elif op == 'fsub':
                    r = x - y
                elif op == 'fmul':
                    r = x * y
                else:
                    if y == 0:
                        raise NoValue('float division by zero')
                    r = x / y
            except OverflowError:
                raise NoValue('overflow')
            return f2b(w, r)
        if op == 'frem':
            x, y = b2f(w, self.v(a[0])), b2f(w, self.v(a[1]))
            if y == 0 or x != x or y != y or x in (math.inf, -math.inf):
                raise NoValue('fmod outside its domain')
            return f2b(w, math.fmod(x, y))
        if op == 'fneg':
            return self.v(a[0]) ^ (1 << (w - 1))
        if op == 'fabs':
            return self.v(a[0]) & ((1 << (w - 1)) - 1)
        if op == 'sqrt':
            x = b2f(w, self.v(a[0]))
            if x < 0 or x != x:
                raise NoValue('sqrt of a negative number')
            return f2b(w, math.sqrt(x)) if w == 64 else f2b(32, math.sqrt(x))
        if op == 'fn':
            name = a[0]
            if name in ('floor', 'ceil', 'trunc', 'round', 'rint', 'nearbyint', 'roundeven') and len(a) == 2:
                x = b2f(w, self.v(a[1]))
                if x != x or x in (math.inf, -math.inf):
                    return self.v(a[1])
                if name == 'round':
                    ax = abs(x)
                    if ax < 2 ** 52:
                        r = float(math.floor(ax))
                        if ax - r >= 0.5:          # exact: both are multiples of the same power of two
                            r += 1.0
                    else:
                        r = ax
                    r = math.copysign(r, x)
                elif name in ('rint', 'nearbyint', 'roundeven'):
                    r = float(round(x)) if abs(x) < 2 ** 52 else x
                else:
                    r = float(_LIBM1[name](x)) if abs(x) < 2 ** 62 else x
                if r == 0:
                    r = math.copysign(0.0, x)      # a zero result keeps the sign of the argument (floor(-0.0), ceil(-0.3), trunc(-0.3), rint(-0.3) are -0.0)
                return f2b(w, float(r))
            if name in ('nextafter', 'nextafterf') and len(a) == 3 and a[1].w == w and a[2].w == w:
                # IEEE next-after on the bit patterns: towards y by one representable value
                bx, by = self.v(a[1]), self.v(a[2])
                x, y = b2f(w, bx), b2f(w, by)
                if x != x or y != y:
                    raise NoValue('nextafter of NaN')
                if x == y:
                    return by
                sign = 1 << (w - 1)
                if x == 0:
                    return (sign if y < 0 else 0) | 1
                up = (y > x) == (x > 0)            # magnitude grows when moving away from zero
                return bx + 1 if up else bx - 1
            if getattr(self, 'approx', False) and name in _APPROX and len(a) - 1 == _APPROX[name][0] and all(x.w == w for x in a[1:]):
                # approximate mode (gross witnesses only: the caller compares with a tolerance orders of magnitude above an ulp): the host libm stands in for the target's
                try:
                    return f2b(w, _APPROX[name][1](*[b2f(w, self.v(x)) for x in a[1:]]))
                except (ValueError, OverflowError, ZeroDivisionError):
                    raise NoValue('function %s outside its domain' % name)
            raise NoValue('function ' + str(name))
        if op in ('x86.cvttps2dq', 'x86.cvtps2dq'):
            # CVTTPS2DQ / CVTPS2DQ (Intel SDM): truncation / round-to-nearest-even (default MXCSR); NaN and values outside the int32 range give the integer indefinite 0x80000000
            x = b2f(32, self.v(a[0]))
            if x != x or x in (math.inf, -math.inf):
                return 0x80000000
            r = math.trunc(x) if op == 'x86.cvttps2dq' else round(x)
            if not -(1 << 31) <= r <= (1 << 31) - 1:
                return 0x80000000
            return _m(r, 32)
        if op in ('fptosi', 'fptoui'):
            x = b2f(a[0].w, self.v(a[0]))
            if x != x or x in (math.inf, -math.inf):
                raise NoValue('conversion of a non-finite value (poison)')
            r = math.trunc(x)
            lo, hi = (-(1 << (w - 1)), (1 << (w - 1)) - 1) if op == 'fptosi' else (0, (1 << w) - 1)
            if not lo <= r <= hi:
                raise NoValue('conversion out of range (poison)')
            return _m(r, w)
        if op in ('sitofp', 'uitofp'):
            x = self.v(a[0])
            if op == 'sitofp':
                x = _s(x, a[0].w)
            return f2b(w, float(x))
        if op == 'fpext':
            return f2b(w, b2f(a[0].w, self.v(a[0])))
        if op == 'fptrunc':
            return f2b(w, b2f(a[0].w, self.v(a[0])))
        raise NoValue('operator ' + op)


def evaluate(t, env, approx=False):
    """exact value of the term (bit pattern); approx=True additionally evaluates the transcendental functions with the host libm - for witnesses judged with a tolerance only"""
    return Eval(env, approx).v(t)
