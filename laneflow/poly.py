"""P domain: polynomial / rational normal form over opaque atoms.

fpoly(t)  reads a float-typed term as an element of Q[atoms]  (fadd/fsub/fmul/fneg exact, fdiv a b = a*inv(b),
          fma(a,b,c) = a*b+c, constants as the exact rational of their bit pattern)
ipoly(t,w) reads an integer term as an element of (Z/2^w)[atoms]

Atoms are hash-consed keys; the arguments of an opaque float function are themselves normal forms, so
sqrt(a*a+b*b) and sqrt(b*b+a*a) are the same atom.  Equality of normal forms proves equality as
real (resp. modular) functions of the atoms.
"""
from fractions import Fraction
from . import term as tm
from .term import T

_ATOM = {}
_ATOM_REV = []


def atom_id(key):
    i = _ATOM.get(key)
    if i is None:
        i = _ATOM[key] = len(_ATOM_REV)
        _ATOM_REV.append(key)
    return i


def atom_key(i):
    return _ATOM_REV[i]


class Poly:
    """dict monomial(tuple of sorted atom ids) -> coefficient (Fraction or int)"""
    __slots__ = ('t', 'mod', '_k')

    def __init__(self, t=None, mod=None):
        self.t = t if t is not None else {}
        self.mod = mod
        self._k = None

    @staticmethod
    def const(c, mod=None):
        if mod is not None:
            c %= mod
        return Poly({(): c} if c != 0 else {}, mod)

    @staticmethod
    def atom(key, mod=None):
        return Poly({(atom_id(key),): 1 if mod else Fraction(1)}, mod)

    @staticmethod
    def var(i, mod=None):
        return Poly({(i,): 1 if mod else Fraction(1)}, mod)

    def _norm(self, v):
        if self.mod is not None:
            return v % self.mod
        return v

    def __add__(a, b):
        r = dict(a.t)
        for m, c in b.t.items():
            v = a._norm(r.get(m, 0) + c)
            if v == 0:
                r.pop(m, None)
            else:
                r[m] = v
        return Poly(r, a.mod)

    def __neg__(a):
        return Poly({m: a._norm(-c) for m, c in a.t.items()}, a.mod)

    def __sub__(a, b):
        return a + (-b)

    def __mul__(a, b):
        if len(a.t) * len(b.t) > 4_000_000:
            raise TooBig()
        r = {}
        for m1, c1 in a.t.items():
            for m2, c2 in b.t.items():
                m = tuple(sorted(m1 + m2)) if m1 and m2 else (m1 or m2)
                v = a._norm(r.get(m, 0) + c1 * c2)
                if v == 0:
                    r.pop(m, None)
                else:
                    r[m] = v
        return Poly(r, a.mod)

    def scale(a, c):
        if c == 0:
            return Poly({}, a.mod)
        return Poly({m: v for m, v in ((m, a._norm(x * c)) for m, x in a.t.items()) if v != 0}, a.mod)

    def key(self):
        if self._k is None:
            self._k = (self.mod, tuple(sorted(self.t.items())))
        return self._k

    def __eq__(a, b):
        return a.t == b.t

    def __ne__(a, b):
        return a.t != b.t

    def __hash__(self):
        return hash(self.key())

    def is_zero(self):
        return not self.t

    def is_const(self):
        return all(m == () for m in self.t)

    def cval(self):
        return self.t.get((), 0)

    def atoms(self):
        s = set()
        for m in self.t:
            s.update(m)
        return s

    def degree_in(self, a):
        return max((m.count(a) for m in self.t), default=0)

    def subst(self, a, p):
        """replace atom a by polynomial p"""
        if a not in self.atoms():
            return self
        out = Poly({}, self.mod)
        pows = {0: Poly.const(1, self.mod)}
        for m, c in self.t.items():
            k = m.count(a)
            rest = tuple(x for x in m if x != a)
            if k not in pows:
                e = pows[max(j for j in pows if j <= k)]
                j = max(j for j in pows if j <= k)
                while j < k:
                    e = e * p
                    j += 1
                    pows[j] = e
            out = out + Poly({rest: c}, self.mod) * pows[k]
        return out

    def __repr__(self):
        return show_poly(self)


class TooBig(Exception):
    pass


def show_atom(i, depth=3):
    k = atom_key(i)
    if k[0] == 'in':
        off = k[2]
        return '%s[%d]' % (k[1], off // k[3]) if off % k[3] == 0 else '%s@%d' % (k[1], off)
    if k[0] == 'sym':
        return str(k[1])
    if depth <= 0:
        return k[0] + '(…)'
    args = []
    for a in k[1:]:
        if isinstance(a, tuple) and len(a) == 2 and a[0] == 'P':
            args.append(show_poly(a[1], depth - 1))
        elif isinstance(a, tuple) and len(a) == 2 and a[0] == 'T':
            args.append(tm.show(a[1], depth))
        else:
            args.append(str(a))
    return k[0] + '(' + ', '.join(args) + ')'


def show_poly(p, depth=3, limit=12):
    if not p.t:
        return '0'
    items = sorted(p.t.items())
    out = []
    for m, c in items[:limit]:
        ms = '*'.join(show_atom(a, depth) for a in m)
        if not ms:
            out.append(str(c))
        elif c == 1:
            out.append(ms)
        elif c == -1:
            out.append('-' + ms)
        else:
            out.append('%s*%s' % (c, ms))
    s = ' + '.join(out)
    if len(items) > limit:
        s += ' + …(%d terms)' % len(items)
    return s


# ---------------------------------------------------------------------------------------------
# term -> Poly

class PCtx:
    """conversion context; holds memo tables and the switchable axioms"""

    def __init__(self, fma_exact=True, lift_uitofp_bool=False):
        self.fmemo = {}
        self.imemo = {}
        self.fma_exact = fma_exact

    # keys for atom arguments
    def fkey(self, t):
        return ('P', self.fpoly(t))

    def tkey(self, t):
        return ('T', t)

    def fpoly(self, t):
        r = self.fmemo.get(t)
        if r is None:
            r = self.fmemo[t] = self._fpoly(t)
        return r

    def _fatom(self, *key):
        return Poly.atom(key)

    def _fpoly(self, t):
        op = t.op
        if op == 'const':
            return Poly.const(_frac_of_bits(t))
        if op == 'in':
            return Poly.atom(('in', t.args[0], t.args[1], t.w))
        if op in ('fadd', 'fsub'):
            for a in t.args:
                if _is_rounding_magic(a):
                    # (x + 2^23) - 2^23 style code relies on rounding: the real-number reading is not valid
                    raise RoundingTrick()
            if op == 'fadd':
                return self.fpoly(t.args[0]) + self.fpoly(t.args[1])
            return self.fpoly(t.args[0]) - self.fpoly(t.args[1])
        if op == 'concat':
            from . import fclass
            r = fclass.sign_idiom(t)
            if r is not None:
                kind, x, _ = r
                if kind == 'fneg':
                    return -self.fpoly(x)
                fa = self._fatom('fabs', ('P', _signnorm(self.fpoly(x))))
                return fa if kind == 'fabs' else -fa
        if op == 'fmul':
            return self.fpoly(t.args[0]) * self.fpoly(t.args[1])
        if op == 'fneg':
            return -self.fpoly(t.args[0])
        if op == 'fma':
            return self.fpoly(t.args[0]) * self.fpoly(t.args[1]) + self.fpoly(t.args[2])
        if op == 'fdiv':
            a, b = self.fpoly(t.args[0]), self.fpoly(t.args[1])
            return a * self.inv(b)
        if op in ('fpext', 'fptrunc'):
            # value-preserving up to rounding; treated as identity in the real-number reading
            return self.fpoly(t.args[0])
        if op == 'sqrt':
            return self._fatom('sqrt', ('P', self.fpoly(t.args[0])))
        if op == 'fabs':
            return self._fatom('fabs', ('P', _signnorm(self.fpoly(t.args[0]))))
        if op == 'fn':
            return self._fatom('fn:' + t.args[0], *[('P', self.fpoly(a)) if isinstance(a, T) else a for a in t.args[1:]])
        if op == 'select':
            a, b = self.fpoly(t.args[1]), self.fpoly(t.args[2])
            if a == b:
                return a
            c = t.args[0]
            fa = self._abs_pattern(c, a, b)
            if fa is not None:
                return fa
            r = self.decide(t.args[0])
            if r is not None:
                return a if r else b
            if False and c.op == 'fcmp' and a == -b:
                # |x| written as a selection:  (0 <= x ? x : -x), (x < 0 ? -x : x) ...   (real-number reading)
                p1, p2 = self.fpoly(c.args[1]), self.fpoly(c.args[2])
                z = Poly()
                pr = c.args[0]
                if pr in ('ole', 'olt', 'ule', 'ult'):
                    if p1 == z and p2 == a or p2 == z and p1 == b:
                        return self._fatom('fabs', ('P', _signnorm(a)))
                    if p1 == z and p2 == b or p2 == z and p1 == a:
                        return -self._fatom('fabs', ('P', _signnorm(a)))
            return self._fatom('select', self.ckey(c), ('P', a), ('P', b))
        if op in ('minnum', 'maxnum'):
            ks = sorted([('P', self.fpoly(t.args[0])), ('P', self.fpoly(t.args[1]))], key=lambda k: k[1].key())
            return self._fatom(op, *ks)
        if op in ('sitofp', 'uitofp'):
            x = t.args[0]
            if x.op == 'const':
                return Poly.const(tm.sval(x) if op == 'sitofp' else tm.cval(x))
            if x.w == 1:
                r = self.decide(x)
                if r is not None:
                    return Poly.const((1 if op == 'uitofp' else -1) if r else 0)
            return self._fatom(op, ('T', x))
        # anything else (bit tricks on floats, calls ...) is an opaque atom keyed by the term
        return self._fatom('t', ('T', t))

    def decide(self, c):
        """hook: truth value of condition c if the context fixes it (DecisionCtx), else None"""
        return None

    def _abs_pattern(self, c, a, b):
        """|x| written as a selection:  (0 <= x ? x : -x), (x < 0 ? -x : x) ...   (real-number reading)"""
        if c.op != 'fcmp' or a != -b or a.is_zero():
            return None
        pr = c.args[0]
        if pr not in ('ole', 'olt', 'ule', 'ult'):
            return None
        try:
            p1, p2 = PCtx.fpoly(self, c.args[1]), PCtx.fpoly(self, c.args[2])
        except NeedAtom:
            return None
        z = Poly()
        if p1 == z and p2 == a or p2 == z and p1 == b:
            return self._fatom('fabs', ('P', _signnorm(a)))
        if p1 == z and p2 == b or p2 == z and p1 == a:
            return -self._fatom('fabs', ('P', _signnorm(a)))
        return None

    def inv(self, b):
        if b.is_const() and b.cval() != 0:
            return Poly.const(1 / Fraction(b.cval()))
        if len(b.t) == 1:
            # reciprocal of a monomial is the product of the reciprocals of its atoms: canonical and lets inv(inv(q)) -> q
            (m, c), = b.t.items()
            if len(m) > 1 or (len(m) == 1 and atom_key(m[0])[0] == 'inv'):
                r = Poly.const(1 / Fraction(c))
                for a in m:
                    k = atom_key(a)
                    if k[0] == 'inv':
                        r = r * k[1][1]
                    else:
                        r = r * self._fatom('inv', ('P', Poly({(a,): Fraction(1)})))
                return r
        # factor out the content so that inv(2*p) == (1/2) inv(p)
        if b.t:
            lead = b.t[min(b.t)]
            if lead != 1:
                b = b.scale(1 / Fraction(lead))
                return self._fatom('inv', ('P', b)).scale(1 / Fraction(lead))
        return self._fatom('inv', ('P', b))

    def ckey(self, c):
        """key of a boolean condition with float operands normalised"""
        if c.op == 'fcmp':
            return ('fcmp', c.args[0], ('P', self.fpoly(c.args[1])), ('P', self.fpoly(c.args[2])))
        if c.op in ('and', 'or', 'xor'):
            ks = sorted([self.ckey(c.args[0]), self.ckey(c.args[1])], key=repr)
            return (c.op,) + tuple(ks)
        return ('T', c)

    # integers mod 2^w
    def ipoly(self, t, w):
        k = (t, w)
        r = self.imemo.get(k)
        if r is None:
            r = self.imemo[k] = self._ipoly(t, w)
        return r

    def _ipoly(self, t, w):
        mod = 1 << w
        op = t.op
        if t.w < w:
            raise ValueError('ipoly width %d > term width %d' % (w, t.w))
        if op == 'const':
            return Poly.const(t.args[0], mod)
        if op in ('add', 'sub', 'mul'):
            a, b = self.ipoly(t.args[0], w), self.ipoly(t.args[1], w)
            return a + b if op == 'add' else a - b if op == 'sub' else a * b
        if op == 'concat':
            lowp = t.args[0]
            if lowp.w >= w:
                return self.ipoly(lowp, w)
            # value = sum part_i * 2^pos_i  (parts are disjoint bit ranges)
            acc = Poly({}, mod)
            pos = 0
            for p in t.args:
                if pos >= w:
                    break
                pw = min(p.w, w - pos)
                if not (p.op == 'const' and p.args[0] == 0):
                    acc = acc + self._zatom(p, pw, mod).scale(1 << pos)
                pos += p.w
            return acc
        if op == 'sext' and t.args[0].w >= w:
            return self.ipoly(t.args[0], w)
        if op == 'slice' and t.args[1] == 0:
            return self.ipoly(t.args[0], w) if t.args[0].op in ('add', 'sub', 'mul') else self._zatom(t, w, mod)
        if op == 'in':
            return self._zatom(t, w, mod)
        if op == 'select':
            a, b = self.ipoly(t.args[1], w), self.ipoly(t.args[2], w)
            if a == b:
                return a
            return Poly.atom(('iselect', ('T', t.args[0]), ('P', a), ('P', b)), mod)
        if op == 'not':
            # ~x = -x - 1
            return -self.ipoly(t.args[0], w) - Poly.const(1, mod)
        return self._zatom(t, w, mod)

    def _zatom(self, t, w, mod):
        """the unsigned value of the low w bits of t as an atom (or polynomial for ring terms)"""
        if t.w > w:
            t = tm.slice_(t, 0, w)
        if t.op == 'const':
            return Poly.const(t.args[0], mod)
        if t.op in ('add', 'sub', 'mul') and t.w == w:
            return self.ipoly(t, w)
        if t.op == 'in':
            return Poly.atom(('in', t.args[0], t.args[1], t.w), mod)
        return Poly.atom(('z', ('T', t)), mod)


def _signnorm(p):
    """|p| == |-p|: normalise the sign of the leading coefficient"""
    if p.t and p.t[min(p.t)] < 0:
        return -p
    return p


def _frac_of_bits(t):
    x = tm.fval(t)
    if x != x or x in (float('inf'), float('-inf')):
        raise NonFinite()
    return Fraction(x)


class NonFinite(Exception):
    pass


class RoundingTrick(NonFinite):
    pass


def _is_rounding_magic(c):
    if c.op == 'concat' and len(c.args) == 2 and c.args[0].op == 'const' and c.args[0].w == c.w - 1 and c.w in (32, 64):
        # copysign(2^23, x): magnitude bits constant, sign bit variable
        c = tm.const(c.w, c.args[0].args[0])
    if c.op != 'const':
        return False
    try:
        x = abs(tm.fval(c))
    except Exception:
        return False
    if x != x or x == float('inf'):
        return False
    return (c.w == 32 and x >= 2.0 ** 23 and x <= 2.0 ** 25) or (c.w == 64 and x >= 2.0 ** 52 and x <= 2.0 ** 54)


# ---------------------------------------------------------------------------------------------
# axioms as rewrites on normal forms

def atoms_of_kind(p, kind):
    return [a for a in p.atoms() if atom_key(a)[0] == kind]


def reduce_inv(p, max_rounds=50):
    """apply inv(q)*q -> 1 wherever the cofactor of inv(q) is divisible by q (exact polynomial division)"""
    for _ in range(max_rounds):
        changed = False
        for a in atoms_of_kind(p, 'inv'):
            q = atom_key(a)[1][1]
            # split p = a*C + R  with a not in R (first power only)
            C = Poly({}, p.mod)
            R = Poly({}, p.mod)
            for m, c in p.t.items():
                if a in m:
                    mm = list(m)
                    mm.remove(a)
                    C.t[tuple(mm)] = C.t.get(tuple(mm), 0) + c
                else:
                    R.t[m] = c
            C.t = {m: c for m, c in C.t.items() if c != 0}
            quo, rem = divmod_poly(C, q)
            if not quo.is_zero():
                # p = a*(quo*q + rem) + R = quo + a*rem + R
                p = quo + Poly({(a,): Fraction(1)}) * rem + R
                changed = True
                break
        if not changed:
            return p
    return p


def _lead(p, order):
    return max(p.t, key=order)


def divmod_poly(n, d):
    """multivariate division of n by d (single divisor, graded-lex order on atom ids); n = q*d + r"""
    if d.is_zero():
        raise ZeroDivisionError
    def order(m):
        return (len(m), m)
    ld = _lead(d, order)
    cd = d.t[ld]
    q = Poly({}, n.mod)
    r = Poly({}, n.mod)
    work = Poly(dict(n.t), n.mod)
    guard = 0
    while work.t:
        guard += 1
        if guard > 200000:
            raise TooBig()
        lm = _lead(work, order)
        c = work.t[lm]
        # is lm divisible by ld ?
        rest = list(lm)
        ok = True
        for a in ld:
            if a in rest:
                rest.remove(a)
            else:
                ok = False
                break
        if ok:
            f = Poly({tuple(rest): Fraction(c) / cd}, n.mod)
            q = q + f
            work = work - f * d
        else:
            r.t[lm] = c
            del work.t[lm]
    return q, r


def reduce_sqrt(p):
    """sqrt(q)^2 -> q"""
    for a in atoms_of_kind(p, 'sqrt'):
        q = atom_key(a)[1][1]
        while p.degree_in(a) >= 2:
            out = Poly({}, p.mod)
            for m, c in p.t.items():
                k = m.count(a)
                if k >= 2:
                    rest = [x for x in m if x != a] + [a] * (k - 2)
                    out = out + Poly({tuple(sorted(rest)): c}, p.mod) * q
                else:
                    out = out + Poly({m: c}, p.mod)
            p = out
    return p


def reduce_ideal(p, a, repl, deg=2):
    """a^deg -> repl (repl must not contain a to a power >= deg)"""
    while p.degree_in(a) >= deg:
        out = Poly({}, p.mod)
        for m, c in p.t.items():
            k = m.count(a)
            if k >= deg:
                rest = [x for x in m if x != a] + [a] * (k - deg)
                out = out + Poly({tuple(sorted(rest)): c}, p.mod) * repl
            else:
                out = out + Poly({m: c}, p.mod)
        p = out
    return p


# ---------------------------------------------------------------------------------------------
# decision tables: compare two terms that contain selections by evaluating them under every valuation of the
# order relation (lt / eq / gt / unordered) of each distinct pair of compared operands.
# PROVED is sound because agreement under all valuations, feasible or not, is agreement.  REFUTED is only reported
# when the disagreement is pinned to one relation of a single operand pair (all relations of the other pairs
# disagree as well) and that relation is not excluded by sign-definiteness of the operand difference.

RELS = ('lt', 'eq', 'gt', 'uno')
_SAT = {'eq': {'eq'}, 'ne': {'lt', 'gt'}, 'lt': {'lt'}, 'le': {'lt', 'eq'}, 'gt': {'gt'}, 'ge': {'gt', 'eq'}}


class NeedAtom(Exception):
    def __init__(self, key, info=None):
        self.key = key
        self.info = info


class DecisionCtx(PCtx):
    def __init__(self, assign):
        super().__init__()
        self.assign = assign

    def _ieval(self, t):
        """value of an integer term built from constants and selections whose conditions this context decides; None otherwise
        (NeedAtom propagates so that the missing decision gets enumerated)"""
        if t.op == 'const':
            return t.args[0]
        if t.op == 'select':
            return self._ieval(t.args[1] if self.decide(t.args[0]) else t.args[2])
        if t.op == 'zext':
            return self._ieval(t.args[0])
        if t.op == 'concat':
            v, sh = 0, 0
            for part in t.args:
                pv = self._ieval(part)
                if pv is None:
                    return None
                v |= pv << sh
                sh += part.w
            return v
        if t.w == 1 and t.op in ('fcmp', 'icmp', 'not', 'and', 'or', 'xor'):
            return 1 if self.decide(t) else 0
        return None

    def decide(self, c):
        if c.op == 'const':
            return bool(c.args[0])
        if c.op == 'fcmp':
            pred = c.args[0]
            a, b = self.fpoly(c.args[1]), self.fpoly(c.args[2])
            if a.is_const() and b.is_const():
                x, y = a.cval(), b.cval()
                rel = 'lt' if x < y else 'gt' if x > y else 'eq'
                if pred == 'ord':
                    return True
                if pred == 'uno':
                    return False
                return rel in _SAT[pred[1:]]
            flip = b.key() < a.key()
            if flip:
                a, b = b, a
            k = ('pair', a.key(), b.key())
            if k not in self.assign:
                raise NeedAtom(k, (a, b))
            rel = self.assign[k]
            if flip:
                rel = {'lt': 'gt', 'gt': 'lt'}.get(rel, rel)
            if rel == 'uno':
                return pred[0] == 'u'
            if pred == 'ord':
                return True
            if pred == 'uno':
                return False
            return rel in _SAT[pred[1:]]
        if c.op == 'not':
            return not self.decide(c.args[0])
        if c.op == 'icmp':
            # integer flags that are selections of constants under decidable conditions (branch indices, switch selectors)
            x, y = self._ieval(c.args[1]), self._ieval(c.args[2])
            if x is not None and y is not None:
                w_ = c.args[1].w
                sx = x - (1 << w_) if x >> (w_ - 1) else x
                sy = y - (1 << w_) if y >> (w_ - 1) else y
                return {'eq': x == y, 'ne': x != y, 'ult': x < y, 'ule': x <= y, 'ugt': x > y, 'uge': x >= y,
                        'slt': sx < sy, 'sle': sx <= sy, 'sgt': sx > sy, 'sge': sx >= sy}[c.args[0]]
        if c.op in ('and', 'or') and c.w == 1:
            # three-valued evaluation: an operand that is already decided and fixes the result spares the comparisons of the other one
            # (a path is only forked on a comparison the result really depends on)
            need = None
            vals = []
            for a_ in c.args[:2]:
                try:
                    vals.append(self.decide(a_))
                except NeedAtom as e:
                    vals.append(None)
                    need = need or e
            absorbing = (c.op == 'or')
            if any(v is absorbing for v in vals):
                return absorbing
            if need is not None:
                raise need
            return not absorbing
        if c.op == 'xor' and c.w == 1:
            x, y = self.decide(c.args[0]), self.decide(c.args[1])
            return x != y
        if c.op == 'select' and c.w == 1:
            return self.decide(c.args[1]) if self.decide(c.args[0]) else self.decide(c.args[2])
        k = ('T', c.id)
        if k not in self.assign:
            raise NeedAtom(k)
        return self.assign[k]


class NormCtx(DecisionCtx):
    """decision context that normalises every intermediate polynomial with `norm` (e.g. reduction modulo the ideal of the
    assumed relations between the inputs) and lets `atom_hook(kind, arg_poly)` rewrite sqrt / fabs atoms at creation time
    (perfect squares, signs fixed by the regime).  Keeps intermediate results small when inputs satisfy algebraic relations."""

    def __init__(self, assign, norm, atom_hook=None):
        super().__init__(assign)
        self.norm = norm
        self.atom_hook = atom_hook

    def fpoly(self, t):
        r = self.fmemo.get(t)
        if r is None:
            r = self.fmemo[t] = self.norm(reduce_inv(self._fpoly(t)))
        return r

    def _fatom(self, *key):
        if self.atom_hook is not None and key[0] in ('sqrt', 'fabs') and len(key) == 2 and key[1][0] == 'P':
            r = self.atom_hook(key[0], key[1][1], self)
            if r is not None:
                return r
        return Poly.atom(key)


class TooManyPaths(Exception):
    pass


def decision_paths(make_ctx, evaluate, rels=('lt', 'gt'), max_leaves=3000):
    """depth-first exploration of the decision tree of a computation: `evaluate(ctx)` is run under a growing assignment of
    order relations / booleans; whenever it needs an undecided comparison the path forks.  Returns the leaves
    [(assignment {atom: value} in decision order, infos {atom: (poly, poly)}, value, ctx)]."""
    leaves = []

    def rec(assign, infos):
        cx = make_ctx(assign)
        try:
            val = evaluate(cx)
        except NeedAtom as e:
            for v in (rels if e.key[0] == 'pair' else (False, True)):
                a2 = dict(assign)
                a2[e.key] = v
                i2 = dict(infos)
                i2[e.key] = e.info
                rec(a2, i2)
            return
        leaves.append((assign, infos, val, cx))
        if len(leaves) > max_leaves:
            raise TooManyPaths()
    rec({}, {})
    return leaves


def _definite(p):
    """is the polynomial sign-definite (never zero) by inspection: even powers only, one sign, non-zero constant?"""
    if not p.t or () not in p.t:
        return False
    sg = p.t[()] > 0
    for m, c in p.t.items():
        if (c > 0) != sg:
            return False
        for a in set(m):
            if m.count(a) % 2:
                return False
    return True


def _feasible(atoms, vals, infos):
    """comparisons of one expression against several constants must be consistent on the real line"""
    cons = {}
    nonneg = set()

    def note(px):
        if len(px.t) == 1:
            (m, cf), = px.t.items()
            if cf > 0 and m and all(atom_key(a)[0] in ('fabs', 'sqrt') or m.count(a) % 2 == 0 for a in set(m)):
                nonneg.add(px.key())
    for at, v in zip(atoms, vals):
        if at[0] != 'pair':
            continue
        pa, pb = infos[at]
        if pb.is_const() and not pa.is_const():
            cons.setdefault(pa.key(), []).append((v, pb.cval()))
            note(pa)
        elif pa.is_const() and not pb.is_const():
            cons.setdefault(pb.key(), []).append(({'lt': 'gt', 'gt': 'lt'}.get(v, v), pa.cval()))
            note(pb)
    for k, cs in cons.items():
        if any(r == 'uno' for r, c in cs):
            if not all(r == 'uno' for r, c in cs):
                return False
            continue
        lo, lo_strict, hi, hi_strict = None, False, None, False
        if k in nonneg:
            lo = 0                      # |q|, sqrt(q) and products of them with a positive coefficient are >= 0
        for r, c in cs:
            if r in ('gt', 'eq'):
                if lo is None or c > lo or (c == lo and r == 'gt'):
                    lo, lo_strict = c, (r == 'gt')
            if r in ('lt', 'eq'):
                if hi is None or c < hi or (c == hi and r == 'lt'):
                    hi, hi_strict = c, (r == 'lt')
        if lo is not None and hi is not None:
            if lo > hi or (lo == hi and (lo_strict or hi_strict)):
                return False
    return True


def _mentions(key, x):
    """does atom id x occur inside the (nested) key of an atom?"""
    for part in key[1:]:
        if isinstance(part, tuple) and len(part) == 2 and part[0] == 'P':
            q = part[1]
            for a in q.atoms():
                if a == x or _mentions(atom_key(a), x):
                    return True
    return False


def _free_linear_var(e, also=()):
    """an input-lane atom x that occurs in e exactly to the first power and nowhere inside another atom of e (or of the
    polynomials in `also`): e = c*x + r with c, r free of x, so e takes every real value (both signs, and zero) as x varies
    wherever c != 0.  Returns (x, c, r) or None."""
    for x in sorted(e.atoms()):
        if atom_key(x)[0] != 'in' or e.degree_in(x) != 1:
            continue
        if any(_mentions(atom_key(a), x) for q in (e,) + tuple(also) for a in q.atoms() if a != x):
            continue
        c, r = Poly({}, e.mod), Poly({}, e.mod)
        for m, cf in e.t.items():
            if x in m:
                mm = list(m)
                mm.remove(x)
                c.t[tuple(mm)] = c.t.get(tuple(mm), 0) + cf
            else:
                r.t[m] = cf
        return x, c, r
    return None


def _unwrap_abs(e):
    """e == s * fabs(q) + c or s * sqrt(q) + c (s = +-1 up to a positive scale, c constant): (sign s, q, c / |scale|) else None"""
    c = e.t.get((), Fraction(0))
    rest = {m: cf for m, cf in e.t.items() if m != ()}
    if len(rest) != 1:
        return None
    (m, cf), = rest.items()
    if len(m) != 1:
        return None
    k = atom_key(m[0])
    if k[0] not in ('fabs', 'sqrt'):
        return None
    return (1 if cf > 0 else -1), k[1][1], Fraction(c) / abs(cf)


class CantEval(Exception):
    pass


def _isqrt_frac(x):
    """exact square root of a non-negative Fraction or None"""
    import math
    if x < 0:
        return None
    n, d = x.numerator, x.denominator
    rn, rd = math.isqrt(n), math.isqrt(d)
    if rn * rn == n and rd * rd == d:
        return Fraction(rn, rd)
    return None


def eval_atom(a, env):
    k = atom_key(a)
    if k[0] == 'in':
        if a not in env:
            raise CantEval('unbound lane')
        return env[a]
    if k[0] in ('inv', 'sqrt', 'fabs') and len(k) == 2 and isinstance(k[1], tuple) and k[1][0] == 'P':
        v = eval_poly(k[1][1], env)
        if k[0] == 'inv':
            if v == 0:
                raise CantEval('division by zero')
            return 1 / v
        if k[0] == 'fabs':
            return abs(v)
        r = _isqrt_frac(v)
        if r is None:
            raise CantEval('irrational square root')
        return r
    if k[0] in ('fn:sin', 'fn:cos') and len(k) == 2 and ('trig', k[1][1].key()) in env:
        c_, s_ = env[('trig', k[1][1].key())]
        return s_ if k[0] == 'fn:sin' else c_
    raise CantEval('no exact value for %s' % (k[0],))


def eval_poly(p, env):
    """exact rational value of a (real-arithmetic) normal form at a rational point; CantEval if some atom has no exact rational value there"""
    memo = {}
    tot = Fraction(0)
    for m, c in p.t.items():
        v = Fraction(c)
        for a in m:
            if a not in memo:
                memo[a] = eval_atom(a, env)
            v *= memo[a]
            if v == 0:
                break
        tot += v
    return tot


def lane_atoms(polys):
    out = set()
    stack = list(polys)
    seen = set()
    while stack:
        q = stack.pop()
        for a in q.atoms():
            if a in seen:
                continue
            seen.add(a)
            k = atom_key(a)
            if k[0] == 'in':
                out.add(a)
            else:
                for part in k[1:]:
                    if isinstance(part, tuple) and len(part) == 2 and part[0] == 'P':
                        stack.append(part[1])
    return out


_POOL = [Fraction(n, d) for d in (1, 2) for n in range(-4, 5) if d == 1 or n % 2]


def _trig_args(polys):
    """argument polynomials of the sin / cos atoms (nested ones included)"""
    out = {}
    stack = list(polys)
    seen = set()
    while stack:
        q = stack.pop()
        for a in q.atoms():
            if a in seen:
                continue
            seen.add(a)
            k = atom_key(a)
            if k[0] in ('fn:sin', 'fn:cos') and len(k) == 2:
                out[k[1][1].key()] = k[1][1]
            for part in k[1:]:
                if isinstance(part, tuple) and len(part) == 2 and part[0] == 'P':
                    stack.append(part[1])
    return out


def _sphere_point(rng, n):
    """a rational point of the unit sphere in n dimensions (inverse stereographic projection of a rational point)"""
    while True:
        t = [rng.choice(_POOL) for _ in range(n - 1)]
        r_ = rng.random()
        if r_ < 0.15:
            t = [Fraction(0)] * (n - 1)
        elif r_ < 0.45 and n > 2:
            # a point with only two non-zero coordinates (keeps square roots of 1 - c^2 rational)
            keep = rng.randrange(n - 1)
            t = [x if i == keep else Fraction(0) for i, x in enumerate(t)]
        s2 = sum(x * x for x in t)
        pt = [2 * x / (s2 + 1) for x in t] + [(s2 - 1) / (s2 + 1)]
        rng.shuffle(pt)
        return pt


def _solve_affine(eqs, cands, env, rng):
    """choose len(eqs) of the candidate variables in which the equations are jointly affine, and solve the linear system at the
    sampled values of everything else (exact rational Gaussian elimination); updates env; False if singular / not affine"""
    n = len(eqs)
    xs = rng.sample(cands, n)
    A = [[Fraction(0)] * n for _ in range(n)]
    b = [Fraction(0)] * n
    for i, q in enumerate(eqs):
        for m, c in q.t.items():
            inx = [x for x in xs if x in m]
            if len(inx) > 1 or any(m.count(x) > 1 for x in inx):
                return False
            v = Fraction(c)
            for a in m:
                if a not in xs:
                    v *= eval_atom(a, env)
            if inx:
                A[i][xs.index(inx[0])] += v
            else:
                b[i] -= v
    # Gaussian elimination
    for col in range(n):
        piv = next((r for r in range(col, n) if A[r][col] != 0), None)
        if piv is None:
            return False
        A[col], A[piv] = A[piv], A[col]
        b[col], b[piv] = b[piv], b[col]
        for r in range(n):
            if r != col and A[r][col] != 0:
                f = A[r][col] / A[col][col]
                A[r] = [x - f * y for x, y in zip(A[r], A[col])]
                b[r] -= f * b[col]
    for i, x in enumerate(xs):
        env[x] = b[i] / A[i][i]
    return True


def find_witness(rel, e, ds, tries=600, extra=(), spheres=()):
    """a rational point where  e rel 0  holds exactly and every polynomial of ds is non-zero (exact evaluation); None if none found.
    `extra`: further (rel, poly) constraints that must hold at the point.  `spheres`: tuples of lane atom ids constrained to the unit
    sphere (unit quaternions / unit vectors): sampled from rational points of the sphere.  sin / cos atoms whose arguments are distinct
    multiples of distinct single lanes are given rational points of the unit circle (independent angles)."""
    import random
    rng = random.Random(20240229)
    allp = [e] + list(ds) + [q for _, q in extra]
    vs = sorted(lane_atoms(allp) | {a for sp in spheres for a in sp})
    trig = _trig_args(allp)
    trig_lanes = set()
    for q in trig.values():
        # c * lane only, each lane used by one argument
        if len(q.t) != 1:
            return None
        (m, c), = q.t.items()
        if len(m) != 1 or atom_key(m[0])[0] != 'in' or m[0] in trig_lanes:
            return None
        trig_lanes.add(m[0])
    vs = [v for v in vs if v not in trig_lanes]      # an angle used outside sin / cos stays unbound: CantEval, no witness
    if not vs and not trig:
        return None
    onsphere = {a for sp in spheres for a in sp}
    top = [x for x in vs if x not in onsphere and x in e.atoms() and e.degree_in(x) in (1, 2) and not any(_mentions(atom_key(a), x) for a in e.atoms() if a != x)]

    def holds(r_, v):
        return (v < 0) if r_ == 'lt' else (v > 0) if r_ == 'gt' else (v == 0)
    eqs = ([e] if rel == 'eq' else []) + [q for r_, q in extra if r_ == 'eq']
    lin_cands = []
    if len(eqs) > 1:
        for x in vs:
            if x in onsphere:
                continue
            if all(q.degree_in(x) <= 1 and not any(_mentions(atom_key(a), x) for a in q.atoms() if a != x) for q in eqs) and any(q.degree_in(x) == 1 for q in eqs):
                lin_cands.append(x)
        if len(lin_cands) < len(eqs):
            return None
    for _ in range(tries):
        env = {v: rng.choice(_POOL) for v in vs}
        for sp in spheres:
            for a, val in zip(sp, _sphere_point(rng, len(sp))):
                env[a] = val
        for kq in trig:
            c_, s_ = _sphere_point(rng, 2)
            env[('trig', kq)] = (c_, s_)
        try:
            if len(eqs) > 1:
                if not _solve_affine(eqs, lin_cands, env, rng):
                    continue
            elif rel == 'eq' and top:
                x = rng.choice(top)
                # e = A x^2 + B x + C at the sampled values of the other variables
                A = B = C = Fraction(0)
                for m, c in e.t.items():
                    kx = m.count(x)
                    v = Fraction(c)
                    for a in m:
                        if a != x:
                            v *= eval_atom(a, env)
                    if kx == 2:
                        A += v
                    elif kx == 1:
                        B += v
                    else:
                        C += v
                if A == 0:
                    if B == 0:
                        continue
                    env[x] = -C / B
                else:
                    disc = _isqrt_frac(B * B - 4 * A * C)
                    if disc is None:
                        continue
                    env[x] = (-B + rng.choice((1, -1)) * disc) / (2 * A)
            if not holds(rel, eval_poly(e, env)):
                continue
            if not all(holds(r_, eval_poly(q, env)) for r_, q in extra):
                continue
            if all(eval_poly(d_, env) != 0 for d_ in ds):
                return env
        except CantEval:
            continue
    return None


def show_env(env):
    def nm(a):
        k = atom_key(a)
        return '%s[%d]' % (k[1], k[2] // k[3]) if k[3] else k[1]
    lanes = [(a, v) for a, v in env.items() if not isinstance(a, tuple)]
    out = ', '.join('%s=%s' % (nm(a), v) for a, v in sorted(lanes, key=lambda kv: atom_key(kv[0])[1:3]))
    tr = [(k, v) for k, v in env.items() if isinstance(k, tuple)]
    if tr:
        out += '; ' + ', '.join('(cos,sin)#%d=(%s,%s)' % (i, v[0], v[1]) for i, (k, v) in enumerate(tr))
    return out


def _relation_witness(rel, e, ds):
    """can the relation  e rel 0  (rel in lt/eq/gt) certainly be realised on a set where the non-zero transparent polynomials ds
    stay non-zero?  Returns None if not certain; otherwise a function mapping a polynomial to its restriction to that set
    (identity for the open relations, substitution x := solution for 'eq')."""
    u = _unwrap_abs(e)
    if u is not None:
        s, q, c = u                      # s*|q| + c  rel  0
        # value v = |q| ranges over [0, inf) provided q has a free linear variable
        fl = _free_linear_var(q, ds)
        if fl is None:
            return None
        # s*v + c < 0 , == 0 , > 0 for some v >= 0 ?
        thr = -c * s                     # s*v + c == 0  <=>  v == thr  (s = +-1)
        if rel == 'eq':
            if thr < 0:
                return None
            if thr != 0:
                return None              # |q| == positive constant: two branches, not handled
            x, cc, r = fl
            if not cc.is_const():
                return None
            sol = r.scale(-1 / Fraction(cc.cval()))
            return lambda p_: p_.subst(x, sol) if not any(_mentions(atom_key(a), x) for a in p_.atoms() if a != x) else None
        want_pos = (rel == 'gt')
        # s*v + c > 0: if s > 0 always reachable (large v); if s < 0 needs c > 0
        reach = (s > 0) if want_pos else (s < 0)
        if not reach:
            reach = (c > 0) if want_pos else (c < 0)
        return (lambda p_: p_) if reach else None
    fl = _free_linear_var(e, ds)
    if fl is None:
        return None
    x, cc, r = fl
    if rel == 'eq':
        if not cc.is_const():
            return None
        sol = r.scale(-1 / Fraction(cc.cval()))
        return lambda p_: p_.subst(x, sol) if not any(_mentions(atom_key(a), x) for a in p_.atoms() if a != x) else None
    return lambda p_: p_


def transparent(p, depth=0, free=None):
    """every atom is an input lane or a known real function (sqrt, inv, fabs, libm) of transparent arguments:
    different normal forms of transparent polynomials are different functions of the inputs.
    `free(key)`: additional atoms the caller vouches for as independent free values (e.g. the lanes of an opaque
    inverse whose argument ranges over all invertible matrices)"""
    if depth > 6:
        return False
    for a in p.atoms():
        k = atom_key(a)
        if k[0] == 'in':
            continue
        if free is not None and free(k):
            continue
        if k[0] in ('sqrt', 'inv', 'fabs') or k[0].startswith('fn:'):
            if all(isinstance(x, tuple) and len(x) == 2 and x[0] == 'P' and transparent(x[1], depth + 1, free) for x in k[1:]):
                continue
        return False
    return True


def decision_equal(t1, t2, max_atoms=6, post=None, nan=True):
    """True: equal under every valuation.  (False, description, poly1, poly2): separated by a single-pair relation.
    None: undecided (too many atoms, no normal form, or a separation that depends on several atoms)."""
    import itertools
    atoms = []
    infos = {}
    while True:
        need = None
        seps = []
        doms = [(RELS if nan else RELS[:3]) if a[0] == 'pair' else (False, True) for a in atoms]
        total = 0
        for vals in itertools.product(*doms):
            if not _feasible(atoms, vals, infos):
                continue
            total += 1
            ctx = DecisionCtx(dict(zip(atoms, vals)))
            try:
                a, b = ctx.fpoly(t1), ctx.fpoly(t2)
                if post:
                    a, b = post(a), post(b)
            except NeedAtom as e:
                need = e
                break
            except (NonFinite, TooBig):
                return None
            if a != b:
                # under an 'eq' relation of a pair (p, q) results that differ by a multiple of p - q are equal
                d = a - b
                for at, v in zip(atoms, vals):
                    if at[0] == 'pair' and v == 'eq' and not d.is_zero():
                        pa_, pb_ = infos[at]
                        e = pa_ - pb_
                        u_ = _unwrap_abs(e) if not e.is_zero() else None
                        es = [e] + ([u_[1]] if (u_ is not None and u_[2] == 0) else [])     # |q| == 0  =>  q == 0
                        for e_ in es:
                            if e_.is_zero() or d.is_zero():
                                continue
                            try:
                                _, rem = divmod_poly(d, e_)
                                d = rem
                            except (TooBig, ZeroDivisionError):
                                pass
                if not d.is_zero():
                    seps.append((vals, a, b))
        if need is not None:
            if len(atoms) >= max_atoms:
                return None
            atoms.append(need.key)
            infos[need.key] = need.info
            continue
        if not seps:
            return True
        # is the separation pinned to one relation of one pair ?
        for i, at in enumerate(atoms):
            if at[0] != 'pair':
                continue
            for rel in ('lt', 'eq', 'gt'):
                mine = [s_ for s_ in seps if s_[0][i] == rel]
                expected = sum(1 for vals in itertools.product(*doms) if vals[i] == rel and _feasible(atoms, vals, infos))
                if len(mine) == expected and mine:
                    pa, pb = infos[at]
                    if rel == 'eq' and _definite(pa - pb):
                        continue
                    ds = [x[1] - x[2] for x in mine]
                    if not all(transparent(d_) for d_ in ds) or not transparent(pa - pb):
                        continue
                    # the relation must certainly be realisable, and the results must still differ on the set where it holds
                    desc = '%s %s %s' % (show_poly(pa, limit=4), {'lt': '<', 'eq': '==', 'gt': '>'}[rel], show_poly(pb, limit=4))
                    restrict = _relation_witness(rel, pa - pb, ds)
                    if restrict is not None:
                        rs = [restrict(d_) for d_ in ds]
                        if not any(r_ is None or r_.is_zero() for r_ in rs):
                            return (False, desc, mine[0][1], mine[0][2])
                    # otherwise look for an explicit rational witness point (exact evaluation of the normal forms)
                    env = find_witness(rel, pa - pb, ds)
                    if env is not None:
                        return (False, desc + ' (e.g. at ' + show_env(env) + ')', mine[0][1], mine[0][2])
        # a separation that depends on several comparisons: look for an explicit rational point that realises one separated row
        # (every comparison of the row holds there exactly and the two results, evaluated exactly, differ)
        if atoms and all(at[0] == 'pair' for at in atoms):
            for vals, a, b in seps[:24]:
                if any(v == 'uno' for v in vals) or not transparent(a - b):
                    continue
                cons = [(v, infos[at][0] - infos[at][1]) for at, v in zip(atoms, vals)]
                if not all(transparent(e_) for _, e_ in cons):
                    continue
                eqs = [c_ for c_ in cons if c_[0] == 'eq']
                first = eqs[0] if eqs else cons[0]
                rest = [c_ for c_ in cons if c_ is not first]
                env = find_witness(first[0], first[1], [a - b], extra=rest, tries=300)
                if env is not None:
                    desc = ' and '.join('%s %s %s' % (show_poly(infos[at][0], limit=3), {'lt': '<', 'eq': '==', 'gt': '>'}[v], show_poly(infos[at][1], limit=3)) for at, v in zip(atoms, vals))
                    return (False, desc + ' (e.g. at ' + show_env(env) + ')', a, b)
        return None
