"""Boolean functions over comparison atoms with a feasibility oracle for witnesses.

`separate(t1, t2)` searches (Shannon expansion) a valuation of the atoms under which the two 1-bit terms differ and that is
*certainly realisable*: every atom assigned on the path is either a single input bit or an (in)equality between input
slices / constants, all slices on the path are pairwise identical or bit-disjoint, and the resulting system of equalities
and disequalities is satisfiable (union-find; widths >= 2 always leave room for distinct values).  Atoms that are not of
that kind (ordered integer compares of overlapping arithmetic, float compares) may be assigned only if their support is
bit-disjoint from everything else on the path and they are not constant-foldable, in which case both truth values are
assumed reachable only for the plain relational predicates of two free operands."""
from . import term as tm


def _support(t):
    out = set()
    stack = [t]
    seen = set()
    while stack:
        x = stack.pop()
        if not isinstance(x, tm.T) or x in seen:
            continue
        seen.add(x)
        if x.op == 'slice' and x.args[0].op == 'in':
            a = x.args[0]
            out.update((a.args[0], a.args[1] + x.args[1] + i) for i in range(x.w))
            continue
        if x.op == 'in':
            out.update((x.args[0], x.args[1] + i) for i in range(x.w))
            continue
        stack.extend(a for a in x.args if isinstance(a, tm.T))
    return frozenset(out)


def _is_sel(t):
    return t.op == 'in' or (t.op == 'slice' and t.args[0].op == 'in') or t.op == 'const'


def atoms_of(t):
    """decision atoms of a boolean term: input bits and compares"""
    out = []
    seen = set()
    stack = [t]
    while stack:
        x = stack.pop()
        if not isinstance(x, tm.T) or x in seen:
            continue
        seen.add(x)
        if x.w == 1 and x.op in ('icmp', 'fcmp'):
            out.append(x)
            continue
        if x.w == 1 and _is_sel(x) and x.op != 'const':
            out.append(x)
            continue
        stack.extend(a for a in x.args if isinstance(a, tm.T))
    return out


def assign(t, atom, val):
    m = {atom: tm.TRUE if val else tm.FALSE}
    n = tm.not_(atom)
    if n.op in ('icmp', 'fcmp'):
        m[n] = tm.FALSE if val else tm.TRUE
    return tm.substitute(t, m)


def feasible(path):
    """path: list of (atom, bool).  True only when the conjunction is certainly satisfiable."""
    sels = {}       # slice term -> support
    eqs, nes = [], []
    others = []
    for a, v in path:
        if a.op == 'icmp' and a.args[0] in ('eq', 'ne') and _is_sel(a.args[1]) and _is_sel(a.args[2]):
            x, y = a.args[1], a.args[2]
            if x.op == 'const' and y.op == 'const':
                return False
            same = (a.args[0] == 'eq') == v
            (eqs if same else nes).append((x, y))
            for z in (x, y):
                if z.op != 'const':
                    sels[z] = _support(z)
        elif _is_sel(a) and a.w == 1:
            sels[a] = _support(a)
            eqs.append((a, tm.const(1, 1 if v else 0)))
        else:
            others.append(a)
    # all selections pairwise identical or disjoint
    items = list(sels.items())
    for i in range(len(items)):
        for j in range(i + 1, len(items)):
            if items[i][1] & items[j][1]:
                return False
    # opaque atoms: must be disjoint from everything and of a kind whose both outcomes are reachable
    used = set()
    for s in sels.values():
        used |= s
    for a in others:
        sp = _support(a)
        if not sp or sp & used:
            return False
        used |= sp
        if a.op == 'icmp' and a.args[0] in ('ult', 'ule', 'slt', 'sle'):
            x, y = a.args[1], a.args[2]
            # both outcomes reachable when the two sides have disjoint, non-empty supports or one side is a non-extreme constant
            sx, sy = _support(x), _support(y)
            if sx and sy and not (sx & sy) and _is_sel(x) and _is_sel(y):
                continue
            return False
        return False
    # equality logic
    parent = {}

    def find(x):
        while parent.get(x, x) is not x:
            x = parent[x]
        return x
    for x, y in eqs:
        rx, ry = find(x), find(y)
        if rx is not ry:
            if rx.op == 'const' and ry.op == 'const':
                if rx.args[0] != ry.args[0]:
                    return False
            if rx.op == 'const':
                parent[ry] = rx
            else:
                parent[rx] = ry
    # two different constants in one class ?
    cls = {}
    for x in list(parent.keys()) + [p for e in eqs + nes for p in e]:
        r = find(x)
        if x.op == 'const':
            if r.op == 'const' and r.args[0] != x.args[0]:
                return False
    for x, y in nes:
        if find(x) is find(y):
            return False
        if x.w < 2 and y.w < 2:
            # 1-bit disequalities chain: keep it simple and bail out unless one side is a constant
            if x.op != 'const' and y.op != 'const':
                return False
    return True


def separate(t1, t2, budget=3000):
    """(path description) if a certainly-realisable valuation separates t1 and t2; True if they are equal under every
    valuation; None otherwise"""
    d = tm.xor(t1, t2)
    if d is tm.FALSE:
        return True
    n = [0]
    maybe = [False]

    def rec(x, path):
        n[0] += 1
        if n[0] > budget:
            maybe[0] = True
            return None
        if x.op == 'const':
            if x.args[0]:
                if feasible(path):
                    return path
                maybe[0] = True
            return None
        ats = atoms_of(x)
        if not ats:
            maybe[0] = True
            return None
        # prefer plain selections / equalities
        ats.sort(key=lambda a: (0 if _is_sel(a) else 1 if (a.op == 'icmp' and a.args[0] in ('eq', 'ne')) else 2, a.id))
        a = ats[0]
        for v in (True, False):
            r = rec(assign(x, a, v), path + [(a, v)])
            if r:
                return r
        return None
    r = rec(d, [])
    if r:
        return ', '.join('%s is %s' % (tm.show(a, 3), v) for a, v in r)
    return None if maybe[0] else True
