"""Check driver shared by all property rule modules: build kernels from /repo's working tree, run the cases
in a process pool, apply known findings and anti-vacuity floors, write evidence and replay files, exit code.

exit 0  every obligation PROVED/UNDECIDED, or REFUTED but listed in known_findings.jsonl
exit 1  some REFUTED obligation not listed                  (prints VIOLATION property=<id> replay=<path>)
exit 2  analysis broken: floors not met, canary not refuted, toolchain failure   (never a pass, never a violation)
"""
import os
import re
import sys
import json
import time
import shutil
import traceback
import multiprocessing as mp

from . import build as B
from . import interp as I
from . import term as tm

VERIF = B.VERIF
PROVED, REFUTED, UNDECIDED = 'PROVED', 'REFUTED', 'UNDECIDED'


def ob(oid, rule, status, detail='', where=None, kernel=None, extra=None):
    d = {'id': oid, 'rule': rule, 'status': status, 'detail': detail}
    if where:
        d['where'] = where
    if kernel:
        d['kernel'] = kernel
    if extra:
        d['extra'] = extra
    return d


class Case:
    def __init__(self, name, kernels, judge, canary=False):
        self.name = name
        self.kernels = kernels
        self.judge = judge
        self.canary = canary


class Ctx:
    """what a judge function sees"""

    def __init__(self, index, failures, x86=None, mem=None):
        self.index = index
        self.failures = failures
        self.x86 = x86
        self.mem = mem or {}
        self._cache = {}

    def compile_error(self, k):
        return self.failures.get((k.cfg.name, k.name))

    def fn(self, k):
        key = (k.cfg.name, k.name)
        if key in self._cache:
            r = self._cache[key]
            if isinstance(r, Exception):
                raise r
            return r
        if key in self.failures:
            e = I.Unsupported('does not compile: ' + self.failures[key])
            self._cache[key] = e
            raise e
        if key not in self.index:
            e = I.Unsupported('kernel missing from build output')
            self._cache[key] = e
            raise e
        fn = B.load_fn(self.index, *key)
        try:
            it = I.analyse(fn, k.argspec(), k.argsize(), x86=self.x86, cut_loops=bool(getattr(k.cfg, 'peel', 0)))
        except I.Unsupported as e:
            self._cache[key] = e
            raise
        it.kernel = k
        self._cache[key] = it
        return it

    def out(self, k, off, nbytes, base=None):
        it = self.fn(k)
        return I.out_lane(it, base or k.params[0][0], off, nbytes)


def where_of(it, t, limit=4):
    """source location chain (innermost first) of the instruction that produced term t, GLM frames only"""
    seen = set()
    for x in reversed(tm.walk(t)):
        d = it.dbg.get(x.id)
        if d:
            fr = ['%s:%d %s' % (os.path.relpath(f, B.REPO) if f.startswith(B.REPO) else f, ln, fnm) for f, ln, fnm in d
                  if 'glm/' in f or f.startswith('k_')]
            if fr:
                return fr[:limit]
    return None


_G = {}


def _run_case(i):
    case = _G['cases'][i]
    ctx = Ctx(_G['index'], _G['failures'], _G.get('x86'), _G.get('mem'))
    t0 = time.time()
    try:
        res = case.judge(ctx)
    except I.Unsupported as e:
        res = [ob(case.name, 'engine', UNDECIDED, 'unsupported: %s' % e)]
    except Exception as e:
        res = [ob(case.name, 'engine', UNDECIDED, 'engine error: %s\n%s' % (e, traceback.format_exc()[-1500:]), extra={'engine_error': True})]
    for r in res:
        r['case'] = case.name
        if case.canary:
            r['canary'] = True
    return res, time.time() - t0


def _run_part(idx):
    return [_run_case(i) for i in idx]


def load_known(prop):
    path = os.path.join(VERIF, 'known_findings.jsonl')
    out = []
    if os.path.exists(path):
        for line in open(path):
            line = line.strip()
            if not line or line.startswith('#') or line.startswith('fixed:'):
                continue
            d = json.loads(line)
            if d.get('property') == prop:
                out.append(d)
    return out


def run_check(prop, mod, tier, level, explanation, assumptions, trusted_base, x86=None, jobs=None, seed=0):
    t0 = time.time()
    work = os.path.join(VERIF, '_work', prop)
    shutil.rmtree(work, ignore_errors=True)
    os.makedirs(work)
    repdir = os.path.join(VERIF, 'replay', prop)
    shutil.rmtree(repdir, ignore_errors=True)
    os.makedirs(repdir, exist_ok=True)
    bin_ = os.path.join(VERIF, '_bin', 'irtool')
    if not os.path.exists(bin_):
        r = os.system(os.path.join(VERIF, 'tools', 'build.sh') + ' >/dev/null')
        if r != 0 or not os.path.exists(bin_):
            print('ANALYSIS-BROKEN property=%s irtool could not be built' % prop)
            return 2
    cases = mod.cases(tier)
    kernels = [k for c in cases for k in c.kernels]
    index, failures, broken, stats = B.build(kernels, work, jobs=jobs)
    t_build = time.time() - t0
    _G['cases'], _G['index'], _G['failures'], _G['x86'] = cases, index, failures, x86
    _G['mem'] = stats.get('mem', {})
    results = []
    nproc = jobs or os.cpu_count() or 4
    if len(cases) > 1 and nproc > 1:
        # Deterministic scheduling: the cases are dealt round-robin into a fixed number of partitions (independent of the core count) and every partition runs in
        # a freshly forked worker (maxtasksperchild=1).  The hash-consed term ids a case sees therefore depend only on the cases before it in its own partition,
        # never on which worker happened to be free: verdicts and decided counts are reproducible from run to run and from machine to machine.
        nparts = min(len(cases), 64)
        parts = [list(range(i, len(cases), nparts)) for i in range(nparts)]
        ctxm = mp.get_context('fork')
        by_index = {}
        with ctxm.Pool(min(nproc, nparts), maxtasksperchild=1) as pool:
            for part, outs in zip(parts, pool.imap(_run_part, parts, chunksize=1)):
                for i, (res, dt) in zip(part, outs):
                    by_index[i] = res
        for i in range(len(cases)):
            results.extend(by_index[i])
    else:
        for i in range(len(cases)):
            results.extend(_run_case(i)[0])

    if os.environ.get('VERIF_DUMP'):
        with open(os.environ['VERIF_DUMP'], 'w') as f:
            for r in results:
                f.write(json.dumps(r) + '\n')
    known = load_known(prop)
    floors = {}
    fp = os.path.join(VERIF, 'rules', 'expect.json')
    if os.path.exists(fp) and os.environ.get('VERIF_NO_FLOORS') != '1':
        floors = json.load(open(fp)).get(prop, {}).get(tier, {})

    per_rule = {}
    violations, knowns, canary_ok, canary_bad, engine_errors = [], {}, 0, [], []
    for r in results:
        if r.get('canary'):
            if r['status'] == REFUTED:
                canary_ok += 1
            else:
                canary_bad.append(r)
            continue
        pr = per_rule.setdefault(r['rule'], {PROVED: 0, REFUTED: 0, UNDECIDED: 0})
        pr[r['status']] += 1
        if r.get('extra', {}).get('engine_error'):
            engine_errors.append(r)
        if r['status'] == REFUTED:
            hit = None
            for kf in known:
                if kf.get('rule') in (None, r['rule']) and re.search(kf['match'], r['id']):
                    hit = kf
                    break
            if hit:
                knowns.setdefault(hit['match'], (hit, []))[1].append(r)
            else:
                violations.append(r)

    # replay artefacts
    kern_by_name = {}
    for c in cases:
        for k in c.kernels:
            kern_by_name[k.name] = k
    case_by_name = {c.name: c for c in cases}

    def write_replay(r, n):
        c = case_by_name.get(r['case'])
        path = os.path.join(repdir, '%03d_%s.json' % (n, re.sub(r'[^\w.-]', '_', r['id'])[:80]))
        d = {'property': prop, 'obligation': r, 'kernels': []}
        if c:
            for k in c.kernels:
                d['kernels'].append({'name': k.name, 'config': k.cfg.describe(), 'headers': list(k.cfg.headers),
                                     'source': k.source(), 'compile_error': failures.get((k.cfg.name, k.name))})
        d['how_to_rerun'] = './check %s --tier %s --only %s' % (prop, tier, r['case'])
        with open(path, 'w') as f:
            json.dump(d, f, indent=1)
        return path

    rc = 0
    for n, r in enumerate(violations):
        path = write_replay(r, n)
        print('VIOLATION property=%s replay=%s' % (prop, path))
        print('  rule=%s obligation=%s' % (r['rule'], r['id']))
        print('  ' + r['detail'].replace('\n', '\n  ')[:1200])
        if r.get('where'):
            print('  at ' + ' <- '.join(r['where']))
        rc = 1
    for m, (kf, rs) in knowns.items():
        print('KNOWN-FINDING: property=%s %s  [%d obligation(s), e.g. %s]' % (prop, kf['what'], len(rs), rs[0]['id']))
    stale = [kf for kf in known if kf['match'] not in knowns]
    for kf in stale:
        print('note: known finding no longer reproduced (not an error): %s' % kf['what'])

    brokenmsgs = []
    for cfgname, msg in broken:
        brokenmsgs.append('build of configuration %s failed: %s' % (cfgname, msg[:800]))
    # a rule module may pool its rules into floor groups (C20: the obligations are the sanitizer checks that survive in the code as it is written, so their number
    # per kind moves with every refactor; what must not shrink is the decided part of the whole corpus)
    fgroup = getattr(mod, 'FLOOR_GROUP', None)
    decided = {}
    for rule_, v_ in per_rule.items():
        g_ = fgroup(rule_) if fgroup else rule_
        decided[g_] = decided.get(g_, 0) + v_.get(PROVED, 0) + v_.get(REFUTED, 0)
    for rule, floor in floors.items():
        got = decided.get(rule, 0)
        if got < floor:
            brokenmsgs.append('rule %s decided %d obligations, below the confirmed floor %d' % (rule, got, floor))
    for r in canary_bad:
        brokenmsgs.append('canary %s was not refuted (%s: %s)' % (r['id'], r['status'], r['detail'][:200]))
    for r in engine_errors[:5]:
        brokenmsgs.append('engine error in %s: %s' % (r['id'], r['detail'][:400]))
    if brokenmsgs and rc == 0:
        rc = 2
    for mmsg in brokenmsgs:
        print('ANALYSIS-BROKEN property=%s %s' % (prop, mmsg))

    total = sum(sum(v.values()) for v in per_rule.values())
    proved = sum(v[PROVED] for v in per_rule.values())
    undec = sum(v[UNDECIDED] for v in per_rule.values())
    refuted = sum(v[REFUTED] for v in per_rule.values())
    samples = []
    seen_rules = set()
    for r in results:
        if r['status'] == PROVED and r['rule'] not in seen_rules and not r.get('canary'):
            seen_rules.add(r['rule'])
            samples.append({'obligation': r['id'], 'rule': r['rule'], 'status': r['status'], 'detail': r['detail'][:400],
                            'kernel': r.get('kernel', '')[:400]})
    for r in results:
        if r['status'] == UNDECIDED and len(samples) < 24 and not r.get('canary'):
            samples.append({'obligation': r['id'], 'rule': r['rule'], 'status': r['status'], 'detail': r['detail'][:200]})
            if sum(1 for s in samples if s['status'] == UNDECIDED) >= 6:
                break
    decided_ob = proved + len([1 for m, (kf, rs) in knowns.items() for _ in rs])
    cov = {
        'explanation': explanation,
        'kernels_compiled': stats['kernels'], 'translation_units': stats['tus'],
        'kernels_not_instantiable': len(failures),
        'cases': len(cases),
        'obligations_total': total, 'proved': proved, 'undecided': undec, 'refuted': refuted,
        'refuted_known_findings': sum(len(rs) for _, rs in knowns.values()),
        'per_rule': per_rule,
        'canaries_refuted_as_expected': canary_ok,
        'floors': floors,
        'samples': samples,
        'undecided_list': [r['id'] + ' :: ' + r['detail'][:120] for r in results if r['status'] == UNDECIDED and not r.get('canary')][:400],
        'trusted_base': trusted_base,
        'checker_cmd': './check %s --tier %s' % (prop, tier),
    }
    if level == 'proof':
        # obligations of a proof-level claim are the decided ones; UNDECIDED are reported separately and not claimed
        # claimed obligations = decided ones that are not listed known findings (those are reported separately and are
        # explicitly outside the claim); on a tree without new violations obligations == discharged
        cov['obligations'] = proved + len(violations)
        cov['discharged'] = proved
        cov['known_finding_obligations'] = refuted - len(violations)
    if level == 'translation_validation':
        cov['programs'] = stats['kernels']
        cov['disagreements_checked'] = refuted
    cov['evaluations'] = max(total, 1)
    cov['distinct_nontrivial'] = len({r['id'] for r in results if r['status'] != UNDECIDED and not r.get('canary')})
    cov['rule'] = 'one obligation per (kernel instantiation, output lane or clause, rule); distinct = distinct obligation ids decided (PROVED or REFUTED); UNDECIDED are excluded'
    ev = {'property_id': prop, 'tier': tier, 'seed': seed, 'level': level, 'coverage': cov, 'assumptions': assumptions,
          'wall_s': round(time.time() - t0, 2), 'violations': len(violations),
          'known_findings_reported': [kf['what'] for _, (kf, rs) in knowns.items()],
          'analysis_broken': brokenmsgs, 'build_s': round(t_build, 2), 'repo': B.REPO}
    os.makedirs(os.path.join(VERIF, 'evidence'), exist_ok=True)
    evname = prop + ('.partial.json' if os.environ.get('VERIF_PARTIAL') == '1' else '.json')
    with open(os.path.join(VERIF, 'evidence', evname), 'w') as f:
        json.dump(ev, f, indent=1, default=str)
    print('%s tier=%s: %d obligations: %d proved, %d undecided, %d refuted (%d known, %d new); %d kernels (%d not instantiable); canaries %d; %.1fs (build %.1fs)'
          % (prop, tier, total, proved, undec, refuted, refuted - len(violations), len(violations), stats['kernels'], len(failures), canary_ok, time.time() - t0, t_build))
    if os.environ.get('VERIF_KEEP_WORK') != '1':
        shutil.rmtree(work, ignore_errors=True)
    return rc
