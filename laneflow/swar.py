"""S domain: SWAR field sums.  A term is read as a partition of its bits into fields, each field holding an affine
sum of input bits (non-negative integer coefficients) with a proven upper bound below 2^width — the invariant that makes
mask-and-add population-count ladders correct.  Anything that could let a carry cross a field boundary, or that cuts a
multi-bit field, makes the evaluation fail (None) -> UNDECIDED, except that a *provable* leak is reported."""
from . import term as tm


class Field:
    __slots__ = ('w', 'form', 'maxv')

    def __init__(self, w, form, maxv):
        self.w, self.form, self.maxv = w, form, maxv

    def is_zero(self):
        return self.maxv == 0

    def __repr__(self):
        return 'F(%d,%r,%d)' % (self.w, self.form, self.maxv)


class Leak(Exception):
    """a field sum can exceed its width: the ladder is wrong (or relies on wrap-around)"""


def _zero(w):
    return Field(w, {}, 0)


def _split_zero(fs):
    return fs


def fields(t, memo=None):
    """list of Field (low to high) or None"""
    memo = memo if memo is not None else {}
    r = memo.get(t, 0)
    if r != 0:
        return r
    r = _fields(t, memo)
    memo[t] = r
    return r


def _fields(t, memo):
    op = t.op
    if op == 'const':
        out = []
        for i in range(t.w):
            b = (t.args[0] >> i) & 1
            out.append(Field(1, {None: 1} if b else {}, b))
        return _merge_zeros(out)
    if op == 'in':
        return [Field(1, {(t.args[0], t.args[1] + i): 1}, 1) for i in range(t.w)]
    if op == 'slice':
        x, lo = t.args
        if x.op == 'in':
            return [Field(1, {(x.args[0], x.args[1] + lo + i): 1}, 1) for i in range(t.w)]
        fs = fields(x, memo)
        if fs is None:
            return None
        return _slice(fs, lo, t.w)
    if op == 'concat':
        out = []
        for p in t.args:
            fs = fields(p, memo)
            if fs is None:
                return None
            out.extend(fs)
        return _merge_zeros(out)
    if op == 'add':
        a, b = fields(t.args[0], memo), fields(t.args[1], memo)
        if a is None or b is None:
            return None
        return _add(a, b, t.w)
    if op == 'mul':
        # multiplication by a constant = sum of shifted copies
        c, x = (t.args[0], t.args[1]) if t.args[0].op == 'const' else (t.args[1], t.args[0])
        if c.op != 'const':
            return None
        fs = fields(x, memo)
        if fs is None:
            return None
        acc = [_zero(t.w)]
        for k in range(t.w):
            if (c.args[0] >> k) & 1:
                sh = _slice([_zero(k)] + fs if k else list(fs), 0, t.w, truncate=True)
                if sh is None:
                    return None
                acc = _add(acc, sh, t.w)
                if acc is None:
                    return None
        return acc
    if op == 'sub':
        # x - ((x >> 1) & 0x55..) style first step: handled only when it is bitwise provable: a - b with b a sub-sum of a per field
        a, b = fields(t.args[0], memo), fields(t.args[1], memo)
        if a is None or b is None:
            return None
        return _sub(a, b, t.w)
    return None


def _merge_zeros(fs):
    out = []
    for f in fs:
        if out and out[-1].is_zero() and f.is_zero():
            out[-1] = _zero(out[-1].w + f.w)
        else:
            out.append(f)
    return out


def _slice(fs, lo, w, truncate=False):
    out = []
    pos = 0
    for f in fs:
        a, b = max(lo, pos), min(lo + w, pos + f.w)
        if a < b:
            if a == pos and b == pos + f.w:
                out.append(f)
            elif f.is_zero():
                out.append(_zero(b - a))
            elif a == pos and f.maxv < (1 << (b - a)):
                # the value fits in the kept low part
                out.append(Field(b - a, f.form, f.maxv))
            elif truncate and a == pos:
                return None
            else:
                # cutting a multi-bit field: only fine if the dropped high part is provably zero (handled above) or the
                # kept high part is provably zero
                if a > pos and f.maxv < (1 << (a - pos)):
                    out.append(_zero(b - a))
                elif a > pos and None not in f.form and any(c == 1 for c in f.form.values()):
                    raise Leak('a mask clears the low %d bits of the field at bit %d although an input bit is counted there' % (a - pos, pos))
                elif a == pos and None not in f.form and all(c > 0 for c in f.form.values()):
                    # a mask keeps only the low part of a field whose sum (all contributing input bits set) does not fit
                    raise Leak('a mask cuts the field at bit %d to %d bits although it can hold %d' % (pos, b - a, f.maxv))
                else:
                    return None
        pos += f.w
    got = sum(f.w for f in out)
    if got < w:
        out.append(_zero(w - got))
    return _merge_zeros(out)


def _bounds(fs):
    b = []
    pos = 0
    for f in fs:
        b.append((pos, pos + f.w, f))
        pos += f.w
    return b


def _add(a, b, W):
    """field-wise addition; containers are unions of overlapping non-zero fields"""
    items = [(lo, hi, f) for lo, hi, f in _bounds(a) if not f.is_zero()] + [(lo, hi, f) for lo, hi, f in _bounds(b) if not f.is_zero()]
    items.sort(key=lambda x: x[0])
    # zero regions of BOTH operands may serve as headroom above a container
    occupied = []
    for lo, hi, f in items:
        if occupied and lo < occupied[-1][1]:
            occupied[-1][1] = max(occupied[-1][1], hi)
            occupied[-1][2].append((lo, f))
        else:
            occupied.append([lo, hi, [(lo, f)]])
    out = []
    pos = 0
    for idx, (lo, hi, parts) in enumerate(occupied):
        form = {}
        maxv = 0
        for plo, f in parts:
            sh = plo - lo
            for k, c in f.form.items():
                form[k] = form.get(k, 0) + (c << sh)
            maxv += f.maxv << sh
        nxt = occupied[idx + 1][0] if idx + 1 < len(occupied) else W
        need = max(hi - lo, maxv.bit_length())
        if lo + need > nxt:
            if lo + need > W and nxt == W:
                raise Leak('sum of up to %d does not fit below bit %d' % (maxv, W))
            raise Leak('field at bit %d can reach %d and overflows into the field at bit %d' % (lo, maxv, nxt))
        if lo > pos:
            out.append(_zero(lo - pos))
        out.append(Field(need, form, maxv))
        pos = lo + need
    if pos < W:
        out.append(_zero(W - pos))
    return _merge_zeros(out)


def _sub(a, b, W):
    """a - b where, inside each non-zero field of a, b's contribution is a sub-form (coefficient-wise <=), so no borrow"""
    ba, bb = _bounds(a), _bounds(b)
    out = []
    pos = 0
    for lo, hi, f in ba:
        form = dict(f.form)
        maxv = f.maxv
        for l2, h2, g in bb:
            if g.is_zero() or h2 <= lo or l2 >= hi:
                continue
            if l2 < lo or h2 > hi:
                return None
            sh = l2 - lo
            for k, c in g.form.items():
                # value semantics: field value = sum coeff*bit ; a bit pair (2*b1 + b0) minus b1 = b1 + b0
                have = form.get(k, 0)
                if have < (c << sh):
                    return None
                form[k] = have - (c << sh)
                if form[k] == 0:
                    del form[k]
        maxv = sum(c for k, c in form.items())
        out.append(Field(f.w, form, maxv))
    return _merge_zeros(out)


def popcount_form(fs, arg, lo, n):
    """is the field list a single field at bit 0 that sums input bits [lo, lo+n) of `arg` once each, zeros above?"""
    if fs is None or not fs:
        return False
    f0 = fs[0]
    want = {(arg, lo + i): 1 for i in range(n)}
    if f0.form != want:
        return False
    return all(f.is_zero() for f in fs[1:])
