"""Interval abstract domain over lane terms: can a boolean term (the path condition of a sanitizer check) be true for inputs inside a box?

  ints    : interval of the *signed* value of a w-bit term, (lo, hi) with python integers; FULL(w) when nothing is known or the operation may wrap
  floats  : (lo, hi) over the reals, for finite non-NaN operands; None when the value may be NaN / unknown
  bools   : True / False / None (unknown)

Boxes: {input term: (lo, hi)} for integers (signed values) and floats; a float input without entry is any finite number.
Sound for proving a condition *unsatisfiable inside the box*: every transfer function over-approximates."""
import math
from . import term as tm

INF = float('inf')


def full(w):
    return (-(1 << (w - 1)), (1 << (w - 1)) - 1)


def _fits(lo, hi, w):
    f = full(w)
    return f[0] <= lo and hi <= f[1]


class Box:
    def __init__(self, ints=None, floats=None):
        self.ints = ints or {}
        self.floats = floats or {}
        self.im = {}
        self.fm = {}
        self.bm = {}

    # ------------------------------------------------------------------ integers (signed view)
    def i(self, t):
        r = self.im.get(t)
        if r is None:
            r = self._i(t)
            f = full(t.w)
            if r is None or r[0] < f[0] or r[1] > f[1]:
                r = f
            self.im[t] = r
        return r

    def _i(self, t):
        op, w, a = t.op, t.w, t.args
        if op == 'const':
            v = tm.sval(t)
            return (v, v)
        if op == 'in':
            return self.ints.get(t, full(w))
        if op in ('add', 'sub'):
            (la, ha), (lb, hb) = self.i(a[0]), self.i(a[1])
            lo, hi = (la + lb, ha + hb) if op == 'add' else (la - hb, ha - lb)
            return (lo, hi) if _fits(lo, hi, w) else None
        if op == 'mul':
            (la, ha), (lb, hb) = self.i(a[0]), self.i(a[1])
            c = [la * lb, la * hb, ha * lb, ha * hb]
            return (min(c), max(c)) if _fits(min(c), max(c), w) else None
        if op == 'zext':
            la, ha = self.i(a[0])
            return (la, ha) if la >= 0 else (0, (1 << a[0].w) - 1)
        if op == 'sext':
            return self.i(a[0])
        if op == 'concat':
            # value in the low part, zeros above: a zero extension
            if all(p.op == 'const' and p.args[0] == 0 for p in a[1:]):
                la, ha = self.i(a[0])
                if la >= 0:
                    return (la, ha)
                return (0, (1 << a[0].w) - 1)
            # zeros below: a left shift
            if all(p.op == 'const' and p.args[0] == 0 for p in a[:-1]):
                k = sum(p.w for p in a[:-1])
                la, ha = self.i(a[-1])
                return (la << k, ha << k)
            # general: sum of the unsigned ranges of the parts
            lo = hi = pos = 0
            for p in a:
                ul, uh = self.ur(p)
                lo += ul << pos
                hi += uh << pos
                pos += p.w
            if hi < (1 << (w - 1)):
                return (lo, hi)
            return None
        if op == 'not' and w > 1:
            la, ha = self.i(a[0])
            return (-ha - 1, -la - 1)
        if op == 'slice':
            lo_, src = a[1], a[0]
            ls, hs = self.i(src)
            if lo_ == 0 and _fits(ls, hs, w):
                return (ls, hs)
            if ls >= 0:
                hi = hs >> lo_
                if hi < (1 << (w - 1)):
                    return (0, hi)
            return None
        if op == 'and':
            for x, y in ((a[0], a[1]), (a[1], a[0])):
                if x.op == 'const' and tm.sval(x) >= 0:
                    return (0, tm.sval(x))
            (la, ha), (lb, hb) = self.i(a[0]), self.i(a[1])
            if la >= 0 and lb >= 0:
                return (0, min(ha, hb))
            return None
        if op in ('or', 'xor'):
            (la, ha), (lb, hb) = self.i(a[0]), self.i(a[1])
            if la >= 0 and lb >= 0:
                n = max(ha.bit_length(), hb.bit_length())
                return (0, (1 << n) - 1)
            return None
        if op == 'shl':
            (la, ha), (lk, hk) = self.i(a[0]), self.i(a[1])
            if lk < 0 or hk >= w:
                return None
            c = [la << lk, la << hk, ha << lk, ha << hk]
            return (min(c), max(c)) if _fits(min(c), max(c), w) else None
        if op in ('lshr', 'ashr'):
            (la, ha), (lk, hk) = self.i(a[0]), self.i(a[1])
            if lk < 0 or hk >= w:
                # unknown count (a count >= width is poison, excluded by the path): a non-negative value only gets smaller
                return (0, ha) if la >= 0 else None
            if la >= 0:
                return (la >> hk, ha >> lk)
            if op == 'ashr':
                return (la >> lk, max(ha >> lk, ha >> hk))
            return (0, (1 << (w - 1)) - 1) if lk >= 1 else None
        if op == 'select':
            c = self.b(a[0])
            if c is True:
                return self.i(a[1])
            if c is False:
                return self.i(a[2])
            (la, ha), (lb, hb) = self.i(a[1]), self.i(a[2])
            return (min(la, lb), max(ha, hb))
        if op in ('srem', 'urem'):
            (la, ha), (lb, hb) = self.i(a[0]), self.i(a[1])
            if op == 'urem' and (la < 0 or lb < 0):
                return None
            m = max(abs(lb), abs(hb))
            if m == 0:
                return None
            lo = -(m - 1) if la < 0 else 0
            hi = (m - 1) if ha > 0 else 0
            return (max(lo, la) if la >= 0 else lo, min(hi, ha) if ha >= 0 and la >= 0 else hi)
        if op in ('sdiv', 'udiv'):
            (la, ha), (lb, hb) = self.i(a[0]), self.i(a[1])
            if op == 'udiv' and (la < 0 or lb < 0):
                return None
            if lb >= 1:
                c = [int(la / lb), int(la / hb), int(ha / lb), int(ha / hb)]
                return (min(c), max(c))
            return None
        if op == 'iabs':
            la, ha = self.i(a[0])
            if la == full(w)[0]:
                return None
            lo = 0 if la <= 0 <= ha else min(abs(la), abs(ha))
            return (lo, max(abs(la), abs(ha)))
        if op == 'ctpop':
            return (0, w)
        if op in ('smin', 'smax'):
            (la, ha), (lb, hb) = self.i(a[0]), self.i(a[1])
            f = min if op == 'smin' else max
            return (f(la, lb), f(ha, hb))
        if op in ('fptosi', 'fptoui'):
            f = self.f(a[0])
            if f is None:
                return None
            lo, hi = f
            if lo == -INF or hi == INF:
                return None
            return (math.trunc(lo), math.trunc(hi))
        if op == 'icmp' or op == 'fcmp' or (w == 1 and op in ('not',)):
            b = self.b(t)
            return (0, 0) if b is False else (-1, -1) if b is True else (-1, 0)
        return None

    def ur(self, t):
        """range of the unsigned value of a part (never None)"""
        if t.w == 1:
            b = self.b(t)
            return (0, 0) if b is False else (1, 1) if b is True else (0, 1)
        r = self.u(t)
        return r if r is not None else (0, (1 << t.w) - 1)

    def u(self, t):
        """interval of the unsigned value, or None"""
        lo, hi = self.i(t)
        if lo >= 0:
            return (lo, hi)
        if hi < 0:
            return (lo + (1 << t.w), hi + (1 << t.w))
        return None

    # ------------------------------------------------------------------ floats
    def f(self, t):
        if t in self.fm:
            return self.fm[t]
        r = self._f(t)
        if r is not None and (r[0] != r[0] or r[1] != r[1]):
            r = None
        self.fm[t] = r
        return r

    def _f(self, t):
        op, a = t.op, t.args
        if op == 'const':
            v = tm.fval(t)
            return (v, v) if v == v else None
        if op == 'in':
            return self.floats.get(t, (-INF, INF))
        if op == 'fsub':
            x, y = a
            if y.op == 'fn' and y.args[0] == 'floor' and y.args[1] is x:
                fx = self.f(x)
                big = 2.0 ** (23 if t.w == 32 else 52)
                if fx is not None and (fx[0] >= big or fx[1] <= -big):
                    return (0.0, 0.0)          # every float of that magnitude is an integer
                return (0.0, 1.0)
            fx, fy = self.f(x), self.f(y)
            if fx is None or fy is None:
                return None
            return _chk(fx[0] - fy[1], fx[1] - fy[0])
        if op == 'fadd':
            fx, fy = self.f(a[0]), self.f(a[1])
            if fx is None or fy is None:
                return None
            return _chk(fx[0] + fy[0], fx[1] + fy[1])
        if op == 'fmul':
            fx, fy = self.f(a[0]), self.f(a[1])
            if fx is None or fy is None:
                return None
            c = []
            for p in fx:
                for q in fy:
                    if (p == 0 and abs(q) == INF) or (q == 0 and abs(p) == INF):
                        c.append(0.0)
                    else:
                        c.append(p * q)
            return _chk(min(c), max(c))
        if op == 'fdiv':
            fx, fy = self.f(a[0]), self.f(a[1])
            if fx is None or fy is None or fy[0] <= 0 <= fy[1]:
                return None
            c = [p / q for p in fx for q in fy if not (abs(p) == INF and abs(q) == INF)]
            return _chk(min(c), max(c)) if len(c) == 4 else None
        if op == 'fneg':
            fx = self.f(a[0])
            return None if fx is None else (-fx[1], -fx[0])
        if op == 'fabs':
            fx = self.f(a[0])
            if fx is None:
                return None
            lo = 0.0 if fx[0] <= 0 <= fx[1] else min(abs(fx[0]), abs(fx[1]))
            return (lo, max(abs(fx[0]), abs(fx[1])))
        if op == 'select':
            c, x, y = a
            cb = self.b(c)
            if cb is True:
                return self.f(x)
            if cb is False:
                return self.f(y)
            fx, fy = self.f(x), self.f(y)
            if fx is None or fy is None:
                return None
            if c.op == 'fcmp' and c.args[0] in ('olt', 'ole', 'ogt', 'oge', 'ult', 'ule', 'ugt', 'uge'):
                p_, q_ = c.args[1], c.args[2]
                if c.args[0][1:] in ('gt', 'ge'):
                    p_, q_ = q_, p_
                ip, iq = self.f(p_), self.f(q_)
                if ip is not None and iq is not None:
                    # true arm: p <= q ; false arm (non-NaN operands): p >= q
                    if x is p_:
                        fx = (fx[0], min(fx[1], iq[1]))
                    if x is q_:
                        fx = (max(fx[0], ip[0]), fx[1])
                    if y is p_:
                        fy = (max(fy[0], iq[0]), fy[1])
                    if y is q_:
                        fy = (fy[0], min(fy[1], ip[1]))
            return (min(fx[0], fy[0]), max(fx[1], fy[1]))
        if op in ('minnum', 'maxnum'):
            fx, fy = self.f(a[0]), self.f(a[1])
            if fx is None or fy is None:
                return None
            g = min if op == 'minnum' else max
            return (g(fx[0], fy[0]), g(fx[1], fy[1]))
        if op == 'fn' and a[0] in ('floor', 'ceil', 'trunc', 'round', 'rint', 'nearbyint', 'roundeven') and len(a) == 2:
            fx = self.f(a[1])
            if fx is None:
                return None
            return (math.floor(fx[0]) if fx[0] > -INF else -INF, math.ceil(fx[1]) if fx[1] < INF else INF)
        if op == 'sqrt':
            fx = self.f(a[0])
            if fx is None or fx[0] < 0:
                return None
            return (math.sqrt(fx[0]), math.sqrt(fx[1]) if fx[1] < INF else INF)
        if op in ('sitofp', 'uitofp'):
            iv = self.i(a[0]) if op == 'sitofp' else self.u(a[0])
            if iv is None:
                return (0.0, float((1 << a[0].w) - 1))
            return (float(iv[0]), float(iv[1]))
        if op in ('fpext', 'fptrunc'):
            return self.f(a[0])
        return None

    # ------------------------------------------------------------------ booleans
    def b(self, t):
        if t in self.bm:
            return self.bm[t]
        r = self._b(t)
        self.bm[t] = r
        return r

    def _b(self, t):
        op, a = t.op, t.args
        if op == 'const':
            return bool(a[0])
        if op == 'not':
            r = self.b(a[0])
            return None if r is None else not r
        if op in ('and', 'or') and t.w == 1:
            x, y = self.b(a[0]), self.b(a[1])
            if op == 'and':
                if x is False or y is False:
                    return False
                return True if (x is True and y is True) else None
            if x is True or y is True:
                return True
            return False if (x is False and y is False) else None
        if op == 'xor' and t.w == 1:
            x, y = self.b(a[0]), self.b(a[1])
            return None if x is None or y is None else (x != y)
        if op == 'icmp':
            pred, x, y = a
            if pred in ('eq', 'ne'):
                (lx, hx), (ly, hy) = self.i(x), self.i(y)
                if hx < ly or hy < lx:
                    return pred == 'ne'
                if lx == hx == ly == hy:
                    return pred == 'eq'
                return None
            if pred[0] == 's':
                ix, iy = self.i(x), self.i(y)
            else:
                ix, iy = self.u(x), self.u(y)
                if ix is None or iy is None:
                    return None
            return _cmp(pred[1:], ix, iy)
        if op == 'fcmp':
            pred, x, y = a
            if pred in ('ord', 'uno'):
                fx, fy = self.f(x), self.f(y)
                if fx is None or fy is None:
                    return None
                return pred == 'ord'
            fx, fy = self.f(x), self.f(y)
            if fx is None or fy is None:
                return None
            p = pred[1:]
            if p in ('eq', 'ne'):
                if fx[1] < fy[0] or fy[1] < fx[0]:
                    return p == 'ne'
                return None
            return _cmp(p, fx, fy)
        if op == 'overflow':
            kind, x, y = a
            w = x.w
            if kind[0] == 's':
                (lx, hx), (ly, hy) = self.i(x), self.i(y)
                f = full(w)
            else:
                ux, uy = self.u(x), self.u(y)
                if ux is None or uy is None:
                    return None
                (lx, hx), (ly, hy) = ux, uy
                f = (0, (1 << w) - 1)
            if kind.endswith('add'):
                lo, hi = lx + ly, hx + hy
            elif kind.endswith('sub'):
                lo, hi = lx - hy, hx - ly
            else:
                c = [lx * ly, lx * hy, hx * ly, hx * hy]
                lo, hi = min(c), max(c)
            if f[0] <= lo and hi <= f[1]:
                return False
            if hi < f[0] or lo > f[1]:
                return True
            return None
        if op == 'select' and t.w == 1:
            c = self.b(a[0])
            if c is True:
                return self.b(a[1])
            if c is False:
                return self.b(a[2])
            x, y = self.b(a[1]), self.b(a[2])
            return x if x == y else None
        if op == 'slice' and t.w == 1:
            # sign bit / single bit of an integer
            src, lo_ = a[0], a[1]
            ls, hs = self.i(src)
            if lo_ == src.w - 1:
                if ls >= 0:
                    return False
                if hs < 0:
                    return True
            return None
        return None


def _chk(lo, hi):
    return None if lo != lo or hi != hi else (lo, hi)


def _cmp(p, ix, iy):
    (lx, hx), (ly, hy) = ix, iy
    if p == 'lt':
        return True if hx < ly else False if lx >= hy else None
    if p == 'le':
        return True if hx <= ly else False if lx > hy else None
    if p == 'gt':
        return True if lx > hy else False if hx <= ly else None
    if p == 'ge':
        return True if lx >= hy else False if hx < ly else None
    return None
