"""TypeFacts: compile-fail witnesses.  A fact is a C++ constant expression that must be true; facts are batched into
translation units (each fact on its own `#line 1 "F<n>"`), compiled with -fsyntax-only -ferror-limit=0 under a given
configuration, and the diagnostics are mapped back to the facts: a failed static_assert REFUTES the fact, any other
error on the fact's line makes it UNDECIDED (the witness could not be expressed), silence PROVES it."""
import os
import re
import subprocess
from concurrent.futures import ThreadPoolExecutor
from . import build as B


class Fact:
    __slots__ = ('fid', 'expr', 'desc', 'rule', 'pre')

    def __init__(self, fid, expr, desc, rule, pre=''):
        self.fid, self.expr, self.desc, self.rule, self.pre = fid, expr, desc, rule, pre


def _tu(cfg, facts, offset):
    out = []
    for d in cfg.defines:
        if '=' in d:
            n, v = d.split('=', 1)
            out.append('#define %s %s' % (n, v))
        else:
            out.append('#define %s' % d)
    if 'GLM_ENABLE_EXPERIMENTAL' not in cfg.defines:
        out.append('#define GLM_ENABLE_EXPERIMENTAL')
    for h in cfg.headers:
        out.append('#include <%s>' % h)
    out.append('#include <type_traits>\n#include <cstddef>')
    if cfg.prelude:
        out.append(cfg.prelude)
    for i, f in enumerate(facts):
        out.append('#line 1 "F%d"' % (offset + i))
        if f.pre:
            out.append('namespace verif_ns%d { %s\nstatic_assert(%s, "F%d"); }' % (offset + i, f.pre, f.expr, offset + i))
        else:
            out.append('static_assert(%s, "F%d");' % (f.expr, offset + i))
    return '\n'.join(out) + '\n'


def run(cfg, facts, workdir, tag, tu_size=1500, jobs=None):
    """returns {fid: ('PROVED'|'REFUTED'|'UNDECIDED', message)}"""
    os.makedirs(workdir, exist_ok=True)
    jobs = jobs or os.cpu_count() or 4
    chunks = [(i, facts[i:i + tu_size]) for i in range(0, len(facts), tu_size)]

    def do(chunk):
        off, fs = chunk
        path = os.path.join(workdir, 'tf_%s_%d.cpp' % (re.sub(r'\W', '_', tag), off))
        with open(path, 'w') as f:
            f.write(_tu(cfg, fs, off))
        flags = ['-std=' + (cfg.std or 'gnu++17'), '-I' + B.REPO, '-DNDEBUG', '-fsyntax-only', '-ferror-limit=0', '-w', '-Wno-invalid-offsetof']
        p = subprocess.run(['clang++'] + flags + list(cfg.flags) + [path], stdout=subprocess.PIPE, stderr=subprocess.PIPE, text=True)
        res = {}
        cur = None
        fatal = None
        for line in p.stderr.splitlines():
            m = re.match(r'^(\S+?):(\d+):(\d+): (fatal error|error|note): (.*)', line)
            if not m:
                continue
            fnm, kind, msg = m.group(1), m.group(4), m.group(5)
            if kind != 'note':
                cur = msg
            fm = re.fullmatch(r'F(\d+)', fnm)
            if fm and cur is not None:
                k = int(fm.group(1))
                if k not in res:
                    if 'static_assert failed' in cur or 'static assertion failed' in cur:
                        res[k] = ('REFUTED', cur)
                    else:
                        res[k] = ('UNDECIDED', cur)
            elif kind != 'note' and not fm and fatal is None and not fnm.startswith('F'):
                # error outside any fact (in a header) with no fact note following yet; remember in case nothing claims it
                fatal = '%s: %s' % (fnm, msg)
        out = {}
        for i, f in enumerate(fs):
            st = res.get(off + i)
            out[f.fid] = st if st else ('PROVED', '')
        if p.returncode != 0 and not res:
            for f in fs:
                out[f.fid] = ('UNDECIDED', 'translation unit failed: %s' % (fatal or p.stderr[:300]))
        try:
            os.remove(path)
        except OSError:
            pass
        return out
    allres = {}
    with ThreadPoolExecutor(max_workers=jobs) as ex:
        for r in ex.map(do, chunks):
            allres.update(r)
    return allres
