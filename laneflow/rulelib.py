"""Helpers shared by rule modules: reading lanes of outputs, building specification polynomials, comparing."""
from fractions import Fraction
from . import term as tm
from . import poly as P
from . import interp as I
from . import runner as R
from .poly import Poly


def out_lanes(ctx, k, ty, base=None):
    """{lane key: term} of the object of type `ty` behind the (output) pointer `base` at kernel exit"""
    it = ctx.fn(k)
    base = base or k.params[0][0]
    return {lane: I.out_lane(it, base, off, ty.elem) for lane, off in ty.lanes.items()}


def in_term(name, ty, lane):
    return tm.inp(name, ty.lanes[lane] * 8, ty.elem * 8)


def in_atom(name, ty, lane, mod=None):
    return Poly.atom(('in', name, ty.lanes[lane] * 8, ty.elem * 8), mod)


def modulus(ty):
    return None if ty.isfloat else (1 << (ty.elem * 8))


def to_poly(pc, t, ty):
    """normal form of lane term t of element type ty.T"""
    if ty.isfloat:
        return pc.fpoly(t)
    return pc.ipoly(t, ty.elem * 8)


def const_poly(c, ty):
    return Poly.const(Fraction(c) if ty.isfloat else int(c), modulus(ty))


def abs_poly(p):
    return Poly({m: abs(c) for m, c in p.t.items()}, p.mod)


class AbsCtx(P.PCtx):
    """polynomial reading in which every subtraction is an addition: equal to |poly| iff no term cancels"""

    def _fpoly(self, t):
        op = t.op
        if op == 'const':
            return Poly.const(abs(P._frac_of_bits(t)))
        if op == 'fsub':
            return self.fpoly(t.args[0]) + self.fpoly(t.args[1])
        if op == 'fneg':
            return self.fpoly(t.args[0])
        return super()._fpoly(t)

    def inv(self, b):
        return super().inv(b)


def lanes_only(p):
    """True iff every atom of p is an input lane (so an inequality of normal forms is a real difference)"""
    return all(P.atom_key(a)[0] == 'in' for a in p.atoms())


def compare_poly(got, exp):
    """(status, detail)"""
    if got == exp:
        return R.PROVED, ''
    d = got - exp
    if lanes_only(d):
        return R.REFUTED, 'got %s ; expected %s ; difference %s' % (P.show_poly(got), P.show_poly(exp), P.show_poly(d))
    return R.UNDECIDED, 'normal forms differ but involve opaque atoms: difference %s' % P.show_poly(d, limit=6)


def deps(t):
    """input lanes (arg, byte offset) the term depends on"""
    return {(a, off // 8) for a, off, w in tm.inputs_of(t)}


# ---------------------------------------------------------------------------------------------
# boolean functions over comparison atoms

def _assign(t, lit, val):
    m = {lit: tm.TRUE if val else tm.FALSE}
    n = tm.not_(lit)
    if n.op in ('fcmp', 'icmp'):
        m[n] = tm.FALSE if val else tm.TRUE
    return tm.substitute(t, m)


def _some_atom(t):
    for x in tm.walk(t):
        if x.op in ('fcmp', 'icmp') or (x.w == 1 and x.op in ('in', 'slice', 'call', 'fn')):
            return x
    return None


def always(t, value, budget=4096):
    """is the boolean term t constantly `value` for every valuation of its comparison atoms? (None = gave up)"""
    stack = [t]
    n = 0
    while stack:
        x = stack.pop()
        n += 1
        if n > budget:
            return None
        if x.op == 'const':
            if bool(x.args[0]) != value:
                return False
            continue
        a = _some_atom(x)
        if a is None:
            return None
        stack.append(_assign(x, a, True))
        stack.append(_assign(x, a, False))
    return True


def is_conjunction(t, lits):
    """t == AND(lits) as a boolean function (atoms treated as independent)?  True / False / None"""
    u = t
    for l in lits:
        u = _assign(u, l, True)
    if u is not tm.TRUE:
        r = always(u, True)
        if r is not True:
            return r
    for l in lits:
        r = always(_assign(t, l, False), False)
        if r is not True:
            return r
    return True


# ---------------------------------------------------------------------------------------------
# 1-bit boolean functions of input bits: exact comparison by truth table over the (few) bits involved

def _bit_atoms(t, acc):
    for x in tm.walk(t):
        if x.op == 'slice' and x.w == 1 and x.args[0].op == 'in':
            acc.add(x)
        elif x.op == 'in' and x.w == 1:
            acc.add(x)
    return acc


def _bit_eval(t, env):
    op = t.op
    if op == 'const':
        return t.args[0] & 1
    if t in env:
        return env[t]
    if op in ('and', 'or', 'xor'):
        a, b = _bit_eval(t.args[0], env), _bit_eval(t.args[1], env)
        if a is None or b is None:
            return None
        return (a & b) if op == 'and' else (a | b) if op == 'or' else (a ^ b)
    if op == 'not':
        a = _bit_eval(t.args[0], env)
        return None if a is None else 1 - a
    if op == 'select':
        c = _bit_eval(t.args[0], env)
        if c is None:
            return None
        return _bit_eval(t.args[1] if c else t.args[2], env)
    if op in ('sextbits', 'sext') and t.w == 1:
        x = t.args[0]
        return _bit_eval(tm.slice_(x, x.w - 1, 1), env)
    if op == 'slice' and t.w == 1:
        x, lo = t.args
        if x.op in ('sextbits', 'sext'):
            src = x.args[0]
            if x.op == 'sextbits' or lo >= src.w:
                return _bit_eval(tm.slice_(src, src.w - 1, 1), env)
    return None


def bit_function_equal(t, exp, max_bits=10):
    """compare two 1-bit terms as boolean functions of the input bits they mention.
    True / (False, witness) / None (not a pure bit function or too many bits)"""
    import itertools
    atoms = sorted(_bit_atoms(t, _bit_atoms(exp, set())), key=lambda x: x.id)
    if len(atoms) > max_bits:
        return None
    for vals in itertools.product((0, 1), repeat=len(atoms)):
        env = dict(zip(atoms, vals))
        a, b = _bit_eval(t, env), _bit_eval(exp, env)
        if a is None or b is None:
            return None
        if a != b:
            return (False, {tm.show(k): v for k, v in env.items()})
    return True


def int_witness(t, want, inputs, extra=(), limit=200):
    """a concrete integer input at which the two (integer / bit) terms, rebuilt by the normalising constructors, fold to different constants:
    ({input: value}, got, want) or None.  Terms are values derived by the analysis; only constant folding of the term constructors is used."""
    cands = []
    for x in inputs:
        w = x.w
        vals = [1 << (w - 1), 1, (1 << w) - 1, (1 << (w - 1)) | 1, int('a5' * (w // 8), 16) if w >= 8 else 1, 0x5a % (1 << w), 2, 0]
        cands.append([v & ((1 << w) - 1) for v in list(vals) + list(extra)])
    import itertools
    n = 0
    for combo in (zip(*cands) if len(inputs) == 1 else itertools.product(*cands)):
        n += 1
        if n > limit:
            break
        from . import ceval as CE
        env = {x: v for x, v in zip(inputs, combo)}
        try:
            a, b = CE.evaluate(t, env), CE.evaluate(want, env)
        except CE.NoValue:
            continue
        if a != b:
            return {tm.show(x): v for x, v in zip(inputs, combo)}, a, b
    return None


def compare_terms(td, tc, nan=False):
    """are two lane terms the same function of the inputs?  (status, detail)   PROVED: identical term / same normal form under every valuation of the
    comparisons; REFUTED: separated in a realisable case (witness printed); UNDECIDED otherwise"""
    if td is tc:
        return R.PROVED, 'identical term'
    try:
        r = P.decision_equal(td, tc, nan=nan)
    except Exception as e:            # noqa
        r = None
    if r is True:
        return R.PROVED, 'same normal form under every valuation of the comparisons'
    if r:
        return R.REFUTED, 'different results when %s: %s versus %s' % (r[1], P.show_poly(r[2], limit=4), P.show_poly(r[3], limit=4))
    pc = P.PCtx()
    try:
        a, b = pc.fpoly(td), pc.fpoly(tc)
        if a == b:
            return R.PROVED, 'same normal form'
        if lanes_only(a - b):
            return R.REFUTED, 'different polynomial: %s ; %s' % (P.show_poly(a, limit=4), P.show_poly(b, limit=4))
    except Exception:                 # noqa
        pass
    d = tm.diff(td, tc)
    wit = pattern_witness(td, tc)
    if wit:
        return R.REFUTED, 'different values for the input bit patterns %s: %#x versus %#x (terms differ at %s: %s ; %s)' % (wit[0], wit[1], wit[2], d[0], tm.show(d[1], 4), tm.show(d[2], 4))
    return R.UNDECIDED, 'terms differ at %s: %s ; %s' % (d[0], tm.show(d[1], 4), tm.show(d[2], 4))


def config_pair_case(name, rule, k, kc, outs, rename=None, what='the configured build'):
    """outs: [(lane label, output param, byte offset in k, byte offset in kc, nbytes)] ; rename: {input term of kc: input term of k} (layout changes)"""
    def judge(ctx):
        if ctx.compile_error(k):
            return []
        ec = ctx.compile_error(kc)
        if ec:
            return [R.ob(name, 'existence', R.REFUTED, 'compiles in the default configuration but not under %s: %s' % (what, ec), kernel=kc.source())]
        try:
            itd = ctx.fn(k)
        except I.Unsupported as e:
            return [R.ob(name, 'engine', R.UNDECIDED, 'default build not analysable: %s' % e)]
        itc = ctx.fn(kc)
        res = []
        for label, oname, offd, offc, nb in outs:
            td = I.out_lane(itd, oname, offd, nb)
            tc = I.out_lane(itc, oname, offc, nb)
            if rename:
                tc = tm.substitute(tc, rename)
            st, detail = compare_terms(td, tc)
            res.append(R.ob('%s[%s]' % (name, label), rule, st, detail, where=R.where_of(itc, tc) if st != R.PROVED else None, kernel=kc.source() + '  // ' + kc.cfg.describe()))
        return res
    return R.Case(name, [k, kc], judge)


def pattern_witness(t1, t2, limit=400):
    """an input (bit patterns of every input lane, tried both as small integers and as float / double values) at which the two terms evaluate
    (exactly, by the concrete term evaluator) to different values: ({input: pattern}, v1, v2) or None"""
    from . import ceval as CE
    import itertools
    ins = sorted({x for t in (t1, t2) for x in tm.walk(t) if x.op == 'in'}, key=lambda q: q.id)
    if not ins or len(ins) > 4:
        return None
    cands = []
    for x in ins:
        w = x.w
        vals = [3, 200, (1 << w) - 7, 0, 1]
        if w in (32, 64):
            vals = [CE.f2b(w, 2.5), CE.f2b(w, -3.75), CE.f2b(w, 0.1), CE.f2b(w, 1e10), CE.f2b(w, 300.5)] + vals + [70000]
            if len(ins) <= 2:
                # the inputs at which add-a-half-and-truncate idioms leave the rounding function they stand for: the predecessor of one half and an odd integer of the last
                # binade with a fractional bit, both signs; then the signed zero
                mant = 23 if w == 32 else 52
                half_pred = CE.f2b(w, 0.5) - 1
                odd = CE.f2b(w, float((1 << mant) + 1))
                sign = 1 << (w - 1)
                vals += [half_pred, odd, half_pred | sign, odd | sign, sign, CE.f2b(w, 0.5), CE.f2b(w, -0.5), CE.f2b(w, 1.5), CE.f2b(w, -2.5)]      # ... and the ties themselves
        cands.append([v & ((1 << w) - 1) for v in vals])
    n = 0
    for combo in itertools.product(*cands):
        n += 1
        if n > limit:
            break
        env = dict(zip(ins, combo))
        try:
            a, b = CE.evaluate(t1, env), CE.evaluate(t2, env)
        except CE.NoValue:
            continue
        if a != b:
            return {tm.show(x): ('%#x' % v) for x, v in env.items()}, a, b
    return None


def narrowing(t, w):
    """a conversion to a narrower float format inside the term of a `w`-bit float result (value computed in double, stored in a float temporary, widened again): the
    normal forms read float arithmetic as exact and cannot see it, but every bit beyond float precision is lost there -> the offending sub-term, or None"""
    for x in tm.walk(t):
        if x.op == 'fptrunc' and x.w < w:
            return x
    return None


def float_idioms(t):
    """rewrites the portable spellings of two rounding functions (as GLM's pre-C++11 fallbacks write them) into the function they are, bottom-up over the term:

      trunc   select(x < 0, -floor(-x), floor(x))                          ==  trunc(x)    exactly, for every float: floor is exact, -0.0 takes the floor(x) arm and stays
                                                                               -0.0, x in (-1, 0) gives -(+0) = -0.0, NaN is not < 0 and floor(NaN) is NaN
      round   select(|x| >= 1/2, select(x < 0, -r, r), x * 0)                ==  round(x)    exactly (half away from zero): f = floor(|x|) and |x| - f are exact (f and |x| are
              with r = select(|x| - floor(|x|) >= 1/2, floor(|x|) + 1, floor(|x|))   multiples of ulp(|x|) and the difference is below 1), f + 1 is exact whenever a fraction
                                                                               exists (|x| < 2^(p-1)); |x| < 1/2 and NaN fail the first test and x * 0 is the zero of x's
                                                                               sign, or NaN; infinities have |x| - f = NaN, so r = f = inf.
      finite  -MAX <= x && x <= MAX                                            ==  |x| != inf, ordered (the isfinite fallback)
    Only these exact shapes are rewritten; any other spelling is left alone (and stays undecided rather than being guessed)."""
    memo = {}

    def is_c(x, v):
        return x.op == 'const' and x.w in (32, 64) and tm.fval(x) == v and not (v == 0.0 and x.args[0] != 0)

    def floor_of(x):
        return x.args[1] if (x.op == 'fn' and x.args[0] == 'floor' and len(x.args) == 2) else None

    def ge_half(c):
        """the term a when c is  a >= 1/2  (either spelling)"""
        if c.op != 'fcmp':
            return None
        pr, p_, q_ = c.args
        if pr == 'ole' and is_c(p_, 0.5):
            return q_
        if pr == 'oge' and is_c(q_, 0.5):
            return p_
        return None

    def lt_zero(c):
        if c.op != 'fcmp':
            return None
        pr, p_, q_ = c.args
        if pr == 'olt' and is_c(q_, 0.0):
            return p_
        if pr == 'ogt' and is_c(p_, 0.0):
            return q_
        return None

    def finite_range(y):
        # -MAX <= x && x <= MAX  ==  |x| != inf (ordered): both are false for NaN and the infinities and true for every finite x
        if y.op != 'and' or y.w != 1 or len(y.args) != 2:
            return None
        lo = hi = None
        for c in y.args:
            if c.op != 'fcmp':
                return None
            pr, p_, q_ = c.args
            if pr == 'oge':
                pr, p_, q_ = 'ole', q_, p_
            if pr != 'ole':
                return None
            if p_.op == 'const' and q_.op != 'const':
                lo = (tm.fval(p_), q_)
            elif q_.op == 'const' and p_.op != 'const':
                hi = (tm.fval(q_), p_)
        if lo is None or hi is None or lo[1] is not hi[1] or lo[1].w not in (32, 64):
            return None
        mx = 3.4028234663852886e+38 if lo[1].w == 32 else 1.7976931348623157e+308
        if lo[0] == -mx and hi[0] == mx:
            return tm.fcmp('one', tm.fconst(lo[1].w, float('inf')), tm.fabs(lo[1]))
        return None

    def rewrite(y):
        fr = finite_range(y)
        if fr is not None:
            return fr
        if y.op != 'select':
            return y
        c, a, b = y.args
        x = lt_zero(c)
        if x is not None:
            # trunc
            fb = floor_of(b)
            if fb is x and a.op == 'fneg':
                fa = floor_of(a.args[0])
                if fa is not None and fa.op == 'fneg' and fa.args[0] is x:
                    return tm.fn('trunc', (x,), y.w)
            if fb is x and a.op == 'fn' and a.args[0] == 'ceil' and len(a.args) == 2 and a.args[1] is x:
                return tm.fn('trunc', (x,), y.w)          # x < 0 ? ceil(x) : floor(x): the same exact identity (-floor(-x) is ceil(x), sign of zero included)
        ax = ge_half(c)
        if ax is not None and ax.op == 'fabs' and b.op == 'fmul':
            x = ax.args[0]
            if ((b.args[0] is x and is_c(b.args[1], 0.0)) or (b.args[1] is x and is_c(b.args[0], 0.0))) and a.op == 'select' and lt_zero(a.args[0]) is x:
                neg, r = a.args[1], a.args[2]
                if neg.op == 'fneg' and neg.args[0] is r and r.op == 'select':
                    d = ge_half(r.args[0])
                    f = r.args[2]
                    if d is not None and floor_of(f) is ax and d.op == 'fsub' and d.args[0] is ax and d.args[1] is f:
                        up = r.args[1]
                        if up.op == 'fadd' and ((up.args[0] is f and is_c(up.args[1], 1.0)) or (up.args[1] is f and is_c(up.args[0], 1.0))):
                            return tm.fn('round', (x,), y.w)
                if neg.op == 'fneg' and neg.args[0] is r and r.op == 'fadd' and len(r.args) == 2:
                    # the same with the increment written as  f + (cond ? 1 : 0)  (f >= +0, so f + 0 is f exactly)
                    for f, inc in ((r.args[0], r.args[1]), (r.args[1], r.args[0])):
                        if floor_of(f) is not ax:
                            continue
                        cnd = None
                        if inc.op == 'uitofp':
                            u = inc.args[0]
                            while u.op == 'concat' and all(q.op == 'const' and q.args[0] == 0 for q in u.args[1:]):
                                u = u.args[0]
                            if u.w == 1:
                                cnd = u
                        elif inc.op == 'select' and is_c(inc.args[1], 1.0) and is_c(inc.args[2], 0.0):
                            cnd = inc.args[0]
                        d = ge_half(cnd) if cnd is not None else None
                        if d is not None and d.op == 'fsub' and d.args[0] is ax and d.args[1] is f:
                            return tm.fn('round', (x,), y.w)
        return y
    for x in tm.walk(t):
        if not any(isinstance(a, tm.T) for a in x.args):
            memo[x] = x
            continue
        na = tuple(memo[a] if isinstance(a, tm.T) else a for a in x.args)
        y = x if all(p is q for p, q in zip(na, x.args)) else tm.make(x.op, na, x.w)
        memo[x] = rewrite(y)
    return memo[t]


def signbit_select(t):
    """{c[0 .. w-2], b} with a constant c and a symbolic bit b (a float constant whose sign is a condition, as copysign-like code compiles to)
    ->  select(b, -|c|.., c): the same value written as a selection between the two constants"""
    memo = {}
    for x in tm.walk(t):
        if not any(isinstance(a, tm.T) for a in x.args):
            memo[x] = x
            continue
        na = tuple(memo[a] if isinstance(a, tm.T) else a for a in x.args)
        y = x if all(p is q for p, q in zip(na, x.args)) else tm.make(x.op, na, x.w)
        if y.op == 'concat' and len(y.args) == 2 and y.args[0].op == 'const' and y.args[1].w == 1 and y.args[1].op != 'const' and y.w in (32, 64):
            c0 = y.args[0].args[0]
            y = tm.select(y.args[1], tm.const(y.w, c0 | (1 << (y.w - 1))), tm.const(y.w, c0))
        memo[x] = y
    return memo[t]
