"""Float-class abstract domain: every float lane is abstracted to a subset of
{NaN, -inf, -finite, -0, +0, +finite, +inf}; transfer functions are sound over-approximations that are *exact on
singletons for the zero / infinity / NaN classes*, so that two terms can be shown to differ ("0-x is +0 where -x is -0")
without running anything.  A difference is only reported when both terms evaluate to disjoint sets for one assignment
of classes to the input lanes — then every concrete input of that assignment is a witness.
"""
import itertools
from . import term as tm

NAN, NI, NF, NZ, PZ, PF, PI = 1, 2, 4, 8, 16, 32, 64
ALL = 127
NAMES = {NAN: 'NaN', NI: '-inf', NF: '-finite', NZ: '-0', PZ: '+0', PF: '+finite', PI: '+inf'}
SINGLES = (NAN, NI, NF, NZ, PZ, PF, PI)
BF, BT = 1, 2
BTOP = 3


def name(mask):
    return '{' + ','.join(NAMES[s] for s in SINGLES if mask & s) + '}'


def singles(mask):
    return [s for s in SINGLES if mask & s]


_NEG = {NAN: NAN, NI: PI, NF: PF, NZ: PZ, PZ: NZ, PF: NF, PI: NI}
_SIGN = {NI: -1, NF: -1, NZ: -1, PZ: 1, PF: 1, PI: 1}


def neg(m):
    r = 0
    for s in singles(m):
        r |= _NEG[s]
    return r


def fabs_(m):
    r = 0
    for s in singles(m):
        r |= s if s in (NAN, PZ, PF, PI) else _NEG[s]
    return r


def _add1(x, y):
    if x == NAN or y == NAN:
        return NAN
    if x in (NI, PI) or y in (NI, PI):
        if x in (NI, PI) and y in (NI, PI):
            return x if x == y else NAN
        return x if x in (NI, PI) else y
    zx, zy = x in (NZ, PZ), y in (NZ, PZ)
    if zx and zy:
        return NZ if (x == NZ and y == NZ) else PZ
    if zx:
        return y
    if zy:
        return x
    # finite non-zero + finite non-zero
    if x == y:
        return x | (PI if x == PF else NI)
    return NF | PF | PZ


def _mul1(x, y):
    if x == NAN or y == NAN:
        return NAN
    sx, sy = _SIGN[x], _SIGN[y]
    pos = sx * sy > 0
    ix, iy = x in (NI, PI), y in (NI, PI)
    zx, zy = x in (NZ, PZ), y in (NZ, PZ)
    if (ix and zy) or (zx and iy):
        return NAN
    if ix or iy:
        return PI if pos else NI
    if zx or zy:
        return PZ if pos else NZ
    return (PF | PZ | PI) if pos else (NF | NZ | NI)


def _div1(x, y):
    if x == NAN or y == NAN:
        return NAN
    sx, sy = _SIGN[x], _SIGN[y]
    pos = sx * sy > 0
    ix, iy = x in (NI, PI), y in (NI, PI)
    zx, zy = x in (NZ, PZ), y in (NZ, PZ)
    if (ix and iy) or (zx and zy):
        return NAN
    if ix:
        return PI if pos else NI
    if iy:
        return PZ if pos else NZ
    if zx:
        return PZ if pos else NZ
    if zy:
        return PI if pos else NI
    return (PF | PZ | PI) if pos else (NF | NZ | NI)


def _lift2(f, a, b):
    r = 0
    for x in singles(a):
        for y in singles(b):
            r |= f(x, y)
    return r


_RANK = {NI: 0, NF: 1, NZ: 2, PZ: 2, PF: 3, PI: 4}


def _cmp1(pred, x, y):
    """boolean mask of fcmp pred on singleton classes"""
    if x == NAN or y == NAN:
        return BT if pred[0] == 'u' else BF
    rx, ry = _RANK[x], _RANK[y]
    if rx != ry:
        rel = {'lt'} if rx < ry else {'gt'}
    elif x in (NF, PF):
        rel = {'lt', 'eq', 'gt'}
    else:
        rel = {'eq'}
    p = pred[1:]
    if pred in ('ord',):
        return BT
    if pred in ('uno',):
        return BF
    sat = {'eq': {'eq'}, 'ne': {'lt', 'gt'}, 'lt': {'lt'}, 'le': {'lt', 'eq'}, 'gt': {'gt'}, 'ge': {'gt', 'eq'}}[p]
    r = 0
    for q in rel:
        r |= BT if q in sat else BF
    return r


def class_of_const(t):
    x = tm.fval(t)
    if x != x:
        return NAN
    if x == float('inf'):
        return PI
    if x == float('-inf'):
        return NI
    neg_ = (t.args[0] >> (t.w - 1)) & 1
    if x == 0:
        return NZ if neg_ else PZ
    return NF if neg_ else PF


_ROUND = {
    'floor': {PF: PZ | PF, NF: NF}, 'ceil': {PF: PF, NF: NZ | NF},
    'trunc': {PF: PZ | PF, NF: NZ | NF}, 'round': {PF: PZ | PF, NF: NZ | NF},
    'rint': {PF: PZ | PF, NF: NZ | NF}, 'nearbyint': {PF: PZ | PF, NF: NZ | NF}, 'roundeven': {PF: PZ | PF, NF: NZ | NF},
}


class Eval:
    def __init__(self, env):
        self.env = env      # {in-term: mask}
        self.memo = {}

    def f(self, t):
        """float class mask of term t"""
        r = self.memo.get(t)
        if r is None:
            r = self.memo[t] = self._f(t)
        return r

    def b(self, t):
        r = self.memo.get(('b', t))
        if r is None:
            r = self.memo[('b', t)] = self._b(t)
        return r

    def _f(self, t):
        op = t.op
        if op == 'const':
            return class_of_const(t)
        if op == 'in':
            return self.env.get(t, ALL)
        if op == 'fneg':
            return neg(self.f(t.args[0]))
        if op == 'fabs':
            return fabs_(self.f(t.args[0]))
        if op == 'fadd':
            return _lift2(_add1, self.f(t.args[0]), self.f(t.args[1]))
        if op == 'fsub':
            return _lift2(_add1, self.f(t.args[0]), neg(self.f(t.args[1])))
        if op == 'fmul':
            return _lift2(_mul1, self.f(t.args[0]), self.f(t.args[1]))
        if op == 'fdiv':
            return _lift2(_div1, self.f(t.args[0]), self.f(t.args[1]))
        if op == 'fma':
            return _lift2(_add1, _lift2(_mul1, self.f(t.args[0]), self.f(t.args[1])), self.f(t.args[2]))
        if op == 'sqrt':
            m = self.f(t.args[0])
            r = 0
            for s in singles(m):
                r |= NAN if s in (NAN, NI, NF) else s
            return r
        if op == 'select':
            c = self.b(t.args[0])
            r = 0
            if c & BT:
                r |= self.f(t.args[1])
            if c & BF:
                r |= self.f(t.args[2])
            return r
        if op in ('minnum', 'maxnum'):
            a, b = self.f(t.args[0]), self.f(t.args[1])
            r = (a | b) & ~NAN
            if (a & NAN) and (b & NAN):
                r |= NAN
            if a == NAN:
                return b
            if b == NAN:
                return a
            return r
        if op == 'fn' and t.args[0] in _ROUND:
            m = self.f(t.args[1])
            tab = _ROUND[t.args[0]]
            r = 0
            for s in singles(m):
                r |= tab.get(s, s)
            return r
        if op == 'uitofp':
            x = t.args[0]
            if x.w == 1:
                c = self.b(x)
                return (PF if c & BT else 0) | (PZ if c & BF else 0)
            return PZ | PF
        if op == 'sitofp':
            return PZ | PF | NF
        if op == 'fpext':
            return self.f(t.args[0])
        if op == 'fptrunc':
            m = self.f(t.args[0])
            r = 0
            for s in singles(m):
                r |= {PF: PF | PZ | PI, NF: NF | NZ | NI}.get(s, s)
            return r
        if op == 'concat':
            # sign-bit idioms on the bit pattern of a float
            r = sign_idiom(t)
            if r is not None:
                kind, x, y = r
                if kind == 'fabs':
                    return fabs_(self.f(x))
                if kind == 'nfabs':
                    return neg(fabs_(self.f(x)))
                if kind == 'fneg':
                    return neg(self.f(x))
        return ALL

    def _b(self, t):
        op = t.op
        if op == 'const':
            return BT if t.args[0] else BF
        if op == 'fcmp':
            a, b = self.f(t.args[1]), self.f(t.args[2])
            r = 0
            for x in singles(a):
                for y in singles(b):
                    r |= _cmp1(t.args[0], x, y)
                    if r == BTOP:
                        return r
            return r
        if op == 'not':
            c = self.b(t.args[0])
            return ((BT if c & BF else 0) | (BF if c & BT else 0))
        if op in ('and', 'or', 'xor') and t.w == 1:
            a, b = self.b(t.args[0]), self.b(t.args[1])
            r = 0
            for x in (BF, BT):
                if not a & x:
                    continue
                for y in (BF, BT):
                    if not b & y:
                        continue
                    vx, vy = x == BT, y == BT
                    v = (vx and vy) if op == 'and' else (vx or vy) if op == 'or' else (vx != vy)
                    r |= BT if v else BF
            return r
        if op == 'select' and t.w == 1:
            c = self.b(t.args[0])
            r = 0
            if c & BT:
                r |= self.b(t.args[1])
            if c & BF:
                r |= self.b(t.args[2])
            return r
        if op == 'slice' and t.w == 1:
            # sign bit of a float
            x = t.args[0]
            if t.args[1] == x.w - 1 and x.w in (32, 64):
                m = self.f(x)
                if m & NAN:
                    return BTOP
                r = 0
                for s in singles(m):
                    r |= BT if _SIGN[s] < 0 else BF
                return r
        return BTOP


def sign_idiom(t):
    """recognise {x[0:w-1], s} bit patterns: returns (kind, x, y) or None"""
    if t.op != 'concat' or t.w not in (32, 64) or len(t.args) != 2:
        return None
    lo, hi = t.args
    if hi.w != 1 or lo.op != 'slice' or lo.args[1] != 0 or lo.args[0].w != t.w:
        return None
    x = lo.args[0]
    if hi.op == 'const':
        return ('fabs' if hi.args[0] == 0 else 'nfabs', x, None)
    sx = tm.slice_(x, t.w - 1, 1)
    if hi is tm.not_(sx):
        return ('fneg', x, None)
    return None


def differ(t1, t2, max_lanes=4, boolean=False):
    """search an assignment of float classes to the input lanes under which t1 and t2 provably evaluate to
    disjoint class sets.  returns (witness dict, set1, set2) or None"""
    lanes = sorted({x for x in tm.walk(t1) + tm.walk(t2) if x.op == 'in'}, key=lambda x: x.id)
    if len(lanes) > max_lanes:
        return None
    for combo in itertools.product(SINGLES, repeat=len(lanes)):
        env = dict(zip(lanes, combo))
        e = Eval(env)
        if boolean:
            a, b = e.b(t1), e.b(t2)
        else:
            a, b = e.f(t1), e.f(t2)
        if a and b and not (a & b):
            return ({tm.show(l): NAMES[c] for l, c in env.items()}, a, b)
    return None
