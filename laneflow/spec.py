"""A tiny DSL to write textbook/GLSL definitions as LaneFlow terms, and the generic comparison of a kernel lane
against such a definition (P domain first, O domain for comparison-only terms, term identity)."""
from fractions import Fraction
from . import term as tm
from . import poly as P
from . import order as O
from . import runner as R
from . import rulelib as L


class E:
    """float expression of width w"""
    __slots__ = ('t',)

    def __init__(self, t):
        self.t = t

    @property
    def w(self):
        return self.t.w

    def _c(self, o):
        if isinstance(o, E):
            return o
        return E(tm.fconst(self.t.w, float(o)))

    def __add__(a, b): return E(tm.arith('fadd', a.t, a._c(b).t))
    def __radd__(a, b): return a._c(b) + a
    def __sub__(a, b): return E(tm.arith('fsub', a.t, a._c(b).t))
    def __rsub__(a, b): return a._c(b) - a
    def __mul__(a, b): return E(tm.arith('fmul', a.t, a._c(b).t))
    def __rmul__(a, b): return a._c(b) * a
    def __truediv__(a, b): return E(tm.arith('fdiv', a.t, a._c(b).t))
    def __rtruediv__(a, b): return a._c(b) / a
    def __neg__(a): return E(tm.fneg(a.t))
    def lt(a, b): return tm.fcmp('olt', a.t, a._c(b).t)
    def le(a, b): return tm.fcmp('ole', a.t, a._c(b).t)
    def gt(a, b): return tm.fcmp('ogt', a.t, a._c(b).t)
    def ge(a, b): return tm.fcmp('oge', a.t, a._c(b).t)


def lane(name, ty, l):
    return E(L.in_term(name, ty, l))


def vecE(name, ty):
    return [lane(name, ty, i) for i in range(ty.n)]


def const(w, x):
    return E(tm.fconst(w, float(x)))


def sqrt(a):
    return E(tm.mk('sqrt', (a.t,), a.t.w))


def fabs(a):
    return E(tm.fabs(a.t))


def fn(name, *args):
    return E(tm.fn(name, [a.t for a in args], args[0].t.w))


def sel(c, a, b):
    return E(tm.select(c, a.t, b.t))


def gmin(x, y):
    """GLSL / GLM min: y < x ? y : x"""
    return sel(y.lt(x), y, x)


def gmax(x, y):
    """GLM max: x < y ? y : x"""
    return sel(x.lt(y), y, x)


def gclamp(x, lo, hi):
    return gmin(gmax(x, lo), hi)


def dot(a, b):
    s = a[0] * b[0]
    for x, y in zip(a[1:], b[1:]):
        s = s + x * y
    return s


def cross(a, b):
    return [a[1] * b[2] - b[1] * a[2], a[2] * b[0] - b[2] * a[0], a[0] * b[1] - b[0] * a[1]]


def vsub(a, b):
    return [x - y for x, y in zip(a, b)]


def vadd(a, b):
    return [x + y for x, y in zip(a, b)]


def vscale(a, s):
    return [x * s for x in a]


def normalize(a):
    r = 1 / sqrt(dot(a, a))
    return [x * r for x in a]


# ---------------------------------------------------------------------------------------------

def lift_bool_mul(t, memo=None):
    """x * float(c)  ->  select(c, x, x*0)   (c a 1-bit term): arithmetic encodings of a decision become selections"""
    memo = memo if memo is not None else {}

    def rec(x):
        if not isinstance(x, tm.T):
            return x
        r = memo.get(x)
        if r is not None:
            return r
        args = tuple(rec(a) for a in x.args)
        y = x if all(p is q for p, q in zip(args, x.args)) else tm.make(x.op, args, x.w)
        if y.op == 'fmul':
            for i in (0, 1):
                u = y.args[i]
                if u.op in ('uitofp', 'sitofp') and u.args[0].w == 1:
                    other = y.args[1 - i]
                    one = other if u.op == 'uitofp' else tm.fneg(other)
                    y = tm.select(u.args[0], one, tm.arith('fmul', other, tm.fconst(other.w, 0.0)))
                    break
        memo[x] = y
        return y
    return rec(t)


def compare(got, spec, axioms=(), pc=None, nan=True):
    """(status, detail) of a float lane `got` against its definition `spec` (both terms)"""
    if got is spec:
        return R.PROVED, 'term identical to the definition'
    if got.w == 64:
        nw = L.narrowing(got, 64)
        if nw is not None and L.narrowing(spec, 64) is None:
            return R.REFUTED, 'the 64-bit result passes through a %d-bit float (%s), the definition does not: float accuracy only, whatever the formula' % (nw.w, tm.show(nw, 3))
    pc = pc or P.PCtx()
    g2, s2 = lift_bool_mul(got), lift_bool_mul(spec)
    try:
        pg, ps = pc.fpoly(g2), pc.fpoly(s2)
        for ax in axioms:
            pg, ps = ax(pg), ax(ps)
    except (P.NonFinite, P.TooBig) as e:
        pg = ps = None
    if pg is not None:
        if pg == ps:
            return R.PROVED, 'ring-equal to the definition: ' + P.show_poly(ps, limit=5)
        d = pg - ps
        if L.lanes_only(d):
            return R.REFUTED, 'differs from the definition: got %s ; definition %s' % (P.show_poly(pg, limit=8), P.show_poly(ps, limit=8))
        r = P.decision_equal(g2, s2, nan=nan)
        if r is True:
            return R.PROVED, 'ring-equal to the definition under every valuation of the comparison atoms'
        if r:
            return R.REFUTED, 'decision differs from the definition whenever %s: got %s ; definition %s' % (r[1], P.show_poly(r[2], limit=5), P.show_poly(r[3], limit=5))
    if O.in_fragment(got) and O.in_fragment(spec):
        r = O.equivalent(got, spec, nan=nan)
        if r is True:
            return R.PROVED, 'same selection as the definition in every ordering%s case' % (' x NaN' if nan else '')
        if r:
            return R.REFUTED, 'selection differs from the definition in case [%s]: got %s, definition %s' % (r[1], r[2], r[3])
    # last resort for a refutation: an exact rational point at which the two terms (real-arithmetic reading) evaluate to clearly different numbers
    from . import exact as X
    w = X.separate(got, spec)
    if w is not None:
        env, a, b = w
        if abs(a - b) > Fraction(1, 1000) * max(1, abs(a), abs(b)):
            return R.REFUTED, 'differs from the definition at %s: got %s, definition %s' % (X.show_env(env), a, b)
    gw = gross_witness(got, spec)
    if gw is not None:
        return R.REFUTED, 'differs from the definition: %s' % gw
    if pg is not None:
        # normal forms over lanes, inverses, square roots and sines / cosines of independent angles: an exact rational point (angles as rational points of the
        # unit circle) at which they take different values refutes the identity
        try:
            d = P.reduce_inv(pg - ps)
            env = P.find_witness('gt', P.Poly.const(1), [d], tries=200) if (not d.is_zero() and P.transparent(d)) else None
            if env is not None:
                for a_ in P.lane_atoms([pg, ps]):
                    env.setdefault(a_, Fraction(1))
                va, vb = P.eval_poly(pg, env), P.eval_poly(ps, env)
                if va != vb:
                    return R.REFUTED, 'differs from the definition at %s: got %s, definition %s' % (P.show_env(env), va, vb)
        except (P.CantEval, P.NonFinite, P.TooBig, ZeroDivisionError):
            pass
        return R.UNDECIDED, 'normal forms differ in opaque atoms: got %s ; definition %s' % (P.show_poly(pg, limit=5), P.show_poly(ps, limit=5))
    return R.UNDECIDED, 'no normal form'


_GW_VALUES = (1.0, -1.0, 0.0, 2.0, 0.5, -3.0, 0.25, -0.5, 3.0, 1.5, -2.0, 0.75)


def gross_witness(got, spec, need=2, rel=1e-2):
    """concrete evaluation of the two derived terms (IEEE arithmetic of their own width) at a fixed list of small exactly representable inputs: when both are finite at
    `need` points and differ there by more than `rel` of their magnitude (orders of magnitude above any reassociation or contraction difference at such inputs), the
    points are returned as the witness.  Used for refutation only."""
    from . import ceval as CE
    ins = sorted({x for t in (got, spec) for x in tm.walk(t) if x.op == 'in'}, key=lambda q: (str(q.args[0]), q.args[1], q.w))
    if not ins or len(ins) > 16 or any(x.w not in (32, 64) for x in ins):
        return None
    found = []
    state = 12345
    for trial in range(48):
        combo = []
        for _ in ins:
            state = (state * 1103515245 + 12345) & 0x7fffffff
            combo.append(_GW_VALUES[(state >> 16) % len(_GW_VALUES)])
        def ev(vals):
            env = {x: CE.f2b(x.w, v) for x, v in zip(ins, vals)}
            a_, b_ = CE.b2f(got.w, CE.evaluate(got, env, approx=True)), CE.b2f(spec.w, CE.evaluate(spec, env, approx=True))
            if a_ != a_ or b_ != b_ or abs(a_) == float('inf') or abs(b_) == float('inf'):
                raise ValueError('not finite')
            return a_, b_
        try:
            a, b = ev(combo)
        except Exception:
            continue
        if abs(a - b) > rel * max(1.0, abs(a), abs(b)):
            # the point must be well conditioned for both terms: a tiny relative perturbation of every input (far above rounding, far below the claimed difference)
            # may move neither value by more than a tenth of the tolerance - a point where a cancellation is normalised or divided by (a singular matrix handed to a
            # factorisation, a zero-length vector) amplifies rounding noise to order one and proves nothing
            dl = 2.0 ** (-12 if min(x.w for x in ins) == 32 else -24)
            pert = [(v * (1 + dl * (1 if i % 2 else -1))) if v != 0 else dl * (1 if i % 2 else -1) for i, v in enumerate(combo)]
            try:
                a2, b2 = ev(pert)
            except Exception:
                continue
            tol = 0.1 * rel * max(1.0, abs(a), abs(b))
            if abs(a2 - a) > tol or abs(b2 - b) > tol:
                continue
            found.append('at %s: got %r, definition %r' % (', '.join('%s = %r' % (tm.show(x), v) for x, v in zip(ins, combo)), a, b))
            if len(found) >= need:
                return ' ; '.join(found)
    return None


NAN_PROPAGATING = {'fadd', 'fsub', 'fmul', 'fdiv', 'fneg', 'fma', 'sqrt', 'fpext', 'fptrunc', 'fabs'}


def unguarded_uses(root, pred):
    """sub-terms x with pred(x) that reach `root` through NaN-propagating float arithmetic only (no select / compare /
    min / max on the way).  If x can be NaN for inputs of the domain, so is the result for those inputs."""
    out = []
    seen = set()
    stack = [root]
    while stack:
        t = stack.pop()
        if t in seen:
            continue
        seen.add(t)
        if pred(t):
            out.append(t)
        if t.op in NAN_PROPAGATING:
            for a in t.args:
                if isinstance(a, tm.T):
                    stack.append(a)
        elif t.op == 'concat':
            pass
    return out
