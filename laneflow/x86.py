"""Lane-wise transfer functions for the x86 intrinsics that survive clang's lowering (Intel SDM pseudo-code).
An intrinsic that is not in this table yields None -> Unsupported -> UNDECIDED, never a guess."""
from . import term as tm


def _lanes(v, w):
    return [tm.slice_(v, i * w, w) for i in range(v.w // w)]


def _fw(name):
    if name.endswith(('.ps', '.ss', '.ps.256')):
        return 32
    if name.endswith(('.pd', '.sd', '.pd.256')):
        return 64
    return None


def x86_min(a, b):
    """MINPS: a < b ? a : b  (returns b if either is NaN or both are zero)"""
    return tm.select(tm.fcmp('olt', a, b), a, b)


def x86_max(a, b):
    return tm.select(tm.fcmp('ogt', a, b), a, b)


_CMP_PRED = {0: 'oeq', 1: 'olt', 2: 'ole', 3: 'uno', 4: 'une', 5: 'uge', 6: 'ugt', 7: 'ord',
             8: 'ueq', 9: 'ult', 10: 'ule', 11: 'false', 12: 'one', 13: 'oge', 14: 'ogt', 15: 'true',
             16: 'oeq', 17: 'olt', 18: 'ole', 19: 'uno', 20: 'une', 21: 'uge', 22: 'ugt', 23: 'ord',
             24: 'ueq', 25: 'ult', 26: 'ule', 27: 'false', 28: 'one', 29: 'oge', 30: 'ogt', 31: 'true'}


def transfer(it, name, args, ty):
    n = name[len('llvm.x86.'):]
    parts = n.split('.')
    # --- packed / scalar min max
    if n in ('sse.min.ps', 'sse.max.ps', 'sse2.min.pd', 'sse2.max.pd', 'avx.min.ps.256', 'avx.max.ps.256', 'avx.min.pd.256', 'avx.max.pd.256'):
        w = _fw(n)
        f = x86_min if '.min.' in n else x86_max
        return tm.concat([f(x, y) for x, y in zip(_lanes(args[0], w), _lanes(args[1], w))])
    if n in ('sse.min.ss', 'sse.max.ss', 'sse2.min.sd', 'sse2.max.sd'):
        w = _fw(n)
        f = x86_min if '.min.' in n else x86_max
        a, b = _lanes(args[0], w), _lanes(args[1], w)
        return tm.concat([f(a[0], b[0])] + a[1:])
    # --- approximations: opaque atoms that only lowp code may contain
    if n in ('sse.rcp.ps', 'avx.rcp.ps.256'):
        return tm.concat([tm.fn('x86.rcp', [x], 32) for x in _lanes(args[0], 32)])
    if n in ('sse.rsqrt.ps', 'avx.rsqrt.ps.256'):
        return tm.concat([tm.fn('x86.rsqrt', [x], 32) for x in _lanes(args[0], 32)])
    if n in ('sse.rcp.ss', 'sse.rsqrt.ss'):
        a = _lanes(args[0], 32)
        return tm.concat([tm.fn('x86.' + parts[1], [a[0]], 32)] + a[1:])
    if n in ('sse.sqrt.ss',):
        a = _lanes(args[0], 32)
        return tm.concat([tm.mk('sqrt', (a[0],), 32)] + a[1:])
    # --- dot product
    if n in ('sse41.dpps', 'sse41.dppd'):
        w = 32 if n.endswith('ps') else 64
        a, b = _lanes(args[0], w), _lanes(args[1], w)
        imm = args[2]
        if imm.op != 'const':
            return None
        m = imm.args[0]
        cnt = len(a)
        hi = m >> 4
        terms = [tm.arith('fmul', a[i], b[i]) for i in range(cnt) if (hi >> i) & 1]
        if not terms:
            s = tm.zeros(w)
        elif cnt == 4 and len(terms) == 4:
            # SDM: tmp1 = t0+t1 ; tmp2 = t2+t3 ; sum = tmp1+tmp2
            s = tm.arith('fadd', tm.arith('fadd', terms[0], terms[1]), tm.arith('fadd', terms[2], terms[3]))
        else:
            s = terms[0]
            for t in terms[1:]:
                s = tm.arith('fadd', s, t)
        return tm.concat([s if (m >> i) & 1 else tm.zeros(w) for i in range(cnt)])
    # --- horizontal add
    if n in ('sse3.hadd.ps', 'sse3.hadd.pd', 'sse3.hsub.ps', 'sse3.hsub.pd'):
        w = _fw(n)
        a, b = _lanes(args[0], w), _lanes(args[1], w)
        op = 'fadd' if 'hadd' in n else 'fsub'
        out = [tm.arith(op, a[i], a[i + 1]) for i in range(0, len(a), 2)] + [tm.arith(op, b[i], b[i + 1]) for i in range(0, len(b), 2)]
        return tm.concat(out)
    # --- rounding
    if n in ('sse41.round.ps', 'sse41.round.pd', 'avx.round.ps.256', 'avx.round.pd.256'):
        w = _fw(n)
        imm = args[1]
        if imm.op != 'const':
            return None
        mode = imm.args[0] & 7
        fnname = {0: 'roundeven', 1: 'floor', 2: 'ceil', 3: 'trunc', 4: 'rint'}.get(mode)
        if fnname is None:
            return None
        return tm.concat([tm.fn(fnname, [x], w) for x in _lanes(args[0], w)])
    if n in ('sse41.round.ss', 'sse41.round.sd'):
        w = _fw(n)
        imm = args[2]
        if imm.op != 'const':
            return None
        fnname = {0: 'roundeven', 1: 'floor', 2: 'ceil', 3: 'trunc', 4: 'rint'}.get(imm.args[0] & 7)
        if fnname is None:
            return None
        a, b = _lanes(args[0], w), _lanes(args[1], w)
        return tm.concat([tm.fn(fnname, [b[0]], w)] + a[1:])
    # --- compares producing masks
    if n in ('sse.cmp.ps', 'sse2.cmp.pd', 'avx.cmp.ps.256', 'avx.cmp.pd.256'):
        w = _fw(n)
        imm = args[2]
        if imm.op != 'const':
            return None
        pred = _CMP_PRED[imm.args[0] & 31]
        return tm.concat([tm.sext(tm.fcmp(pred, x, y), w) for x, y in zip(_lanes(args[0], w), _lanes(args[1], w))])
    if n in ('sse.cmp.ss', 'sse2.cmp.sd'):
        w = _fw(n)
        imm = args[2]
        if imm.op != 'const':
            return None
        pred = _CMP_PRED[imm.args[0] & 31]
        a, b = _lanes(args[0], w), _lanes(args[1], w)
        return tm.concat([tm.sext(tm.fcmp(pred, a[0], b[0]), w)] + a[1:])
    if n in ('sse.movmsk.ps', 'sse2.movmsk.pd', 'avx.movmsk.ps.256', 'avx.movmsk.pd.256'):
        w = _fw(n)
        ls = _lanes(args[0], w)
        return tm.zext(tm.concat([tm.slice_(x, w - 1, 1) for x in ls]), 32)
    if n in ('sse41.ptestz', 'sse41.ptestc', 'sse41.ptestnzc', 'avx.ptestz.256', 'avx.ptestc.256', 'avx.ptestnzc.256'):
        # PTEST: ZF = ((a AND b) == 0), CF = ((NOT a AND b) == 0); testz returns ZF, testc CF, testnzc !ZF && !CF
        a, b = args[0], args[1]
        zf = tm.icmp('eq', tm.and_(a, b), tm.zeros(a.w))
        cf = tm.icmp('eq', tm.and_(tm.not_(a), b), tm.zeros(a.w))
        r = zf if 'ptestz' in n else cf if 'ptestc' in n else tm.and_(tm.not_(zf), tm.not_(cf))
        return tm.zext(r, 32)
    if n == 'sse2.pmovmskb.128':
        ls = _lanes(args[0], 8)
        return tm.zext(tm.concat([tm.slice_(x, 7, 1) for x in ls]), 32)
    # --- blend with variable mask: selects on the sign bit
    if n in ('sse41.blendvps', 'sse41.blendvpd', 'avx.blendv.ps.256', 'avx.blendv.pd.256'):
        w = 32 if 'ps' in n else 64
        return tm.concat([tm.select(tm.slice_(m, w - 1, 1), y, x) for x, y, m in zip(_lanes(args[0], w), _lanes(args[1], w), _lanes(args[2], w))])
    if n == 'sse41.pblendvb':
        return tm.concat([tm.select(tm.slice_(m, 7, 1), y, x) for x, y, m in zip(_lanes(args[0], 8), _lanes(args[1], 8), _lanes(args[2], 8))])
    # --- integer
    if n in ('ssse3.psign.d.128', 'ssse3.psign.w.128', 'ssse3.psign.b.128'):
        w = {'d': 32, 'w': 16, 'b': 8}[parts[2]]
        out = []
        for x, y in zip(_lanes(args[0], w), _lanes(args[1], w)):
            neg = tm.slice_(y, w - 1, 1)
            zero = tm.icmp('eq', y, tm.zeros(w))
            out.append(tm.select(zero, tm.zeros(w), tm.select(neg, tm.arith('sub', tm.zeros(w), x), x)))
        return tm.concat(out)
    if n in ('ssse3.pabs.d.128', 'ssse3.pabs.w.128', 'ssse3.pabs.b.128'):
        w = {'d': 32, 'w': 16, 'b': 8}[parts[2]]
        return tm.concat([tm.mk('iabs', (x,), w) for x in _lanes(args[0], w)])
    if n in ('sse2.pmulu.dq', 'sse41.pmuldq'):
        a, b = _lanes(args[0], 64), _lanes(args[1], 64)
        ext = tm.zext if n == 'sse2.pmulu.dq' else tm.sext
        return tm.concat([tm.arith('mul', ext(tm.slice_(x, 0, 32), 64), ext(tm.slice_(y, 0, 32), 64)) for x, y in zip(a, b)])
    if n in ('sse2.psrli.d', 'sse2.pslli.d', 'sse2.psrai.d', 'sse2.psrli.q', 'sse2.pslli.q', 'sse2.psrli.w', 'sse2.pslli.w', 'sse2.psrai.w',
             'avx2.psrli.d', 'avx2.pslli.d', 'avx2.psrai.d'):
        w = {'d': 32, 'q': 64, 'w': 16}[parts[2]]
        k = args[1]
        if k.op != 'const':
            return None
        cnt = k.args[0]
        kind = parts[1][1:4]
        out = []
        for x in _lanes(args[0], w):
            if kind == 'srl':
                out.append(tm.lshr(x, cnt) if cnt < w else tm.zeros(w))
            elif kind == 'sll':
                out.append(tm.shl(x, cnt) if cnt < w else tm.zeros(w))
            else:
                out.append(tm.ashr(x, min(cnt, w - 1)))
        return tm.concat(out)
    if n in ('fma.vfmadd.ps', 'fma.vfmadd.pd', 'fma.vfmadd.ps.256', 'fma.vfmadd.pd.256'):
        w = _fw(n)
        return tm.concat([tm.mk('fma', (a, b, c), w) for a, b, c in zip(_lanes(args[0], w), _lanes(args[1], w), _lanes(args[2], w))])
    if n in ('sse2.cvtdq2ps', 'sse2.cvtps2dq', 'sse2.cvttps2dq', 'avx.cvt.ps2dq.256', 'avx.cvtt.ps2dq.256'):
        ls = _lanes(args[0], 32)
        if n == 'sse2.cvtdq2ps':
            return tm.concat([tm.mk('sitofp', (x,), 32) for x in ls])
        if 'cvtt' in n:
            return tm.concat([tm.mk('x86.cvttps2dq', (x,), 32) for x in ls])
        return tm.concat([tm.mk('x86.cvtps2dq', (x,), 32) for x in ls])
    if n in ('ssse3.pshuf.b.128',):
        m = args[1]
        if m.op != 'const':
            return None
        src = _lanes(args[0], 8)
        out = []
        for i in range(16):
            c = (m.args[0] >> (8 * i)) & 0xff
            out.append(tm.zeros(8) if c & 0x80 else src[c & 15])
        return tm.concat(out)
    if n in ('avx.vpermilvar.ps', 'avx.vpermilvar.pd', 'avx2.permps', 'avx2.permd'):
        return None
    return None
