"""Descriptors of GLM types as the kernels see them: C++ spelling, element size, object size, lane offsets.

The layout numbers used here (L contiguous T, column-major matrices, aligned vec3 padded to 4 elements,
quaternion member order) are exactly the facts property C16 checks with compile-time witnesses on every
run; rules that consume them therefore rest on a checked, not an assumed, layout.
"""

SCALARS = {
    'float': ('float', 4, 'f'), 'double': ('double', 8, 'f'),
    'int': ('int', 4, 's'), 'uint': ('glm::uint', 4, 'u'),
    'int8': ('glm::int8', 1, 's'), 'int16': ('glm::int16', 2, 's'), 'int32': ('glm::int32', 4, 's'), 'int64': ('glm::int64', 8, 's'),
    'uint8': ('glm::uint8', 1, 'u'), 'uint16': ('glm::uint16', 2, 'u'), 'uint32': ('glm::uint32', 4, 'u'), 'uint64': ('glm::uint64', 8, 'u'),
    'bool': ('bool', 1, 'b'),
}
FLOATS = ('float', 'double')
INTS = ('int', 'uint')
SIZED = ('int8', 'int16', 'int32', 'int64', 'uint8', 'uint16', 'uint32', 'uint64')
QUALS = ('highp', 'mediump', 'lowp')
AQUALS = ('aligned_highp', 'aligned_mediump', 'aligned_lowp')


class Ty:
    def __init__(self, kind, cpp, elem, size, lanes, T, shape, Q=None):
        self.kind, self.cpp, self.elem, self.size, self.lanes, self.T, self.shape, self.Q = kind, cpp, elem, size, lanes, T, shape, Q
        self.tag = None

    def __repr__(self):
        return self.cpp

    @property
    def isfloat(self):
        return SCALARS[self.T][2] == 'f'

    @property
    def signed(self):
        return SCALARS[self.T][2] == 's'

    @property
    def n(self):
        return len(self.lanes)

    def off(self, *idx):
        return self.lanes[idx if len(idx) > 1 else idx[0]]


def _short(T):
    return {'float': 'f', 'double': 'd', 'int': 'i', 'uint': 'u', 'bool': 'b'}.get(T, T.replace('int', 'i').replace('ui', 'u'))


def scalar(T):
    cpp, sz, _ = SCALARS[T]
    t = Ty('scalar', cpp, sz, sz, {0: 0}, T, ())
    t.tag = _short(T)
    return t


def _stride(L, Q):
    return (4 if L == 3 else L) if Q.startswith('aligned') else L


def vec(L, T='float', Q='highp'):
    cpp, sz, _ = SCALARS[T]
    n = _stride(L, Q)
    t = Ty('vec', 'glm::vec<%d, %s, glm::%s>' % (L, cpp, Q), sz, n * sz, {i: i * sz for i in range(L)}, T, (L,), Q)
    t.tag = 'v%d%s%s' % (L, _short(T), '' if Q == 'highp' else '_' + Q)
    return t


def mat(C, R, T='float', Q='highp'):
    cpp, sz, _ = SCALARS[T]
    cs = _stride(R, Q) * sz
    lanes = {(c, r): c * cs + r * sz for c in range(C) for r in range(R)}
    t = Ty('mat', 'glm::mat<%d, %d, %s, glm::%s>' % (C, R, cpp, Q), sz, C * cs, lanes, T, (C, R), Q)
    t.tag = 'm%dx%d%s%s' % (C, R, _short(T), '' if Q == 'highp' else '_' + Q)
    t.colstride = cs
    return t


def quat(T='float', Q='highp', wxyz=False):
    cpp, sz, _ = SCALARS[T]
    order = 'wxyz' if wxyz else 'xyzw'
    lanes = {c: order.index(c) * sz for c in 'xyzw'}
    t = Ty('quat', 'glm::qua<%s, glm::%s>' % (cpp, Q), sz, 4 * sz, lanes, T, (4,), Q)
    t.tag = 'q%s%s' % (_short(T), '' if Q == 'highp' else '_' + Q)
    return t


def dualquat(T='float', Q='highp', wxyz=False):
    cpp, sz, _ = SCALARS[T]
    order = 'wxyz' if wxyz else 'xyzw'
    lanes = {}
    for part, base in (('real', 0), ('dual', 4 * sz)):
        for c in 'xyzw':
            lanes[(part, c)] = base + order.index(c) * sz
    t = Ty('dualquat', 'glm::tdualquat<%s, glm::%s>' % (cpp, Q), sz, 8 * sz, lanes, T, (8,), Q)
    t.tag = 'dq%s' % _short(T)
    return t
