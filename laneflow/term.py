"""Hash-consed term language of LaneFlow.

Every SSA value of a kernel is mapped to one term `T` with a bit width.  A vector, an ABI-coerced
integer, a packed bvec or a bit-field storage unit are all the same thing here: a `concat` of
narrower terms, low bits first.  Constructors normalise eagerly so that pure bit regrouping
(bitcast/trunc/zext/shifts and masks by constants/or-of-disjoint/shuffles) disappears and what is
left is *which input bits go where* (the B domain of DESIGN.md is the structure of these terms) and
*which arithmetic is applied to them* (read by the P/T/O domains).

Constants are untyped bit patterns `const(w, bits)`; float operations read them as IEEE values.
"""
import struct
from fractions import Fraction

_TABLE = {}
_NEXT = [0]


class T:
    __slots__ = ('op', 'args', 'w', 'id', '_h')

    def __repr__(self):
        return show(self)

    def __hash__(self):
        return self._h

    def __eq__(self, o):
        return self is o

    def __lt__(self, o):
        return self.id < o.id


def _key(a):
    return ('T', a.id) if isinstance(a, T) else a


def mk(op, args, w):
    """raw hash-consing constructor; no simplification"""
    k = (op, tuple(_key(a) for a in args), w)
    t = _TABLE.get(k)
    if t is None:
        t = T()
        t.op = op
        t.args = tuple(args)
        t.w = w
        t.id = _NEXT[0]
        _NEXT[0] += 1
        t._h = hash(k)
        _TABLE[k] = t
    return t


def reset():
    _TABLE.clear()
    _NEXT[0] = 0


# ---------------------------------------------------------------------------------------------
# leaves

def const(w, v):
    return mk('const', (v & ((1 << w) - 1),), w)


def is_const(t):
    return t.op == 'const'


def cval(t):
    return t.args[0]


def sval(t):
    v = t.args[0]
    return v - (1 << t.w) if v >> (t.w - 1) else v


def zeros(w):
    return const(w, 0)


def ones(w):
    return const(w, (1 << w) - 1)


def fconst(w, x):
    if w == 32:
        return const(32, struct.unpack('<I', struct.pack('<f', x))[0])
    if w == 64:
        return const(64, struct.unpack('<Q', struct.pack('<d', x))[0])
    raise ValueError(w)


def fval(t):
    """python float of a float constant term"""
    if t.w == 32:
        return struct.unpack('<f', struct.pack('<I', t.args[0]))[0]
    if t.w == 64:
        return struct.unpack('<d', struct.pack('<Q', t.args[0]))[0]
    if t.w == 16:
        return struct.unpack('<e', struct.pack('<H', t.args[0]))[0]
    raise ValueError(t.w)


def inp(arg, bitoff, w):
    """input lane: `w` bits at bit offset `bitoff` of the object behind pointer argument `arg`"""
    return mk('in', (arg, bitoff), w)


def undef(w, tag='undef'):
    return mk('undef', (tag,), w)


TRUE = None
FALSE = None


def _init():
    global TRUE, FALSE
    TRUE = const(1, 1)
    FALSE = const(1, 0)


_init()

# ---------------------------------------------------------------------------------------------
# concat / slice


def parts(t):
    return list(t.args) if t.op == 'concat' else [t]


def _merge2(a, b):
    """try to fuse two adjacent parts (a low, b high) into one term; None if not possible"""
    if a.op == 'const' and b.op == 'const':
        return const(a.w + b.w, a.args[0] | (b.args[0] << a.w))
    if a.op == 'slice' and b.op == 'slice' and a.args[0] is b.args[0] and a.args[1] + a.w == b.args[1]:
        return slice_(a.args[0], a.args[1], a.w + b.w)
    if a.op == 'in' and b.op == 'in':
        return None
    # a boolean replicated:  c ++ c == sext(c, 2) ; sext(c, k) ++ c == sext(c, k+1)
    if a.w == 1 and a is b and a.op != 'const':
        return mk('sext', (a,), 2)
    if a.op == 'sext' and a.args[0].w == 1 and (b is a.args[0] or (b.op == 'sext' and b.args[0] is a.args[0])):
        return mk('sext', (a.args[0],), a.w + b.w)
    if b.op == 'sext' and b.args[0].w == 1 and a is b.args[0]:
        return mk('sext', (a,), 1 + b.w)
    if a.op == b.op and a.op in ('and', 'or', 'xor') and len(a.args) == len(b.args) == 2:
        x = _merge2(a.args[0], b.args[0])
        y = _merge2(a.args[1], b.args[1])
        if x is not None and y is not None:
            return bitop(a.op, x, y)
        x = _merge2(a.args[0], b.args[1])
        y = _merge2(a.args[1], b.args[0])
        if x is not None and y is not None:
            return bitop(a.op, x, y)
        return None
    if a.op == 'not' and b.op == 'not':
        x = _merge2(a.args[0], b.args[0])
        return not_(x) if x is not None else None
    if a.op == 'select' and b.op == 'select' and a.args[0] is b.args[0]:
        x = _merge2(a.args[1], b.args[1])
        y = _merge2(a.args[2], b.args[2])
        if x is not None and y is not None:
            return select(a.args[0], x, y)
        # keep as select of concats: the condition is what matters
        return select(a.args[0], concat([a.args[1], b.args[1]]), concat([a.args[2], b.args[2]]))
    if b.op == 'sextbits' and b.args[0] is a:
        # a ++ replicate(msb(a)) == sext(a)
        return sext(a, a.w + b.w)
    if a.op == 'sext' and b.op == 'sextbits' and b.args[0] is a.args[0]:
        return sext(a.args[0], a.w + b.w)
    if a.op == 'sextbits' and b.op == 'sextbits' and a.args[0] is b.args[0]:
        return mk('sextbits', (a.args[0],), a.w + b.w)
    return None


def concat(ps):
    """ps: list of terms, low to high"""
    flat = []
    for p in ps:
        if p.w == 0:
            continue
        if p.op == 'concat':
            flat.extend(p.args)
        else:
            flat.append(p)
    out = []
    for p in flat:
        while out:
            m = _merge2(out[-1], p)
            if m is None:
                break
            out.pop()
            if m.op == 'concat':
                # merged into select-of-concats etc. never returns concat at top, but be safe
                out.extend(m.args[:-1])
                p = m.args[-1]
                break
            p = m
        out.append(p)
    if len(out) == 1:
        return out[0]
    return mk('concat', out, sum(p.w for p in out))


_BITWISE = ('and', 'or', 'xor')


def slice_(t, lo, w):
    assert 0 <= lo and lo + w <= t.w and w > 0, (t, lo, w)
    if lo == 0 and w == t.w:
        return t
    op = t.op
    if op == 'const':
        return const(w, t.args[0] >> lo)
    if op == 'concat':
        out = []
        pos = 0
        for p in t.args:
            a = max(lo, pos)
            b = min(lo + w, pos + p.w)
            if a < b:
                out.append(slice_(p, a - pos, b - a))
            pos += p.w
            if pos >= lo + w:
                break
        return concat(out)
    if op == 'slice':
        return slice_(t.args[0], t.args[1] + lo, w)
    if op == 'add' and lo > 0:
        # the upper half of a widened addition {p, 0} + {q, 0} is the carry-out of p + q
        p0, q0 = _zext_src(t.args[0]), _zext_src(t.args[1])
        if p0 is not None and q0 is not None and p0.w == q0.w == lo:
            return zext(carry(p0, q0), w) if w > 1 else carry(p0, q0)
    if op in _BITWISE:
        return bitop(op, slice_(t.args[0], lo, w), slice_(t.args[1], lo, w))
    if op == 'not':
        return not_(slice_(t.args[0], lo, w))
    if op == 'select':
        return select(t.args[0], slice_(t.args[1], lo, w), slice_(t.args[2], lo, w))
    if op == 'sext':
        x = t.args[0]
        if lo + w <= x.w:
            return slice_(x, lo, w)
        if lo >= x.w:
            return mk('sextbits', (x,), w) if x.w > 1 else (x if w == 1 else sext(x, w))
        return concat([slice_(x, lo, x.w - lo), slice_(t, x.w, lo + w - x.w)])
    if op == 'sextbits':
        return mk('sextbits', (t.args[0],), w)
    if op == 'undef':
        return undef(w, t.args[0])
    if op == 'shl' and lo == 0:
        # low bits of a left shift depend only on the low bits of the shifted value
        return mk('shl', (slice_(t.args[0], 0, w), t.args[1]), w)
    if op == 'lshr' and lo + w == t.w:
        return mk('lshr', (slice_(t.args[0], lo, w), t.args[1]), w)
    if op in ('add', 'sub', 'mul') and lo > 0:
        # SWAR forms produced for ABI-coerced narrow vectors: no carry/borrow can enter bit `lo` when the
        # low `lo` bits of one operand are zero; a product of operands with k low zero bits is a shifted product
        x, y = t.args
        zx, zy = _low_zero_bits(x), _low_zero_bits(y)
        if op == 'add' and (zx >= lo or zy >= lo):
            return arith('add', slice_(x, lo, w), slice_(y, lo, w))
        if op == 'sub' and zy >= lo:
            return arith('sub', slice_(x, lo, w), slice_(y, lo, w))
        if op == 'mul' and 0 < zx + zy <= lo and zx < x.w and zy < y.w:
            k = zx + zy
            m = lo - k + w
            xs = slice_(x, zx, x.w - zx)
            ys = slice_(y, zy, y.w - zy)
            xs = slice_(xs, 0, m) if xs.w >= m else zext(xs, m)
            ys = slice_(ys, 0, m) if ys.w >= m else zext(ys, m)
            return slice_(arith('mul', xs, ys), lo - k, w)
    if op in ('add', 'sub', 'mul') and lo == 0:
        # low bits of a ring operation depend only on the low bits of its operands
        return arith(op, slice_(t.args[0], 0, w), slice_(t.args[1], 0, w))
    return mk('slice', (t, lo), w)


def _low_zero_bits(t):
    if t.op == 'const':
        v = t.args[0]
        if v == 0:
            return t.w
        n = 0
        while not (v >> n) & 1:
            n += 1
        return n
    if t.op == 'concat':
        n = 0
        for p in t.args:
            z = _low_zero_bits(p)
            n += z
            if z < p.w:
                break
        return n
    return 0


def _align(a, b):
    """split two same-width terms at the union of their part boundaries"""
    pa, pb = parts(a), parts(b)
    cuts = set()
    pos = 0
    for p in pa:
        pos += p.w
        cuts.add(pos)
    pos = 0
    for p in pb:
        pos += p.w
        cuts.add(pos)
    cuts = sorted(cuts)
    sa, sb = [], []
    lo = 0
    for c in cuts:
        sa.append(slice_(a, lo, c - lo))
        sb.append(slice_(b, lo, c - lo))
        lo = c
    return sa, sb


def _const_runs(v, w):
    """maximal runs of equal bits in the w-bit constant v: [(lo, len, bit)]"""
    runs = []
    i = 0
    while i < w:
        b = (v >> i) & 1
        j = i
        while j < w and ((v >> j) & 1) == b:
            j += 1
        runs.append((i, j - i, b))
        i = j
    return runs


def _bit1(op, a, b):
    """bitwise op on two terms with no concat structure to exploit (same width)"""
    w = a.w
    if a.op == 'const' and b.op == 'const':
        x, y = a.args[0], b.args[0]
        return const(w, x & y if op == 'and' else x | y if op == 'or' else x ^ y)
    if b.op == 'const' and a.op != 'const':
        pass
    elif a.op == 'const':
        a, b = b, a
    if b.op == 'const' and a.op == 'select' and a.args[1].op == 'const' and a.args[2].op == 'const':
        return select(a.args[0], _bit1(op, a.args[1], b), _bit1(op, a.args[2], b))
    if b.op == 'const' and op == 'and' and _mask_cond(a) is not None and b.args[0] not in (0, (1 << w) - 1):
        # and(replicated bool, K) is select(c, K, 0): keep the constant whole (step(): mask & 1.0f)
        return select(_mask_cond(a), b, zeros(w))
    if b.op == 'const':
        v = b.args[0]
        full = (1 << w) - 1
        if op == 'and':
            if v == 0:
                return b
            if v == full:
                return a
        elif op == 'or':
            if v == 0:
                return a
            if v == full:
                return b
        else:
            if v == 0:
                return a
            if v == full:
                return not_(a)
        # mixed constant: split into runs so that masks become slices
        runs = _const_runs(v, w)
        if len(runs) > 1:
            out = []
            for lo, n, bit in runs:
                out.append(_bit1(op, slice_(a, lo, n), const(n, (1 << n) - 1 if bit else 0)))
            return concat(out)
    if a is b:
        return a if op in ('and', 'or') else zeros(w)
    if a.op == 'not' and a.args[0] is b or b.op == 'not' and b.args[0] is a:
        return zeros(w) if op == 'and' else ones(w)
    # masks made of a replicated boolean:  and(sext c, x) -> select(c, x, 0)
    ca, cb = _mask_cond(a), _mask_cond(b)
    if ca is not None and cb is None:
        a, b, ca, cb = b, a, cb, ca
    if cb is not None:
        # b is replicate(cb)
        if op == 'and':
            return select(cb, a, zeros(w))
        if op == 'or':
            return select(cb, ones(w), a)
        return select(cb, not_(a), a)
    if a.op == 'select' and b.op == 'select' and a.args[0] is b.args[0]:
        return select(a.args[0], bitop(op, a.args[1], b.args[1]), bitop(op, a.args[2], b.args[2]))
    if op in ('or', 'xor') and a.op == 'select' and b.op == 'select' and _is_zero(a.args[2]) and _is_zero(b.args[2]) and exclusive(a.args[0], b.args[0]):
        # masks of mutually exclusive conditions:  (c1 ? K1 : 0) | (c2 ? K2 : 0)  ==  c1 ? K1 : (c2 ? K2 : 0)
        return select(a.args[0], a.args[1], select(b.args[0], b.args[1], zeros(w)))
    if w == 1:
        r = _bool_simpl(op, a, b)
        if r is not None:
            return r
    x, y = (a, b) if a.id <= b.id else (b, a)
    return mk(op, (x, y), w)


def _is_zero(t):
    return t.op == 'const' and t.args[0] == 0


_REL = {'oeq': {'eq'}, 'one': {'lt', 'gt'}, 'olt': {'lt'}, 'ole': {'lt', 'eq'}, 'ord': {'lt', 'eq', 'gt'},
        'ueq': {'eq', 'uno'}, 'une': {'lt', 'gt', 'uno'}, 'ult': {'lt', 'uno'}, 'ule': {'lt', 'eq', 'uno'}, 'uno': {'uno'}}
_FLIP = {'lt': 'gt', 'gt': 'lt', 'eq': 'eq', 'uno': 'uno'}


def exclusive(c1, c2):
    """two float compares on the same operand pair that cannot hold together"""
    if c1.op != 'fcmp' or c2.op != 'fcmp':
        return False
    r1, r2 = _REL.get(c1.args[0]), _REL.get(c2.args[0])
    if r1 is None or r2 is None:
        return False
    if c1.args[1] is c2.args[1] and c1.args[2] is c2.args[2]:
        return not (r1 & r2)
    if c1.args[1] is c2.args[2] and c1.args[2] is c2.args[1]:
        return not (r1 & {_FLIP[x] for x in r2})
    return False


def _bool_simpl(op, a, b):
    # (p & c) | (p & !c) -> p ; handled lightly
    if op == 'or' and a.op == 'and' and b.op == 'and':
        for i in (0, 1):
            for j in (0, 1):
                if a.args[i] is b.args[j]:
                    x, y = a.args[1 - i], b.args[1 - j]
                    if not_(x) is y:
                        return a.args[i]
    return None


def _mask_cond(t):
    """if t is a boolean replicated over its whole width (sext of i1), return the boolean"""
    if t.op == 'sext' and t.args[0].w == 1:
        return t.args[0]
    return None


def bitop(op, a, b):
    assert a.w == b.w, (op, a, b)
    if a.op == 'concat' or b.op == 'concat':
        sa, sb = _align(a, b)
        if len(sa) > 1:
            return concat([_bit1(op, x, y) if x.op != 'concat' and y.op != 'concat' else bitop(op, x, y)
                           for x, y in zip(sa, sb)])
    return _bit1(op, a, b)


def and_(a, b):
    return bitop('and', a, b)


def or_(a, b):
    return bitop('or', a, b)


def xor(a, b):
    return bitop('xor', a, b)


_INV_F = {'oeq': 'une', 'une': 'oeq', 'ogt': 'ule', 'ule': 'ogt', 'oge': 'ult', 'ult': 'oge', 'olt': 'uge',
          'uge': 'olt', 'ole': 'ugt', 'ugt': 'ole', 'one': 'ueq', 'ueq': 'one', 'ord': 'uno', 'uno': 'ord',
          'true': 'false', 'false': 'true'}
_INV_I = {'eq': 'ne', 'ne': 'eq', 'ugt': 'ule', 'ule': 'ugt', 'uge': 'ult', 'ult': 'uge', 'sgt': 'sle', 'sle': 'sgt',
          'sge': 'slt', 'slt': 'sge'}
_SWAP = {'ogt': 'olt', 'oge': 'ole', 'ugt': 'ult', 'uge': 'ule', 'sgt': 'slt', 'sge': 'sle'}


def not_(a):
    if a.op == 'const':
        return const(a.w, ~a.args[0])
    if a.op == 'not':
        return a.args[0]
    if a.op == 'concat':
        return concat([not_(p) for p in a.args])
    if a.op == 'fcmp':
        return fcmp(_INV_F[a.args[0]], a.args[1], a.args[2])
    if a.op == 'icmp':
        return icmp(_INV_I[a.args[0]], a.args[1], a.args[2])
    if a.op == 'sext' and a.args[0].w == 1:
        return sext(not_(a.args[0]), a.w)
    if a.op == 'select' and a.w == 1:
        return select(a.args[0], not_(a.args[1]), not_(a.args[2]))
    if a.w == 1 and a.op in ('and', 'or'):
        return bitop('or' if a.op == 'and' else 'and', not_(a.args[0]), not_(a.args[1]))
    return mk('not', (a,), a.w)


def fcmp(pred, a, b):
    if pred in _SWAP:
        pred, a, b = _SWAP[pred], b, a
    if pred in ('oeq', 'one', 'ueq', 'une', 'ord', 'uno') and b.id < a.id:
        a, b = b, a
    if pred == 'true':
        return TRUE
    if pred == 'false':
        return FALSE
    if a.op == 'const' and b.op == 'const' and a.w in (32, 64):
        x, y = fval(a), fval(b)
        uno = x != x or y != y
        if uno:
            r = pred[0] == 'u' and pred != 'uno' or pred == 'uno'
        elif pred == 'ord':
            r = True
        elif pred == 'uno':
            r = False
        else:
            r = {'eq': x == y, 'ne': x != y, 'lt': x < y, 'le': x <= y}[pred[1:]]
        return TRUE if r else FALSE
    return mk('fcmp', (pred, a, b), 1)


def ubounds(t, depth=0):
    """(lo, hi) bounds of the unsigned value of t from its known bits: constants, concatenations (unknown bits 0 / 1), zero extensions, additions that cannot wrap"""
    full = (0, (1 << t.w) - 1)
    if depth > 6:
        return full
    if t.op == 'const':
        return (t.args[0], t.args[0])
    if t.op == 'concat':
        lo = hi = pos = 0
        for p_ in t.args:
            l_, h_ = ubounds(p_, depth + 1)
            lo |= l_ << pos
            hi |= h_ << pos
            pos += p_.w
        return (lo, hi)
    if t.op == 'add':
        (la, ha), (lb, hb) = ubounds(t.args[0], depth + 1), ubounds(t.args[1], depth + 1)
        if ha + hb < (1 << t.w):
            return (la + lb, ha + hb)
        return full
    if t.op == 'select':
        (la, ha), (lb, hb) = ubounds(t.args[1], depth + 1), ubounds(t.args[2], depth + 1)
        return (min(la, lb), max(ha, hb))
    if t.op == 'slice' and t.args[1] == 0:
        l_, h_ = ubounds(t.args[0], depth + 1)
        if h_ < (1 << t.w):
            return (l_, h_)
    return full


def icmp(pred, a, b):
    if pred in _SWAP:
        pred, a, b = _SWAP[pred], b, a
    if pred == 'ult' and a.op == 'add' and len(a.args) == 2 and a.w == b.w and (b is a.args[0] or b is a.args[1]) and a.args[0].op != 'const' and a.args[1].op != 'const':
        # (p + q) < p  and  (p + q) < q  are the same carry-out: one canonical representative whichever operand the code (or a substitution) names
        p_, q_ = a.args
        if q_.id < p_.id:
            p_, q_ = q_, p_
        return mk('icmp', ('ult', a, p_), 1)
    if pred in ('ult', 'ule') and (a.op in ('add', 'concat', 'select') or b.op in ('add', 'concat', 'select')) and not (a.op == 'const' and b.op == 'const'):
        (la, ha), (lb, hb) = ubounds(a), ubounds(b)
        if (ha < lb) if pred == 'ult' else (ha <= lb):
            return TRUE
        if (la >= hb) if pred == 'ult' else (la > hb):
            return FALSE
    if a.op == 'const' and b.op == 'const':
        x, y = a.args[0], b.args[0]
        sx, sy = sval(a), sval(b)
        r = {'eq': x == y, 'ne': x != y, 'ult': x < y, 'ule': x <= y, 'slt': sx < sy, 'sle': sx <= sy}[pred]
        return TRUE if r else FALSE
    # a selection between constants compared with a constant: compare in each arm
    for x_, y_, left in ((a, b, True), (b, a, False)):
        if x_.op == 'select' and y_.op == 'const' and x_.args[1].op == 'const' and x_.args[2].op == 'const':
            r1 = icmp(pred, x_.args[1], y_) if left else icmp(pred, y_, x_.args[1])
            r2 = icmp(pred, x_.args[2], y_) if left else icmp(pred, y_, x_.args[2])
            return select(x_.args[0], r1, r2)
    # unsigned order against a constant decided by the known bits of a concatenation (value range with the unknown bits all 0 / all 1)
    if pred in ('ult', 'ule'):
        for x_, y_, left in ((a, b, True), (b, a, False)):
            if x_.op == 'concat' and y_.op == 'const' and any(p_.op == 'const' for p_ in x_.args):
                lo = hi = pos = 0
                for p_ in x_.args:
                    if p_.op == 'const':
                        lo |= p_.args[0] << pos
                        hi |= p_.args[0] << pos
                    else:
                        hi |= ((1 << p_.w) - 1) << pos
                    pos += p_.w
                cv = y_.args[0]
                if left:      # x PRED c
                    if (hi < cv) if pred == 'ult' else (hi <= cv):
                        return TRUE
                    if (lo >= cv) if pred == 'ult' else (lo > cv):
                        return FALSE
                else:         # c PRED x
                    if (cv < lo) if pred == 'ult' else (cv <= lo):
                        return TRUE
                    if (cv >= hi) if pred == 'ult' else (cv > hi):
                        return FALSE
    # sign tests are the most significant bit:  x <s 0  ==  msb(x) ;  -1 <s x  ==  !msb(x) ;  x <=s -1 == msb ; 0 <=s x == !msb
    if pred in ('slt', 'sle') and a.w > 1:
        w_ = a.w
        if pred == 'slt' and b.op == 'const' and b.args[0] == 0:
            return slice_(a, w_ - 1, 1)
        if pred == 'slt' and a.op == 'const' and a.args[0] == (1 << w_) - 1:
            return not_(slice_(b, w_ - 1, 1))
        if pred == 'sle' and b.op == 'const' and b.args[0] == (1 << w_) - 1:
            return slice_(a, w_ - 1, 1)
        if pred == 'sle' and a.op == 'const' and a.args[0] == 0:
            return not_(slice_(b, w_ - 1, 1))
    # equality with a constant only concerns the non-constant parts of a concat
    if pred in ('eq', 'ne'):
        k_, y_ = (a, b) if a.op == 'const' else (b, a)
        if k_.op == 'const' and y_.op == 'concat':
            pos = 0
            var = []
            mismatch = False
            for p_ in y_.args:
                ks = (k_.args[0] >> pos) & ((1 << p_.w) - 1)
                if p_.op == 'const':
                    if p_.args[0] != ks:
                        mismatch = True
                else:
                    var.append((p_, ks))
                pos += p_.w
            if mismatch:
                return FALSE if pred == 'eq' else TRUE
            if len(var) == 1:
                return icmp(pred, var[0][0], const(var[0][0].w, var[0][1]))
            if var and len(var) <= 8:
                # a concatenation equals a constant iff every part equals its share of it (single bits: a movemask against a constant;
                # whole lanes: a vector compared with zero)
                r = None
                for p_, ks in var:
                    b_ = (p_ if ks else not_(p_)) if p_.w == 1 else icmp('eq', p_, const(p_.w, ks))
                    r = b_ if r is None else and_(r, b_)
                return r if pred == 'eq' else not_(r)
    # (p ^ q) == 0  is  p == q
    if pred in ('eq', 'ne'):
        z, y = (a, b) if (a.op == 'const' and a.args[0] == 0) else (b, a)
        if z.op == 'const' and z.args[0] == 0 and y.op == 'xor' and y.w > 1:
            return icmp(pred, y.args[0], y.args[1])
    if pred in ('eq', 'ne') and b.id < a.id:
        a, b = b, a
    if a is b:
        return TRUE if pred in ('eq', 'ule', 'sle') else FALSE
    # carry out of an addition done in double width:  2^w <= zext(p)+zext(q)   ==   (p+q) mod 2^w < p
    if pred in ('ule', 'ult') and a.op == 'const' and b.op == 'add':
        r = _carry_pattern(pred, a, b)
        if r is not None:
            return r
    # (x & (x-1)) == 0   ==   popcount(x) < 2
    if pred in ('eq', 'ne'):
        z, y = (a, b) if a.op == 'const' else (b, a)
        if z.op == 'const' and z.args[0] == 0 and y.op == 'and':
            for i in (0, 1):
                x, m = y.args[i], y.args[1 - i]
                if m.op == 'add' and any(k.op == 'const' and k.args[0] == (1 << k.w) - 1 for k in m.args) and x in m.args:
                    r = mk('icmp', ('ult', mk('ctpop', (x,), x.w), const(x.w, 2)), 1)
                    return r if pred == 'eq' else not_(r)
    if pred in ('eq', 'ne') and a.w > 1:
        # zext(bool) compared with 0 / 1
        x, y = (a, b) if b.op == 'const' else (b, a)
        if y.op == 'const' and y.args[0] in (0, 1) and x.op == 'concat' and len(x.args) == 2 and x.args[0].w == 1 \
                and x.args[1].op == 'const' and x.args[1].args[0] == 0:
            truth = (y.args[0] == 1) == (pred == 'eq')
            return x.args[0] if truth else not_(x.args[0])
    if pred in ('eq', 'ne') and a.w > 1:
        # a sign-extended boolean (all lanes of a mask equal) compared with 0 / all-ones
        x, y = (a, b) if b.op == 'const' else (b, a)
        if y.op == 'const' and x.op in ('sext', 'sextbits') and x.args[0].w == 1 and y.args[0] in (0, (1 << a.w) - 1):
            truth = (y.args[0] != 0) == (pred == 'eq')
            return x.args[0] if truth else not_(x.args[0])
    if a.w == 1 and pred in ('eq', 'ne'):
        # icmp on booleans
        x, y = (a, b) if b.op == 'const' else (b, a)
        if y.op == 'const':
            truth = (y.args[0] == 1) == (pred == 'eq')
            return x if truth else not_(x)
    return mk('icmp', (pred, a, b), 1)


def carry(p, q):
    """canonical carry-out of p+q (same width)"""
    if q.id < p.id:
        p, q = q, p
    return mk('icmp', ('ult', arith('add', p, q), p), 1)


def _carry_pattern(pred, c, s):
    x, y = s.args
    if x.op != 'concat' or y.op != 'concat' or len(x.args) != 2 or len(y.args) != 2:
        return None
    p, zp = x.args
    q, zq = y.args
    if not (zp.op == 'const' and zp.args[0] == 0 and zq.op == 'const' and zq.args[0] == 0 and p.w == q.w):
        return None
    w = p.w
    if (pred == 'ule' and c.args[0] == (1 << w)) or (pred == 'ult' and c.args[0] == (1 << w) - 1):
        return carry(p, q)
    return None


def select(c, a, b):
    assert c.w == 1 and a.w == b.w, (c, a, b)
    if c.op == 'const':
        return a if c.args[0] else b
    if a is b:
        return a
    if c.op == 'not':
        return select(c.args[0], b, a)
    # canonical orientation: prefer ordered float predicates / eq,ult,slt integer predicates
    if c.op == 'fcmp' and c.args[0] in ('une', 'ule', 'ult', 'ueq', 'uno'):
        return select(not_(c), b, a)
    if c.op == 'icmp' and c.args[0] == 'ne':
        return select(not_(c), b, a)
    if c.op == 'icmp' and c.args[0] in ('ult', 'ule', 'slt', 'sle') and a.w > 1:
        # (p < q ? p : q) is min, (p < q ? q : p) is max — canonical commutative form, signedness from the predicate
        p_, q_ = c.args[1], c.args[2]
        sg = 's' if c.args[0][0] == 's' else 'u'
        if a is p_ and b is q_:
            return arith(sg + 'min', a, b)
        if a is q_ and b is p_:
            return arith(sg + 'max', a, b)
    if a.w == 1:
        if a.op == 'const' and b.op == 'const':
            return c if a.args[0] else not_(c)
        if b.op == 'const':
            return and_(c, a) if b.args[0] == 0 else or_(not_(c), a)
        if a.op == 'const':
            return or_(c, b) if a.args[0] == 1 else and_(not_(c), b)
    if (a.op == 'concat' or b.op == 'concat') and a.w <= 128:
        sa, sb = _align(a, b)
        if len(sa) > 1 and any(x is y for x, y in zip(sa, sb)):
            return concat([select(c, x, y) for x, y in zip(sa, sb)])
    if a.op == 'const' and b.op == 'const' and a.w > 1:
        full = (1 << a.w) - 1
        if a.args[0] == full and b.args[0] == 0:
            return sext(c, a.w)
        if a.args[0] == 0 and b.args[0] == full:
            return sext(not_(c), a.w)
    if a.op == 'const' and b.op == 'const' and a.w <= 64:
        # per-bit: equal bits are constants, differing bits are c or !c  (so select(c,1,0):8 == zext(c))
        x, y = a.args[0], b.args[0]
        nc = None
        out = []
        for i in range(a.w):
            p, q = (x >> i) & 1, (y >> i) & 1
            if p == q:
                out.append(const(1, p))
            elif p:
                out.append(c)
            else:
                if nc is None:
                    nc = not_(c)
                out.append(nc)
        if (x ^ y) & ((x ^ y) - 1) == 0 or a.w <= 8:
            return concat(out)
    # select(c, select(c, x, y), z) -> select(c, x, z)
    if a.op == 'select' and a.args[0] is c:
        a = a.args[1]
    if b.op == 'select' and b.args[0] is c:
        b = b.args[2]
    if a is b:
        return a
    return mk('select', (c, a, b), a.w)


def sext(a, w):
    if w == a.w:
        return a
    if a.op == 'const':
        return const(w, sval(a))
    if a.op == 'sext':
        return sext(a.args[0], w)
    if a.op == 'concat':
        top = a.args[-1]
        if top.op == 'const' and top.w >= 1:
            if (top.args[0] >> (top.w - 1)) == 0:
                return zext(a, w)
            return concat([a, ones(w - a.w)])
    return mk('sext', (a,), w)


def zext(a, w):
    if w == a.w:
        return a
    return concat([a, zeros(w - a.w)])


def trunc(a, w):
    return slice_(a, 0, w)


def shl(a, k):
    if k == 0:
        return a
    if k >= a.w:
        return zeros(a.w)
    return concat([zeros(k), slice_(a, 0, a.w - k)])


def lshr(a, k):
    if k == 0:
        return a
    if k >= a.w:
        return zeros(a.w)
    return concat([slice_(a, k, a.w - k), zeros(k)])


def ashr(a, k):
    if k == 0:
        return a
    if k >= a.w:
        k = a.w - 1
    return sext(slice_(a, k, a.w - k), a.w)


def bitreverse(a):
    """canonical form of a bit reversal is the explicit permutation of 1-bit slices"""
    return concat([slice_(a, a.w - 1 - i, 1) for i in range(a.w)])


def bswap(a):
    n = a.w // 8
    return concat([slice_(a, 8 * (n - 1 - i), 8) for i in range(n)])


# ---------------------------------------------------------------------------------------------
# arithmetic (kept symbolic; the P domain gives them meaning)

_COMM = {'fadd', 'fmul', 'add', 'mul', 'minnum', 'maxnum', 'smin', 'smax', 'umin', 'umax'}


def _zext_src(t):
    """x if t is a zero extension {x, 0...0} of a narrower non-constant x, else None"""
    if t.op == 'concat' and len(t.args) == 2 and t.args[1].op == 'const' and t.args[1].args[0] == 0 and t.args[0].op != 'const':
        return t.args[0]
    return None


def arith(op, *args, w=None):
    w = w if w is not None else args[0].w
    if op in ('udiv', 'urem') and len(args) == 2:
        # a quotient / remainder of two zero-extended operands fits their own width: one canonical form whatever width the compiler divided in
        a0, b0 = _zext_src(args[0]), _zext_src(args[1])
        if a0 is not None and b0 is not None and a0.w == b0.w:
            return zext(mk(op, (a0, b0), a0.w), w)
    if op in ('sdiv', 'srem') and len(args) == 2 and args[0].op == 'sext' and args[1].op == 'sext' and args[0].args[0].w == args[1].args[0].w and w > 2 * args[0].args[0].w:
        # signed: the quotient of two w0-bit values needs w0 + 1 bits (-2^(w0-1) / -1); canonical width 2 w0, sign-extended to the width asked for
        a0, b0 = args[0].args[0], args[1].args[0]
        return sext(mk(op, (sext(a0, 2 * a0.w), sext(b0, 2 * a0.w)), 2 * a0.w), w)
    if op in _COMM and args[1].id < args[0].id:
        args = (args[1], args[0])
    if op in ('add', 'sub', 'mul') and all(a.op == 'const' for a in args):
        x, y = args[0].args[0], args[1].args[0]
        return const(w, x + y if op == 'add' else x - y if op == 'sub' else x * y)
    if op == 'add':
        if args[0] is args[1]:
            return shl(args[0], 1)            # x + x: the form the compiler produces as well
        if args[0].op == 'const' and args[0].args[0] == 0:
            return args[1]
        if args[1].op == 'const' and args[1].args[0] == 0:
            return args[0]
        # constant + {low part, 0...0}: when the sum cannot carry into the known-zero high part (the low part bounded with every unknown bit set), the addition is
        # confined to the low part
        for i in (0, 1):
            c, x = args[i], args[1 - i]
            if c.op == 'const' and x.op == 'concat' and len(x.args) > 1 and x.args[-1].op == 'const' and c.args[0] < (1 << (w - 1)):
                hi_ = pos = 0
                for p_ in x.args:
                    hi_ |= (p_.args[0] if p_.op == 'const' else ((1 << p_.w) - 1)) << pos
                    pos += p_.w
                lw = (c.args[0] + hi_).bit_length()
                if 0 < lw < w and hi_ < (1 << lw):
                    return concat([arith('add', slice_(x, 0, lw), const(lw, c.args[0])), zeros(w - lw)])
        # constant with k low zero bits + x: the low k bits of x pass through, the addition happens above them
        for i in (0, 1):
            c, x = args[i], args[1 - i]
            if c.op == 'const' and c.args[0] and x.op == 'concat':
                k = (c.args[0] & -c.args[0]).bit_length() - 1
                if 0 < k < w and not (x.args[0].op == 'const' and x.args[0].w >= k):
                    # only when the split falls on a part boundary or inside symbolic parts: always valid
                    return concat([slice_(x, 0, k), arith('add', slice_(x, k, w - k), const(w - k, c.args[0] >> k))])
        # constant + {known low bits, unknown high part}: the low part and its carry are computed, the addition continues in the high part only
        for i in (0, 1):
            c, x = args[i], args[1 - i]
            if c.op == 'const' and x.op == 'concat' and x.args[0].op == 'const' and len(x.args) > 1:
                k = x.args[0].w
                lo = x.args[0].args[0] + (c.args[0] & ((1 << k) - 1))
                carry = lo >> k
                hi_c = ((c.args[0] >> k) + carry) & ((1 << (w - k)) - 1)
                hi = slice_(x, k, w - k)
                return concat([const(k, lo & ((1 << k) - 1)), arith('add', hi, const(w - k, hi_c)) if hi_c else hi])
    if op == 'sub' and args[1].op == 'const' and args[1].args[0] == 0:
        return args[0]
    if op == 'sub' and args[0].op == 'const' and args[0].args[0] == (1 << w) - 1:
        return not_(args[1])                      # -1 - x == ~x
    if op == 'sub' and args[0].op == 'const' and args[1].op == 'concat' and args[1].args[0].op == 'const' and len(args[1].args) > 1:
        # constant - {known low bits, unknown high part}: the low part and its borrow are computed, the subtraction continues in the high part
        c, x = args
        k = x.args[0].w
        lo = (c.args[0] & ((1 << k) - 1)) - x.args[0].args[0]
        borrow = 1 if lo < 0 else 0
        hi_c = ((c.args[0] >> k) - borrow) & ((1 << (w - k)) - 1)
        return concat([const(k, lo & ((1 << k) - 1)), arith('sub', const(w - k, hi_c), slice_(x, k, w - k))])
    if op == 'mul':
        for i in (0, 1):
            if args[i].op == 'const' and args[i].args[0] == 1:
                return args[1 - i]
            if args[i].op == 'const' and args[i].args[0] == 0:
                return zeros(w)
        # multiplication by a replication constant (x * 0x100000001 == x | x<<32 when x fits in 32 bits):
        # if the copies cannot overlap the product is a pure bit placement
        for i in (0, 1):
            c, x = args[i], args[1 - i]
            if c.op == 'const' and x.op == 'concat' and bin(c.args[0]).count('1') <= 8 and c.args[0]:
                hz = 0
                for p in reversed(x.args):
                    if p.op == 'const' and p.args[0] == 0:
                        hz += p.w
                    else:
                        break
                e = x.w - hz
                bits = [k for k in range(w) if (c.args[0] >> k) & 1]
                if e > 0 and all(b2 - b1 >= e for b1, b2 in zip(bits, bits[1:])):
                    body = slice_(x, 0, e)
                    out = []
                    pos = 0
                    for k in bits:
                        if k > pos:
                            out.append(zeros(k - pos))
                        take = min(e, w - k)
                        out.append(slice_(body, 0, take))
                        pos = k + take
                    if pos < w:
                        out.append(zeros(w - pos))
                    return concat(out)
        # general sparse case: x has known-zero parts and every shifted copy lands in bits that are zero in all the other copies
        for i in (0, 1):
            c, x = args[i], args[1 - i]
            if c.op == 'const' and x.op == 'concat' and 1 < bin(c.args[0]).count('1') <= 8:
                occ = 0
                pos = 0
                for p in x.args:
                    if not (p.op == 'const' and p.args[0] == 0):
                        occ |= ((1 << p.w) - 1) << pos
                    pos += p.w
                bits = [k for k in range(w) if (c.args[0] >> k) & 1]
                full = (1 << w) - 1
                seen = 0
                ok = True
                for k in bits:
                    m = (occ << k) & full
                    if m & seen:
                        ok = False
                        break
                    seen |= m
                if ok:
                    r = zeros(w)
                    for k in bits:
                        sh = concat([zeros(k), slice_(x, 0, w - k)]) if k else x
                        r = or_(r, sh)
                    return r
    if op == 'sub' and args[0] is args[1]:
        return zeros(w)
    return mk(op, args, w)


def fneg(a):
    if a.op == 'fneg':
        return a.args[0]
    if a.op == 'const':
        return const(a.w, a.args[0] ^ (1 << (a.w - 1)))
    return mk('fneg', (a,), a.w)


def fabs(a):
    if a.op in ('fabs',):
        return a
    if a.op == 'fneg':
        return fabs(a.args[0])
    if a.op == 'const':
        return const(a.w, a.args[0] & ~(1 << (a.w - 1)))
    return mk('fabs', (a,), a.w)


def fn(name, args, w):
    """opaque function application"""
    return mk('fn', (name,) + tuple(args), w)


# ---------------------------------------------------------------------------------------------
# printing

def _show_const(t):
    return ('0x%x' % t.args[0]) if t.args[0] > 9 else str(t.args[0])


def show(t, depth=6):
    if not isinstance(t, T):
        return str(t)
    if t.op == 'const':
        return _show_const(t) + ':%d' % t.w
    if t.op == 'in':
        return '%s@%d:%d' % (t.args[0], t.args[1] // 8 if t.args[1] % 8 == 0 else t.args[1], t.w) if t.args[1] % 8 == 0 \
            else '%s@bit%d:%d' % (t.args[0], t.args[1], t.w)
    if depth <= 0:
        return '…'
    if t.op == 'slice':
        return '%s[%d+:%d]' % (show(t.args[0], depth - 1), t.args[1], t.w)
    if t.op == 'concat':
        return '{' + ', '.join(show(p, depth - 1) for p in t.args) + '}'
    return t.op + '(' + ', '.join(show(a, depth - 1) for a in t.args) + ')'


def flatten(t, op):
    """operands of a nested associative op (and/or/xor/fadd...) as a list"""
    out = []
    stack = [t]
    while stack:
        x = stack.pop()
        if x.op == op:
            stack.extend(x.args)
        else:
            out.append(x)
    return out


def walk(t, seen=None):
    """all distinct sub-terms (post-order)"""
    seen = seen if seen is not None else set()
    out = []
    stack = [(t, False)]
    while stack:
        x, done = stack.pop()
        if not isinstance(x, T):
            continue
        if done:
            out.append(x)
            continue
        if x.id in seen:
            continue
        seen.add(x.id)
        stack.append((x, True))
        for a in x.args:
            if isinstance(a, T):
                stack.append((a, False))
    return out


def inputs_of(t):
    """set of (arg, bitoff, w) input lanes a term depends on (data dependence through everything)"""
    return {(x.args[0], x.args[1], x.w) for x in walk(t) if x.op == 'in'}


def make(op, args, w):
    """normalising constructor dispatch (used when rebuilding terms)"""
    if op == 'concat':
        return concat(list(args))
    if op == 'slice':
        return slice_(args[0], args[1], w)
    if op in _BITWISE:
        return bitop(op, args[0], args[1])
    if op == 'not':
        return not_(args[0])
    if op == 'fcmp':
        return fcmp(args[0], args[1], args[2])
    if op == 'icmp':
        return icmp(args[0], args[1], args[2])
    if op == 'select':
        return select(args[0], args[1], args[2])
    if op == 'sext':
        return sext(args[0], w)
    if op == 'sextbits':
        a = args[0]
        if a.op == 'const':
            return const(w, ((1 << w) - 1) if (a.args[0] >> (a.w - 1)) & 1 else 0)
        if a.op == 'concat' and a.args[-1].op == 'const':
            top = a.args[-1]
            return const(w, ((1 << w) - 1) if (top.args[0] >> (top.w - 1)) & 1 else 0)
        return mk(op, args, w)
    if op in ('shl', 'lshr', 'ashr') and len(args) == 2 and isinstance(args[1], T) and args[1].op == 'const' and args[0].op != 'const' and args[1].args[0] < w:
        k_ = args[1].args[0]
        return shl(args[0], k_) if op == 'shl' else lshr(args[0], k_) if op == 'lshr' else ashr(args[0], k_)
    if op in ('shl', 'lshr', 'ashr') and len(args) == 2 and all(isinstance(a, T) and a.op == 'const' for a in args):
        v, k = args[0].args[0], args[1].args[0]
        if k < w:
            if op == 'shl':
                return const(w, (v << k) & ((1 << w) - 1))
            if op == 'lshr':
                return const(w, v >> k)
            sv = v - (1 << w) if (v >> (w - 1)) & 1 else v
            return const(w, (sv >> k) & ((1 << w) - 1))
    if op == 'ctpop' and isinstance(args[0], T) and args[0].op == 'const':
        return const(w, bin(args[0].args[0]).count('1'))
    if op in ('cttz', 'ctlz') and isinstance(args[0], T):
        # count of trailing / leading zeros decided by the known bits: scanning from the counted end, constant zero parts add their width, the first constant part
        # with a set bit ends the count; a symbolic part before that leaves it undecided
        a0 = args[0]
        ps = list(a0.args) if a0.op == 'concat' else [a0]
        if op == 'ctlz':
            ps = ps[::-1]
        n = 0
        for p_ in ps:
            if p_.op != 'const':
                break
            v = p_.args[0]
            if v == 0:
                n += p_.w
                continue
            n += ((v & -v).bit_length() - 1) if op == 'cttz' else (p_.w - v.bit_length())
            return const(w, n)
        else:
            return const(w, a0.w) if not args[1] else mk(op, args, w)       # all zero: the width unless the result is declared undefined for 0
    if op == 'overflow' and args[1].op == 'const' and args[2].op == 'const':
        kind, ww = args[0], args[1].w
        x, y = args[1].args[0], args[2].args[0]
        if kind[0] == 's':
            x, y = sval(args[1]), sval(args[2])
            r = x + y if kind == 'sadd' else x - y if kind == 'ssub' else x * y
            return TRUE if not (-(1 << (ww - 1)) <= r < (1 << (ww - 1))) else FALSE
        r = x + y if kind == 'uadd' else x - y if kind == 'usub' else x * y
        return TRUE if not (0 <= r < (1 << ww)) else FALSE
    if op == 'overflow' and args[0] in ('sadd', 'ssub'):
        # operands that are known to be non-negative and bounded (a constant, or a concatenation whose top bit is a known 0): the exact range of the result decides
        def bounds(t_):
            if t_.op == 'const':
                return (sval(t_), sval(t_))
            if t_.op == 'concat' and t_.args[-1].op == 'const' and not (t_.args[-1].args[0] >> (t_.args[-1].w - 1)) & 1:
                lo = hi = pos = 0
                for p_ in t_.args:
                    if p_.op == 'const':
                        lo |= p_.args[0] << pos
                        hi |= p_.args[0] << pos
                    else:
                        hi |= ((1 << p_.w) - 1) << pos
                    pos += p_.w
                return (lo, hi)
            return None
        ba, bb = bounds(args[1]), bounds(args[2])
        if ba and bb:
            ww = args[1].w
            if args[0] == 'sadd':
                rlo, rhi = ba[0] + bb[0], ba[1] + bb[1]
            else:
                rlo, rhi = ba[0] - bb[1], ba[1] - bb[0]
            if -(1 << (ww - 1)) <= rlo and rhi < (1 << (ww - 1)):
                return FALSE
            if rhi < -(1 << (ww - 1)) or rlo >= (1 << (ww - 1)):
                return TRUE
    if op == 'fneg':
        return fneg(args[0])
    if op == 'fabs':
        return fabs(args[0])
    if op in ('fadd', 'fsub', 'fmul', 'fdiv', 'add', 'sub', 'mul', 'minnum', 'maxnum', 'smin', 'smax', 'umin', 'umax'):
        return arith(op, *args, w=w)
    return mk(op, args, w)


def substitute(t, mapping, memo=None):
    """rebuild t with sub-terms replaced according to mapping {T: T}; re-normalises on the way up"""
    memo = memo if memo is not None else {}
    order = walk(t)
    for x in order:
        if x in mapping:
            memo[x] = mapping[x]
            continue
        if x in memo:
            continue
        if not any(isinstance(a, T) for a in x.args):
            memo[x] = x
            continue
        na = tuple(memo[a] if isinstance(a, T) else a for a in x.args)
        if all(p is q for p, q in zip(na, x.args)):
            memo[x] = x
        else:
            memo[x] = make(x.op, na, x.w)
    return memo[t]


def _fround(w, x):
    if w == 64 or x != x or x in (float('inf'), float('-inf')):
        return fconst(w, x)
    try:
        return fconst(w, x)
    except OverflowError:
        return fconst(w, float('inf') if x > 0 else float('-inf'))


def fold_float(t, memo=None):
    """partial evaluation: fadd/fsub/fmul/fdiv/fneg/fabs of float constants (binary32 / binary64, round-to-nearest-even;
    the binary32 results are computed in binary64 and rounded once more, which is exact for these four operations),
    re-normalising selects and compares on the way up"""
    memo = memo if memo is not None else {}
    for x in walk(t):
        if x in memo:
            continue
        if not any(isinstance(a, T) for a in x.args):
            memo[x] = x
            continue
        na = tuple(memo[a] if isinstance(a, T) else a for a in x.args)
        y = x if all(p is q for p, q in zip(na, x.args)) else make(x.op, na, x.w)
        if y.op in ('fadd', 'fsub', 'fmul', 'fdiv') and y.w in (32, 64) and all(a.op == 'const' for a in y.args):
            a, b = fval(y.args[0]), fval(y.args[1])
            try:
                if y.op == 'fadd':
                    r = a + b
                elif y.op == 'fsub':
                    r = a - b
                elif y.op == 'fmul':
                    r = a * b
                else:
                    r = a / b if b != 0 else None
            except OverflowError:
                r = None
            if r is not None:
                y = _fround(y.w, r)
        memo[x] = y
    return memo[t]


def diff(a, b, depth=0, path=''):
    """first place where two terms differ structurally: (path, sub-term a, sub-term b)"""
    if a is b:
        return None
    if not isinstance(a, T) or not isinstance(b, T):
        return (path, a, b)
    if a.op != b.op or a.w != b.w or len(a.args) != len(b.args):
        return (path, a, b)
    ds = []
    for i, (x, y) in enumerate(zip(a.args, b.args)):
        if isinstance(x, T) or isinstance(y, T):
            d = diff(x, y, depth + 1, path + '/%s.%d' % (a.op, i))
            if d:
                ds.append(d)
        elif x != y:
            return (path, a, b)
    if ds:
        return ds[0]
    return (path, a, b)
