"""O domain: terms that touch their float operands only through comparisons, selections, min/max and NaN tests
are decided completely by evaluating them over the finite set of (weak ordering of the operands) x (NaN flags).

An operand is an input lane or a float constant occurring in the term; a case assigns every lane either NaN or a
rank in a weak order that is consistent with the true order of the constants.  The value of a term in a case is
NaN, a rank (equivalence class of equal operands), or UNKNOWN when the term leaves the fragment.
Two terms are equivalent iff they have the same value in every case (equal rank == equal real value; the sign of a
zero among equal operands is not distinguished — minnum/maxnum leave it unspecified themselves).
"""
import itertools
from . import term as tm

UNKNOWN = 'unknown'
NANV = 'nan'


def weak_orders(n):
    """all weak orderings of range(n) as rank tuples"""
    if n == 0:
        yield ()
        return
    seen = set()
    for ranks in itertools.product(range(n), repeat=n):
        # canonical: ranks used must be 0..k-1
        used = sorted(set(ranks))
        if used != list(range(len(used))):
            continue
        if ranks not in seen:
            seen.add(ranks)
            yield ranks


_WO_CACHE = {}


def _orders(n):
    if n not in _WO_CACHE:
        _WO_CACHE[n] = list(weak_orders(n))
    return _WO_CACHE[n]


def operands(ts):
    lanes, consts = [], []
    for t in ts:
        for x in tm.walk(t):
            if x.op == 'in' and x not in lanes:
                lanes.append(x)
    for t in ts:
        for x in tm.walk(t):
            if x.op == 'const' and x.w in (32, 64) and x not in consts:
                # only constants that are used as float operands matter; collect those under fcmp/select/minmax
                consts.append(x)
    return lanes, consts


class OEval:
    def __init__(self, env):
        self.env = env      # operand term -> rank or NANV
        self.memo = {}

    def v(self, t):
        r = self.memo.get(t)
        if r is None:
            r = self.memo[t] = self._v(t)
        return r

    def _v(self, t):
        if t in self.env:
            return self.env[t]
        op = t.op
        if op == 'select':
            c = self.b(t.args[0])
            if c is UNKNOWN:
                a, b = self.v(t.args[1]), self.v(t.args[2])
                return a if a == b else UNKNOWN
            return self.v(t.args[1]) if c else self.v(t.args[2])
        if op in ('minnum', 'maxnum'):
            a, b = self.v(t.args[0]), self.v(t.args[1])
            if a is UNKNOWN or b is UNKNOWN:
                return UNKNOWN
            if a == NANV:
                return b
            if b == NANV:
                return a
            return min(a, b) if op == 'minnum' else max(a, b)
        return UNKNOWN

    def b(self, t):
        r = self.memo.get(('b', t))
        if r is None:
            r = self.memo[('b', t)] = self._b(t)
        return r

    def _b(self, t):
        op = t.op
        if op == 'const':
            return bool(t.args[0])
        if op == 'fcmp':
            a, b = self.v(t.args[1]), self.v(t.args[2])
            pred = t.args[0]
            if a is UNKNOWN or b is UNKNOWN:
                # ord/uno against a constant only need NaN-ness
                return UNKNOWN
            if a == NANV or b == NANV:
                return pred[0] == 'u'
            if pred == 'ord':
                return True
            if pred == 'uno':
                return False
            p = pred[1:]
            return {'eq': a == b, 'ne': a != b, 'lt': a < b, 'le': a <= b, 'gt': a > b, 'ge': a >= b}[p]
        if op == 'not':
            c = self.b(t.args[0])
            return UNKNOWN if c is UNKNOWN else (not c)
        if op in ('and', 'or', 'xor') and t.w == 1:
            a, b = self.b(t.args[0]), self.b(t.args[1])
            if op == 'and':
                if a is False or b is False:
                    return False
                if a is UNKNOWN or b is UNKNOWN:
                    return UNKNOWN
                return True
            if op == 'or':
                if a is True or b is True:
                    return True
                if a is UNKNOWN or b is UNKNOWN:
                    return UNKNOWN
                return False
            if a is UNKNOWN or b is UNKNOWN:
                return UNKNOWN
            return a != b
        if op == 'select' and t.w == 1:
            c = self.b(t.args[0])
            if c is UNKNOWN:
                a, b = self.b(t.args[1]), self.b(t.args[2])
                return a if a is b else UNKNOWN
            return self.b(t.args[1]) if c else self.b(t.args[2])
        return UNKNOWN


def cases(lanes, consts, nan=True):
    """yield env dicts"""
    cvals = []
    for c in consts:
        x = tm.fval(c)
        if x != x:
            continue
        cvals.append((x, c))
    cvals.sort(key=lambda p: p[0])
    n = len(lanes)
    for nanmask in (range(1 << n) if nan else (0,)):
        live = [l for i, l in enumerate(lanes) if not (nanmask >> i) & 1]
        items = live + [c for _, c in cvals]
        k = len(items)
        for ranks in _orders(k):
            # constants must keep their true order (equal constants of different width share a rank)
            ok = True
            for i in range(len(cvals)):
                for j in range(i + 1, len(cvals)):
                    ri, rj = ranks[len(live) + i], ranks[len(live) + j]
                    vi, vj = cvals[i][0], cvals[j][0]
                    if (vi < vj and not ri < rj) or (vi == vj and ri != rj):
                        ok = False
                        break
                if not ok:
                    break
            if not ok:
                continue
            env = {}
            for i, l in enumerate(lanes):
                if (nanmask >> i) & 1:
                    env[l] = NANV
            for it, r in zip(items, ranks):
                env[it] = r
            yield env


def describe(env):
    out = []
    for k, v in env.items():
        out.append('%s=%s' % (tm.show(k), 'NaN' if v == NANV else 'rank%d' % v))
    return ', '.join(out)


def equivalent(t1, t2, boolean=False, max_ops=5, nan=True):
    """True / (False, case description, v1, v2) / None (outside the fragment)"""
    lanes, consts = operands([t1, t2])
    consts = [c for c in consts if _used_as_float(c, [t1, t2])]
    if len(lanes) + len(consts) > max_ops or not lanes:
        return None
    unknown = False
    for env in cases(lanes, consts, nan):
        e = OEval(env)
        a = e.b(t1) if boolean else e.v(t1)
        b = e.b(t2) if boolean else e.v(t2)
        if a is UNKNOWN or b is UNKNOWN:
            unknown = True
            continue
        if a != b:
            return (False, describe(env), a, b)
    return None if unknown else True


def _used_as_float(c, ts):
    for t in ts:
        for x in tm.walk(t):
            if x.op in ('fcmp',) and (x.args[1] is c or x.args[2] is c):
                return True
            if x.op in ('select', 'minnum', 'maxnum') and c in x.args[1:] and x.w == c.w:
                return True
    return False


def in_fragment(t):
    for x in tm.walk(t):
        if x.op not in ('in', 'const', 'select', 'fcmp', 'minnum', 'maxnum', 'not', 'and', 'or', 'xor'):
            return False
    return True


# ---------------------------------------------------------------------------------------------
# integer comparisons: unsigned and signed order of the same bit patterns

_IFRAG = ('in', 'select', 'icmp', 'umin', 'umax', 'smin', 'smax', 'not', 'and', 'or', 'xor')


def in_int_fragment(t):
    for x in tm.walk(t):
        if x.op not in _IFRAG:
            return False
        if x.op in ('and', 'or', 'xor', 'not') and x.w != 1:
            return False
    return True


class IEval:
    """env: lane term -> (unsigned rank, signed key)"""

    def __init__(self, env):
        self.env = env
        self.memo = {}

    def v(self, t):
        r = self.memo.get(t)
        if r is None:
            r = self.memo[t] = self._v(t)
        return r

    def _v(self, t):
        if t in self.env:
            return self.env[t]
        op = t.op
        if op == 'select':
            return self.v(t.args[1]) if self.b(t.args[0]) else self.v(t.args[2])
        if op in ('umin', 'umax', 'smin', 'smax'):
            a, b = self.v(t.args[0]), self.v(t.args[1])
            i = 0 if op[0] == 'u' else 1
            if op.endswith('min'):
                return a if a[i] <= b[i] else b
            return a if a[i] >= b[i] else b
        raise KeyError(op)

    def b(self, t):
        op = t.op
        if op == 'const':
            return bool(t.args[0])
        if op == 'icmp':
            a, b = self.v(t.args[1]), self.v(t.args[2])
            p = t.args[0]
            if p == 'eq':
                return a[0] == b[0]
            if p == 'ne':
                return a[0] != b[0]
            i = 0 if p[0] == 'u' else 1
            return a[i] < b[i] if p.endswith('lt') else a[i] <= b[i]
        if op == 'not':
            return not self.b(t.args[0])
        if op in ('and', 'or', 'xor'):
            x, y = self.b(t.args[0]), self.b(t.args[1])
            return (x and y) if op == 'and' else (x or y) if op == 'or' else (x != y)
        if op == 'select':
            return self.b(t.args[1]) if self.b(t.args[0]) else self.b(t.args[2])
        raise KeyError(op)


def int_equivalent(t1, t2, boolean=False, max_ops=4, assume=None):
    """comparison-only integer terms: equal for every weak (unsigned) ordering of the operands x every position of
    the sign boundary?  True / (False, description, v1, v2) / None.  assume: a comparison-only boolean term; orderings in which it is false are outside the
    domain and skipped"""
    if not (in_int_fragment(t1) and in_int_fragment(t2)):
        return None
    lanes = []
    for t in (t1, t2) + ((assume,) if assume is not None else ()):
        for x in tm.walk(t):
            if x.op == 'in' and x not in lanes:
                lanes.append(x)
    if not lanes or len(lanes) > max_ops:
        return None
    for ranks in _orders(len(lanes)):
        nr = max(ranks) + 1
        for cut in range(nr + 1):
            env = {}
            for l, r in zip(lanes, ranks):
                env[l] = (r, r - nr if r >= cut else r)
            e = IEval(env)
            try:
                if assume is not None and not e.b(assume):
                    continue
                a = e.b(t1) if boolean else e.v(t1)
                b = e.b(t2) if boolean else e.v(t2)
            except KeyError:
                return None
            if a != b:
                desc = ', '.join('%s=rank%d%s' % (tm.show(l), r, ' (msb set)' if r >= cut else '') for l, r in zip(lanes, ranks))
                return (False, desc, a, b)
    return True
