"""Abstract interpreter: irtool JSON  ->  LaneFlow terms.

One pass over an acyclic CFG in reverse post-order.  Every SSA value becomes a term (term.py); memory is
a byte map per base object (pointer argument, alloca, constant global); control flow is if-converted:
a phi / a memory merge becomes a `select` chain over the edge conditions.  Anything outside the
supported fragment raises Unsupported -> the kernel is UNDECIDED (never an alarm, never a pass).
"""
import re
from . import term as tm
from .term import T


class Unsupported(Exception):
    pass


# ---------------------------------------------------------------------------------------------
# types

_ty_cache = {}


def parse_ty(s):
    s = s.strip()
    r = _ty_cache.get(s)
    if r is None:
        r = _ty_cache[s] = _parse_ty(s)
    return r


def _split_top(s):
    out, depth, cur = [], 0, ''
    for ch in s:
        if ch in '<{[(':
            depth += 1
        elif ch in '>}])':
            depth -= 1
        if ch == ',' and depth == 0:
            out.append(cur)
            cur = ''
        else:
            cur += ch
    if cur.strip():
        out.append(cur)
    return out


def _parse_ty(s):
    if s.endswith('*'):
        return ('ptr',)
    if s == 'ptr':
        return ('ptr',)
    if s == 'void':
        return ('void',)
    if s == 'float':
        return ('fp', 32)
    if s == 'double':
        return ('fp', 64)
    if s == 'half':
        return ('fp', 16)
    if s == 'x86_fp80':
        return ('fp', 80)
    if re.fullmatch(r'i\d+', s):
        return ('int', int(s[1:]))
    if s.startswith('<'):
        n, e = s[1:-1].split(' x ', 1)
        return ('vec', int(n), parse_ty(e))
    if s.startswith('['):
        n, e = s[1:-1].split(' x ', 1)
        return ('arr', int(n), parse_ty(e))
    if s.startswith('{'):
        return ('struct', [parse_ty(x) for x in _split_top(s[1:-1])])
    if s.startswith('%'):
        return ('named', s)
    if s == 'label' or s == 'metadata':
        return ('void',)
    raise Unsupported('type ' + s)


def ty_bits(ty):
    k = ty[0]
    if k in ('int', 'fp'):
        return ty[1]
    if k == 'ptr':
        return 64
    if k == 'vec':
        return ty[1] * ty_bits(ty[2])
    raise Unsupported('bits of %r' % (ty,))


def lane_shape(ty):
    """(number of lanes, lane width)"""
    if ty[0] == 'vec':
        return ty[1], ty_bits(ty[2])
    return 1, ty_bits(ty)


def _ivalues(t, depth=0):
    """[(condition, signed int value)] if the integer term is a selection among constants (through zext / sext / trunc), else None"""
    if not isinstance(t, T) or depth > 8:
        return None
    if t.op == 'const':
        return [(tm.TRUE, tm.sval(t))]
    if t.w == 1:
        return [(t, -1), (tm.not_(t), 0)]          # a boolean: sign-extended value -1 / 0 (zext masks it to 1)
    if t.op == 'select':
        a, b = _ivalues(t.args[1], depth + 1), _ivalues(t.args[2], depth + 1)
        if a is None or b is None:
            return None
        c = t.args[0]
        out = [(tm.and_(c, ca), va) for ca, va in a] + [(tm.and_(tm.not_(c), cb), vb) for cb, vb in b]
        merged = {}
        for cc, vv in out:
            if cc is tm.FALSE:
                continue
            merged[vv] = tm.or_(merged[vv], cc) if vv in merged else cc
        return [(cc, vv) for vv, cc in merged.items()]
    if t.op in ('zext', 'sext'):
        inner = _ivalues(t.args[0], depth + 1)
        if inner is None:
            return None
        if t.op == 'zext':
            w0 = t.args[0].w
            return [(c, v & ((1 << w0) - 1)) for c, v in inner]
        return inner
    if t.op == 'concat' and all(p.op == 'const' and p.args[0] == 0 for p in t.args[1:]):
        inner = _ivalues(t.args[0], depth + 1)
        if inner is None:
            return None
        w0 = t.args[0].w
        return [(c, v & ((1 << w0) - 1)) for c, v in inner]
    if t.op == 'concat':
        # bit-assembled value: every part a constant or a selection among constants (booleans included)
        alts = [(tm.TRUE, 0)]
        pos = 0
        for part in t.args:
            pv = _ivalues(part, depth + 1)
            if pv is None or len(pv) * len(alts) > 16:
                return None
            mask = (1 << part.w) - 1
            alts = [(tm.and_(c1, c2), v1 | ((v2 & mask) << pos)) for c1, v1 in alts for c2, v2 in pv]
            alts = [(c, v) for c, v in alts if c is not tm.FALSE]
            pos += part.w
        out = []
        for c, v in alts:
            if v >> (t.w - 1):
                v -= 1 << t.w
            out.append((c, v))
        return out
    if t.op == 'slice' and t.args[1] == 0:
        inner = _ivalues(t.args[0], depth + 1)
        if inner is None:
            return None
        out = []
        for c, v in inner:
            v &= (1 << t.w) - 1
            if v >> (t.w - 1):
                v -= 1 << t.w
            out.append((c, v))
        return out
    return None


class PtrSel:
    """select between two pointers (only loads through it are supported)"""
    __slots__ = ('c', 'a', 'b')

    def __init__(self, c, a, b):
        self.c, self.a, self.b = c, a, b


class Ptr:
    __slots__ = ('base', 'off')

    def __init__(self, base, off):
        self.base = base
        self.off = off

    def __repr__(self):
        return 'Ptr(%r,%r)' % (self.base, self.off)


# ---------------------------------------------------------------------------------------------
# conditions in DNF over boolean terms

class Cond:
    """disjunction of conjunctions of boolean terms (w=1); TRUE = {frozenset()} ; FALSE = {}"""
    __slots__ = ('d',)

    def __init__(self, d):
        self.d = d

    @staticmethod
    def true():
        return Cond(frozenset([frozenset()]))

    @staticmethod
    def false():
        return Cond(frozenset())

    def and_lit(self, lit):
        if lit is tm.TRUE:
            return self
        if lit is tm.FALSE:
            return Cond.false()
        nl = tm.not_(lit)
        out = set()
        for c in self.d:
            if nl in c:
                continue
            out.add(c | {lit})
        return Cond(frozenset(out))

    def or_(self, o):
        return Cond(_simplify_dnf(set(self.d) | set(o.d)))

    def is_false(self):
        return not self.d

    def common(self):
        it = iter(self.d)
        try:
            c = set(next(it))
        except StopIteration:
            return set()
        for x in it:
            c &= x
        return c

    def strip(self, lits):
        return Cond(_simplify_dnf({frozenset(c - lits) for c in self.d}))

    def to_term(self):
        if not self.d:
            return tm.FALSE
        alts = []
        for c in sorted(self.d, key=lambda c: sorted(x.id for x in c)):
            t = tm.TRUE
            for l in sorted(c, key=lambda x: x.id):
                t = tm.and_(t, l)
            alts.append(t)
        r = alts[0]
        for a in alts[1:]:
            r = tm.or_(r, a)
        return r


def _simplify_dnf(d):
    d = set(d)
    changed = True
    while changed:
        changed = False
        lst = list(d)
        # absorption
        for a in lst:
            for b in lst:
                if a is not b and a < b and b in d:
                    d.discard(b)
                    changed = True
        if changed:
            continue
        lst = list(d)
        done = False
        for i, a in enumerate(lst):
            for b in lst[i + 1:]:
                if len(a) != len(b):
                    continue
                da, db = a - b, b - a
                if len(da) == 1 and len(db) == 1:
                    (x,), (y,) = da, db
                    if tm.not_(x) is y:
                        d.discard(a)
                        d.discard(b)
                        d.add(a & b)
                        changed = done = True
                        break
            if done:
                break
    return frozenset(d)


# ---------------------------------------------------------------------------------------------
# memory: per base, byte offset -> (term, byte index in term)

class Memory:
    def __init__(self, interp):
        self.m = {}      # base -> {off: (term, idx)}
        self.it = interp

    def copy(self):
        n = Memory(self.it)
        n.m = {b: dict(d) for b, d in self.m.items()}
        return n

    def store(self, base, off, t):
        assert t.w % 8 == 0, ('store of non-byte width', t)
        d = self.m.setdefault(base, {})
        for k in range(t.w // 8):
            d[off + k] = (t, k)

    def byte(self, base, off):
        d = self.m.get(base)
        if d is not None:
            e = d.get(off)
            if e is not None:
                return e
        return self.it.initial_byte(base, off)

    def load(self, base, off, nbytes):
        out = []
        k = 0
        while k < nbytes:
            t, idx = self.byte(base, off + k)
            n = 1
            while k + n < nbytes:
                t2, idx2 = self.byte(base, off + k + n)
                if t2 is t and idx2 == idx + n:
                    n += 1
                else:
                    break
            out.append(tm.slice_(t, idx * 8, n * 8))
            k += n
        return tm.concat(out)


def _canon_libm(name):
    return name


_LIBM = {}
for _n in ('sin cos tan asin acos atan atan2 sinh cosh tanh asinh acosh atanh exp exp2 log log2 log10 pow sqrt cbrt '
           'floor ceil trunc round rint nearbyint roundeven fabs fmod fmin fmax copysign ldexp frexp modf nextafter '
           'fma hypot expm1 log1p').split():
    _LIBM[_n] = _n
    _LIBM[_n + 'f'] = _n
    _LIBM[_n + 'l'] = _n

_FN_INTRINSICS = {'sqrt', 'sin', 'cos', 'pow', 'exp', 'exp2', 'log', 'log2', 'log10', 'floor', 'ceil', 'trunc', 'rint',
                  'nearbyint', 'round', 'roundeven', 'copysign', 'ldexp', 'powi'}


class Interp:
    """interpret one function of the irtool dump.

    argspec: list, one entry per IR argument, of (name, elem_bytes) — for pointer arguments the name is the
    base object and elem_bytes the lane size used to name never-written input memory; for by-value scalars
    the value is the single lane in(name, 0, w).
    """

    def __init__(self, fn, argspec, x86=None, globals_=None):
        self.fn = fn
        self.env = {}
        self.elem = {}
        self.calls = []
        self.notes = []
        self.x86 = x86
        self.dbg = {}
        self.ret = None
        self.ncall = 0
        self.globals = {}
        self.boolargs = set()
        for a, spec in zip(fn['args'], argspec):
            name, elem = spec[0], spec[1]
            if len(spec) > 2 and spec[2]:
                self.boolargs.add(name)
            ty = parse_ty(a['ty'])
            if ty[0] == 'ptr':
                self.env[a['id']] = Ptr(name, 0)
                self.elem[name] = elem
            else:
                self.env[a['id']] = tm.inp(name, 0, ty_bits(ty))
        if len(fn['args']) != len(argspec):
            raise Unsupported('argspec arity %d vs %d' % (len(argspec), len(fn['args'])))

    # -- memory defaults
    def initial_byte(self, base, off):
        if isinstance(base, str):
            if base.startswith('@'):
                raise Unsupported('read of global ' + base)
            e = self.elem.get(base)
            if e is None:
                raise Unsupported('unknown base ' + base)
            lane = off // e
            if base in self.boolargs and e == 1:
                # a C++ bool object holds 0 or 1 (anything else is UB): the byte is zext(bit 0)
                return (tm.concat([tm.slice_(tm.inp(base, lane * 8, 8), 0, 1), tm.zeros(7)]), 0)
            return (tm.inp(base, lane * e * 8, e * 8), off - lane * e)
        if isinstance(base, tuple) and base[0] == 'alloca':
            return (tm.undef(8, 'uninit'), 0)
        if isinstance(base, tuple) and base[0] == 'global':
            g = self.globals[base[1]]
            if 'bytes' in g:
                hx = g['bytes']
                if 2 * off + 2 <= len(hx):
                    return (tm.const(8, int(hx[2 * off:2 * off + 2], 16)), 0)
                raise Unsupported('read past global ' + base[1])
            raise Unsupported('global without initializer ' + base[1])
        raise Unsupported('base %r' % (base,))

    # -- constants
    def cst(self, c):
        k = c['k']
        if k == 'int':
            return tm.const(c['bits'], int(c['v']))
        if k == 'fp':
            return tm.const(ty_bits(parse_ty(c['ty'])), int(c['bits']))
        if k == 'vec':
            return tm.concat([self.cst(e) for e in c['e']])
        if k == 'struct':
            return [self.cst(e) for e in c['e']]
        if k == 'zero':
            ty = parse_ty(c['ty'])
            if ty[0] == 'ptr':
                return Ptr('null', 0)
            if ty[0] == 'struct':
                return [tm.zeros(ty_bits(x)) for x in ty[1]]
            return tm.zeros(ty_bits(ty))
        if k == 'undef':
            ty = parse_ty(c['ty'])
            if ty[0] == 'struct':
                return [tm.undef(ty_bits(x)) for x in ty[1]]
            if ty[0] == 'ptr':
                return Ptr('undef', 0)
            return tm.undef(ty_bits(ty), 'poison' if c.get('poison') else 'undef')
        if k == 'global':
            self.globals[c['name']] = c
            return Ptr(('global', c['name']), 0)
        if k == 'gep':
            b = self.cst(c['base'])
            return Ptr(b.base, b.off + c['off'])
        if k == 'func':
            return Ptr(('func', c['name']), 0)
        raise Unsupported('constant ' + str(c)[:80])

    def get(self, r):
        if 'v' in r:
            try:
                return self.env[r['v']]
            except KeyError:
                raise Unsupported('use before def %r' % r)
        return self.cst(r['c'])

    # -- driver
    def run(self):
        blocks = {b['id']: b for b in self.fn['blocks']}
        self.backedges = set()
        self.loop_exceeded = Cond.false()
        order = self._rpo(blocks)
        entry = self.fn['blocks'][0]['id']
        self.cond = {entry: Cond.true()}
        self.edges = {}          # (from, to) -> Cond
        self.memout = {}
        preds = {}
        for b in self.fn['blocks']:
            for s in self._succs(b):
                preds.setdefault(s, []).append(b['id'])
        for bid in order:
            b = blocks[bid]
            if bid == entry:
                mem = Memory(self)
            else:
                ps = [p for p in preds.get(bid, []) if (p, bid) in self.edges]
                if not ps:
                    continue   # unreachable
                c = Cond.false()
                for p in ps:
                    c = c.or_(self.edges[(p, bid)])
                self.cond[bid] = c
                mem = self._merge_mem(bid, ps)
            self.cur = bid
            self.mem = mem
            self.cur_preds = [p for p in preds.get(bid, []) if (p, bid) in self.edges]
            for ins in b['insts']:
                self.step(ins)
            self.memout[bid] = self.mem
        return self

    def _succs(self, b):
        t = b['insts'][-1]
        if t['op'] == 'br':
            return [o['bb'] for o in t['ops'] if 'bb' in o]
        if t['op'] == 'switch':
            return [t['default']] + [c[1] for c in t['cases']]
        return []

    def _rpo(self, blocks):
        entry = self.fn['blocks'][0]['id']
        seen, onstack, post = set(), set(), []

        def dfs(b):
            seen.add(b)
            onstack.add(b)
            for s in self._succs(blocks[b]):
                if s in onstack:
                    if getattr(self, 'cut_loops', False):
                        # peeled loop: the residual back edge is cut; the condition under which it would be taken is recorded (loop_exceeded)
                        self.backedges.add((b, s))
                        continue
                    raise Unsupported('loop')
                if s not in seen:
                    dfs(s)
            onstack.discard(b)
            post.append(b)
        import sys
        sys.setrecursionlimit(10000)
        dfs(entry)
        return post[::-1]

    def _edge_conds_rel(self, bid, ps):
        """edge conditions of the incoming edges relative to the block's own condition"""
        conds = [self.edges[(p, bid)] for p in ps]
        common = None
        for c in conds:
            cc = c.common()
            common = cc if common is None else (common & cc)
        common = common or set()
        return [c.strip(common) for c in conds]

    def _chain(self, conds, vals):
        """select chain; vals are T of equal width.  Incoming edges carrying the same value are grouped
        (their conditions or-ed); the group reached by most edges becomes the unconditioned default."""
        groups = []
        for c, v in zip(conds, vals):
            for g in groups:
                if g[1] is v:
                    g[0] = g[0].or_(c)
                    g[2] += 1
                    break
            else:
                groups.append([c, v, 1])
        if len(groups) == 1:
            return groups[0][1]
        # default = most edges; ties -> last in IR order
        di = max(range(len(groups)), key=lambda i: (groups[i][2], i))
        dflt = groups.pop(di)
        r = dflt[1]
        for c, v, _ in reversed(groups):
            r = tm.select(c.to_term(), v, r)
        return r

    def _merge_mem(self, bid, ps):
        if len(ps) == 1:
            return self.memout[ps[0]].copy()
        mems = [self.memout[p] for p in ps]
        rel = self._edge_conds_rel(bid, ps)
        out = mems[0].copy()
        bases = set()
        for m in mems:
            bases |= set(m.m.keys())
        for base in bases:
            offs = set()
            for m in mems:
                offs |= set(m.m.get(base, {}).keys())
            diff = []
            for off in sorted(offs):
                es = [m.byte(base, off) for m in mems]
                if any(e[0] is not es[0][0] or e[1] != es[0][1] for e in es[1:]):
                    diff.append(off)
            # maximal runs
            i = 0
            while i < len(diff):
                j = i
                while j + 1 < len(diff) and diff[j + 1] == diff[j] + 1:
                    j += 1
                lo, n = diff[i], diff[j] - diff[i] + 1
                vals = [m.load(base, lo, n) for m in mems]
                out.store(base, lo, self._chain(rel, vals))
                i = j + 1
        return out

    # -- helpers
    def lanes(self, t, ty):
        n, w = lane_shape(ty)
        if n == 1:
            return [t]
        return [tm.slice_(t, i * w, w) for i in range(n)]

    def lanewise(self, ty, f, *vals):
        n, w = lane_shape(ty)
        if n == 1:
            return f(*vals)
        ls = [[tm.slice_(v, i * (v.w // n), v.w // n) for i in range(n)] for v in vals]
        return tm.concat([f(*[l[i] for l in ls]) for i in range(n)])

    def setv(self, ins, v):
        self.env[ins['id']] = v
        if isinstance(v, T) and ins.get('dbg'):
            self.dbg.setdefault(v.id, ins['dbg'])

    def const_int(self, r):
        if 'c' in r and r['c']['k'] == 'int':
            return int(r['c']['v'])
        v = self.get(r)
        if isinstance(v, T) and v.op == 'const':
            return v.args[0]
        return None

    def splat_const(self, v, ty):
        """if v is a vector (or scalar) constant with all lanes equal return that lane value else None"""
        n, w = lane_shape(ty)
        if not isinstance(v, T) or v.op != 'const':
            return None
        lanes = {(v.args[0] >> (i * w)) & ((1 << w) - 1) for i in range(n)}
        if len(lanes) == 1:
            return lanes.pop()
        return None

    # -- one instruction
    def step(self, ins):
        op = ins['op']
        h = getattr(self, 'op_' + op, None)
        if h is None:
            raise Unsupported('opcode ' + op)
        f = ins.get('fmf')
        if f:
            if not (str(f).strip() == 'nsz' and op == 'call' and ins.get('callee', '').startswith(('llvm.minnum', 'llvm.maxnum'))):
                raise Unsupported('fast-math flags present: %s' % f)
        h(ins)

    def op_ret(self, ins):
        if ins['ops']:
            self.ret = self.get(ins['ops'][0])
        self.final_mem = self.mem
        self.final_cond = self.cond[self.cur]

    def op_unreachable(self, ins):
        pass

    def op_br(self, ins):
        ops = ins['ops']
        c = self.cond[self.cur]
        if len(ops) == 1:
            self._add_edge(ops[0]['bb'], c)
        else:
            cv = self.get(ops[0])
            # ops order in LLVM's operand list: cond, false-dest, true-dest
            fdest, tdest = ops[1]['bb'], ops[2]['bb']
            self._add_edge(tdest, c.and_lit(cv))
            self._add_edge(fdest, c.and_lit(tm.not_(cv)))

    def op_switch(self, ins):
        c = self.cond[self.cur]
        x = self.get(ins['cond'])
        dflt = c
        for v, dest in ins['cases']:
            lit = tm.icmp('eq', x, tm.const(x.w, int(v)))
            self._add_edge(dest, c.and_lit(lit))
            dflt = dflt.and_lit(tm.not_(lit))
        self._add_edge(ins['default'], dflt)

    def _add_edge(self, dest, c):
        k = (self.cur, dest)
        if k in getattr(self, 'backedges', ()):
            self.loop_exceeded = self.loop_exceeded.or_(c)
            return
        if k in self.edges:
            c = self.edges[k].or_(c)
        if not c.is_false():
            self.edges[k] = c

    def op_phi(self, ins):
        ps, vals = [], []
        for bid, r in ins['inc']:
            if (bid, self.cur) in self.edges:
                ps.append(bid)
                vals.append(self.get(r))
        if not vals:
            raise Unsupported('phi without live incoming')
        if any(isinstance(v, (Ptr, PtrSel)) for v in vals):
            if all(isinstance(v, Ptr) and v.base == vals[0].base and v.off == vals[0].off for v in vals):
                self.env[ins['id']] = vals[0]
                return
            if all(isinstance(v, (Ptr, PtrSel)) for v in vals):
                rel = self._edge_conds_rel(self.cur, ps)
                r = vals[-1]
                for c, v in reversed(list(zip(rel[:-1], vals[:-1]))):
                    r = PtrSel(c.to_term(), v, r)
                self.env[ins['id']] = r
                return
            raise Unsupported('phi of pointers')
        if any(isinstance(v, list) for v in vals):
            if not all(isinstance(v, list) and len(v) == len(vals[0]) and all(isinstance(x, T) for x in v) for v in vals):
                raise Unsupported('phi of aggregates')
            rel = self._edge_conds_rel(self.cur, ps)
            self.env[ins['id']] = [self._chain(rel, [v[i] for v in vals]) for i in range(len(vals[0]))]
            return
        rel = self._edge_conds_rel(self.cur, ps)
        self.setv(ins, self._chain(rel, vals))

    def op_alloca(self, ins):
        self.env[ins['id']] = Ptr(('alloca', ins['id'], ins.get('size')), 0)

    def op_getelementptr(self, ins):
        b = self.get(ins['base'])
        if ins['off'] is None:
            # variable index: supported when every index is a selection among finitely many constants
            # (loop-unrolled tables, "largest component" indices): the pointer becomes a guarded choice of constant offsets
            if 'var' not in ins:
                raise Unsupported('variable gep')
            alts = [(tm.TRUE, ins.get('coff', 0))]
            for r, scale in ins['var']:
                vs = _ivalues(self.get(r))
                if vs is None and isinstance(self.get(r), T) and isinstance(b, Ptr) and scale > 0:
                    # a symbolic index into an object of known size: one alternative per element that lies inside the object; every other value of the
                    # index addresses memory outside it -- recorded as an obligation (kind 18, out of bounds) under the path condition of the block
                    size = self._obj_size(b)
                    idx = self.get(r)
                    if size is not None:
                        n = max(0, (size - ins.get('coff', 0) + scale - 1) // scale)
                        if 0 < n <= 16 and n * len(alts) <= 64:
                            vs = [(tm.icmp('eq', idx, tm.const(idx.w, k)), k) for k in range(n)]
                            inb = tm.icmp('ult', idx, tm.const(idx.w, n))
                            if not hasattr(self, 'traps'):
                                self.traps = []
                            self.traps.append({'kind': 18, 'cond': self.cond[self.cur].and_lit(tm.not_(inb)), 'dbg': ins.get('dbg'), 'block': self.cur})
                if vs is None or len(vs) * len(alts) > 64:
                    raise Unsupported('variable gep: index %s' % (tm.show(self.get(r), 4) if isinstance(self.get(r), T) else type(self.get(r))))
                alts = [(tm.and_(c1, c2), o + v * scale) for c1, o in alts for c2, v in vs]
            alts = [(c, o) for c, o in alts if c is not tm.FALSE]
            if not alts:
                raise Unsupported('variable gep without feasible index')
            p = self._gep(b, alts[-1][1])
            for c, o in reversed(alts[:-1]):
                p = PtrSel(c, self._gep(b, o), p)
            self.env[ins['id']] = p
            return
        self.env[ins['id']] = self._gep(b, ins['off'])

    def _gep(self, b, off):
        if isinstance(b, PtrSel):
            return PtrSel(b.c, self._gep(b.a, off), self._gep(b.b, off))
        if not isinstance(b, Ptr):
            raise Unsupported('gep on non-pointer')
        return Ptr(b.base, b.off + off)

    def op_bitcast(self, ins):
        self.env[ins['id']] = self.get(ins['ops'][0])

    def op_addrspacecast(self, ins):
        self.env[ins['id']] = self.get(ins['ops'][0])

    def op_freeze(self, ins):
        self.env[ins['id']] = self.get(ins['ops'][0])

    def op_load(self, ins):
        p = self.get(ins['ops'][0])
        ty = parse_ty(ins['ty'])
        if ty[0] == 'ptr':
            raise Unsupported('load of pointer')
        bits = ty_bits(ty)
        v = self._load_ptr(p, ins['bytes'])
        if v.w != bits:
            v = tm.slice_(v, 0, bits)      # i1 stored as i8 etc.
        self.setv(ins, v)

    def _load_ptr(self, p, nbytes):
        if isinstance(p, PtrSel):
            return tm.select(p.c, self._load_ptr(p.a, nbytes), self._load_ptr(p.b, nbytes))
        if not isinstance(p, Ptr):
            raise Unsupported('load through non-pointer')
        return self.mem.load(p.base, p.off, nbytes)

    def op_store(self, ins):
        v = self.get(ins['ops'][0])
        p = self.get(ins['ops'][1])
        if isinstance(v, Ptr):
            raise Unsupported('store of pointer')
        if isinstance(v, list):
            raise Unsupported('store of aggregate')
        if isinstance(v, T) and v.w % 8:
            v = tm.zext(v, ins['bytes'] * 8)
        if isinstance(p, PtrSel):
            self._store_sel(p, v, tm.TRUE)
            return
        if not isinstance(p, Ptr):
            raise Unsupported('store through non-pointer')
        self.mem.store(p.base, p.off, v)

    def _store_sel(self, p, v, g):
        """store through a guarded choice of pointers: each candidate location receives select(guard, v, previous content)"""
        if isinstance(p, PtrSel):
            self._store_sel(p.a, v, tm.and_(g, p.c))
            self._store_sel(p.b, v, tm.and_(g, tm.not_(p.c)))
            return
        if not isinstance(p, Ptr):
            raise Unsupported('store through non-pointer')
        if g is tm.FALSE:
            return
        if g is tm.TRUE:
            self.mem.store(p.base, p.off, v)
            return
        old = self.mem.load(p.base, p.off, v.w // 8)
        self.mem.store(p.base, p.off, tm.select(g, v, old))

    # integer / float binary ops
    def _bin(self, ins, f):
        ty = parse_ty(ins['ty'])
        a, b = self.get(ins['ops'][0]), self.get(ins['ops'][1])
        self.setv(ins, self.lanewise(ty, f, a, b))

    def op_add(self, ins): self._bin(ins, lambda a, b: tm.arith('add', a, b))
    def op_sub(self, ins): self._bin(ins, lambda a, b: tm.arith('sub', a, b))
    def op_mul(self, ins): self._bin(ins, lambda a, b: tm.arith('mul', a, b))
    def op_udiv(self, ins): self._bin(ins, lambda a, b: tm.arith('udiv', a, b))
    def op_sdiv(self, ins): self._bin(ins, lambda a, b: tm.arith('sdiv', a, b))
    def op_urem(self, ins): self._bin(ins, lambda a, b: tm.arith('urem', a, b))
    def op_srem(self, ins): self._bin(ins, lambda a, b: tm.arith('srem', a, b))
    def op_fadd(self, ins): self._bin(ins, lambda a, b: tm.arith('fadd', a, b))
    def op_fsub(self, ins): self._bin(ins, lambda a, b: tm.arith('fsub', a, b))
    def op_fmul(self, ins): self._bin(ins, lambda a, b: tm.arith('fmul', a, b))
    def op_fdiv(self, ins): self._bin(ins, lambda a, b: tm.arith('fdiv', a, b))
    def op_frem(self, ins): self._bin(ins, lambda a, b: tm.arith('frem', a, b))

    def op_fneg(self, ins):
        ty = parse_ty(ins['ty'])
        self.setv(ins, self.lanewise(ty, tm.fneg, self.get(ins['ops'][0])))

    def op_and(self, ins): self.setv(ins, tm.and_(self.get(ins['ops'][0]), self.get(ins['ops'][1])))
    def op_or(self, ins): self.setv(ins, tm.or_(self.get(ins['ops'][0]), self.get(ins['ops'][1])))
    def op_xor(self, ins): self.setv(ins, tm.xor(self.get(ins['ops'][0]), self.get(ins['ops'][1])))

    def _shift(self, ins, cf, name):
        ty = parse_ty(ins['ty'])
        a, b = self.get(ins['ops'][0]), self.get(ins['ops'][1])
        n, w = lane_shape(ty)

        def f(x, y):
            if y.op == 'const':
                k = y.args[0]
                if k >= x.w:
                    return tm.undef(x.w, 'poison')
                return cf(x, k)
            return tm.mk(name, (x, y), x.w)
        self.setv(ins, self.lanewise(ty, f, a, b))

    def op_shl(self, ins): self._shift(ins, tm.shl, 'shl')
    def op_lshr(self, ins): self._shift(ins, tm.lshr, 'lshr')
    def op_ashr(self, ins): self._shift(ins, tm.ashr, 'ashr')

    def _bool_lane(self, t):
        return t.op == 'in' and t.w == 8 and t.args[0] in self.boolargs

    def op_icmp(self, ins):
        a, b = self.get(ins['ops'][0]), self.get(ins['ops'][1])
        if isinstance(a, (Ptr, PtrSel)) or isinstance(b, (Ptr, PtrSel)):
            raise Unsupported('pointer compare')
        # a C++ bool object holds 0 or 1 (anything else is UB): (x != 0) is bit 0 of x
        if ins['pred'] in ('eq', 'ne') and isinstance(a, T) and isinstance(b, T):
            x, y = (a, b) if self._bool_lane(a) else (b, a)
            if self._bool_lane(x) and y.op == 'const' and y.args[0] in (0, 1):
                bit = tm.slice_(x, 0, 1)
                truth = (y.args[0] == 1) == (ins['pred'] == 'eq')
                self.setv(ins, bit if truth else tm.not_(bit))
                return
        ty = parse_ty(ins['ty'])
        n, _ = lane_shape(ty)
        if n == 1:
            self.setv(ins, tm.icmp(ins['pred'], a, b))
        else:
            w = a.w // n
            self.setv(ins, tm.concat([tm.icmp(ins['pred'], tm.slice_(a, i * w, w), tm.slice_(b, i * w, w)) for i in range(n)]))

    def op_fcmp(self, ins):
        a, b = self.get(ins['ops'][0]), self.get(ins['ops'][1])
        ty = parse_ty(ins['ty'])
        n, _ = lane_shape(ty)
        if n == 1:
            self.setv(ins, tm.fcmp(ins['pred'], a, b))
        else:
            w = a.w // n
            self.setv(ins, tm.concat([tm.fcmp(ins['pred'], tm.slice_(a, i * w, w), tm.slice_(b, i * w, w)) for i in range(n)]))

    def op_select(self, ins):
        c, a, b = (self.get(o) for o in ins['ops'])
        if isinstance(a, (Ptr, PtrSel)) or isinstance(b, (Ptr, PtrSel)):
            if isinstance(c, T) and c.w == 1:
                self.env[ins['id']] = PtrSel(c, a, b)
                return
            raise Unsupported('select of pointers')
        if isinstance(a, list) or isinstance(b, list):
            if isinstance(a, list) and isinstance(b, list) and len(a) == len(b) and isinstance(c, T) and c.w == 1 \
                    and all(isinstance(x, T) and isinstance(y, T) and x.w == y.w for x, y in zip(a, b)):
                self.env[ins['id']] = [tm.select(c, x, y) for x, y in zip(a, b)]
                return
            raise Unsupported('select of aggregates')
        ty = parse_ty(ins['ty'])
        n, w = lane_shape(ty)
        if c.w == 1:
            self.setv(ins, tm.select(c, a, b))
        else:
            self.setv(ins, tm.concat([tm.select(tm.slice_(c, i, 1), tm.slice_(a, i * w, w), tm.slice_(b, i * w, w)) for i in range(n)]))

    def op_trunc(self, ins):
        ty = parse_ty(ins['ty'])
        n, w = lane_shape(ty)
        v = self.get(ins['ops'][0])
        sw = v.w // n
        self.setv(ins, tm.concat([tm.slice_(v, i * sw, w) for i in range(n)]))

    def op_zext(self, ins):
        ty = parse_ty(ins['ty'])
        n, w = lane_shape(ty)
        v = self.get(ins['ops'][0])
        sw = v.w // n
        self.setv(ins, tm.concat([tm.zext(tm.slice_(v, i * sw, sw), w) for i in range(n)]))

    def op_sext(self, ins):
        ty = parse_ty(ins['ty'])
        n, w = lane_shape(ty)
        v = self.get(ins['ops'][0])
        sw = v.w // n
        self.setv(ins, tm.concat([tm.sext(tm.slice_(v, i * sw, sw), w) for i in range(n)]))

    def _conv(self, ins, name):
        ty = parse_ty(ins['ty'])
        n, w = lane_shape(ty)
        v = self.get(ins['ops'][0])
        sw = v.w // n
        self.setv(ins, tm.concat([tm.mk(name, (tm.slice_(v, i * sw, sw),), w) for i in range(n)]))

    def op_sitofp(self, ins): self._conv(ins, 'sitofp')
    def op_uitofp(self, ins): self._conv(ins, 'uitofp')
    def op_fptosi(self, ins): self._conv(ins, 'fptosi')
    def op_fptoui(self, ins): self._conv(ins, 'fptoui')
    def op_fpext(self, ins): self._conv(ins, 'fpext')
    def op_fptrunc(self, ins): self._conv(ins, 'fptrunc')

    def op_ptrtoint(self, ins):
        raise Unsupported('ptrtoint')

    def op_inttoptr(self, ins):
        raise Unsupported('inttoptr')

    def op_extractelement(self, ins):
        v = self.get(ins['ops'][0])
        k = self.const_int(ins['ops'][1])
        w = ty_bits(parse_ty(ins['ty']))
        if k is None:
            raise Unsupported('variable extractelement')
        self.setv(ins, tm.slice_(v, k * w, w))

    def op_insertelement(self, ins):
        ty = parse_ty(ins['ty'])
        n, w = lane_shape(ty)
        v, e = self.get(ins['ops'][0]), self.get(ins['ops'][1])
        k = self.const_int(ins['ops'][2])
        if k is None:
            raise Unsupported('variable insertelement')
        ls = [tm.slice_(v, i * w, w) for i in range(n)]
        ls[k] = e
        self.setv(ins, tm.concat(ls))

    def op_shufflevector(self, ins):
        ty = parse_ty(ins['ty'])
        n, w = lane_shape(ty)
        a, b = self.get(ins['ops'][0]), self.get(ins['ops'][1])
        na = a.w // w
        out = []
        for m in ins['mask']:
            if m < 0:
                out.append(tm.undef(w, 'shuffle-undef'))
            elif m < na:
                out.append(tm.slice_(a, m * w, w))
            else:
                out.append(tm.slice_(b, (m - na) * w, w))
        self.setv(ins, tm.concat(out))

    def op_extractvalue(self, ins):
        v = self.get(ins['ops'][0])
        if not isinstance(v, list) or len(ins['idxs']) != 1:
            raise Unsupported('extractvalue')
        self.setv(ins, v[ins['idxs'][0]])

    def op_insertvalue(self, ins):
        v = self.get(ins['ops'][0])
        e = self.get(ins['ops'][1])
        if not isinstance(v, list) or len(ins['idxs']) != 1:
            raise Unsupported('insertvalue')
        v = list(v)
        v[ins['idxs'][0]] = e
        self.env[ins['id']] = v

    # -- calls
    def op_call(self, ins):
        name = ins['callee']
        if name is None:
            raise Unsupported('indirect call')
        ops = ins['ops']
        if name == 'llvm.ubsantrap':
            # -fsanitize-trap: this block is reached exactly when the check failed; record the obligation (kind byte, path condition, source chain)
            if not hasattr(self, 'traps'):
                self.traps = []
            kind = int(ops[0]['c']['v']) if 'c' in ops[0] else -1
            self.traps.append({'kind': kind, 'cond': self.cond[self.cur], 'dbg': ins.get('dbg'), 'block': self.cur})
            return
        if name in ('llvm.trap',):
            if not hasattr(self, 'traps'):
                self.traps = []
            self.traps.append({'kind': -2, 'cond': self.cond[self.cur], 'dbg': ins.get('dbg'), 'block': self.cur})
            return
        ty = parse_ty(ins['ty'])
        if name.startswith('llvm.'):
            return self._intrinsic(ins, name, ops, ty)
        base = _LIBM.get(name)
        args = [self.get(o) for o in ops]
        if base and not any(isinstance(a, Ptr) for a in args) and ty[0] == 'fp':
            self.setv(ins, self._fn(base, args, ty_bits(ty)))
            return
        if base in ('modf', 'frexp') and len(args) == 2 and isinstance(args[1], Ptr) and not isinstance(args[0], Ptr):
            # write-only out parameter: integral part (same float type) / exponent (int)
            x = args[0]
            ow = x.w if base == 'modf' else 32
            self.mem.store(args[1].base, args[1].off, tm.fn(base + '.out', [x], ow))
            self.setv(ins, tm.fn(base + '.ret', [x], ty_bits(ty)))
            return
        self._opaque_call(ins, name, args, ty, ins.get('pattr'))

    def _fn(self, base, args, w):
        if base == 'sqrt':
            return tm.mk('sqrt', (args[0],), w)
        if base == 'fabs':
            return tm.fabs(args[0])
        if base == 'fma':
            return tm.mk('fma', tuple(args), w)
        if base == 'fmin':
            return tm.arith('minnum', args[0], args[1])
        if base == 'fmax':
            return tm.arith('maxnum', args[0], args[1])
        return tm.fn(base, args, w)

    def _opaque_call(self, ins, name, args, ty, pattr=None):
        """unknown callee: result is an opaque function of its value arguments and of the memory its
        pointer arguments point to; memory behind pointer arguments is havoced (named by the call)"""
        self.ncall += 1
        vals = []
        ptrs = []
        for i, a in enumerate(args):
            if isinstance(a, Ptr):
                size = self._obj_size(a)
                ro = False
                if pattr and i < len(pattr) and pattr[i][0]:
                    # reference parameter: the callee may access exactly dereferenceable(N) bytes
                    size = pattr[i][0] if size is None else min(size, pattr[i][0])
                    ro = bool(pattr[i][1])
                if size is None:
                    raise Unsupported('call %s with pointer to object of unknown size' % name)
                vals.append(self.mem.load(a.base, a.off, size))
                if not ro and not (pattr and i < len(pattr) and pattr[i][0] and self._is_const_ref(name, i)):
                    ptrs.append((i, a, size))
            elif isinstance(a, list):
                vals.extend(a)
            else:
                vals.append(a)
        elems = None
        if ty[0] == 'struct':
            # a small aggregate returned in registers (e.g. a float quaternion as { <2 x float>, <2 x float> }): the elements are consecutive slices of one opaque result
            elems = [ty_bits(e) for e in ty[1]]
            w = sum(elems)
        else:
            w = 0 if ty[0] == 'void' else ty_bits(ty)
        call = tm.mk('call', (name,) + tuple(vals), max(w, 1))
        self.calls.append((name, call, ins.get('dbg')))
        for i, a, size in ptrs:
            self.mem.store(a.base, a.off, tm.mk('callout', (call, i), size * 8))
        if elems is not None:
            out, pos = [], 0
            for ew in elems:
                out.append(tm.slice_(call, pos, ew))
                pos += ew
            self.env[ins['id']] = out
        elif w:
            self.setv(ins, call)

    def _is_const_ref(self, mangled, i):
        """Itanium mangling: RK<type> is a reference to const — the callee cannot write through it"""
        m = re.search(r'E((?:RK.|[a-zA-Z]|P.|R.)+)$', mangled)
        if not m:
            return False
        # split the parameter list into single-parameter encodings (enough for builtin scalar references)
        ps = re.findall(r'RK[a-z]|PK[a-z]|R[a-z]|P[a-z]|[a-z]', m.group(1))
        return i < len(ps) and ps[i].startswith(('RK', 'PK'))

    def _obj_size(self, p):
        b = p.base
        if isinstance(b, tuple) and b[0] == 'alloca':
            return (b[2] - p.off) if b[2] is not None else None
        if isinstance(b, str) and b in getattr(self, 'argsize', {}):
            return self.argsize[b] - p.off
        return None

    def _intrinsic(self, ins, name, ops, ty):
        parts_ = name.split('.')
        base = parts_[1]
        if base in ('dbg', 'lifetime', 'assume', 'experimental', 'donothing'):
            return
        if base in ('memcpy', 'memmove'):
            d, s = self.get(ops[0]), self.get(ops[1])
            n = self.const_int(ops[2])
            if n is None or not isinstance(d, Ptr) or not isinstance(s, Ptr):
                raise Unsupported('variable memcpy')
            if n:
                v = self.mem.load(s.base, s.off, n)
                self.mem.store(d.base, d.off, v)
            return
        if base == 'memset':
            d = self.get(ops[0])
            n = self.const_int(ops[2])
            b = self.get(ops[1])
            if n is None or b.op != 'const':
                raise Unsupported('variable memset')
            if n:
                self.mem.store(d.base, d.off, tm.concat([b] * n))
            return
        if base == 'x86':
            if self.x86 is None:
                raise Unsupported('x86 intrinsic ' + name)
            r = self.x86(self, name, [self.get(o) for o in ops], ty)
            if r is None:
                raise Unsupported('x86 intrinsic ' + name)
            self.setv(ins, r)
            return
        args = [self.get(o) for o in ops]
        n, w = lane_shape(ty) if ty[0] != 'struct' else (1, 0)

        def lw(f, k=None):
            k = k if k is not None else len(args)
            self.setv(ins, self.lanewise(ty, f, *args[:k]))
        if base == 'fabs':
            return lw(tm.fabs)
        if base == 'sqrt':
            return lw(lambda a: tm.mk('sqrt', (a,), a.w))
        if base in ('fma', 'fmuladd'):
            return lw(lambda a, b, c: tm.mk('fma', (a, b, c), a.w))
        if base in ('minnum', 'maxnum', 'smin', 'smax', 'umin', 'umax'):
            return lw(lambda a, b: tm.arith(base, a, b))
        if base in ('minimum', 'maximum'):
            return lw(lambda a, b: tm.mk(base, tuple(sorted((a, b))), a.w))
        if base in _FN_INTRINSICS:
            if base == 'powi':
                raise Unsupported('powi')
            return lw(lambda *a: tm.fn(base, a, a[0].w))
        if base == 'ctpop':
            return lw(lambda a: tm.mk('ctpop', (a,), a.w))
        if base in ('ctlz', 'cttz'):
            zp = self.const_int(ops[1])
            return lw(lambda a: tm.mk(base, (a, zp), a.w), 1)
        if base == 'bitreverse':
            return lw(tm.bitreverse)
        if base == 'bswap':
            return lw(tm.bswap)
        if base == 'abs':
            return lw(lambda a: tm.mk('iabs', (a,), a.w), 1)
        if base in ('fshl', 'fshr'):
            k = self.splat_const(args[2], ty)
            if k is not None:
                def f(a, b, c, base=base):
                    kk = k % a.w
                    if kk == 0:
                        return a if base == 'fshl' else b
                    cat = tm.concat([b, a])            # b low, a high
                    if base == 'fshl':
                        return tm.slice_(cat, a.w - kk, a.w)
                    return tm.slice_(cat, kk, a.w)
                return lw(f)
            return lw(lambda a, b, c: tm.mk(base, (a, b, c), a.w))
        if base in ('uadd', 'usub', 'umul', 'sadd', 'ssub', 'smul') and len(parts_) > 2 and parts_[2] == 'with':
            a, b = args
            w = a.w
            opn = {'uadd': 'add', 'usub': 'sub', 'umul': 'mul', 'sadd': 'add', 'ssub': 'sub', 'smul': 'mul'}[base]
            res = tm.arith(opn, a, b)
            if base == 'uadd':
                ov = tm.carry(a, b)
            elif base == 'usub':
                ov = tm.icmp('ult', a, b)
            else:
                ov = tm.mk('overflow', (base, a, b), 1)
            self.env[ins['id']] = [res, ov]
            return
        if base in ('uadd', 'usub', 'sadd', 'ssub') and len(parts_) > 2 and parts_[2] == 'sat':
            return lw(lambda a, b: tm.mk(base + '.sat', (a, b), a.w))
        if base == 'vector' and parts_[2] == 'reduce':
            kind = parts_[3]
            src = args[-1]
            ety = None
            # element width from the suffix e.g. v4f32 / v4i32
            m = re.search(r'v(\d+)([if])(\d+)$', name)
            if not m:
                raise Unsupported(name)
            cnt, ew = int(m.group(1)), int(m.group(3))
            ls = [tm.slice_(src, i * ew, ew) for i in range(cnt)]
            opmap = {'add': 'add', 'mul': 'mul', 'and': 'and', 'or': 'or', 'xor': 'xor', 'fadd': 'fadd', 'fmul': 'fmul',
                     'smax': 'smax', 'smin': 'smin', 'umax': 'umax', 'umin': 'umin'}
            if kind not in opmap:
                raise Unsupported(name)
            if kind in ('fadd', 'fmul'):
                acc = args[0]
                for l in ls:
                    acc = tm.arith(kind, acc, l)
            else:
                acc = ls[0]
                for l in ls[1:]:
                    acc = tm.bitop(kind, acc, l) if kind in ('and', 'or', 'xor') else tm.arith(opmap[kind], acc, l)
            self.setv(ins, acc)
            return
        if base == 'is' and parts_[2] == 'fpclass':
            raise Unsupported(name)
        if base in ('trap', 'ubsantrap'):
            self.notes.append(('trap', self.cond[self.cur], ins.get('dbg')))
            return
        raise Unsupported('intrinsic ' + name)


def analyse(fn, argspec, argsize=None, x86=None, cut_loops=False):
    it = Interp(fn, argspec, x86=x86)
    it.argsize = argsize or {}
    it.cut_loops = cut_loops
    it.run()
    return it


def out_lane(it, base, off, nbytes):
    """term stored at [off, off+nbytes) of the object behind pointer argument `base` at function exit"""
    return it.final_mem.load(base, off, nbytes)
