"""Exact rational evaluation of float lane terms under the real-arithmetic reading, and a structured witness search.

Used only to make a REFUTED verdict sound when two normal forms differ but involve selections / absolute values / square roots whose
feasibility the algebraic criteria cannot settle: a rational input is exhibited at which the analysed term and the definition — both
*terms derived by the static analysis*, never GLM code — evaluate, exactly, to different numbers.  No witness, no refutation."""
import math
import random
from fractions import Fraction
from . import term as tm


class NoValue(Exception):
    pass


def _isqrt(x):
    if x < 0:
        raise NoValue('sqrt of a negative number')
    n, d = x.numerator, x.denominator
    rn, rd = math.isqrt(n), math.isqrt(d)
    if rn * rn == n and rd * rd == d:
        return Fraction(rn, rd)
    raise NoValue('irrational square root')


def _const(t):
    v = tm.fval(t)
    if v != v or v in (float('inf'), float('-inf')):
        raise NoValue('non-finite constant')
    return Fraction(v)


class Eval:
    def __init__(self, env):
        self.env = env          # {in-term: Fraction}
        self.memo = {}

    def f(self, t):
        r = self.memo.get(t)
        if r is None:
            r = self.memo[t] = self._f(t)
        return r

    def b(self, t):
        k = ('b', t)
        r = self.memo.get(k)
        if r is None:
            r = self.memo[k] = self._b(t)
        return r

    def _f(self, t):
        op = t.op
        if op == 'const':
            return _const(t)
        if op == 'in':
            if t not in self.env:
                raise NoValue('unbound input')
            return self.env[t]
        if op == 'fadd':
            return self.f(t.args[0]) + self.f(t.args[1])
        if op == 'fsub':
            return self.f(t.args[0]) - self.f(t.args[1])
        if op == 'fmul':
            return self.f(t.args[0]) * self.f(t.args[1])
        if op == 'fma':
            return self.f(t.args[0]) * self.f(t.args[1]) + self.f(t.args[2])
        if op == 'fdiv':
            d = self.f(t.args[1])
            if d == 0:
                raise NoValue('division by zero')
            return self.f(t.args[0]) / d
        if op == 'fneg':
            return -self.f(t.args[0])
        if op == 'fabs':
            return abs(self.f(t.args[0]))
        if op == 'sqrt':
            return _isqrt(self.f(t.args[0]))
        if op in ('fpext', 'fptrunc'):
            return self.f(t.args[0])
        if op == 'select':
            return self.f(t.args[1]) if self.b(t.args[0]) else self.f(t.args[2])
        if op in ('minnum', 'maxnum'):
            a, b = self.f(t.args[0]), self.f(t.args[1])
            return min(a, b) if op == 'minnum' else max(a, b)
        if op == 'fn' and t.args[0] in ('floor', 'ceil', 'trunc', 'round'):
            x = self.f(t.args[1])
            if t.args[0] == 'floor':
                return Fraction(math.floor(x))
            if t.args[0] == 'ceil':
                return Fraction(math.ceil(x))
            if t.args[0] == 'trunc':
                return Fraction(math.trunc(x))
            fl = math.floor(abs(x) + Fraction(1, 2))
            return Fraction(fl if x >= 0 else -fl)
        if op in ('uitofp', 'sitofp') and t.args[0].w == 1:
            return Fraction((1 if op == 'uitofp' else -1) if self.b(t.args[0]) else 0)
        if op == 'concat':
            from . import fclass
            r = fclass.sign_idiom(t)
            if r is not None:
                kind, x, _ = r
                v = self.f(x)
                return abs(v) if kind == 'fabs' else (-abs(v) if kind == 'nfabs' else -v)
        raise NoValue('no exact value for ' + op)

    def _b(self, t):
        op = t.op
        if op == 'const':
            return bool(t.args[0])
        if op == 'fcmp':
            pred = t.args[0]
            a, b = self.f(t.args[1]), self.f(t.args[2])
            if pred == 'ord':
                return True
            if pred == 'uno':
                return False
            p = pred[1:]
            return {'eq': a == b, 'ne': a != b, 'lt': a < b, 'le': a <= b, 'gt': a > b, 'ge': a >= b}[p]
        if op == 'not':
            return not self.b(t.args[0])
        if op in ('and', 'or', 'xor') and t.w == 1:
            x, y = self.b(t.args[0]), self.b(t.args[1])
            return (x and y) if op == 'and' else (x or y) if op == 'or' else (x != y)
        if op == 'select' and t.w == 1:
            return self.b(t.args[1]) if self.b(t.args[0]) else self.b(t.args[2])
        raise NoValue('no exact truth value for ' + op)


POOL = [Fraction(n, d) for d in (1, 2) for n in range(-4, 5) if d == 1 or n % 2]


def input_lanes(terms):
    out = set()
    for t in terms:
        for x in tm.walk(t):
            if x.op == 'in':
                out.add(x)
            elif x.op == 'slice' and x.args[0].op == 'in':
                raise NoValue('partial lane')
    return sorted(out, key=lambda x: (x.args[0], x.args[1]))


def samples(lanes, rng, n):
    """structured random points: generic, axis-aligned groups, groups tied to (minus) another group, small perturbations of ties"""
    groups = {}
    for l in lanes:
        groups.setdefault((l.args[0], l.w), []).append(l)
    gl = list(groups.values())
    # the origin and the all-ones point first (degenerate-argument arms: |u| < epsilon, x == y ...)
    yield {l: Fraction(0) for l in lanes}
    yield {l: Fraction(1) for l in lanes}
    for i in range(n):
        env = {l: rng.choice(POOL) for l in lanes}
        mode = rng.random()
        if mode < 0.5:
            for g in gl:
                r = rng.random()
                if r < 0.35 and len(g) > 1:
                    keep = rng.randrange(len(g))
                    for j, l in enumerate(g):
                        if j != keep:
                            env[l] = Fraction(0)
                    if env[g[keep]] == 0:
                        env[g[keep]] = rng.choice([Fraction(1), Fraction(-1), Fraction(2), Fraction(-1, 2)])
            if len(gl) > 1 and rng.random() < 0.6:
                a, b = rng.sample(gl, 2)
                if len(a) == len(b):
                    s = rng.choice([1, -1, 2, Fraction(-1, 2)])
                    for la, lb in zip(a, b):
                        env[lb] = env[la] * s
        yield env


def separate(t1, t2, tries=800, seed=7):
    """(env, v1, v2) with t1 and t2 evaluating exactly to different numbers at the rational point env; None if none found"""
    try:
        lanes = input_lanes([t1, t2])
    except NoValue:
        return None
    rng = random.Random(seed)
    for env in samples(lanes, rng, tries):
        try:
            ev = Eval(env)
            a, b = ev.f(t1), ev.f(t2)
        except (NoValue, ZeroDivisionError, OverflowError):
            continue
        if a != b:
            return env, a, b
    return None


def show_env(env):
    return ', '.join('%s[%d]=%s' % (l.args[0], l.args[1] // l.w, v) for l, v in sorted(env.items(), key=lambda kv: (kv[0].args[0], kv[0].args[1])))
