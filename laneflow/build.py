"""Kernel description, TU generation, parallel compilation (clang 14 -> unoptimised IR -> irtool -O2 -> JSON)."""
import os
import re
import json
import subprocess
import hashlib
from concurrent.futures import ThreadPoolExecutor

REPO = os.environ.get('GLM_REPO', '/repo')
VERIF = os.path.dirname(os.path.dirname(os.path.abspath(__file__)))
IRTOOL = os.path.join(VERIF, '_bin', 'irtool')

BASE_FLAGS = ['-std=gnu++17', '-I' + REPO, '-DNDEBUG', '-O2', '-Xclang', '-disable-llvm-passes', '-ffp-contract=off',
              '-fno-math-errno', '-gline-tables-only', '-S', '-emit-llvm', '-w', '-ferror-limit=0']
DEFAULT_HEADERS = ('glm/glm.hpp', 'glm/ext.hpp')


class Cfg:
    """a build configuration: -D macros / -m flags / headers / callees to keep opaque"""

    def __init__(self, name='default', defines=(), flags=(), headers=DEFAULT_HEADERS, noinline=(), std=None, prelude='', peel=0, pre_text='', memcheck=False):
        self.name = name
        self.defines = tuple(defines)
        self.flags = tuple(flags)
        self.headers = tuple(headers)
        self.noinline = tuple(noinline)
        self.std = std
        self.prelude = prelude
        self.pre_text = pre_text   # text emitted before the GLM headers (e.g. the g++ preprocessor view: system headers first, then #undef __clang__)
        self.memcheck = memcheck   # also emit the memory-safety records of every kernel (irtool --memcheck): size / alignment table per kernel in the TU
        self.peel = peel           # peel this many iterations off every loop (irtool --peel); the interpreter then cuts the residual back edge

    def key(self):
        return (self.name, self.defines, self.flags, self.headers, self.noinline, self.std, self.prelude, self.peel, self.pre_text, self.memcheck)

    def __hash__(self):
        return hash(self.key())

    def __eq__(self, o):
        return self.key() == o.key()

    def with_(self, name=None, defines=(), flags=(), noinline=(), headers=None, prelude=None):
        return Cfg(name or self.name, self.defines + tuple(defines), self.flags + tuple(flags),
                   headers if headers is not None else self.headers, self.noinline + tuple(noinline), self.std,
                   self.prelude if prelude is None else prelude, self.peel, self.pre_text, self.memcheck)

    def describe(self):
        return ' '.join(['-D' + d for d in self.defines] + list(self.flags)) or '(default)'


DEFAULT = Cfg()


class K:
    """one kernel: an extern "C" function with pointer in/out parameters.

    params: list of (name, cpptype, elem_bytes, size_bytes, const?) in parameter order.
    body:   C++ statement(s) using the parameter names (pointers).
    """

    def __init__(self, name, params, body, cfg=DEFAULT, meta=None, pre=''):
        name = re.sub(r'\W', '_', name)
        self.name = name if name.startswith('k_') else 'k_' + name
        self.params = params
        self.body = body
        self.cfg = cfg
        self.meta = meta or {}
        self.pre = pre

    def source(self):
        ps = ', '.join('%s%s* %s' % (p[1], ' const' if p[4] else '', p[0]) for p in self.params)
        return '%sextern "C" void %s(%s) { %s }' % (self.pre + '\n' if self.pre else '', self.name, ps, self.body)

    def argspec(self):
        return [(p[0], p[2], p[1].endswith('bool') or '<' in p[1] and ', bool,' in p[1]) for p in self.params]

    def argsize(self):
        return {p[0]: p[3] for p in self.params}


def P(name, ty, const=True):
    """parameter from a type descriptor (types.py objects have .cpp .elem .size)"""
    return (name, ty.cpp, ty.elem, ty.size, const)


def _tu_source(cfg, kernels):
    out = []
    for d in cfg.defines:
        if '=' in d:
            n, v = d.split('=', 1)
            out.append('#define %s %s' % (n, v))
        else:
            out.append('#define %s' % d)
    if 'GLM_ENABLE_EXPERIMENTAL' not in cfg.defines:
        out.append('#define GLM_ENABLE_EXPERIMENTAL')
    if getattr(cfg, 'pre_text', ''):
        out.append(cfg.pre_text)
    for h in cfg.headers:
        out.append('#include <%s>' % h)
    out.append('using namespace glm;')
    if cfg.prelude:
        out.append(cfg.prelude)
    for k in kernels:
        out.append('#line 1 "%s"' % k.name)
        out.append(k.source())
        if getattr(cfg, 'memcheck', False):
            # extent of each argument object: sizeof for class types; unknown (0) for pointers to scalars (may be the first element of an array) and for arguments the
            # kernel itself indexes as an array (o[3] = ...: the harness passes several result slots through one pointer)
            def _ext(p):
                if re.search(r'\b%s\s*\[' % re.escape(p[0]), k.body):
                    return '0'
                return '(std::is_class<%s>::value ? sizeof(%s) : 0)' % (p[1], p[1])
            out.append('extern "C" { extern const unsigned long kmeta_%s[] = { %s }; }' % (k.name, ', '.join('%s, alignof(%s)' % (_ext(p), p[1]) for p in k.params) or '0'))
    return '\n'.join(out) + '\n'


def _compile_tu(args):
    cfg, kernels, path = args
    src = _tu_source(cfg, kernels)
    with open(path + '.cpp', 'w') as f:
        f.write(src)
    flags = list(BASE_FLAGS)
    if cfg.std:
        flags[0] = '-std=' + cfg.std
    cmd = ['clang++'] + flags + list(cfg.flags) + [path + '.cpp', '-o', path + '.ll']
    p = subprocess.run(cmd, stdout=subprocess.PIPE, stderr=subprocess.PIPE, text=True)
    return p.returncode, p.stderr, cmd


def _failed_names(stderr, names):
    """attribute each clang error to the kernel whose #line tag appears in the error itself or in the
    'in instantiation of ... requested here' notes that follow it"""
    bad = {}
    cur = None
    for line in stderr.splitlines():
        m = re.match(r'^(\S+?):(\d+):(\d+): (fatal error|error|note): (.*)', line)
        if not m:
            continue
        f, kind, msg = m.group(1), m.group(4), m.group(5)
        if kind != 'note':
            cur = msg
        if f in names and cur is not None:
            bad.setdefault(f, cur)
    return bad


def _first_error(err):
    for line in err.splitlines():
        m = re.match(r'^(\S+?):(\d+):(\d+): (?:fatal )?error: (.*)', line)
        if m:
            f = m.group(1)
            return '%s:%s: %s' % (f[len(REPO) + 1:] if f.startswith(REPO) else f, m.group(2), m.group(4))
    return err[:200]


def _bisect(cfg, ks, path, err):
    """find the kernels whose presence makes the TU fail (each is compiled alone at the end)"""
    bad = {}

    def rec(group, gerr):
        if len(group) == 1:
            bad[group[0].name] = _first_error(gerr)
            return
        h = len(group) // 2
        for part in (group[:h], group[h:]):
            rc, e, _ = _compile_tu((cfg, part, path + '.bis'))
            if rc != 0:
                rec(part, e)
    rec(list(ks), err)
    for ext in ('.bis.cpp', '.bis.ll'):
        try:
            os.remove(path + ext)
        except OSError:
            pass
    return bad


def build(kernels, workdir, tu_size=120, jobs=None, log=None):
    """compile all kernels (grouped by cfg). returns (index, failures)
    index: {(cfgname, kernelname): (jsonl path, byte offset)} ; failures: {(cfgname, kernelname): first error text}
    """
    jobs = jobs or os.cpu_count() or 4
    os.makedirs(workdir, exist_ok=True)
    groups = {}
    for k in kernels:
        groups.setdefault(k.cfg, {})
        if k.name in groups[k.cfg]:
            if groups[k.cfg][k.name].source() != k.source():
                raise RuntimeError('duplicate kernel name with different source: ' + k.name)
            continue
        groups[k.cfg][k.name] = k
    tus = []
    for cfg, ks in groups.items():
        ks = list(ks.values())
        # big TUs amortise header parsing; keep every core busy
        h = hashlib.sha1(repr(cfg.key()).encode()).hexdigest()[:8]
        n = max(1, min(tu_size, (len(ks) + jobs - 1) // jobs if len(ks) > jobs * 8 else tu_size))
        for i in range(0, len(ks), n):
            tus.append([cfg, ks[i:i + n], os.path.join(workdir, '%s_%s_%d' % (re.sub(r'\W', '_', cfg.name), h, i // n))])
    failures = {}
    index = {}
    stats = {'tus': len(tus), 'kernels': sum(len(t[1]) for t in tus), 'compile_failures': 0}

    def do_tu(tu):
        cfg, ks, path = tu
        fails = {}
        ks = list(ks)
        for attempt in range(12):
            if not ks:
                return cfg, [], path, fails, None
            rc, err, cmd = _compile_tu((cfg, ks, path))
            if rc == 0:
                break
            bad = _failed_names(err, {k.name for k in ks})
            if not bad:
                # errors raised during code generation carry no instantiation notes: isolate the kernels by bisection
                bad = _bisect(cfg, ks, path, err)
                if not bad:
                    return cfg, ks, path, fails, 'TU compile failure not attributable to a kernel:\n' + err[:3000]
            for n_, e in bad.items():
                fails[n_] = e
            ks = [k for k in ks if k.name not in bad]
        else:
            return cfg, ks, path, fails, 'too many compile retries'
        cmd = [IRTOOL, path + '.ll', path + '.jsonl']
        for r in cfg.noinline:
            cmd += ['--noinline', r]
        if getattr(cfg, 'peel', 0):
            cmd += ['--peel', str(cfg.peel)]
        if getattr(cfg, 'memcheck', False):
            cmd += ['--memcheck', path + '.mem.jsonl']
            if cfg.memcheck == 'only':
                cmd += ['--mem-only']
        p = subprocess.run(cmd, stdout=subprocess.PIPE, stderr=subprocess.PIPE, text=True)
        if p.returncode != 0:
            return cfg, ks, path, fails, 'irtool failed: ' + p.stderr[:2000]
        try:
            os.remove(path + '.ll')
        except OSError:
            pass
        return cfg, ks, path, fails, None

    broken = []
    with ThreadPoolExecutor(max_workers=jobs) as ex:
        for cfg, ks, path, fails, fatal in ex.map(do_tu, tus):
            for n_, e in fails.items():
                failures[(cfg.name, n_)] = e
            if fatal:
                broken.append((cfg.name, fatal))
                continue
            if not ks:
                continue
            with open(path + '.jsonl', 'rb') as f:
                off = 0
                for line in f:
                    m = re.match(rb'\{"func":"([^"]+)"', line)
                    if m:
                        index[(cfg.name, m.group(1).decode())] = (path + '.jsonl', off)
                    off += len(line)
    stats['compile_failures'] = len(failures)
    mem = {}
    for cfg, ks, path in tus:
        if getattr(cfg, 'memcheck', False) and os.path.exists(path + '.mem.jsonl'):
            for line in open(path + '.mem.jsonl'):
                d = json.loads(line)
                mem[(cfg.name, d['func'])] = d
    stats['mem'] = mem
    return index, failures, broken, stats


def load_fn(index, cfgname, name):
    path, off = index[(cfgname, name)]
    with open(path, 'rb') as f:
        f.seek(off)
        return json.loads(f.readline())
