"""C08 — projection builders map the view volume onto the configured clip volume.

  corner_map   every ortho / frustum / perspective / perspectiveFov / infinitePerspective variant (RH/LH x NO/ZO): the 16 result
               lanes are rational functions of the parameters; multiplied symbolically with the eight corners of the view volume
               they must satisfy x_clip = -+w (left/right), y_clip = -+w (bottom/top), z_clip = -w | 0 at the near plane (NO | ZO),
               z_clip = +w at the far plane (or for the direction at infinity), with w_clip = -z_eye (RH) / +z_eye (LH)
               (ortho: w = 1): polynomial identities modulo inv(p)*p = 1 and tan = sin/cos
  dispatch     under each of the four {LEFT_HANDED} x {DEPTH_ZERO_TO_ONE} configurations every unsuffixed and half-suffixed builder,
               project, unProject and lookAt has the identical lane terms as the fully suffixed variant the manual says it selects
  viewport     projectNO/ZO == viewport map of the perspective division of P*M*obj (depth halved for NO only);
               unProjectNO/ZO == (Inv * ndc).xyz / (Inv * ndc).w with Inv = inverse(P*M) kept opaque; pickMatrix == translate then scale
"""
from fractions import Fraction
from laneflow import term as tm
from laneflow import poly as P
from laneflow import gtypes as G
from laneflow import runner as R
from laneflow import rulelib as L
from laneflow import interp as I
from laneflow.build import K, P as Par, Cfg
from laneflow.poly import Poly

HDR = ('glm/glm.hpp', 'glm/ext/matrix_clip_space.hpp', 'glm/ext/matrix_projection.hpp', 'glm/ext/matrix_transform.hpp')
CFGS = {
    'RH_NO': Cfg('clip_rh_no', headers=HDR),
    'LH_NO': Cfg('clip_lh_no', defines=('GLM_FORCE_LEFT_HANDED',), headers=HDR),
    'RH_ZO': Cfg('clip_rh_zo', defines=('GLM_FORCE_DEPTH_ZERO_TO_ONE',), headers=HDR),
    'LH_ZO': Cfg('clip_lh_zo', defines=('GLM_FORCE_LEFT_HANDED', 'GLM_FORCE_DEPTH_ZERO_TO_ONE'), headers=HDR),
}
DEF = CFGS['RH_NO']
OPAQUE_INV = Cfg('clip_inv_opaque', headers=HDR, noinline=(r'compute_inverse<4, 4',))


def A(name, T):
    sc = G.scalar(T)
    return L.in_atom(name, sc, 0)


def mat_polys(ctx, k, mt, pc):
    lanes = L.out_lanes(ctx, k, mt)
    return {lane: pc.fpoly(t) for lane, t in lanes.items()}


def mulv(M, v):
    """clip = M * v   (M[(c, r)])"""
    return [sum((M[(c, r)] * v[c] for c in range(4)), Poly()) for r in range(4)]


def tan_rewrite(p):
    """tan(x) -> sin(x) * inv(cos(x)): replace fn:tan atoms"""
    for a in list(p.atoms()):
        k = P.atom_key(a)
        if k[0] == 'fn:tan':
            s = Poly.atom(('fn:sin',) + k[1:])
            c = Poly.atom(('fn:cos',) + k[1:])
            p = p.subst(a, s * P.PCtx().inv(c))
        elif k[0] == 'inv':
            q = k[1][1]
            if len(q.t) == 1:
                (m, cf), = q.t.items()
                if len(m) == 1 and cf == 1 and P.atom_key(m[0])[0] == 'fn:tan':
                    kt = P.atom_key(m[0])
                    s = Poly.atom(('fn:sin',) + kt[1:])
                    c = Poly.atom(('fn:cos',) + kt[1:])
                    p = p.subst(a, c * P.PCtx().inv(s))
    return p


def norm(p):
    return P.reduce_inv(tan_rewrite(p))


def builder_case(fam, variant, T):
    """fam in ortho/frustum/perspective/perspectiveFov/infinitePerspective ; variant like 'RH_NO'"""
    sc, mt = G.scalar(T), G.mat(4, 4, T)
    hand, depth = variant.split('_')
    params = {'ortho': ['l', 'r', 'b', 't', 'n', 'f'], 'frustum': ['l', 'r', 'b', 't', 'n', 'f'], 'perspective': ['y', 'a', 'n', 'f'],
              'perspectiveFov': ['y', 'w', 'h', 'n', 'f'], 'infinitePerspective': ['y', 'a', 'n']}[fam]
    fn = fam + variant
    k = K('%s_%s' % (fn, sc.tag), [Par('o', mt, False)] + [Par(p_, sc) for p_ in params], '*o = %s(%s);' % (fn, ', '.join('*' + p_ for p_ in params)), DEF)
    name = '%s<%s>' % (fn, T)

    def judge(ctx):
        e = ctx.compile_error(k)
        if e:
            return [R.ob(name, 'existence', R.REFUTED, 'cannot be instantiated: ' + e, kernel=k.source())]
        it = ctx.fn(k)
        pc = P.PCtx()
        M = mat_polys(ctx, k, mt, pc)
        v = {p_: A(p_, T) for p_ in params}
        zs = -1 if hand == 'RH' else 1          # z_eye = zs * distance
        one = Poly.const(1)
        corners = []                         # (description, point (x, y, z, w), expectations {coord: sign or 'zero'})
        if fam in ('ortho', 'frustum'):
            for xn, xs in (('l', -1), ('r', 1)):
                for yn, ys in (('b', -1), ('t', 1)):
                    # near plane
                    corners.append(('near %s%s' % (xn, yn), [v[xn], v[yn], v['n'].scale(zs), one], (xs, ys, 'near')))
                    if fam == 'ortho':
                        corners.append(('far %s%s' % (xn, yn), [v[xn], v[yn], v['f'].scale(zs), one], (xs, ys, 'far')))
                    else:
                        corners.append(('far %s%s' % (xn, yn), [v[xn] * v['f'], v[yn] * v['f'], (v['f'] * v['n']).scale(zs), v['n']], (xs, ys, 'far')))
        else:
            # symmetric frusta described by the vertical field of view
            half = Poly.atom(('P_half_angle',))   # placeholder, replaced below by sin/cos atoms of the kernel's own argument
            sinv, cosv = find_sincos(M, pc)
            if sinv is None:
                return [R.ob(name, 'corner_map', R.UNDECIDED, 'no tan/sin/cos atom of the field of view found in the result')]
            if fam == 'perspectiveFov':
                ax, ay = v['w'], v['h']          # x extent : y extent = width : height
            else:
                ax, ay = v['a'], one
            for xs in (-1, 1):
                for ys in (-1, 1):
                    # near corner scaled by cos * ay:  x = xs*n*tan*aspect, y = ys*n*tan, z = zs*n
                    pt = [(v['n'] * sinv * ax).scale(xs), (v['n'] * sinv * ay).scale(ys), (v['n'] * cosv * ay).scale(zs), cosv * ay]
                    corners.append(('near %+d%+d' % (xs, ys), pt, (xs, ys, 'near')))
                    if fam != 'infinitePerspective':
                        ptf = [(v['f'] * sinv * ax).scale(xs), (v['f'] * sinv * ay).scale(ys), (v['f'] * cosv * ay).scale(zs), cosv * ay]
                        corners.append(('far %+d%+d' % (xs, ys), ptf, (xs, ys, 'far')))
            if fam == 'infinitePerspective':
                corners.append(('direction of view at infinity', [Poly(), Poly(), Poly.const(zs), Poly()], (None, None, 'far')))
        res = []
        for desc, pt, (xs, ys, plane) in corners:
            clip = [norm(c) for c in mulv(M, pt)]
            w = clip[3]
            checks = []
            if xs is not None:
                checks.append(('x', clip[0] - w.scale(xs), 'x_clip = %+d*w' % xs))
                checks.append(('y', clip[1] - w.scale(ys), 'y_clip = %+d*w' % ys))
            if plane == 'near':
                checks.append(('z', clip[2] + w if depth == 'NO' else clip[2], 'z_clip = %s' % ('-w' if depth == 'NO' else '0')))
            else:
                checks.append(('z', clip[2] - w, 'z_clip = +w'))
            # w_clip: ortho -> point w ; perspective -> -z_eye (RH) / +z_eye (LH)
            if fam == 'ortho':
                checks.append(('w', w - norm(pt[3]), 'w_clip = 1'))
            else:
                checks.append(('w', w - norm(pt[2].scale(zs)), 'w_clip = %sz_eye' % ('-' if hand == 'RH' else '+')))
            for cname, d, what in checks:
                d = norm(d)
                oid = '%s[%s].%s' % (name, desc, cname)
                if d.is_zero():
                    res.append(R.ob(oid, 'corner_map', R.PROVED, what, kernel=k.source()))
                else:
                    real = P.transparent(d)
                    res.append(R.ob(oid, 'corner_map', R.REFUTED if real else R.UNDECIDED, '%s fails at the %s corner: residual %s' % (what, desc, P.show_poly(d, limit=5)),
                                    where=R.where_of(it, L.out_lanes(ctx, k, mt)[(2, 2)]), kernel=k.source()))
        return res
    return R.Case(name, [k], judge)


def find_sincos(M, pc):
    """(sin, cos) polynomials of the half field of view used by the kernel: from a tan atom (tan -> sin/cos) or sin/cos atoms"""
    for p in M.values():
        for a in p.atoms():
            k = P.atom_key(a)
            if k[0] == 'fn:tan':
                return Poly.atom(('fn:sin',) + k[1:]), Poly.atom(('fn:cos',) + k[1:])
            if k[0] == 'inv':
                for b in k[1][1].atoms():
                    kb = P.atom_key(b)
                    if kb[0] == 'fn:tan':
                        return Poly.atom(('fn:sin',) + kb[1:]), Poly.atom(('fn:cos',) + kb[1:])
                    if kb[0] in ('fn:sin', 'fn:cos'):
                        return Poly.atom(('fn:sin',) + kb[1:]), Poly.atom(('fn:cos',) + kb[1:])
            if k[0] in ('fn:sin', 'fn:cos'):
                return Poly.atom(('fn:sin',) + k[1:]), Poly.atom(('fn:cos',) + k[1:])
    return None, None


def dispatch_cases(T):
    """unsuffixed / half-suffixed functions == the variant the configuration selects (identical terms)"""
    cs = []
    sc, mt, v3, v4 = G.scalar(T), G.mat(4, 4, T), G.vec(3, T), G.vec(4, T)
    fams = {'ortho': ['l', 'r', 'b', 't', 'n', 'f'], 'frustum': ['l', 'r', 'b', 't', 'n', 'f'], 'perspective': ['y', 'a', 'n', 'f'],
            'perspectiveFov': ['y', 'w', 'h', 'n', 'f'], 'infinitePerspective': ['y', 'a', 'n']}
    for cname, cfg in CFGS.items():
        hand, depth = cname.split('_')
        for fam, params in fams.items():
            full = fam + cname
            ps = [Par('o', mt, False)] + [Par(p_, sc) for p_ in params]
            args = ', '.join('*' + p_ for p_ in params)
            kfull = K('%s_%s_%s' % (cfg.name, full, sc.tag), ps, '*o = %s(%s);' % (full, args), cfg)
            aliases = [fam, fam + hand, fam + depth] if fam != 'infinitePerspective' else [fam, fam + hand]      # the header declares infinitePerspectiveLH / RH (no NO / ZO half forms)
            for al in aliases:
                kal = K('%s_%s_alias_%s' % (cfg.name, al, sc.tag), ps, '*o = %s(%s);' % (al, args), cfg)
                cs.append(ident_case('%s == %s under %s <%s>' % (al, full, cname, T), kal, kfull, mt, 'dispatch'))
            # the half-suffixed forms whose explicit half differs from the configuration: the other half still comes from the configuration
            if True:
                oh = 'LH' if hand == 'RH' else 'RH'
                od = 'ZO' if depth == 'NO' else 'NO'
                for al, tgt in (((fam + od, fam + hand + '_' + od), (fam + oh, fam + oh + '_' + depth)) if fam != 'infinitePerspective' else ((fam + oh, fam + oh + '_' + depth),)):
                    kal = K('%s_%s_alias_%s' % (cfg.name, al, sc.tag), ps, '*o = %s(%s);' % (al, args), cfg)
                    ktg = K('%s_%s_%s' % (cfg.name, tgt, sc.tag), ps, '*o = %s(%s);' % (tgt, args), cfg)
                    cs.append(ident_case('%s == %s under %s <%s>' % (al, tgt, cname, T), kal, ktg, mt, 'dispatch'))
        # project / unProject / lookAt
        pj = [Par('o', v3, False), Par('a', v3), Par('m', mt), Par('p', mt), Par('v', v4)]
        for base in ('project', 'unProject'):
            kfull = K('%s_%s%s_%s' % (cfg.name, base, depth, sc.tag), pj, '*o = %s%s(*a, *m, *p, *v);' % (base, depth), cfg)
            kal = K('%s_%s_alias_%s' % (cfg.name, base, sc.tag), pj, '*o = %s(*a, *m, *p, *v);' % base, cfg)
            cs.append(ident_case('%s == %s%s under %s <%s>' % (base, base, depth, cname, T), kal, kfull, v3, 'dispatch'))
        lk = [Par('o', mt, False), Par('e', v3), Par('c', v3), Par('u', v3)]
        kfull = K('%s_lookAt%s_%s' % (cfg.name, hand, sc.tag), lk, '*o = lookAt%s(*e, *c, *u);' % hand, cfg)
        kal = K('%s_lookAt_alias_%s' % (cfg.name, sc.tag), lk, '*o = lookAt(*e, *c, *u);', cfg)
        cs.append(ident_case('lookAt == lookAt%s under %s <%s>' % (hand, cname, T), kal, kfull, mt, 'dispatch'))
    return cs


def B_load(ctx, k):
    from laneflow import build as B_
    key = (k.cfg.name, k.name)
    return B_.load_fn(ctx.index, *key) if key in ctx.index else None


def undefined_glm_calls(fnj):
    """callee names of calls to glm:: functions in the dumped kernel (after full inlining a call that survives is either kept opaque on purpose, a library function, or undefined)"""
    out = []
    if not fnj:
        return out
    for b in fnj.get('blocks', []):
        for ins in b.get('insts', []):
            c = ins.get('callee')
            if ins.get('op') == 'call' and c and c.startswith('_ZN3glm') and 'infinitePerspective' in c:
                out.append(c)
    return out


def ident_case(name, ka, kb, oty, rule):
    def judge(ctx):
        for k in (ka, kb):
            e = ctx.compile_error(k)
            if e:
                return [R.ob(name, 'existence', R.REFUTED, 'cannot be instantiated: ' + e, kernel=k.source())]
        # a function that the public header declares but the library never defines: the kernel keeps a call to a body-less glm:: function (link error for the user)
        for k in (ka, kb):
            fnj = B_load(ctx, k)
            und = undefined_glm_calls(fnj)
            if und:
                return [R.ob(name, 'existence', R.REFUTED, 'the function is declared in the public header but never defined: the kernel keeps a call to %s (undefined reference at link time)' % und[0], kernel=k.source())]
        la, lb = L.out_lanes(ctx, ka, oty), L.out_lanes(ctx, kb, oty)
        ita = ctx.fn(ka)
        res = []
        pc = P.PCtx()
        for lane in sorted(la, key=str):
            oid = '%s[%s]' % (name, lane)
            if la[lane] is lb[lane]:
                res.append(R.ob(oid, rule, R.PROVED, 'identical term', kernel=ka.source()))
            else:
                try:
                    pa, pb = pc.fpoly(la[lane]), pc.fpoly(lb[lane])
                    real = P.transparent(norm(pa - pb)) and not norm(pa - pb).is_zero()
                except Exception:
                    real = False
                res.append(R.ob(oid, rule, R.REFUTED if real else R.UNDECIDED, 'selects a different variant: %s vs %s' % (tm.show(la[lane], 3), tm.show(lb[lane], 3)),
                                where=R.where_of(ita, la[lane]), kernel=ka.source() + '\n' + kb.source()))
        return res
    return R.Case(name, [ka, kb], judge)


def project_cases(T):
    cs = []
    sc, mt, v3, v4, v2 = G.scalar(T), G.mat(4, 4, T), G.vec(3, T), G.vec(4, T), G.vec(2, T)
    for depth in ('NO', 'ZO'):
        k = K('proj_%s_%s' % (depth, sc.tag), [Par('o', v3, False), Par('a', v3), Par('m', mt), Par('p', mt), Par('v', v4)], '*o = project%s(*a, *m, *p, *v);' % depth, DEF)
        name = 'project%s<%s>' % (depth, T)

        def judge(ctx, k=k, depth=depth, name=name):
            it = ctx.fn(k)
            pc = P.PCtx()
            got = {i: norm(pc.fpoly(t)) for i, t in L.out_lanes(ctx, k, v3).items()}
            Mm = {l: L.in_atom('m', mt, l) for l in mt.lanes}
            Pm = {l: L.in_atom('p', mt, l) for l in mt.lanes}
            obj = [L.in_atom('a', v3, i) for i in range(3)] + [Poly.const(1)]
            vp = [L.in_atom('v', v4, i) for i in range(4)]
            eye = mulv(Mm, obj)
            clip = mulv(Pm, eye)
            iw = pc.inv(clip[3])
            half = Poly.const(Fraction(1, 2))
            ndc = [c * iw for c in clip]
            exp = {0: (ndc[0] * half + half) * vp[2] + vp[0], 1: (ndc[1] * half + half) * vp[3] + vp[1], 2: (ndc[2] * half + half) if depth == 'NO' else ndc[2]}
            res = []
            for i in range(3):
                d = norm(got[i] - exp[i])
                oid = '%s[%d]' % (name, i)
                if d.is_zero():
                    res.append(R.ob(oid, 'viewport', R.PROVED, 'window %s = viewport map of the perspective division%s' % ('xyz'[i], ' (depth mapped to [0,1])' if (i == 2 and depth == 'NO') else ''), kernel=k.source()))
                else:
                    res.append(R.ob(oid, 'viewport', R.REFUTED if P.transparent(d) else R.UNDECIDED, 'residual %s' % P.show_poly(d, limit=5), kernel=k.source()))
            return res
        cs.append(R.Case(name, [k], judge))
        # unProject with the inverse kept opaque
        ku = K('unproj_%s_%s' % (depth, sc.tag), [Par('o', v3, False), Par('a', v3), Par('m', mt), Par('p', mt), Par('v', v4)], '*o = unProject%s(*a, *m, *p, *v);' % depth, OPAQUE_INV)
        uname = 'unProject%s<%s>' % (depth, T)

        def judge_u(ctx, ku=ku, depth=depth, uname=uname):
            it = ctx.fn(ku)
            outs = L.out_lanes(ctx, ku, v3)
            calls = [c for c in it.calls if 'compute_inverse' in c[0]]
            if len(calls) != 1:
                return [R.ob(uname, 'viewport', R.UNDECIDED, 'expected exactly one opaque inverse call, found %d' % len(calls))]
            call = calls[0][1]
            pc = P.PCtx()
            res = []
            # (1) the argument of inverse is P * M
            argm = [a for a in call.args[1:] if isinstance(a, tm.T) and a.w == mt.size * 8]
            Mm = {l: L.in_atom('m', mt, l) for l in mt.lanes}
            Pm = {l: L.in_atom('p', mt, l) for l in mt.lanes}
            if argm:
                ok = True
                for (c, r), off in mt.lanes.items():
                    lane = tm.slice_(argm[-1], off * 8, mt.elem * 8)
                    exp = sum((Pm[(kk, r)] * Mm[(c, kk)] for kk in range(4)), Poly())
                    if pc.fpoly(lane) != exp:
                        ok = False
                res.append(R.ob(uname + '.inverse_argument', 'viewport', R.PROVED if ok else R.REFUTED, 'inverse is taken of proj * model' if ok else 'inverse argument is not proj * model', kernel=ku.source()))
            # (2) result = (Inv * ndc).xyz / (Inv * ndc).w
            inv_t = [x for x in tm.walk(tm.concat(list(outs.values()))) if x.op == 'callout' and x.args[0] is call]
            if not inv_t:
                return res + [R.ob(uname, 'viewport', R.UNDECIDED, 'result does not use the inverse')]
            invt = max(inv_t, key=lambda x: x.w)
            Inv = {(c, r): pc.fpoly(tm.slice_(invt, off * 8, mt.elem * 8)) for (c, r), off in mt.lanes.items()}
            win = [L.in_atom('a', v3, i) for i in range(3)]
            vp = [L.in_atom('v', v4, i) for i in range(4)]
            two, one = Poly.const(2), Poly.const(1)
            nx = (win[0] - vp[0]) * pc.inv(vp[2]) * two - one
            ny = (win[1] - vp[1]) * pc.inv(vp[3]) * two - one
            nz = win[2] * two - one if depth == 'NO' else win[2]
            nw = one * two - one if depth == 'NO' else one
            obj = mulv(Inv, [nx, ny, nz, nw])
            iw = pc.inv(obj[3])

            def free(key):
                # the 16 lanes of Inv = inverse(proj * model): as proj * model ranges over the invertible matrices so does Inv,
                # hence the lanes are independent free values for the purpose of refuting a non-zero rational residual
                if key[0] != 't':
                    return False
                x = key[1][1]
                return x is invt or (x.op == 'slice' and x.args[0] is invt)
            for i in range(3):
                d = norm(pc.fpoly(outs[i]) - obj[i] * iw)
                oid = '%s[%d]' % (uname, i)
                if d.is_zero():
                    res.append(R.ob(oid, 'viewport', R.PROVED, 'object %s = (Inv*ndc).%s / (Inv*ndc).w with ndc = window -> [-1,1]%s' % ('xyz'[i], 'xyz'[i], '' if depth == 'NO' else ' (depth kept in [0,1])'), kernel=ku.source()))
                else:
                    res.append(R.ob(oid, 'viewport', R.UNDECIDED if not P.transparent(d, free=free) else R.REFUTED, 'residual %s' % P.show_poly(d, limit=4), kernel=ku.source()))
            return res
        cs.append(R.Case(uname, [ku], judge_u))
    return cs


def equiv_cases(T):
    """perspective == symmetric frustum ; perspectiveFov == perspective with aspect = width / height (RH_NO and LH_ZO)"""
    cs = []
    sc, mt = G.scalar(T), G.mat(4, 4, T)
    for var in ('RH_NO', 'LH_ZO', 'RH_ZO', 'LH_NO'):
        kp = K('eqv_persp_%s_%s' % (var, sc.tag), [Par('o', mt, False)] + [Par(p_, sc) for p_ in 'yanf'], '*o = perspective%s(*y, *a, *n, *f);' % var, DEF)
        kf = K('eqv_frust_%s_%s' % (var, sc.tag), [Par('o', mt, False)] + [Par(p_, sc) for p_ in 'yanf'],
               '{ %s t = tan(*y / %s(2)) * *n; *o = frustum%s(-t * *a, t * *a, -t, t, *n, *f); }' % (sc.cpp, sc.cpp, var), DEF)
        kv = K('eqv_fov_%s_%s' % (var, sc.tag), [Par('o', mt, False)] + [Par(p_, sc) for p_ in 'ywhnf'], '*o = perspectiveFov%s(*y, *w, *h, *n, *f);' % var, DEF)
        kpw = K('eqv_perspwh_%s_%s' % (var, sc.tag), [Par('o', mt, False)] + [Par(p_, sc) for p_ in 'ywhnf'], '*o = perspective%s(*y, *w / *h, *n, *f);' % var, DEF)
        for nm, k1, k2 in (('perspective%s == symmetric frustum%s' % (var, var), kp, kf), ('perspectiveFov%s == perspective%s(aspect = w/h)' % (var, var), kv, kpw)):
            def judge(ctx, k1=k1, k2=k2, nm=nm):
                pc = P.PCtx()
                a, b = L.out_lanes(ctx, k1, mt), L.out_lanes(ctx, k2, mt)
                res = []
                for lane in sorted(a):
                    d = norm(pc.fpoly(a[lane]) - pc.fpoly(b[lane]))
                    d = half_angle(d)
                    oid = '%s<%s>[%s]' % (nm, T, lane)
                    if d.is_zero():
                        res.append(R.ob(oid, 'equivalence', R.PROVED, 'same rational function (tan = sin/cos)', kernel=k1.source()))
                    else:
                        res.append(R.ob(oid, 'equivalence', R.REFUTED if P.transparent(d) else R.UNDECIDED, 'residual %s' % P.show_poly(d, limit=4), kernel=k1.source() + '\n' + k2.source()))
                return res
            cs.append(R.Case('%s<%s>' % (nm, T), [k1, k2], judge))
    return cs


def tweaked_pick_cases(T):
    """tweakedInfinitePerspective(fovy, aspect, near, ep) == infinitePerspectiveRH_NO(fovy, aspect, near) + ep * E with E[2][2] = 1, E[3][2] = near (Lengyel's epsilon-shifted far plane);
    the three-argument overload uses ep = epsilon<T>();  pickMatrix(center, delta, viewport) == translate((vp.zw - 2 (center - vp.xy)) / delta, 0) * scale(vp.zw / delta, 1), the identity
    unless delta.x > 0 and delta.y > 0"""
    from laneflow import spec as S
    cs = []
    sc, mt, v2, v4 = G.scalar(T), G.mat(4, 4, T), G.vec(2, T), G.vec(4, T)
    w = sc.elem * 8
    ps = [Par('o', mt, False)] + [Par(p_, sc) for p_ in 'yan']
    kb = K('tw_base_%s' % sc.tag, ps, '*o = infinitePerspectiveRH_NO(*y, *a, *n);', DEF)
    k4 = K('tw4_%s' % sc.tag, ps + [Par('e', sc)], '*o = tweakedInfinitePerspective(*y, *a, *n, *e);', DEF)
    k3 = K('tw3_%s' % sc.tag, ps, '*o = tweakedInfinitePerspective(*y, *a, *n);', DEF)
    name = 'tweakedInfinitePerspective<%s>' % T

    def judge(ctx):
        for k in (kb, k4, k3):
            e = ctx.compile_error(k)
            if e:
                return [R.ob(name, 'existence', R.REFUTED, 'cannot be instantiated: ' + e, kernel=k.source())]
        pc = P.PCtx()
        b, t4, t3 = L.out_lanes(ctx, kb, mt), L.out_lanes(ctx, k4, mt), L.out_lanes(ctx, k3, mt)
        ep, n = A('e', T), A('n', T)
        import struct
        epsc = tm.fconst(w, 2.0 ** -23 if w == 32 else 2.0 ** -52)
        res = []
        for lane in sorted(b):
            shift = ep if lane == (2, 2) else (ep * n if lane == (3, 2) else Poly())
            d = norm(pc.fpoly(t4[lane]) - pc.fpoly(b[lane]) - shift)
            oid = '%s[%s]' % (name, lane)
            res.append(R.ob(oid, 'tweaked', R.PROVED if d.is_zero() else (R.REFUTED if P.transparent(d) else R.UNDECIDED),
                            'infinitePerspectiveRH_NO entry%s' % (' + ep' if lane == (2, 2) else ' + ep * near' if lane == (3, 2) else '') if d.is_zero() else 'differs from the infinite projection plus the epsilon shift by %s' % P.show_poly(d, limit=4),
                            where=R.where_of(ctx.fn(k4), t4[lane]) if not d.is_zero() else None, kernel=k4.source()))
            want3 = tm.substitute(t4[lane], {tm.inp('e', 0, w): epsc})
            d3 = norm(pc.fpoly(t3[lane]) - pc.fpoly(want3))
            res.append(R.ob(oid + '.default_epsilon', 'tweaked', R.PROVED if d3.is_zero() else (R.REFUTED if P.transparent(d3) else R.UNDECIDED),
                            'the three-argument overload is the four-argument one at ep = epsilon<T>()' if d3.is_zero() else 'three-argument overload differs from ep = epsilon<T>() by %s' % P.show_poly(d3, limit=4), kernel=k3.source()))
        return res
    cs.append(R.Case(name, [kb, k4, k3], judge))
    kp = K('pick_%s' % sc.tag, [Par('o', mt, False), Par('c', v2), Par('d', v2), Par('v', v4)], '*o = pickMatrix(*c, *d, *v);', DEF)
    pname = 'pickMatrix<%s>' % T

    def judge_p(ctx):
        e = ctx.compile_error(kp)
        if e:
            return [R.ob(pname, 'existence', R.REFUTED, 'cannot be instantiated: ' + e, kernel=kp.source())]
        lanes = L.out_lanes(ctx, kp, mt)
        c, d, v = S.vecE('c', v2), S.vecE('d', v2), S.vecE('v', v4)
        one, zero = S.const(w, 1.0), S.const(w, 0.0)
        sx, sy = v[2] / d[0], v[3] / d[1]
        tx = (v[2] - (c[0] - v[0]) * 2) / d[0]
        ty = (v[3] - (c[1] - v[1]) * 2) / d[1]
        M = {(0, 0): sx, (1, 1): sy, (2, 2): one, (3, 3): one, (3, 0): tx, (3, 1): ty}
        res = []
        pc = P.PCtx()
        for lane in sorted(lanes):
            val = M.get(lane, zero)
            idv = one if lane[0] == lane[1] else zero
            spec = S.sel(d[0].gt(0), S.sel(d[1].gt(0), val, idv), idv)
            st, detail = S.compare(lanes[lane], spec.t, pc=pc, nan=False)
            res.append(R.ob('%s[%s]' % (pname, lane), 'pick_matrix', st, detail, where=R.where_of(ctx.fn(kp), lanes[lane]) if st != R.PROVED else None, kernel=kp.source()))
        return res
    cs.append(R.Case(pname, [kp], judge_p))
    return cs


def half_angle(p):
    return p


def cases(tier):
    cs = []
    types = ['float', 'double']          # both element types in every tier (the whole check takes a few seconds)
    for T in types:
        for fam in ('ortho', 'frustum', 'perspective', 'perspectiveFov', 'infinitePerspective'):
            for var in ('RH_NO', 'RH_ZO', 'LH_NO', 'LH_ZO'):
                cs.append(builder_case(fam, var, T))
        cs += dispatch_cases(T)
        cs += project_cases(T)
        cs += equiv_cases(T)
        cs += tweaked_pick_cases(T)
    cs += canaries()
    from rules import narrow
    cs += narrow.cases(cs, 'C08')
    return cs


def canaries():
    sc, mt = G.scalar('float'), G.mat(4, 4, 'float')
    pre = ('static glm::mat4 verif_bad_ortho(float l, float r, float b, float t, float n, float f){ glm::mat4 R(1); R[0][0] = 2.f/(r-l); R[1][1] = 2.f/(t-b); R[2][2] = -2.f/(f-n); '
           'R[3][0] = -(r+l)/(r-l); R[3][1] = -(t+b)/(t-b); R[3][2] = -(f+n)/(f+n); return R; }')
    k = K('canary_ortho', [Par('o', mt, False)] + [Par(p_, sc) for p_ in 'lrbtnf'], '*o = verif_bad_ortho(*l, *r, *b, *t, *n, *f);', DEF, pre=pre)

    def judge(ctx):
        pc = P.PCtx()
        M = mat_polys(ctx, k, mt, pc)
        v = {p_: A(p_, 'float') for p_ in 'lrbtnf'}
        clip = [norm(c) for c in mulv(M, [v['l'], v['b'], -v['n'], Poly.const(1)])]
        d = norm(clip[2] + clip[3])
        return [R.ob('canary:ortho-wrong-denominator', 'corner_map', R.PROVED if d.is_zero() else R.REFUTED, P.show_poly(d, limit=4))]
    return [R.Case('canary:ortho-wrong-denominator', [k], judge, canary=True)]


EXPLANATION = ('static: every clip-space builder variant is instantiated from /repo and its 16 lanes are read as rational functions of the parameters; the eight view-volume corners are '
               'pushed through symbolically and must land on the clip-cube faces of the variant (polynomial identities modulo inv(p)*p=1, tan=sin/cos); the unsuffixed and half-suffixed '
               'functions, project, unProject and lookAt are compared for term identity with the suffixed variant under each of the four GLM_FORCE_LEFT_HANDED x GLM_FORCE_DEPTH_ZERO_TO_ONE '
               'configurations; project/unProject are compared with the viewport-map definition (inverse kept opaque)')
ASSUMPTIONS = ['parameters are valid (left<right, 0<near<far, ...): divisions are by non-zero quantities (axiom inv(p)*p=1)', 'float arithmetic read as exact real arithmetic',
               'tweakedInfinitePerspective (epsilon-shifted far plane) is not analysed']
TRUSTED = ['clang/LLVM 14', 'tools/irtool.cc', 'laneflow normal forms and polynomial division', 'corner/viewport definitions in rules/c08.py']
LEVEL = 'proof'
