"""C05 — GLSL integer and bitfield functions return the specified exact result.

All rules are bit-level identities over the instantiated kernels, valid for every input value:
  bit_reverse     bitfieldReverse: output bit i is input bit W-1-i                      (8..64 bit, signed/unsigned, scalar/vector)
  bit_count       bitCount: the result is llvm.ctpop of the input, or a SWAR ladder whose final field is the sum of all W
                  input bits with every intermediate field sum bounded below its width      (S domain)
  extract/insert  bitfieldExtract / bitfieldInsert for EVERY constant (offset, bits) pair: pure bit placement with zero
                  extension (unsigned) / sign extension (signed, GLSL), zero-width and full-width fields included
  carry/borrow    uaddCarry, usubBorrow, umulExtended, imulExtended: sum/difference/product words as polynomials mod 2^32 / 2^64,
                  carry and borrow flags as the canonical compare
  find_lsb/msb    decided only when the optimiser exposes llvm.cttz / llvm.ctlz with the GLSL zero convention
  existence       every overload instantiates for every accepted width
"""
from laneflow import term as tm
from laneflow import poly as P
from laneflow import gtypes as G
from laneflow import runner as R
from laneflow import rulelib as L
from laneflow import swar as SW
from laneflow import interp as I
from laneflow.build import K, P as Par, Cfg

CFG = Cfg('int', headers=('glm/glm.hpp', 'glm/gtc/integer.hpp'))
ITYPES = ['int8', 'uint8', 'int16', 'uint16', 'int', 'uint', 'int64', 'uint64']
# the same functions with the SIMD / intrinsic specialisations of func_integer_simd.inl compiled in (scalar popcnt overloads, aligned vec4 ladders)
CFG_SIMD = Cfg('int_avx2', defines=('GLM_FORCE_INTRINSICS',), flags=('-mavx2',), headers=('glm/glm.hpp', 'glm/gtc/integer.hpp', 'glm/gtc/type_aligned.hpp'))
NEEDS_X86 = True


def existence(ctx, k, name):
    err = ctx.compile_error(k)
    if err:
        return [R.ob(name, 'existence', R.REFUTED, 'overload exists for this element type but cannot be instantiated: ' + err, kernel=k.source())]
    return None


def reverse_case(T, L_, cfg=None, Q='highp'):
    sc = G.scalar(T)
    w = sc.elem * 8
    sfx = '' if cfg is None else '@avx2'
    cfg = cfg or CFG
    if L_ == 0:
        k = K('rev_s_%s' % sc.tag, [Par('o', sc, False), Par('a', sc)], '*o = bitfieldReverse(*a);', cfg)
        ty = sc
    else:
        ty = G.vec(L_, T, Q)
        k = K('rev_%s' % ty.tag, [Par('o', ty, False), Par('a', ty)], '*o = bitfieldReverse(*a);', cfg)
    name = 'bitfieldReverse<%s>%s' % (T if L_ == 0 else 'vec%d,%s%s' % (L_, T, '' if Q == 'highp' else ',' + Q), sfx)

    def judge(ctx):
        e = existence(ctx, k, name)
        if e:
            return e
        it = ctx.fn(k)
        res = []
        for lane, off in ty.lanes.items():
            t = I.out_lane(it, 'o', off, ty.elem)
            exp = tm.bitreverse(L.in_term('a', ty, lane))
            oid = '%s[%s]' % (name, lane)
            if t is exp:
                res.append(R.ob(oid, 'bit_reverse', R.PROVED, 'output bit i is input bit %d-i for all %d bits' % (w - 1, w), kernel=k.source()))
            else:
                # bit by bit: every output bit as a boolean function of input bits
                verdict, wit = R.PROVED, None
                for i in range(w):
                    r = L.bit_function_equal(tm.slice_(t, i, 1), tm.slice_(exp, i, 1))
                    if r is True:
                        continue
                    if r is None:
                        verdict = R.UNDECIDED if verdict != R.REFUTED else verdict
                    else:
                        verdict, wit = R.REFUTED, (i, r[1])
                        break
                if verdict == R.PROVED:
                    res.append(R.ob(oid, 'bit_reverse', R.PROVED, 'every output bit i equals input bit %d-i as a boolean function' % (w - 1), kernel=k.source()))
                elif verdict == R.REFUTED:
                    res.append(R.ob(oid, 'bit_reverse', R.REFUTED, 'output bit %d is %s, which differs from input bit %d for %s' % (wit[0], tm.show(tm.slice_(t, wit[0], 1), 4), w - 1 - wit[0], wit[1]),
                                    where=R.where_of(it, t), kernel=k.source()))
                else:
                    # not a pure bit function (a sign extension, an arithmetic shift ...): the derived lane term evaluated at the one-hot patterns, all ones and a mixed pattern
                    from laneflow import ceval as CE
                    xin = L.in_term('a', ty, lane)
                    bad = None
                    for pv in [1 << b_ for b_ in range(w)] + [(1 << w) - 1, 0xA5A5A5A5A5A5A5A5 & ((1 << w) - 1), 0]:
                        try:
                            got = CE.evaluate(t, {xin: pv})
                        except CE.NoValue:
                            continue
                        want = int(format(pv, '0%db' % w)[::-1], 2)
                        if got != want:
                            bad = (pv, got, want)
                            break
                    if bad:
                        res.append(R.ob(oid, 'bit_reverse', R.REFUTED, 'bitfieldReverse(%#x) is %#x, the reversed pattern is %#x (not a pure bit function: %s)' % (bad[0], bad[1], bad[2], _perm(t, w)[:200]),
                                        where=R.where_of(it, t), kernel=k.source()))
                    else:
                        res.append(R.ob(oid, 'bit_reverse', R.UNDECIDED, 'not a pure bit function: %s' % _perm(t, w), where=R.where_of(it, t), kernel=k.source()))
        return res
    return R.Case(name, [k], judge)


def _perm(t, w):
    out = []
    pos = 0
    for p in tm.parts(t):
        if p.op == 'slice' and p.args[0].op == 'in':
            out.append('out[%d+%d]<-in[%d+%d]' % (pos, p.w, p.args[1], p.w))
        elif p.op == 'const':
            out.append('out[%d+%d]=%d' % (pos, p.w, p.args[0]))
        else:
            out.append('out[%d+%d]=%s' % (pos, p.w, tm.show(p, 2)))
        pos += p.w
    return ', '.join(out[:12]) + (' …' if len(out) > 12 else '')


def count_case(T, L_, cfg=None, Q='highp'):
    sc = G.scalar(T)
    w = sc.elem * 8
    io = G.scalar('int')
    sfx = '' if cfg is None else '@avx2'
    cfg = cfg or CFG
    if L_ == 0:
        k = K('cnt_s_%s' % sc.tag, [Par('o', io, False), Par('a', sc)], '*o = bitCount(*a);', cfg)
        ty, oty = sc, io
    else:
        ty, oty = G.vec(L_, T, Q), G.vec(L_, 'int', Q)
        k = K('cnt_%s' % ty.tag, [Par('o', oty, False), Par('a', ty)], '*o = bitCount(*a);', cfg)
    name = 'bitCount<%s>%s' % (T if L_ == 0 else 'vec%d,%s%s' % (L_, T, '' if Q == 'highp' else ',' + Q), sfx)

    def judge(ctx):
        e = existence(ctx, k, name)
        if e:
            return e
        it = ctx.fn(k)
        res = []
        for lane, off in oty.lanes.items():
            t = I.out_lane(it, 'o', off, 4)
            a = L.in_term('a', ty, lane)
            oid = '%s[%s]' % (name, lane)
            st, detail = popcount_verdict(t, a, w)
            res.append(R.ob(oid, 'bit_count', st, detail, where=R.where_of(it, t) if st != R.PROVED else None, kernel=k.source()))
        return res
    return R.Case(name, [k], judge)


def popcount_verdict(t, a, w):
    # llvm.ctpop of the whole input, possibly widened / narrowed
    core = t
    if core.op == 'concat' and all(p.op == 'const' and p.args[0] == 0 for p in core.args[1:]):
        core = core.args[0]
    if core.op == 'slice' and core.args[1] == 0:
        core = core.args[0]
    if core.op == 'ctpop':
        x = core.args[0]
        if x is a or (x.op == 'concat' and x.args[0] is a and all(p.op == 'const' and p.args[0] == 0 for p in x.args[1:])):
            return R.PROVED, 'result is llvm.ctpop of the %d input bits' % w
        return R.REFUTED, 'ctpop of something other than the input: %s' % tm.show(x, 3)
    try:
        fs = SW.fields(t)
    except SW.Leak as e:
        return R.REFUTED, 'SWAR ladder is not a population count: %s' % e
    if fs is None:
        return R.UNDECIDED, 'not a recognisable mask-and-add ladder: %s' % tm.show(t, 3)
    if SW.popcount_form(fs, a.args[0], a.args[1], w):
        return R.PROVED, 'mask-and-add ladder ends in one field holding the sum of all %d input bits; every intermediate field sum stays below its width' % w
    f0 = fs[0]
    missing = [i for i in range(w) if f0.form.get((a.args[0], a.args[1] + i), 0) != 1]
    return R.REFUTED, 'final field is not the sum of all input bits once each: bits with wrong weight %s; upper fields zero: %s' % (
        missing[:8], all(f.is_zero() for f in fs[1:]))


def extract_cases(T, tier):
    """bitfieldExtract(value, offset, bits) for every constant pair with offset + bits <= W"""
    cs = []
    sc = G.scalar(T)
    w = sc.elem * 8
    offs = range(w + 1) if (w <= 16 or tier == 'thorough') else sorted(set([0, 1, 7, 8, 15, 16, 24, 31, w - 1, w]) & set(range(w + 1)))
    for off in offs:
        if off == w:
            continue      # offset == width shifts by the full width (outside the domain of the C++ operators)
        bl = [b for b in range(0, w - off + 1)]
        if not bl:
            continue
        arr = G.Ty('arr', sc.cpp, sc.elem, sc.elem * len(bl), {i: i * sc.elem for i in range(len(bl))}, T, (len(bl),))
        body = ' '.join('o[%d] = bitfieldExtract(*a, %d, %d);' % (i, off, b) for i, b in enumerate(bl))
        k = K('ext_%s_%d' % (sc.tag, off), [Par('o', arr, False), Par('a', sc)], body, CFG)
        name = 'bitfieldExtract<%s>(offset=%d)' % (T, off)

        def judge(ctx, k=k, off=off, bl=bl, arr=arr, name=name):
            e = existence(ctx, k, name)
            if e:
                return e
            it = ctx.fn(k)
            res = []
            a = L.in_term('a', sc, 0)
            for i, b in enumerate(bl):
                t = I.out_lane(it, 'o', arr.lanes[i], sc.elem)
                oid = '%s(bits=%d)' % (name, b)
                if b == 0:
                    exp = tm.zeros(w)
                else:
                    field = tm.slice_(a, off, b)
                    exp = tm.sext(field, w) if sc.signed else tm.zext(field, w)
                if b and not _undef_shift(t):
                    # the field itself (independent of how it is extended): low `bits` bits of the result
                    lowt, lowe = tm.slice_(t, 0, b), tm.slice_(a, off, b)
                    if lowt is lowe:
                        res.append(R.ob(oid, 'extract_field', R.PROVED, 'low %d result bits are value bits [%d,%d)' % (b, off, off + b), kernel=k.source()))
                    else:
                        pure = all(p.op in ('slice', 'in', 'const') for p in tm.parts(lowt))
                        res.append(R.ob(oid, 'extract_field', R.REFUTED if pure else R.UNDECIDED, 'low %d result bits are %s, expected value bits [%d,%d)' % (b, tm.show(lowt, 4), off, off + b),
                                        where=R.where_of(it, t), kernel=k.source()))
                if t is exp:
                    res.append(R.ob(oid, 'extract', R.PROVED, 'bits [%d,%d) of the value, %s-extended' % (off, off + b, 'sign' if sc.signed else 'zero'), kernel=k.source()))
                elif _undef_shift(t):
                    res.append(R.ob(oid, 'extract', R.UNDECIDED, 'shift by the full width: outside the operator domain'))
                else:
                    pure = all(p.op in ('slice', 'in', 'const', 'sext', 'sextbits') for p in tm.parts(t))
                    res.append(R.ob(oid, 'extract', R.REFUTED if pure else R.UNDECIDED,
                                    'got %s ; GLSL specifies %s' % (tm.show(t, 4), tm.show(exp, 4)), where=R.where_of(it, t), kernel=k.source()))
            return res
        cs.append(R.Case(name, [k], judge))
    return cs


def _undef_shift(t):
    return any(x.op == 'undef' for x in tm.walk(t))


def insert_cases(T, tier):
    cs = []
    sc = G.scalar(T)
    w = sc.elem * 8
    offs = range(w + 1) if (w <= 16 or tier == 'thorough') else sorted(set([0, 1, 7, 8, 15, 16, 24, 31, w - 1, w]) & set(range(w + 1)))
    for off in offs:
        if off == w:
            continue      # offset == width shifts by the full width (outside the domain of the C++ operators GLM documents)
        bl = [b for b in range(0, w - off + 1)]
        arr = G.Ty('arr', sc.cpp, sc.elem, sc.elem * len(bl), {i: i * sc.elem for i in range(len(bl))}, T, (len(bl),))
        body = ' '.join('o[%d] = bitfieldInsert(*a, *b, %d, %d);' % (i, off, b) for i, b in enumerate(bl))
        k = K('ins_%s_%d' % (sc.tag, off), [Par('o', arr, False), Par('a', sc), Par('b', sc)], body, CFG)
        name = 'bitfieldInsert<%s>(offset=%d)' % (T, off)

        def judge(ctx, k=k, off=off, bl=bl, arr=arr, name=name):
            e = existence(ctx, k, name)
            if e:
                return e
            it = ctx.fn(k)
            res = []
            base, ins = L.in_term('a', sc, 0), L.in_term('b', sc, 0)
            for i, b in enumerate(bl):
                t = I.out_lane(it, 'o', arr.lanes[i], sc.elem)
                oid = '%s(bits=%d)' % (name, b)
                ps = []
                if off:
                    ps.append(tm.slice_(base, 0, off))
                if b:
                    ps.append(tm.slice_(ins, 0, b))
                if off + b < w:
                    ps.append(tm.slice_(base, off + b, w - off - b))
                exp = tm.concat(ps)
                if t is exp:
                    res.append(R.ob(oid, 'insert', R.PROVED, 'base with bits [%d,%d) replaced by the low %d bits of insert' % (off, off + b, b), kernel=k.source()))
                elif _undef_shift(t):
                    res.append(R.ob(oid, 'insert', R.UNDECIDED, 'shift by the full width: outside the operator domain'))
                else:
                    pure = all(p.op in ('slice', 'in', 'const') for p in tm.parts(t))
                    res.append(R.ob(oid, 'insert', R.REFUTED if pure else R.UNDECIDED, 'got %s ; GLSL specifies %s' % (tm.show(t, 4), tm.show(exp, 4)),
                                    where=R.where_of(it, t), kernel=k.source()))
            return res
        cs.append(R.Case(name, [k], judge))
    return cs


def carry_cases(L_):
    cs = []
    u, s = ('uint', 'int')
    if L_ == 0:
        tu, ts = G.scalar(u), G.scalar(s)
        tg = 'scalar'
    else:
        tu, ts = G.vec(L_, u), G.vec(L_, s)
        tg = 'vec%d' % L_
    pc = P.PCtx()

    def mk(fn, ty, outs):
        ps = [Par('o', ty, False), Par('a', ty), Par('b', ty)] + [Par(n, ty, False) for n in outs]
        return K('%s_%s' % (fn, tg), ps, '*o = %s(*a, *b%s);' % (fn, ''.join(', *' + n for n in outs)), CFG)

    def mk_void(fn, ty):
        ps = [Par('m', ty, False), Par('a', ty), Par('b', ty), Par('l', ty, False)]
        return K('%s_%s' % (fn, tg), ps, '%s(*a, *b, *m, *l);' % fn, CFG)
    k_add, k_sub = mk('uaddCarry', tu, ['c']), mk('usubBorrow', tu, ['c'])
    k_umul, k_imul = mk_void('umulExtended', tu), mk_void('imulExtended', ts)

    def judge_addsub(ctx, k, fn):
        name = '%s<%s>' % (fn, tg)
        e = existence(ctx, k, name)
        if e:
            return e
        it = ctx.fn(k)
        res = []
        for lane, off in tu.lanes.items():
            a, b = L.in_term('a', tu, lane), L.in_term('b', tu, lane)
            r = I.out_lane(it, 'o', off, 4)
            c = I.out_lane(it, 'c', off, 4)
            exp = tm.arith('add', a, b) if fn == 'uaddCarry' else tm.arith('sub', a, b)
            pr, pe = pc.ipoly(r, 32), pc.ipoly(exp, 32)
            oid = '%s[%s]' % (name, lane)
            if pr == pe:
                res.append(R.ob(oid + '.result', 'carry_borrow', R.PROVED, 'result == %s mod 2^32' % ('x + y' if fn == 'uaddCarry' else 'x - y'), kernel=k.source()))
            elif L.lanes_only(pr - pe):
                res.append(R.ob(oid + '.result', 'carry_borrow', R.REFUTED, 'result is %s mod 2^32, GLSL specifies %s' % (P.show_poly(pr), P.show_poly(pe)),
                                where=R.where_of(it, r), kernel=k.source()))
            else:
                res.append(R.ob(oid + '.result', 'carry_borrow', R.UNDECIDED, 'result %s' % tm.show(r, 4)))
            flag = tm.carry(a, b) if fn == 'uaddCarry' else tm.icmp('ult', a, b)
            expc = tm.zext(flag, 32)
            if c is expc:
                res.append(R.ob(oid + '.flag', 'carry_borrow', R.PROVED, '%s flag == %s' % ('carry' if fn == 'uaddCarry' else 'borrow', tm.show(flag, 3)), kernel=k.source()))
            else:
                bit = tm.slice_(c, 0, 1)
                hi = tm.slice_(c, 1, 31)
                if hi.op == 'const' and hi.args[0] == 0 and bit.op == 'icmp':
                    res.append(R.ob(oid + '.flag', 'carry_borrow', R.REFUTED, 'flag is %s, GLSL specifies %s' % (tm.show(bit, 4), tm.show(flag, 4)), where=R.where_of(it, c), kernel=k.source()))
                else:
                    res.append(R.ob(oid + '.flag', 'carry_borrow', R.UNDECIDED, 'flag %s vs %s' % (tm.show(c, 4), tm.show(expc, 4))))
        return res

    def judge_mul(ctx, k, fn, ty, signed):
        name = '%s<%s>' % (fn, tg)
        e = existence(ctx, k, name)
        if e:
            return e
        it = ctx.fn(k)
        res = []
        ext = tm.sext if signed else tm.zext
        for lane, off in ty.lanes.items():
            a, b = L.in_term('a', ty, lane), L.in_term('b', ty, lane)
            prod = tm.arith('mul', ext(a, 64), ext(b, 64))
            for nm, lo in (('l', 0), ('m', 32)):
                t = I.out_lane(it, nm, off, 4)
                oid = '%s[%s].%s' % (name, lane, 'lsb' if nm == 'l' else 'msb')
                exp = tm.slice_(prod, lo, 32)
                ok = False
                if t is exp:
                    ok = True
                elif lo == 0:
                    ok = pc.ipoly(t, 32) == pc.ipoly(exp, 32)
                elif t.op == 'slice' and t.args[1] == 32 and t.args[0].w == 64:
                    ok = pc.ipoly(t.args[0], 64) == pc.ipoly(prod, 64)
                if ok:
                    res.append(R.ob(oid, 'mul_extended', R.PROVED, 'bits [%d,%d) of the exact 64-bit %s product' % (lo, lo + 32, 'signed' if signed else 'unsigned'), kernel=k.source()))
                else:
                    wit = L.pattern_witness(t, exp)
                    res.append(R.ob(oid, 'mul_extended', R.REFUTED if wit else R.UNDECIDED, 'got %s ; expected %s%s' % (tm.show(t, 4), tm.show(exp, 4), (' -- for the input bit patterns %s: %#x versus %#x' % wit) if wit else ''),
                                    where=R.where_of(it, t) if wit else None, kernel=k.source()))
        return res
    cs.append(R.Case('uaddCarry<%s>' % tg, [k_add], lambda ctx: judge_addsub(ctx, k_add, 'uaddCarry')))
    cs.append(R.Case('usubBorrow<%s>' % tg, [k_sub], lambda ctx: judge_addsub(ctx, k_sub, 'usubBorrow')))
    cs.append(R.Case('umulExtended<%s>' % tg, [k_umul], lambda ctx: judge_mul(ctx, k_umul, 'umulExtended', tu, False)))
    cs.append(R.Case('imulExtended<%s>' % tg, [k_imul], lambda ctx: judge_mul(ctx, k_imul, 'imulExtended', ts, True)))
    return cs


def find_cases(T, cfg=None):
    cs = []
    sfx = '' if cfg is None else '@avx2'
    cfg = cfg or CFG
    sc = G.scalar(T)
    w = sc.elem * 8
    io = G.scalar('int')
    for fn in ('findLSB', 'findMSB'):
        k = K('%s_%s' % (fn, sc.tag), [Par('o', io, False), Par('a', sc)], '*o = %s(*a);' % fn, cfg)
        name = '%s<%s>%s' % (fn, T, sfx)

        def judge(ctx, k=k, fn=fn, name=name):
            e = existence(ctx, k, name)
            if e:
                return e
            it = ctx.fn(k)
            t = I.out_lane(it, 'o', 0, 4)
            a = L.in_term('a', sc, 0)
            signed = not T.startswith('u')
            # Proof by cases on the position p of the deciding bit, the other side of the word left symbolic:
            #   findLSB: value = {0^p, 1, free bits}            -> p          (p = 0 .. W-1), value = 0 -> -1
            #   findMSB: value = {free bits (p), 1, 0^(W-1-p)}  -> p          (p = 0 .. W-2, and W-1 for unsigned types), value = 0 -> -1
            #   findMSB, signed, negative values (GLSL: the most significant 0 bit): value = {free bits (q), 0, 1^(W-1-q)} -> q, value = -1 -> -1
            # The W + 1 (2 W for signed findMSB) shapes cover every value; on each shape the term must normalise to the constant.
            def shape(lowfree, bit, hi_const_ones, p):
                parts = []
                if fn == 'findLSB':
                    parts = ([tm.zeros(p)] if p else []) + [tm.const(1, 1)] + ([tm.slice_(a, p + 1, w - p - 1)] if w - p - 1 else [])
                else:
                    parts = ([tm.slice_(a, 0, p)] if p else []) + [tm.const(1, bit)] + ([tm.const(w - p - 1, ((1 << (w - p - 1)) - 1) if hi_const_ones else 0)] if w - p - 1 else [])
                return tm.concat(parts)
            cases_ = [('value == 0', tm.zeros(w), -1)]
            if fn == 'findLSB':
                cases_ += [('lowest set bit at %d' % p, shape(None, 1, False, p), p) for p in range(w)]
            else:
                top = w if not signed else w - 1
                cases_ += [('highest set bit at %d' % p, shape(None, 1, False, p), p) for p in range(top)]
                if signed:
                    cases_ += [('negative, highest clear bit at %d' % q, shape(None, 0, True, q), q) for q in range(w - 1)]
                    cases_ += [('value == -1', tm.const(w, (1 << w) - 1), -1)]
            bad = []
            und = []
            for desc, xv, want in cases_:
                r = tm.substitute(t, {a: xv})
                if r.op == 'const':
                    got = tm.sval(r)
                    if got != want:
                        bad.append((desc, got, want))
                else:
                    und.append((desc, tm.show(r, 3)))
            res = []
            if und and not bad:
                # a shape that does not normalise: the derived term is evaluated at members of the shape (free bits all zero / all ones / alternating); a wrong value refutes
                from laneflow import ceval as CE
                for desc, xv, want in cases_:
                    frees = sorted({x for x in tm.walk(xv) if x.op == 'in'}, key=lambda q: q.id)
                    for fill in (0, (1 << w) - 1, 0x5555555555555555 & ((1 << w) - 1)):
                        try:
                            val = CE.evaluate(xv, {x: fill for x in frees}) if frees else CE.evaluate(xv, {})
                            got = CE.evaluate(t, {a: val})
                        except CE.NoValue:
                            continue
                        got_s = got - (1 << t.w) if got >> (t.w - 1) else got
                        if got_s != want:
                            return [R.ob(name, 'find_lsb_msb', R.REFUTED, '%s(%#x) = %d, documented %d (%s)' % (fn, val, got_s, want, desc), where=R.where_of(it, t), kernel=k.source())]
                return [R.ob(name, 'find_lsb_msb', R.UNDECIDED, 'the term does not normalise to a constant on the shape "%s": %s' % und[0], kernel=k.source())]
            if not bad:
                return [R.ob(name, 'find_lsb_msb', R.PROVED, '%s: on each of the %d value shapes (position of the deciding bit fixed, all other bits symbolic) the result is the documented bit number' % (fn, len(cases_)), kernel=k.source())]
            neg = [b_ for b_ in bad if b_[0].startswith('negative') or b_[0] == 'value == -1']
            pos = [b_ for b_ in bad if b_ not in neg]
            if pos:
                res.append(R.ob(name, 'find_lsb_msb', R.REFUTED, '%s: for every value with %s the result is %d, documented %d (%d shapes wrong)' % (fn, pos[0][0], pos[0][1], pos[0][2], len(pos)), where=R.where_of(it, t), kernel=k.source()))
            else:
                res.append(R.ob(name, 'find_lsb_msb', R.PROVED, '%s: correct on all shapes of non-negative values' % fn, kernel=k.source()))
            if neg:
                res.append(R.ob(name + '.negative', 'find_msb_negative', R.REFUTED, 'findMSB of negative values: for every value with %s the result is %d, GLSL / the documentation specify %d (the most significant 0 bit; -1 for -1)' % (neg[0][0], neg[0][1], neg[0][2]),
                                where=R.where_of(it, t), kernel=k.source()))
            return res
        cs.append(R.Case(name, [k], judge))
    return cs


def cases(tier):
    cs = []
    lens = (0, 1, 2, 3, 4) if tier == 'thorough' else (0, 1, 4)
    for T in ITYPES:
        for L_ in lens:
            cs.append(reverse_case(T, L_))
            cs.append(count_case(T, L_))
    for T in (ITYPES if tier == 'thorough' else ['int8', 'uint8', 'int', 'uint', 'int16', 'uint64']):
        cs += extract_cases(T, tier)
        cs += insert_cases(T, tier)
    for L_ in (0, 1, 2, 3, 4):
        cs += carry_cases(L_)
    for T in ITYPES:
        cs += find_cases(T)
    # intrinsic configuration (AVX2): scalar overloads of every width, aligned vec4 forms of the 32-bit types
    for T in ITYPES:
        cs.append(count_case(T, 0, CFG_SIMD))
        cs.append(reverse_case(T, 0, CFG_SIMD))
        cs += find_cases(T, CFG_SIMD)
    for T in ('int', 'uint'):
        cs.append(count_case(T, 4, CFG_SIMD, 'aligned_highp'))
        cs.append(reverse_case(T, 4, CFG_SIMD, 'aligned_highp'))
    cs += canaries()
    return cs


def canaries():
    sc, io = G.scalar('uint'), G.scalar('int')
    pre = ('static int verif_bad_count(glm::uint v){ v = (v & 0x55555555u) + ((v >> 1) & 0x55555555u); v = (v & 0x33333333u) + ((v >> 2) & 0x33333333u); '
           'v = (v & 0x0F0F0F0Fu) + ((v >> 4) & 0x0F0F0F0Fu); v = (v & 0x00FF00FFu) + ((v >> 8) & 0x00FE00FFu); v = (v & 0x0000FFFFu) + ((v >> 16) & 0x0000FFFFu); return int(v); }')
    k = K('canary_count', [Par('o', io, False), Par('a', sc)], '*o = verif_bad_count(*a);', CFG, pre=pre)

    def judge(ctx):
        it = ctx.fn(k)
        st, d = popcount_verdict(I.out_lane(it, 'o', 0, 4), L.in_term('a', sc, 0), 32)
        return [R.ob('canary:bitcount-mask-drops-a-bit', 'bit_count', st, d)]
    c1 = R.Case('canary:bitcount-mask-drops-a-bit', [k], judge, canary=True)
    pre2 = ('static glm::uint verif_bad_rev(glm::uint x){ x = (x & 0x55555555u) << 1 | (x & 0xAAAAAAAAu) >> 1; x = (x & 0x33333333u) << 2 | (x & 0xCCCCCCCCu) >> 2; '
            'x = (x & 0x0F0F0F0Fu) << 4 | (x & 0xF0F0F0F0u) >> 4; x = (x & 0x00FF00FFu) << 8 | (x & 0xFF00FF00u) >> 8; return x; }')
    k2 = K('canary_rev', [Par('o', sc, False), Par('a', sc)], '*o = verif_bad_rev(*a);', CFG, pre=pre2)

    def judge2(ctx):
        it = ctx.fn(k2)
        t = I.out_lane(it, 'o', 0, 4)
        exp = tm.bitreverse(L.in_term('a', sc, 0))
        return [R.ob('canary:reverse-misses-last-stage', 'bit_reverse', R.PROVED if t is exp else R.REFUTED, _perm(t, 32))]
    c2 = R.Case('canary:reverse-misses-last-stage', [k2], judge2, canary=True)
    return [c1, c2]


EXPLANATION = ('static bit-level analysis: bitfieldReverse / bitCount / bitfieldExtract / bitfieldInsert / uaddCarry / usubBorrow / umulExtended / imulExtended kernels for every accepted width '
               '(8..64 bit, signed and unsigned, scalar and vector) are instantiated from /repo; the term language decomposes masks, shifts and ors into bit placements, so each result is '
               'compared as a permutation / field placement / field-sum ladder / modular polynomial with the GLSL definition for all input values; extract/insert are instantiated for every '
               'constant (offset, bits) pair of the narrow types and a boundary set for 32/64-bit')
ASSUMPTIONS = ['findLSB / findMSB are decided only when LLVM exposes cttz/ctlz (otherwise UNDECIDED): the identity bitCount(~v & (v-1)) == cttz(v) is arithmetic on carries',
               'extract/insert with run-time offset/bits use the same code as the constant instantiations (single template body)',
               'clang 14 -O2 pipeline preserves values']
TRUSTED = ['clang/LLVM 14 (incl. its ctpop / bitreverse idiom recognition)', 'tools/irtool.cc', 'laneflow term normaliser and SWAR field domain']
LEVEL = 'proof'
