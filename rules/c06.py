"""C06 — pack/unpack functions are mutually consistent, correctly quantised and laid out.

  placement     for every pack function the bits of field i (position/width from the documented format name) depend only on
                component i, fields are disjoint and cover the word, component 0 occupies the least-significant bits; for every
                unpack function component i depends only on the bits of field i (field isolation)            (B-dependence)
  quantisation  normalised formats have the shape field = conv(round(clamp(x, lo, hi) * S)) and x' = [clamp](conv(field) * U):
                S must be 2^w-1 (unorm) / 2^(w-1)-1 (snorm) for the field width w, the clamp must be to [0,1] / [-1,1] (compared
                over all orderings x NaN), U must be the correctly rounded reciprocal of S, snorm unpack clamps to [-1,1] and
                reads the field with sign extension                                                          (T / O domains)
  integer       packInt/packUint/I3x10_1x2/U3x10_1x2/Double2x32: pure bit placement with the right extension
  shared exp.   packF3x9_E1x5 has the shape of the RGB9E5 encoder that defines the format (OpenGL 4.6 section 8.5.2): clamp to
                [0, (2^9-1)/2^9 * 2^16], exp_p = max(-16, floor(log2(max_c))) + 16, max_s = the mantissa quantiser applied to
                (max_c, exp_p), exponent incremented exactly for max_s == 512, mantissas = floor(c / 2^(E-24) + 0.5) with the
                stored E; unpackF3x9_E1x5 = field * 2^(E-24)
  small floats  packHalf*/packF2x11_1x10 apply the (opaque) scalar encoder once per component, component i <-> field i; the decoders
                receive exactly the field; packed11/10bitToFloat return +0 / +Inf / NaN constants for the zero / Inf / NaN codes and
                floatTo11/10bit map +-0 / Inf / NaN to those codes (partial evaluation of the term at the constant)
These are necessary conditions of the lossless re-pack / half-step clauses; the rounding argument itself is not mechanised.
"""
import struct
from fractions import Fraction
from laneflow import term as tm
from laneflow import gtypes as G
from laneflow import runner as R
from laneflow import rulelib as L
from laneflow import spec as S
from laneflow import order as O
from laneflow import fclass as FC
from laneflow import interp as I
from laneflow.build import K, P as Par, Cfg

HDR = ('glm/glm.hpp', 'glm/gtc/packing.hpp')
OPAQUE = (r'glm::detail::toFloat16', r'glm::detail::toFloat32', r'glm::detail::floatTo1[01]bit', r'glm::detail::packed1[01]bitToFloat')
CFG = Cfg('pack', headers=HDR, noinline=OPAQUE)
CFG_INL = Cfg('pack_inl', headers=HDR)

U8, U16, U32, U64 = 'uint8', 'uint16', 'uint32', 'uint64'
# name suffix, packed word type, field widths (component 0 first = least significant), kind, component count
NORM = [
    ('Unorm2x16', 'uint', [16, 16], 'unorm'), ('Snorm2x16', 'uint', [16, 16], 'snorm'), ('Unorm4x8', 'uint', [8] * 4, 'unorm'), ('Snorm4x8', 'uint', [8] * 4, 'snorm'),
    ('Unorm1x8', U8, [8], 'unorm'), ('Unorm2x8', U16, [8, 8], 'unorm'), ('Snorm1x8', U8, [8], 'snorm'), ('Snorm2x8', U16, [8, 8], 'snorm'),
    ('Unorm1x16', U16, [16], 'unorm'), ('Unorm4x16', U64, [16] * 4, 'unorm'), ('Snorm1x16', U16, [16], 'snorm'), ('Snorm4x16', U64, [16] * 4, 'snorm'),
    ('Snorm3x10_1x2', U32, [10, 10, 10, 2], 'snorm'), ('Unorm3x10_1x2', U32, [10, 10, 10, 2], 'unorm'),
    ('Unorm2x4', U8, [4, 4], 'unorm'), ('Unorm4x4', U16, [4] * 4, 'unorm'), ('Unorm1x5_1x6_1x5', U16, [5, 6, 5], 'unorm'), ('Unorm3x5_1x1', U16, [5, 5, 5, 1], 'unorm'),
    ('Unorm2x3_1x2', U8, [3, 3, 2], 'unorm'),
]
INTS = [
    ('Int2x8', 'int16', 'int8', 2), ('Uint2x8', 'uint16', 'uint8', 2), ('Int4x8', 'int32', 'int8', 4), ('Uint4x8', 'uint32', 'uint8', 4),
    ('Int2x16', 'int', 'int16', 2), ('Uint2x16', 'uint', 'uint16', 2), ('Int4x16', 'int64', 'int16', 4), ('Uint4x16', 'uint64', 'uint16', 4),
    ('Int2x32', 'int64', 'int32', 2), ('Uint2x32', 'uint64', 'uint32', 2),
]


def ftype(n):
    return G.scalar('float') if n == 1 else G.vec(n, 'float')


def bitdeps(t):
    """set of (arg, bit) of input bits the term may depend on (slice-aware)"""
    out = set()
    stack = [t]
    seen = set()
    while stack:
        x = stack.pop()
        if not isinstance(x, tm.T) or x in seen:
            continue
        seen.add(x)
        if x.op == 'slice' and x.args[0].op == 'in':
            a = x.args[0]
            for i in range(x.w):
                out.add((a.args[0], a.args[1] + x.args[1] + i))
            continue
        if x.op == 'in':
            for i in range(x.w):
                out.add((x.args[0], x.args[1] + i))
            continue
        stack.extend(a for a in x.args if isinstance(a, tm.T))
    return out


def parse_quant(f):
    """field = trunc(conv(round(clamp * S)))  ->  (conv, roundfn, clampterm, S)"""
    x = f
    while x.op == 'slice' and x.args[1] == 0:
        x = x.args[0]
    if x.op == 'concat' and all(p.op == 'const' and p.args[0] == 0 for p in x.args[1:]):
        x = x.args[0]
    while x.op == 'slice' and x.args[1] == 0:
        x = x.args[0]
    if x.op not in ('fptoui', 'fptosi'):
        return None
    conv = x.op
    r = x.args[0]
    rfn = None
    if r.op == 'fn' and r.args[0] in ('round', 'rint', 'nearbyint', 'roundeven', 'floor'):
        rfn = r.args[0]
        m = r.args[1]
    else:
        m = r
    if m.op != 'fmul':
        # scale 1 (1- and 2-bit fields) is folded away by the compiler
        return conv, rfn, m, Fraction(1)
    a, b = m.args
    if a.op == 'const':
        a, b = b, a
    if b.op != 'const':
        return None
    return conv, rfn, a, Fraction(tm.fval(b))


def nearest_f32(fr):
    """correctly rounded binary32 of a positive rational"""
    x = float(fr)
    c = struct.unpack('<f', struct.pack('<f', x))[0]
    bits = struct.unpack('<I', struct.pack('<f', c))[0]
    best = None
    for d in (-1, 0, 1):
        v = struct.unpack('<f', struct.pack('<I', bits + d))[0]
        err = abs(Fraction(v) - fr)
        if best is None or err < best[0]:
            best = (err, v)
    return best[1]


def code_witness(f, xin, w, scale, lo, hi):
    """the derived field term evaluated exactly at component values whose scaled value is not a tie: a code other than round(clamp(v, lo, hi) * scale) -> text, else None.
    Only used to turn an unrecognised shape into a refutation."""
    from laneflow import ceval as CE
    for v in (-1.0, 1.0, -0.25, 0.75, 0.0, 0.3, -0.9, 2.0, -3.0):
        c = min(max(v, lo), hi)
        sv = Fraction(c) * scale
        fl = sv.numerator // sv.denominator
        if sv - fl == Fraction(1, 2):
            continue
        code = fl + (1 if sv - fl > Fraction(1, 2) else 0)
        try:
            got = CE.evaluate(f, {xin: CE.f2b(32, v)})
        except CE.NoValue:
            continue
        if got != code & ((1 << w) - 1):
            return 'the field is %#x for the component value %r; round(clamp(v, %g, %g) * %d) is %d = %#x (result term: %s)' % (got, v, lo, hi, scale, code, code & ((1 << w) - 1), tm.show(f, 4))
    return None


def norm_cases(suffix, wordT, widths, kind):
    n = len(widths)
    vt, wt = ftype(n), G.scalar(wordT)
    W = wt.elem * 8
    kp = K('pack' + suffix, [Par('o', wt, False), Par('v', vt)], '*o = pack%s(*v);' % suffix, CFG)
    ku = K('unpack' + suffix, [Par('o', vt, False), Par('p', wt)], '*o = unpack%s(*p);' % suffix, CFG)
    lo_, hi_ = (0.0, 1.0) if kind == 'unorm' else (-1.0, 1.0)

    def judge_pack(ctx):
        name = 'pack' + suffix
        e = ctx.compile_error(kp)
        if e:
            return [R.ob(name, 'existence', R.REFUTED, 'cannot be instantiated: ' + e, kernel=kp.source())]
        it = ctx.fn(kp)
        word = I.out_lane(it, 'o', 0, wt.elem)
        res = []
        pos = 0
        for i, w in enumerate(widths):
            f = tm.slice_(word, pos, w)
            oid = '%s.field%d[bits %d..%d]' % (name, i, pos, pos + w - 1)
            lane_bits = {('v', vt.lanes[i] * 8 + b) for b in range(32)}
            bd = bitdeps(f)
            if bd and bd <= lane_bits:
                res.append(R.ob(oid, 'placement', R.PROVED, 'depends only on component %d; component 0 is in the least-significant bits' % i, kernel=kp.source()))
            else:
                foreign = sorted({b // 32 for a, b in bd - lane_bits})
                res.append(R.ob(oid, 'placement', R.REFUTED, 'field %d depends on component(s) %s%s' % (i, foreign, '' if bd else ' (is constant)'), where=R.where_of(it, f), kernel=kp.source()))
                pos += w
                continue
            q = parse_quant(f)
            wantS = (1 << w) - 1 if kind == 'unorm' else (1 << (w - 1)) - 1
            cw = code_witness(f, tm.inp('v', vt.lanes[i] * 8, 32), w, wantS, lo_, hi_)
            if q is None:
                res.append(R.ob(oid, 'quantisation', R.REFUTED if cw else R.UNDECIDED, cw or ('not of the form conv(round(clamp*S)): %s' % tm.show(f, 5)), where=R.where_of(it, f) if cw else None, kernel=kp.source()))
            else:
                conv, rfn, c, Sc = q
                want = wantS
                x = S.lane('v', vt, i)
                spec = S.gclamp(x, S.const(32, lo_), S.const(32, hi_)).t
                msgs = []
                ok = True
                if Sc != want:
                    ok = False
                    msgs.append('scale is %s but a %d-bit %s field needs %d' % (Sc, w, kind, want))
                if rfn is None:
                    ok = False
                    msgs.append('no rounding before the integer conversion (truncation loses half a step)')
                r = O.equivalent(c, spec, nan=False) if (O.in_fragment(c) and O.in_fragment(spec)) else None
                if r is True:
                    pass
                elif r:
                    ok = False
                    msgs.append('value is not clamped to [%g,%g]: in case [%s] scaled operand is %s, clamp gives %s' % (lo_, hi_, r[1], r[2], r[3]))
                else:
                    res.append(R.ob(oid, 'quantisation', R.REFUTED if cw else R.UNDECIDED, cw or ('clamp not recognisable: %s' % tm.show(c, 4)), where=R.where_of(it, f) if cw else None, kernel=kp.source()))
                    pos += w
                    continue
                if (kind == 'unorm') != (conv == 'fptoui') and w >= 8:
                    # signed fields must be converted as signed (negative values), unsigned as unsigned (values above 2^(w-1))
                    if kind == 'snorm' and conv == 'fptoui':
                        ok = False
                        msgs.append('snorm field converted with an unsigned conversion')
                if ok:
                    res.append(R.ob(oid, 'quantisation', R.PROVED, 'field = %s(%s(clamp(x,%g,%g) * %d)), %d = 2^%d%s-1' % (conv, rfn, lo_, hi_, want, want, w if kind == 'unorm' else w - 1, ''), kernel=kp.source()))
                else:
                    res.append(R.ob(oid, 'quantisation', R.REFUTED, '; '.join(msgs), where=R.where_of(it, f), kernel=kp.source()))
            pos += w
        if pos != W:
            res.append(R.ob(name + '.cover', 'placement', R.REFUTED, 'documented fields cover %d of %d bits' % (pos, W)))
        return res

    def judge_unpack(ctx):
        name = 'unpack' + suffix
        e = ctx.compile_error(ku)
        if e:
            return [R.ob(name, 'existence', R.REFUTED, 'cannot be instantiated: ' + e, kernel=ku.source())]
        it = ctx.fn(ku)
        res = []
        pos = 0
        for i, w in enumerate(widths):
            u = I.out_lane(it, 'o', vt.lanes[i], 4)
            oid = '%s.comp%d' % (name, i)
            fb = {('p', pos + b) for b in range(w)}
            bd = bitdeps(u)
            if bd and bd <= fb:
                res.append(R.ob(oid, 'field_isolation', R.PROVED, 'depends only on word bits %d..%d' % (pos, pos + w - 1), kernel=ku.source()))
            else:
                res.append(R.ob(oid, 'field_isolation', R.REFUTED, 'component %d depends on word bits %s outside its field %d..%d' % (i, sorted(b for a, b in bd - fb)[:8], pos, pos + w - 1),
                                where=R.where_of(it, u), kernel=ku.source()))
                pos += w
                continue
            st, detail = unpack_shape(u, 'p', pos, w, kind)
            res.append(R.ob(oid, 'dequantisation', st, detail, where=R.where_of(it, u) if st != R.PROVED else None, kernel=ku.source()))
            pos += w
        return res
    return [R.Case('pack' + suffix, [kp], judge_pack), R.Case('unpack' + suffix, [ku], judge_unpack)]


def unpack_shape(u, arg, pos, w, kind, fw=32):
    st, detail = _unpack_shape0(u, arg, pos, w, kind, fw)
    if st == R.UNDECIDED and w <= 32:
        wit = decode_witness(u, w, kind, fw)
        if wit:
            return R.REFUTED, wit + '  (' + detail[:160] + ')'
    return st, detail


def decode_witness(u, w, kind, fw):
    """the decoder's derived term evaluated at boundary codes of the field (all other word bits zero): a decoded value that is neither code * fl(1/S) nor code / S
    (clamped to [-1, 1] for snorm), both computed in the float type, is an established difference"""
    from laneflow import ceval as CE
    ins = sorted({x for x in tm.walk(u) if x.op == 'in'}, key=lambda q: q.id)
    if len(ins) != 1:
        return None
    x = ins[0]
    offs = sorted({(y.args[1]) for y in tm.walk(u) if y.op == 'slice' and y.args[0] is x})
    pos = offs[0] if offs else 0
    if x.w < pos + w:
        pos = 0
    S_ = (1 << w) - 1 if kind == 'unorm' else (1 << (w - 1)) - 1
    fl = (lambda v: CE.b2f(fw, CE.f2b(fw, v)))
    rcp = fl(1.0 / S_)
    codes = [0, 1, 2, S_, S_ - 1, S_ // 2, S_ // 3]
    if kind == 'snorm':
        codes += [-1, -2, -S_, -S_ - 1, -(S_ // 2)]
    for c in codes:
        field = c & ((1 << w) - 1)
        env = {x: (field << pos) & ((1 << x.w) - 1)}
        try:
            got = CE.b2f(fw, CE.evaluate(u, env))
        except CE.NoValue:
            return None
        cands = {fl(fl(float(c)) * rcp), fl(float(c) / float(S_))}
        if kind == 'snorm':
            cands = {max(-1.0, min(1.0, v)) for v in cands}
        if got not in cands:
            return 'code %d (field bits %#x) decodes to %r; the %d-bit %s value is %s' % (c, field, got, w, kind, ' or '.join(repr(v) for v in sorted(cands)))
    return None


def _unpack_shape0(u, arg, pos, w, kind, fw=32):
    want = (1 << w) - 1 if kind == 'unorm' else (1 << (w - 1)) - 1
    x = u
    clamped = False
    # optional clamp to [-1, 1]
    core = None
    for cand in tm.walk(u):
        if cand.op in ('fmul', 'fdiv'):
            core = cand
    # the outermost fmul/fdiv in walk order is last
    muls = [c for c in tm.walk(u) if c.op in ('fmul', 'fdiv')]
    msgs = []
    if len(muls) == 0 and want == 1:
        convs = [c for c in tm.walk(u) if c.op in ('uitofp', 'sitofp')]
        if len(convs) != 1:
            return R.UNDECIDED, 'not of the form [clamp](conv(field)): %s' % tm.show(u, 4)
        m = convs[0]
        a, k = m, Fraction(1)
    elif len(muls) != 1:
        return R.UNDECIDED, 'not of the form [clamp](conv(field) * U): %s' % tm.show(u, 4)
    else:
        m = muls[0]
        a, b = m.args
        if m.op == 'fmul' and a.op == 'const':
            a, b = b, a
        if b.op != 'const':
            return R.UNDECIDED, 'scale is not a constant'
        k = Fraction(tm.fval(b))
    if m.op in ('uitofp', 'sitofp'):
        pass
    elif m.op == 'fdiv':
        if k != want:
            msgs.append('divides by %s, a %d-bit %s field needs %d' % (k, w, kind, want))
    else:
        exp = Fraction(nearest_f32(Fraction(1, want))) if fw == 32 else Fraction(float(Fraction(1, want)))
        if k != exp:
            msgs.append('multiplies by %.17g, the correctly rounded 1/%d is %.17g' % (float(k), want, float(exp)))
    # conversion of the field
    conv = a
    if conv.op not in ('uitofp', 'sitofp'):
        return R.UNDECIDED, 'field is not converted with an int-to-float conversion: %s' % tm.show(conv, 3)
    fld = conv.args[0]
    raw = tm.slice_(tm.inp(arg, 0, max(pos + w, 8)), pos, w) if False else None
    if kind == 'snorm':
        # must be read sign-extended: sitofp(sext(field))
        ok_signed = conv.op == 'sitofp' and (fld.op == 'sext' or fld.w == w)
        if not ok_signed:
            msgs.append('snorm field is not read with sign extension (%s of %s)' % (conv.op, tm.show(fld, 2)))
        spec = S.gclamp(S.E(m), S.const(fw, -1.0), S.const(fw, 1.0)).t
        if u is m:
            msgs.append('snorm unpack does not clamp to [-1,1] (the most negative code decodes below -1)')
        else:
            qv = tm.inp('__q', 0, fw)
            u_q, s_q = tm.substitute(u, {m: qv}), tm.substitute(spec, {m: qv})
            r = O.equivalent(u_q, s_q, nan=False)
            if r is not True and not _same_on_code_range(u_q, s_q, qv, m, conv, w, fw):
                msgs.append('result is not clamp(q, -1, 1) of the scaled field')
    else:
        if conv.op == 'sitofp' and fld.op == 'sext':
            msgs.append('unorm field is read with sign extension')
        if u is not m:
            return R.UNDECIDED, 'unexpected operation around the scaled field: %s' % tm.show(u, 4)
    if msgs:
        return R.REFUTED, '; '.join(msgs)
    return R.PROVED, 'x = %s(field) %s %s%s' % (conv.op, '/' if m.op == 'fdiv' else '*', 'S' if m.op == 'fdiv' else 'round(1/%d)' % want, ', clamped to [-1,1]' if kind == 'snorm' else '')


def _same_on_code_range(u_q, s_q, qv, m, conv, w, fw=32):
    """the decoder need only agree with clamp(q, -1, 1) for the values q = scaled field that a w-bit signed code can produce: q lies in [q(-2^(w-1)), q(2^(w-1) - 1)],
    both ends computed exactly (binary32) from the scaling term itself.  Both sides are selections between q and constants (piecewise q / constant), so agreement at
    the ends, at every constant breakpoint inside the range and at two points strictly inside each piece is agreement on the whole range."""
    from laneflow import ceval as CE
    try:
        ends = []
        for code in (-(1 << (w - 1)), (1 << (w - 1)) - 1):
            cv = tm.const(conv.args[0].w, code & ((1 << conv.args[0].w) - 1))
            ends.append(CE.b2f(fw, CE.evaluate(tm.substitute(m, {conv.args[0]: cv}), {})))
        lo, hi = min(ends), max(ends)
        brk = sorted({tm.fval(c) for t in (u_q, s_q) for c in tm.walk(t) if c.op == 'const' and c.w == fw and lo < tm.fval(c) < hi} | {lo, hi})
        pts = set(brk)
        for a, b in zip(brk, brk[1:]):
            pts.add(a + (b - a) / 3)
            pts.add(a + 2 * (b - a) / 3)
        for x in sorted(pts):
            env = {qv: CE.f2b(fw, x)}
            if CE.evaluate(u_q, env) != CE.evaluate(s_q, env):
                return False
        return True
    except (CE.NoValue, Exception):
        return False


def int_cases(suffix, wordT, compT, n):
    wt, ct = G.scalar(wordT), G.vec(n, compT)
    w = ct.elem * 8
    kp = K('pack' + suffix, [Par('o', wt, False), Par('v', ct)], '*o = pack%s(*v);' % suffix, CFG)
    ku = K('unpack' + suffix, [Par('o', ct, False), Par('p', wt)], '*o = unpack%s(*p);' % suffix, CFG)

    def jp(ctx):
        it = ctx.fn(kp)
        word = I.out_lane(it, 'o', 0, wt.elem)
        res = []
        for i in range(n):
            f = tm.slice_(word, i * w, w)
            exp = L.in_term('v', ct, i)
            res.append(R.ob('pack%s.field%d' % (suffix, i), 'integer_placement', R.PROVED if f is exp else R.REFUTED,
                            'bits %d..%d are component %d' % (i * w, i * w + w - 1, i) if f is exp else 'got %s expected %s' % (tm.show(f, 3), tm.show(exp)), kernel=kp.source()))
        return res

    def ju(ctx):
        it = ctx.fn(ku)
        res = []
        for i in range(n):
            u = I.out_lane(it, 'o', ct.lanes[i], ct.elem)
            exp = tm.slice_(tm.inp('p', 0, wt.elem * 8), i * w, w)
            res.append(R.ob('unpack%s.comp%d' % (suffix, i), 'integer_placement', R.PROVED if u is exp else R.REFUTED,
                            'component %d is word bits %d..%d' % (i, i * w, i * w + w - 1) if u is exp else 'got %s expected %s' % (tm.show(u, 3), tm.show(exp)), kernel=ku.source()))
        return res
    return [R.Case('pack' + suffix, [kp], jp), R.Case('unpack' + suffix, [ku], ju)]


def bitfield_int_cases():
    """I3x10_1x2 / U3x10_1x2: 10/10/10/2-bit integer fields with sign / zero extension on unpack"""
    cs = []
    for suffix, T in (('I3x10_1x2', 'int'), ('U3x10_1x2', 'uint')):
        vt, wt = G.vec(4, T), G.scalar('uint32')
        widths = [10, 10, 10, 2]
        kp = K('pack' + suffix, [Par('o', wt, False), Par('v', vt)], '*o = pack%s(*v);' % suffix, CFG)
        ku = K('unpack' + suffix, [Par('o', vt, False), Par('p', wt)], '*o = unpack%s(*p);' % suffix, CFG)

        def jp(ctx, kp=kp, suffix=suffix, vt=vt):
            it = ctx.fn(kp)
            word = I.out_lane(it, 'o', 0, 4)
            res, pos = [], 0
            for i, w in enumerate(widths):
                f = tm.slice_(word, pos, w)
                exp = tm.slice_(L.in_term('v', vt, i), 0, w)
                res.append(R.ob('pack%s.field%d' % (suffix, i), 'integer_placement', R.PROVED if f is exp else R.REFUTED,
                                'bits %d..%d are the low %d bits of component %d' % (pos, pos + w - 1, w, i) if f is exp else 'got %s expected %s' % (tm.show(f, 3), tm.show(exp)), kernel=kp.source()))
                pos += w
            return res

        def ju(ctx, ku=ku, suffix=suffix, vt=vt, T=T):
            it = ctx.fn(ku)
            res, pos = [], 0
            for i, w in enumerate(widths):
                u = I.out_lane(it, 'o', vt.lanes[i], 4)
                fld = tm.slice_(tm.inp('p', 0, 32), pos, w)
                exp = tm.sext(fld, 32) if T == 'int' else tm.zext(fld, 32)
                res.append(R.ob('unpack%s.comp%d' % (suffix, i), 'integer_placement', R.PROVED if u is exp else R.REFUTED,
                                'component %d is word bits %d..%d %s-extended' % (i, pos, pos + w - 1, 'sign' if T == 'int' else 'zero') if u is exp else 'got %s expected %s' % (tm.show(u, 3), tm.show(exp, 3)), kernel=ku.source()))
                pos += w
            return res
        cs += [R.Case('pack' + suffix, [kp], jp), R.Case('unpack' + suffix, [ku], ju)]
    # double <-> uvec2
    dt, ut = G.scalar('double'), G.vec(2, 'uint')
    kp = K('packDouble2x32', [Par('o', dt, False), Par('v', ut)], '*o = packDouble2x32(*v);', CFG)
    ku = K('unpackDouble2x32', [Par('o', ut, False), Par('p', dt)], '*o = unpackDouble2x32(*p);', CFG)

    def jp2(ctx):
        it = ctx.fn(kp)
        word = I.out_lane(it, 'o', 0, 8)
        return [R.ob('packDouble2x32.field%d' % i, 'integer_placement', R.PROVED if tm.slice_(word, 32 * i, 32) is L.in_term('v', ut, i) else R.REFUTED, 'bits %d..%d are component %d' % (32 * i, 32 * i + 31, i), kernel=kp.source()) for i in range(2)]

    def ju2(ctx):
        it = ctx.fn(ku)
        return [R.ob('unpackDouble2x32.comp%d' % i, 'integer_placement', R.PROVED if I.out_lane(it, 'o', 4 * i, 4) is tm.slice_(tm.inp('p', 0, 64), 32 * i, 32) else R.REFUTED, 'component %d is bits %d..%d' % (i, 32 * i, 32 * i + 31), kernel=ku.source()) for i in range(2)]
    cs += [R.Case('packDouble2x32', [kp], jp2), R.Case('unpackDouble2x32', [ku], ju2)]
    return cs


def opaque_call(t, fname):
    """if t is (a slice / extension of) call(fname, arg): return arg"""
    x = t
    while x.op == 'slice' and x.args[1] == 0:
        x = x.args[0]
    if x.op == 'concat' and all(p.op == 'const' and p.args[0] == 0 for p in x.args[1:]):
        x = x.args[0]
    if x.op == 'call' and fname in x.args[0]:
        return x.args[1] if len(x.args) == 2 else None
    return None


def small_float_cases():
    cs = []
    # half: packHalf2x16 (core), packHalf1x16 / 4x16 (gtc), packHalf<L>
    halfs = [('Half2x16', 'uint', 2), ('Half1x16', 'uint16', 1), ('Half4x16', 'uint64', 4)]
    for suffix, wordT, n in halfs:
        vt, wt = ftype(n), G.scalar(wordT)
        kp = K('pack' + suffix, [Par('o', wt, False), Par('v', vt)], '*o = pack%s(*v);' % suffix, CFG)
        ku = K('unpack' + suffix, [Par('o', vt, False), Par('p', wt)], '*o = unpack%s(*p);' % suffix, CFG)

        def jp(ctx, kp=kp, suffix=suffix, vt=vt, wt=wt, n=n):
            it = ctx.fn(kp)
            word = I.out_lane(it, 'o', 0, wt.elem)
            res = []
            for i in range(n):
                f = tm.slice_(word, 16 * i, 16)
                arg = opaque_call(f, 'toFloat16')
                exp = L.in_term('v', vt, i)
                ok = arg is exp
                res.append(R.ob('pack%s.field%d' % (suffix, i), 'small_float_plumbing', R.PROVED if ok else (R.REFUTED if arg is not None else R.UNDECIDED),
                                'bits %d..%d = toFloat16(component %d)' % (16 * i, 16 * i + 15, i) if ok else 'got %s' % tm.show(f, 4), kernel=kp.source()))
            return res

        def ju(ctx, ku=ku, suffix=suffix, vt=vt, wt=wt, n=n):
            it = ctx.fn(ku)
            res = []
            for i in range(n):
                u = I.out_lane(it, 'o', vt.lanes[i], 4)
                arg = opaque_call(u, 'toFloat32')
                exp = tm.slice_(tm.inp('p', 0, wt.elem * 8), 16 * i, 16)
                ok = arg is exp
                res.append(R.ob('unpack%s.comp%d' % (suffix, i), 'small_float_plumbing', R.PROVED if ok else (R.REFUTED if arg is not None else R.UNDECIDED),
                                'component %d = toFloat32(bits %d..%d)' % (i, 16 * i, 16 * i + 15) if ok else 'got %s' % tm.show(u, 4), kernel=ku.source()))
            return res
        cs += [R.Case('pack' + suffix, [kp], jp), R.Case('unpack' + suffix, [ku], ju)]
    # templated packHalf<L> / unpackHalf<L>: lane i of the result is the scalar codec applied to lane i of the argument
    for L_ in (1, 2, 3, 4):
        vt, ht = G.vec(L_, 'float'), G.vec(L_, 'uint16')
        kp = K('tpackHalf_%d' % L_, [Par('o', ht, False), Par('v', vt)], '*o = packHalf(*v);', CFG)
        ku = K('tunpackHalf_%d' % L_, [Par('o', vt, False), Par('p', ht)], '*o = unpackHalf(*p);', CFG)

        def jp(ctx, kp=kp, vt=vt, ht=ht, L_=L_):
            it = ctx.fn(kp)
            res = []
            for i in range(L_):
                f = I.out_lane(it, 'o', ht.lanes[i], 2)
                arg = opaque_call(f, 'toFloat16')
                ok = arg is L.in_term('v', vt, i)
                res.append(R.ob('packHalf<%d>.lane%d' % (L_, i), 'small_float_plumbing', R.PROVED if ok else (R.REFUTED if arg is not None else R.UNDECIDED),
                                'lane %d = toFloat16(component %d)' % (i, i) if ok else 'got %s' % tm.show(f, 4), where=R.where_of(it, f) if not ok else None, kernel=kp.source()))
            return res

        def ju(ctx, ku=ku, vt=vt, ht=ht, L_=L_):
            it = ctx.fn(ku)
            res = []
            for i in range(L_):
                u = I.out_lane(it, 'o', vt.lanes[i], 4)
                arg = opaque_call(u, 'toFloat32')
                ok = arg is L.in_term('p', ht, i)
                res.append(R.ob('unpackHalf<%d>.comp%d' % (L_, i), 'small_float_plumbing', R.PROVED if ok else (R.REFUTED if arg is not None else R.UNDECIDED),
                                'component %d = toFloat32(lane %d)' % (i, i) if ok else 'got %s' % tm.show(u, 4), where=R.where_of(it, u) if not ok else None, kernel=ku.source()))
            return res
        cs += [R.Case('packHalf<%d>' % L_, [kp], jp), R.Case('unpackHalf<%d>' % L_, [ku], ju)]
    # RGBM: unpackRGBM == rgb * m * 6 ; packRGBM: m = ceil(clamp(max(r/6, g/6, b/6, 1e-6), 0, 1) * 255) / 255 and the colour lanes are (c / 6) / m, so that unpackRGBM(packRGBM(c)) == c as rational functions
    for T in ('float', 'double'):
        v3, v4 = G.vec(3, T), G.vec(4, T)
        w = v3.elem * 8
        kpk = K('packRGBM_%s' % v3.tag, [Par('o', v4, False), Par('c', v3)], '*o = packRGBM(*c);', CFG)
        kup = K('unpackRGBM_%s' % v3.tag, [Par('o', v3, False), Par('p', v4)], '*o = unpackRGBM(*p);', CFG)
        krt = K('rtRGBM_%s' % v3.tag, [Par('o', v3, False), Par('c', v3)], '*o = unpackRGBM(packRGBM(*c));', CFG)

        def jr(ctx, kpk=kpk, kup=kup, krt=krt, v3=v3, v4=v4, w=w, T=T):
            from laneflow import poly as P
            res = []
            pc = P.PCtx()
            up = L.out_lanes(ctx, kup, v3)
            p_ = S.vecE('p', v4)
            for i in range(3):
                st, detail = S.compare(up[i], (p_[i] * p_[3] * 6.0).t, pc=pc, nan=False)
                res.append(R.ob('unpackRGBM<%s>[%d]' % (T, i), 'rgbm', st, 'rgb * m * 6' if st == R.PROVED else detail, where=R.where_of(ctx.fn(kup), up[i]) if st != R.PROVED else None, kernel=kup.source()))
            pk = L.out_lanes(ctx, kpk, v4)
            c_ = S.vecE('c', v3)
            sixth = S.const(w, 1.0 / 6.0)
            col = [x * sixth for x in c_]
            mx = S.gmax(S.gmax(col[0], col[1]), S.gmax(col[2], S.const(w, 1e-6)))
            m_ = S.fn('ceil', S.gclamp(mx, S.const(w, 0.0), S.const(w, 1.0)) * 255.0) / 255.0
            st, detail = S.compare(pk[3], m_.t, pc=pc, nan=False)
            res.append(R.ob('packRGBM<%s>.m' % T, 'rgbm', st, 'm = ceil(clamp(max(r, g, b, 6e-6) / 6, 0, 1) * 255) / 255' if st == R.PROVED else detail, where=R.where_of(ctx.fn(kpk), pk[3]) if st != R.PROVED else None, kernel=kpk.source()))
            for i in range(3):
                st, detail = S.compare(pk[i], (col[i] / S.E(pk[3])).t, pc=pc, nan=False)
                res.append(R.ob('packRGBM<%s>[%d]' % (T, i), 'rgbm', st, 'colour lane = (c / 6) / m with the stored multiplier m' if st == R.PROVED else detail, where=R.where_of(ctx.fn(kpk), pk[i]) if st != R.PROVED else None, kernel=kpk.source()))
            return res
        cs.append(R.Case('RGBM<%s>' % T, [kpk, kup, krt], jr))
    # F2x11_1x10
    v3, wt = G.vec(3, 'float'), G.scalar('uint32')
    kp = K('packF2x11_1x10', [Par('o', wt, False), Par('v', v3)], '*o = packF2x11_1x10(*v);', CFG)
    ku = K('unpackF2x11_1x10', [Par('o', v3, False), Par('p', wt)], '*o = unpackF2x11_1x10(*p);', CFG)
    fields = [(0, 11, 'floatTo11bit', 'packed11bitToFloat'), (11, 11, 'floatTo11bit', 'packed11bitToFloat'), (22, 10, 'floatTo10bit', 'packed10bitToFloat')]

    def jp(ctx):
        it = ctx.fn(kp)
        word = I.out_lane(it, 'o', 0, 4)
        res = []
        for i, (pos, w, enc, dec) in enumerate(fields):
            f = tm.slice_(word, pos, w)
            arg = opaque_call(f, enc)
            ok = arg is L.in_term('v', v3, i)
            res.append(R.ob('packF2x11_1x10.field%d' % i, 'small_float_plumbing', R.PROVED if ok else (R.REFUTED if bitdeps(f) - {('v', 32 * i + b) for b in range(32)} else R.UNDECIDED),
                            'bits %d..%d = low %d bits of %s(component %d)' % (pos, pos + w - 1, w, enc, i) if ok else 'got %s' % tm.show(f, 4), kernel=kp.source()))
        return res

    def ju(ctx):
        it = ctx.fn(ku)
        res = []
        for i, (pos, w, enc, dec) in enumerate(fields):
            u = I.out_lane(it, 'o', 4 * i, 4)
            arg = opaque_call(u, dec)
            exp = tm.zext(tm.slice_(tm.inp('p', 0, 32), pos, w), 32)
            if arg is exp:
                res.append(R.ob('unpackF2x11_1x10.comp%d' % i, 'field_isolation', R.PROVED, 'component %d = %s(word bits %d..%d only)' % (i, dec, pos, pos + w - 1), kernel=ku.source()))
            elif arg is not None:
                fb = {('p', pos + b) for b in range(w)}
                extra = sorted(b for a, b in bitdeps(arg) - fb)
                res.append(R.ob('unpackF2x11_1x10.comp%d' % i, 'field_isolation', R.REFUTED if extra else R.UNDECIDED,
                                'the decoder of component %d receives word bits %s beyond its field %d..%d (argument %s): neighbouring fields change the decoded value' % (i, extra[:6], pos, pos + w - 1, tm.show(arg, 3)),
                                where=R.where_of(it, u), kernel=ku.source()))
            else:
                res.append(R.ob('unpackF2x11_1x10.comp%d' % i, 'field_isolation', R.UNDECIDED, 'got %s' % tm.show(u, 4)))
        return res
    cs += [R.Case('packF2x11_1x10', [kp], jp), R.Case('unpackF2x11_1x10', [ku], ju)]
    # special codes of the 11/10-bit decoders and encoders (partial evaluation of the inlined term at a constant)
    ui, fl = G.scalar('uint'), G.scalar('float')
    for bits, mant in ((11, 6), (10, 5)):
        kd = K('dec%d' % bits, [Par('o', fl, False), Par('p', ui)], '*o = detail::packed%dbitToFloat(*p);' % bits, CFG_INL)
        ke = K('enc%d' % bits, [Par('o', ui, False), Par('x', fl)], '*o = detail::floatTo%dbit(*x);' % bits, CFG_INL)
        nan_code, inf_code = (1 << bits) - 1, 0x1f << mant

        def jd(ctx, kd=kd, bits=bits, nan_code=nan_code, inf_code=inf_code):
            it = ctx.fn(kd)
            t = I.out_lane(it, 'o', 0, 4)
            res = []
            probes = [(0, 'zero', FC.PZ), (inf_code, 'Inf', FC.PI), (nan_code, 'NaN', FC.NAN)]
            probes += [(inf_code | mnt, 'NaN', FC.NAN) for mnt in range(1, (inf_code & -inf_code)) if (inf_code | mnt) != nan_code]
            for code, nm, want in probes:
                v = tm.substitute(t, {tm.inp('p', 0, 32): tm.const(32, code)})
                oid = 'packed%dbitToFloat(code %s = 0x%x)' % (bits, nm, code)
                if v.op != 'const':
                    res.append(R.ob(oid, 'special_codes', R.UNDECIDED, 'does not fold to a constant: %s' % tm.show(v, 3)))
                    continue
                cls = FC.class_of_const(v)
                res.append(R.ob(oid, 'special_codes', R.PROVED if cls == want else R.REFUTED,
                                'decodes to %s' % FC.NAMES[cls] if cls == want else 'the %s code decodes to %g (%s), expected %s' % (nm, tm.fval(v), FC.NAMES[cls], FC.NAMES[want]),
                                where=R.where_of(it, t) if cls != want else None, kernel=kd.source()))
            return res

        def je(ctx, ke=ke, bits=bits, nan_code=nan_code, inf_code=inf_code):
            it = ctx.fn(ke)
            t = I.out_lane(it, 'o', 0, 4)
            res = []
            mask = (1 << bits) - 1
            for val, nm, want in ((0.0, '+0', 0), (-0.0, '-0', 0), (float('inf'), '+Inf', inf_code), (float('nan'), 'NaN', nan_code)):
                v = tm.substitute(t, {tm.inp('x', 0, 32): tm.fconst(32, val)})
                oid = 'floatTo%dbit(%s)' % (bits, nm)
                if v.op != 'const':
                    res.append(R.ob(oid, 'special_codes', R.UNDECIDED, 'does not fold to a constant: %s' % tm.show(v, 3)))
                    continue
                got = v.args[0] & mask
                res.append(R.ob(oid, 'special_codes', R.PROVED if got == want else R.REFUTED, 'encodes to 0x%x' % got if got == want else 'encodes to 0x%x, expected 0x%x' % (got, want), kernel=ke.source()))
            return res
        cs += [R.Case('packed%dbitToFloat' % bits, [kd], jd), R.Case('floatTo%dbit' % bits, [ke], je)]
    return cs


# ---------------------------------------------------------------------------------------------------------------------
# shared-exponent format RGB9E5 (packF3x9_E1x5): conformance of the encoder's shape with the algorithm that *defines* the format
# (OpenGL 4.6 core, section 8.5.2 "Encoding of Special Internal Formats"), N = 9 mantissa bits, B = 15 bias, Emax = 31:
#     c_clamped = max(0, min(sharedexp_max, c)),  sharedexp_max = (2^N - 1) / 2^N * 2^(Emax - B) = 65408
#     max_c  = max(r, g, b);   exp_p = max(-B - 1, floor(log2(max_c))) + 1 + B
#     max_s  = floor(max_c / 2^(exp_p - B - N) + 0.5);   exp_s = exp_p if 0 <= max_s < 2^N else exp_p + 1
#     c_s    = floor(c_clamped / 2^(exp_s - B - N) + 0.5)
N9, B15, EMAX = 9, 15, 31
F39_MAX = Fraction((1 << N9) - 1, 1 << N9) * (1 << (EMAX - B15))


def _peel_conv(f):
    x = f
    while x.op in ('slice', 'zext', 'trunc') and (x.op != 'slice' or x.args[1] == 0):
        x = x.args[0]
    return x.args[0] if x.op == 'fptoui' else None


def _floor_half(q):
    """q == floor(X + 0.5) -> X"""
    if q is None or q.op != 'fn' or q.args[0] != 'floor':
        return None
    a = q.args[1]
    if a.op != 'fadd':
        return None
    for i in (0, 1):
        if a.args[i].op == 'const' and tm.fval(a.args[i]) == 0.5:
            return a.args[1 - i]
    return None


def exp2_norm(pc, p):
    """2^(q + c) -> 2^c * 2^q and 2^(-q) -> 1 / 2^q for the exp2 atoms of p (real identities; c the constant term of the exponent)"""
    from laneflow import poly as P
    for a in list(p.atoms()):
        k = P.atom_key(a)
        if k[0] == 'inv':
            q = k[1][1]
            qn = exp2_norm(pc, q)
            if qn != q:
                p = p.subst(a, pc.inv(qn))
            continue
        if k[0] != 'fn:exp2':
            continue
        q = k[1][1]
        c = q.t.get((), Fraction(0))
        q0 = q - P.Poly.const(c)
        if q0.is_zero():
            continue
        coef = Fraction(2) ** int(c) if c.denominator == 1 else Fraction(2.0 ** float(c))
        if q0.t[min(q0.t)] < 0:
            rep = pc.inv(P.Poly.atom(('fn:exp2', ('P', -q0))))
        else:
            rep = P.Poly.atom(('fn:exp2', ('P', q0)))
        if c == 0 and rep == P.Poly.var(a):
            continue
        p = p.subst(a, rep.scale(coef))
    return p


def shared_exponent_cases():
    from laneflow import poly as P
    v3, wt = G.vec(3, 'float'), G.scalar('uint32')
    kp = K('packF3x9_E1x5', [Par('o', wt, False), Par('v', v3)], '*o = packF3x9_E1x5(*v);', CFG)
    ku = K('unpackF3x9_E1x5', [Par('o', v3, False), Par('p', wt)], '*o = unpackF3x9_E1x5(*p);', CFG)
    name = 'packF3x9_E1x5'

    def jp(ctx):
        it = ctx.fn(kp)
        word = I.out_lane(it, 'o', 0, 4)
        res = []
        pc = P.PCtx()

        def ob(sub, st, detail, t=None):
            res.append(R.ob('%s.%s' % (name, sub), 'shared_exponent', st, detail, where=R.where_of(it, t) if (t is not None and st != R.PROVED) else None, kernel=kp.source()))
        E = _peel_conv(tm.slice_(word, 27, 5))
        if E is None:
            ob('exponent', R.UNDECIDED, 'bits 27..31 are not a float->uint conversion: %s' % tm.show(tm.slice_(word, 27, 5), 4))
            return res
        # per-component quantiser
        comps = []
        for i in range(3):
            Q = _peel_conv(tm.slice_(word, 9 * i, 9))
            X = _floor_half(Q)
            if X is None or X.op != 'fdiv' or not (X.args[1].op == 'fn' and X.args[1].args[0] in ('exp2',)):
                ob('mantissa%d' % i, R.UNDECIDED, 'field %d is not uint(floor(c / 2^e + 0.5)): %s' % (i, tm.show(tm.slice_(word, 9 * i, 9), 5)))
                return res
            C, ex = X.args[0], X.args[1].args[1]
            comps.append((Q, C, ex))
            # the scale is 2^(exp_s - B - N) with the very exponent that is stored
            d = pc.fpoly(ex) - pc.fpoly(E)
            okd = d == P.Poly.const(-(B15 + N9))
            ob('mantissa%d.scale' % i, R.PROVED if okd else (R.REFUTED if d.is_const() else R.UNDECIDED),
               'mantissa %d = floor(c / 2^(E - %d) + 0.5) with E the stored exponent' % (i, B15 + N9) if okd else 'mantissa %d is scaled by 2^(E %+s) instead of 2^(E - %d)' % (i, P.show_poly(d), B15 + N9), Q)
            # the clamp
            spec = S.gclamp(S.lane('v', v3, i), S.const(32, 0.0), S.const(32, float(F39_MAX))).t
            r = O.equivalent(C, spec, nan=False) if O.in_fragment(C) else None
            consts = sorted({tm.fval(x) for x in tm.walk(C) if x.op == 'const' and x.w == 32})
            ob('clamp%d' % i, R.PROVED if r is True else (R.REFUTED if r else R.UNDECIDED),
               'component %d is clamped to [0, %s] = [0, (2^9-1)/2^9 * 2^(31-15)]' % (i, float(F39_MAX)) if r is True else
               'component %d is not clamped to [0, %s] (constants in the clamp: %s)%s' % (i, float(F39_MAX), consts, ': differs in case [%s]' % r[1] if r else ''), C)
        # exponent selection
        if E.op != 'select':
            ob('exponent', R.UNDECIDED, 'stored exponent is not a selection exp_p / exp_p + 1: %s' % tm.show(E, 4))
            return res
        cond, Ehi, EP = E.args
        if pc.fpoly(Ehi) - pc.fpoly(EP) != P.Poly.const(1):
            if pc.fpoly(EP) - pc.fpoly(Ehi) == P.Poly.const(1):
                cond, Ehi, EP = tm.not_(cond), EP, Ehi
            else:
                ob('exponent', R.UNDECIDED, 'the two candidate exponents do not differ by one: %s' % tm.show(E, 4))
                return res
        logs = [x for x in tm.walk(EP) if x.op == 'fn' and x.args[0] == 'log2']
        if len(logs) != 1:
            ob('exponent', R.UNDECIDED, 'expected one log2 in the preliminary exponent, found %d' % len(logs))
            return res
        M = logs[0].args[1]
        Cs = [S.E(c[1]) for c in comps]
        specM = S.gmax(Cs[0], S.gmax(Cs[1], Cs[2])).t
        r = O.equivalent(M, specM, nan=False) if O.in_fragment(M) else None
        ob('max_component', R.PROVED if r is True else (R.REFUTED if r else R.UNDECIDED),
           'log2 is taken of max(r, g, b) of the clamped components' if r is True else 'log2 argument is not the maximum of the three clamped components%s' % (': case [%s]' % r[1] if r else ''), M)
        fl = S.E(tm.fn('floor', [logs[0]], 32))
        specEP = (S.gmax(S.const(32, -(B15 + 1)), fl) + 1.0 + float(B15)).t
        st, detail = S.compare(EP, specEP, pc=pc, nan=False)
        ob('preliminary_exponent', st, 'exp_p = max(-16, floor(log2(max_c))) + 1 + 15' if st == R.PROVED else 'exp_p differs from max(-16, floor(log2(max_c))) + 1 + 15: ' + detail, EP)
        # max_s must be the component quantiser applied to (max_c, exp_p): the bump decision and the mantissas round the same way
        floors = [x for x in tm.walk(cond) if x.op == 'fn' and x.args[0] == 'floor']
        tops = [x for x in floors if not any(x is not y and x in set(tm.walk(y)) for y in floors)]
        if len(tops) != 1:
            ob('max_s', R.UNDECIDED, 'expected one rounded quantity in the exponent decision, found %d' % len(tops))
            return res
        MS = tops[0]
        want = tm.substitute(comps[0][0], {comps[0][1]: M, E: EP})
        x1, x2 = exp2_norm(pc, pc.fpoly(MS.args[1])), exp2_norm(pc, pc.fpoly(want.args[1]))
        d = P.reduce_inv(x1 - x2)
        same = MS is want or d.is_zero()
        # the difference is a real one when it only involves max_c and 2^exp_p (both sides are the same kind of expression)
        allowed = {a for a in (x2.atoms() | set().union(*[P.atom_key(a)[1][1].atoms() for a in x2.atoms() if P.atom_key(a)[0] == 'inv']))}
        real = not same and d.atoms() <= allowed | {a for a in d.atoms() if P.atom_key(a)[0] == 'inv' and P.atom_key(a)[1][1].atoms() <= allowed}
        ob('max_s', R.PROVED if same else (R.REFUTED if real else R.UNDECIDED),
           'max_s = floor(max_c / 2^(exp_p - 24) + 0.5): the same quantiser as the mantissas, applied to (max_c, exp_p)' if same else
           'the exponent decision rounds max_c differently from the mantissas: decision uses %s, the mantissa quantiser at (max_c, exp_p) is %s' % (tm.show(MS, 6), tm.show(want, 6)), MS)
        # the decision itself: true exactly for max_s == 2^N among the integers 0..2^N
        bad = []
        for kk in range((1 << N9) + 1):
            v = tm.fold_float(tm.substitute(cond, {MS: tm.fconst(32, float(kk))}))
            if v.op != 'const':
                bad = None
                break
            if bool(v.args[0]) != (kk == (1 << N9)):
                bad.append(kk)
        if bad is None:
            ob('bump_decision', R.UNDECIDED, 'the decision does not fold to a constant for a constant max_s: %s' % tm.show(cond, 5))
        else:
            ob('bump_decision', R.PROVED if not bad else R.REFUTED,
               'exponent is incremented exactly when max_s == 512 (evaluated for max_s = 0..512)' if not bad else 'the exponent decision is wrong for max_s in %s' % bad[:8], cond)
        return res

    def ju(ctx):
        it = ctx.fn(ku)
        res = []
        pc = P.PCtx()
        p = tm.inp('p', 0, 32)
        for i in range(3):
            u = I.out_lane(it, 'o', 4 * i, 4)
            oid = 'unpackF3x9_E1x5.comp%d' % i
            ok = False
            detail = tm.show(u, 5)
            if u.op == 'fmul':
                for a, b in ((u.args[0], u.args[1]), (u.args[1], u.args[0])):
                    if a.op == 'uitofp' and b.op == 'fn' and b.args[0] == 'exp2':
                        mant = a.args[0]
                        m_ok = tm.zext(tm.slice_(p, 9 * i, 9), mant.w) is mant
                        # exponent: float(bits 27..31) - 24
                        ex = pc.fpoly(b.args[1])
                        ee = P.Poly.atom(('uitofp', ('T', tm.zext(tm.slice_(p, 27, 5), 32)))) - P.Poly.const(B15 + N9)
                        ok = m_ok and ex == ee
                        detail = 'mantissa %s, exponent %s' % (tm.show(mant, 3), P.show_poly(ex))
            res.append(R.ob(oid, 'shared_exponent', R.PROVED if ok else R.UNDECIDED, 'component %d = bits %d..%d * 2^(bits 27..31 - 24)' % (i, 9 * i, 9 * i + 8) if ok else detail, kernel=ku.source()))
        return res
    return [R.Case(name, [kp], jp), R.Case('unpackF3x9_E1x5', [ku], ju)]


def template_cases(tier='quick'):
    """templated packUnorm<uintType>(vec<L,floatType>) / packSnorm<intType> / unpackUnorm<floatType> / unpackSnorm<floatType>: the rules of the fixed formats with the width of the
    integer type as the field width and the float type's own precision (the scale must be 2^w - 1 resp. 2^(w-1) - 1 exactly, the decoder's factor its correctly rounded reciprocal
    in floatType, every lane its own field)"""
    cs = []
    combos = []
    for fT in ('float', 'double'):
        for w in (8, 16, 32, 64):
            combos.append((fT, w))
    for fT, w in combos:
        fw = 32 if fT == 'float' else 64
        for kind in ('unorm', 'snorm'):
            it_ = ('uint%d' if kind == 'unorm' else 'int%d') % w
            want = (1 << w) - 1 if kind == 'unorm' else (1 << (w - 1)) - 1
            lo_, hi_ = (0.0, 1.0) if kind == 'unorm' else (-1.0, 1.0)
            Name = 'Unorm' if kind == 'unorm' else 'Snorm'
            for L_ in ((1, 2, 3, 4) if (tier == 'thorough' or w <= 16) else (1, 3)):
                vt, pt = G.vec(L_, fT), G.vec(L_, it_)
                kp = K('tpack%s_%d_%s_%s' % (Name, L_, it_, fT), [Par('o', pt, False), Par('v', vt)], '*o = pack%s<%s>(*v);' % (Name, G.SCALARS[it_][0]), CFG)
                ku = K('tunpack%s_%d_%s_%s' % (Name, L_, it_, fT), [Par('o', vt, False), Par('p', pt)], '*o = unpack%s<%s>(*p);' % (Name, G.SCALARS[fT][0]), CFG)
                tag = '%s<%s>(vec%d<%s>)' % (Name, it_, L_, fT)

                def jp(ctx, kp=kp, vt=vt, pt=pt, w=w, L_=L_, fw=fw, kind=kind, want=want, lo_=lo_, hi_=hi_, tag=tag):
                    e = ctx.compile_error(kp)
                    if e:
                        return [R.ob('pack' + tag, 'existence', R.REFUTED, 'cannot be instantiated: ' + e, kernel=kp.source())]
                    itx = ctx.fn(kp)
                    res = []
                    for i in range(L_):
                        f = I.out_lane(itx, 'o', pt.lanes[i], pt.elem)
                        oid = 'pack%s.comp%d' % (tag, i)
                        lane_bits = {('v', vt.lanes[i] * 8 + b) for b in range(fw)}
                        bd = bitdeps(f)
                        if not (bd and bd <= lane_bits):
                            res.append(R.ob(oid, 'placement', R.REFUTED, 'lane %d of the packed vector depends on component(s) %s' % (i, sorted({b // fw for a, b in bd - lane_bits})),
                                            where=R.where_of(itx, f), kernel=kp.source()))
                            continue
                        q = parse_quant(f)
                        if q is None:
                            res.append(R.ob(oid, 'quantisation', R.UNDECIDED, tm.show(f, 4)))
                            continue
                        conv, rfn, c, Sc = q
                        spec = S.gclamp(S.lane('v', vt, i), S.const(fw, lo_), S.const(fw, hi_)).t
                        r = O.equivalent(c, spec, nan=False) if O.in_fragment(c) else None
                        msgs = []
                        if Sc != want:
                            msgs.append('scale is %s but a %d-bit %s code needs %d' % (Sc, w, kind, want))
                        if rfn is None:
                            msgs.append('no rounding before the integer conversion')
                        if r is not True and r:
                            msgs.append('value is not clamped to [%g,%g]: case [%s]' % (lo_, hi_, r[1]))
                        if kind == 'snorm' and conv == 'fptoui':
                            msgs.append('snorm code converted with an unsigned conversion')
                        if msgs:
                            res.append(R.ob(oid, 'quantisation', R.REFUTED, '; '.join(msgs), where=R.where_of(itx, f), kernel=kp.source()))
                        elif r is True:
                            res.append(R.ob(oid, 'quantisation', R.PROVED, 'code = %s(%s(clamp(x,%g,%g) * %d))' % (conv, rfn, lo_, hi_, want), kernel=kp.source()))
                        else:
                            res.append(R.ob(oid, 'quantisation', R.UNDECIDED, 'clamp not recognisable: %s' % tm.show(c, 4)))
                    return res

                def ju(ctx, ku=ku, vt=vt, pt=pt, w=w, L_=L_, fw=fw, kind=kind, tag=tag):
                    e = ctx.compile_error(ku)
                    if e:
                        return [R.ob('unpack' + tag, 'existence', R.REFUTED, 'cannot be instantiated: ' + e, kernel=ku.source())]
                    itx = ctx.fn(ku)
                    res = []
                    for i in range(L_):
                        u = I.out_lane(itx, 'o', vt.lanes[i], vt.elem)
                        oid = 'unpack%s.comp%d' % (tag, i)
                        fb = {('p', pt.lanes[i] * 8 + b) for b in range(w)}
                        bd = bitdeps(u)
                        if not (bd and bd <= fb):
                            res.append(R.ob(oid, 'field_isolation', R.REFUTED, 'component %d depends on bits outside lane %d of the packed vector' % (i, i), where=R.where_of(itx, u), kernel=ku.source()))
                            continue
                        st, detail = unpack_shape(u, 'p', pt.lanes[i] * 8, w, kind, fw)
                        res.append(R.ob(oid, 'dequantisation', st, detail, where=R.where_of(itx, u) if st != R.PROVED else None, kernel=ku.source()))
                    return res
                cs.append(R.Case('pack' + tag, [kp], jp))
                cs.append(R.Case('unpack' + tag, [ku], ju))
    return cs


def cases(tier):
    cs = []
    for suffix, wordT, widths, kind in NORM:
        cs += norm_cases(suffix, wordT, widths, kind)
    for suffix, wordT, compT, n in INTS:
        cs += int_cases(suffix, wordT, compT, n)
    cs += bitfield_int_cases()
    cs += small_float_cases()
    cs += shared_exponent_cases()
    cs += template_cases(tier)
    cs += canaries()
    return cs


def canaries():
    v4, wt = G.vec(4, 'float'), G.scalar('uint')
    pre = ('static glm::uint verif_bad_pack(glm::vec4 const& v){ glm::u8vec4 r(glm::round(glm::clamp(v, 0.0f, 1.0f) * 256.0f)); '
           'return glm::uint(r.x) | (glm::uint(r.y) << 8) | (glm::uint(r.z) << 16) | (glm::uint(r.w) << 24); }')
    k = K('canary_pack', [Par('o', wt, False), Par('v', v4)], '*o = verif_bad_pack(*v);', CFG, pre=pre)

    def judge(ctx):
        it = ctx.fn(k)
        f = tm.slice_(I.out_lane(it, 'o', 0, 4), 0, 8)
        q = parse_quant(f)
        if q and q[3] != 255:
            return [R.ob('canary:scale-256-in-8-bit-unorm', 'quantisation', R.REFUTED, 'scale %s' % q[3])]
        return [R.ob('canary:scale-256-in-8-bit-unorm', 'quantisation', R.PROVED, 'not detected: %s' % tm.show(f, 4))]
    return [R.Case('canary:scale-256-in-8-bit-unorm', [k], judge, canary=True)]


EXPLANATION = ('static: every pack/unpack function of glm/packing.hpp and glm/gtc/packing.hpp is instantiated from /repo; the packed word is decomposed into the fields the format name documents and '
               'each field / component is analysed as a term: bit-level dependence (placement, field isolation, component 0 in the LSBs), the quantisation shape conv(round(clamp(x)*S)) with S, the '
               'clamp bounds (compared over all orderings) and the dequantisation constant tied to the field width, sign/zero extension of integer fields, once-per-component application of the '
               'opaque half / 11-bit / 10-bit codecs, and the constants returned for the zero / Inf / NaN codes (partial evaluation of the term at the code)')
ASSUMPTIONS = ['field widths are taken from the documented format names (Unorm3x10_1x2 = 10,10,10,2 ...), component 0 first',
               'nearest-code / half-step accuracy and monotonicity are numeric statements and are not decided; for F3x9_E1x5 the encoder is compared with the algorithm that defines the format (shape and constants), the one-mantissa-step bound that follows from it is not mechanised',
               'toFloat16/toFloat32 are kept opaque here (C07 is not applicable)']
TRUSTED = ['clang/LLVM 14', 'tools/irtool.cc (noinline marking of the scalar codecs)', 'laneflow term normaliser, ordering domain']
LEVEL = 'other'
