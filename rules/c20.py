"""C20 — no sanitizer-observable undefined behaviour inside the documented domains.

Every function of the corpus (the files the property anchors: func_common, func_integer, gtc/bitfield, ext/scalar_integer, gtc/round, type_half, the pack
functions, ext/scalar_common, component access) is instantiated once more with
    -fsanitize=signed-integer-overflow,shift,float-cast-overflow,integer-divide-by-zero,bounds,bool,enum  -fsanitize-trap=all
Nothing is run: after the -O2 pipeline every check the optimiser could not remove is a block that ends in llvm.ubsantrap(kind); LaneFlow gives the exact
condition under which that block is reached as a term over the kernel inputs (the *proof obligation*).  Per obligation:

  discharged     the condition is unsatisfiable inside the function's documented input box (interval abstract interpretation of the condition, every
                 conjunct of its DNF refined by its own comparisons on the inputs)                                                      -> PROVED
  witness        an explicit input inside the box makes the condition true (exact evaluation of the *condition term*, not of GLM)        -> REFUTED
  precondition   the (function, kind) pair is listed in PRECONDITIONS with the documented reason why the inputs that reach it are outside the
                 function's domain (caller's own arithmetic overflowing, results that are not representable)                          -> PROVED (assumed)
  otherwise                                                                                                                            -> UNDECIDED

A kernel without residual check yields one obligation 'no_check' (the optimiser proved every emitted check redundant).
The boxes are the documented domains written down as intervals (shift counts 0..width, bit counts 0..width, multiples >= 1, finite floats ...); where the
documentation is silent a conservative box strictly inside the function's natural domain is used, and the claim is 'no UB inside the box'.
"""
import itertools
import math
from laneflow import term as tm
from laneflow import gtypes as G
from laneflow import runner as R
from laneflow import rulelib as L
from laneflow import interp as I
from laneflow import interval as IV
from laneflow import ceval as CE
from laneflow.build import K, P as Par, Cfg

SAN = ('-fsanitize=signed-integer-overflow,shift,float-cast-overflow,integer-divide-by-zero,bounds,bool,enum', '-fsanitize-trap=all')
HDR = ('glm/glm.hpp', 'glm/gtc/bitfield.hpp', 'glm/gtc/packing.hpp', 'glm/gtc/round.hpp', 'glm/gtc/integer.hpp', 'glm/ext/scalar_common.hpp', 'glm/ext/scalar_integer.hpp', 'glm/ext/vector_integer.hpp',
       'glm/gtc/quaternion.hpp', 'glm/gtx/bit.hpp', 'glm/gtc/ulp.hpp', 'glm/gtc/type_precision.hpp', 'glm/gtc/color_space.hpp', 'glm/gtx/color_space_YCoCg.hpp', 'glm/gtx/integer.hpp')
CFG = Cfg('ubsan', headers=HDR, defines=('GLM_ENABLE_EXPERIMENTAL',), flags=SAN)
CFG_PEEL = Cfg('ubsan_peel', headers=HDR, defines=('GLM_ENABLE_EXPERIMENTAL',), flags=SAN, peel=12)
CFG_SWZ = Cfg('ubsan_swizzle', headers=HDR, defines=('GLM_ENABLE_EXPERIMENTAL', 'GLM_FORCE_SWIZZLE', 'GLM_FORCE_INTRINSICS'), flags=SAN + ('-msse2',))

KINDS = {0: 'add_overflow', 1: 'builtin_unreachable', 3: 'divrem_overflow', 5: 'float_cast_overflow', 7: 'implicit_conversion', 8: 'invalid_builtin', 10: 'load_invalid_value', 11: 'missing_return',
         12: 'mul_overflow', 13: 'negate_overflow', 18: 'out_of_bounds', 19: 'pointer_overflow', 20: 'shift_out_of_bounds', 21: 'sub_overflow', 22: 'type_mismatch', -2: 'trap'}

W = {'int8': 8, 'uint8': 8, 'int16': 16, 'uint16': 16, 'int': 32, 'uint': 32, 'int32': 32, 'uint32': 32, 'int64': 64, 'uint64': 64}
FULL = 'full'           # every value of the type
ANYF = 'finite'         # every finite float



def _rel(path):
    """source path relative to the analysed tree (/repo, or the GLM_REPO override of the developer tools), with any ../ of an include chain folded"""
    import os
    from laneflow import build as _B
    q = os.path.normpath(path)
    root = os.path.normpath(_B.REPO) + os.sep
    return q[len(root):] if q.startswith(root) else q

def ibox(T, lo, hi):
    return ('i', lo, hi)


class F:
    """one function of the corpus: call is a C++ expression over the parameter names; params: [(name, type, box)] with box FULL / ANYF / (lo, hi)"""

    def __init__(self, name, ret, params, call, cfg=None, out=None):
        self.name, self.ret, self.params, self.call, self.cfg = name, ret, params, call, cfg or CFG


def ty(T):
    if isinstance(T, str) and (T in W or T in ('float', 'double', 'bool')):
        return G.scalar(T)
    return T


def corpus(tier):
    fs = []

    def add(f, vec=None, vret=True):
        """vec: names of the parameters that are vectors in the vector overload (None: no separate vector overload is analysed)"""
        fs.append(f)
        if vec:
            L_ = 3
            vt = lambda T: G.vec(L_, T) if isinstance(T, str) else None
            if any(not isinstance(pt, str) for pn, pt, bx in f.params if pn in vec):
                return
            params = [(pn, vt(pt) if pn in vec else pt, bx) for pn, pt, bx in f.params]
            ret = vt(f.ret) if (vret and isinstance(f.ret, str)) else f.ret
            fs.append(F(f.name + ' [vec3]', ret, params, f.call, f.cfg))
    ints = ['int', 'uint'] + (['int8', 'uint8', 'int64', 'uint64'] if tier == 'thorough' else ['int8', 'uint64'])
    sints = [t for t in ints if not t.startswith('u')]
    for T in ints:
        w = W[T]
        sg = not T.startswith('u')
        cnt = (0, w)            # bit counts / offsets documented as 0 .. width
        sh = (0, w - 1)         # rotation / shift counts
        # func_common
        if sg:
            add(F('abs<%s>' % T, T, [('x', T, (-(1 << (w - 1)) + 1, (1 << (w - 1)) - 1))], 'abs(x)'), vec=('x',))
            add(F('sign<%s>' % T, T, [('x', T, FULL)], 'sign(x)'), vec=('x',))
        # func_integer
        # GLSL: offset + bits <= width.  Two boxes that satisfy the relation: offset 0 with any count, and offset / count each up to half the width
        add(F('bitfieldExtract<%s>(offset 0)' % T, T, [('v', T, FULL), ('b', 'int', cnt)], 'bitfieldExtract(v, 0, b)'), vec=('v',))
        add(F('bitfieldExtract<%s>' % T, T, [('v', T, FULL), ('off', 'int', (0, w // 2 - 1)), ('b', 'int', (0, w // 2))], 'bitfieldExtract(v, off, b)'), vec=('v',))
        add(F('bitfieldInsert<%s>(offset 0)' % T, T, [('v', T, FULL), ('i', T, FULL), ('b', 'int', cnt)], 'bitfieldInsert(v, i, 0, b)'), vec=('v', 'i'))
        add(F('bitfieldInsert<%s>' % T, T, [('v', T, FULL), ('i', T, FULL), ('off', 'int', (0, w // 2 - 1)), ('b', 'int', (0, w // 2))], 'bitfieldInsert(v, i, off, b)'), vec=('v', 'i'))
        add(F('bitfieldReverse<%s>' % T, T, [('v', T, FULL)], 'bitfieldReverse(v)'), vec=('v',))
        add(F('bitCount<%s>' % T, 'int', [('v', T, FULL)], 'bitCount(v)'), vec=('v',))
        add(F('findLSB<%s>' % T, 'int', [('v', T, FULL)], 'findLSB(v)'), vec=('v',))
        add(F('findMSB<%s>' % T, 'int', [('v', T, FULL)], 'findMSB(v)'), vec=('v',))
        # gtc/bitfield
        add(F('mask<%s>' % T, T, [('b', T, cnt)], 'mask(b)'), vec=('b',))
        add(F('bitfieldRotateRight<%s>' % T, T, [('v', T, FULL), ('s', 'int', sh)], 'bitfieldRotateRight(v, s)'), vec=('v',))
        add(F('bitfieldRotateLeft<%s>' % T, T, [('v', T, FULL), ('s', 'int', sh)], 'bitfieldRotateLeft(v, s)'), vec=('v',))
        half = (0, w // 2)
        add(F('bitfieldFillOne<%s>' % T, T, [('v', T, FULL), ('f', 'int', (0, w // 2 - 1)), ('c', 'int', half)], 'bitfieldFillOne(v, f, c)'), vec=('v',))
        add(F('bitfieldFillZero<%s>' % T, T, [('v', T, FULL), ('f', 'int', (0, w // 2 - 1)), ('c', 'int', half)], 'bitfieldFillZero(v, f, c)'), vec=('v',))
        # ext/scalar_integer, gtc/round
        pos = (1, (1 << (w - 2)) - 1)
        inner = (-(1 << (w - 2)) + 1, (1 << (w - 2)) - 1) if sg else (0, (1 << (w - 2)) - 1)
        add(F('isPowerOfTwo<%s>' % T, 'bool', [('x', T, inner)], 'isPowerOfTwo(x)'), vec=('x',))
        for fn_ in ('ceilPowerOfTwo', 'floorPowerOfTwo', 'roundPowerOfTwo', 'nextPowerOfTwo', 'prevPowerOfTwo'):
            add(F('%s<%s>' % (fn_, T), T, [('x', T, pos)], '%s(x)' % fn_), vec=('x',))
        mult = (1, (1 << (w // 2 - 1)) - 1)
        add(F('isMultiple<%s>' % T, 'bool', [('x', T, inner), ('m', T, mult)], 'isMultiple(x, m)'), vec=('x', 'm'))
        for fn_ in ('ceilMultiple', 'floorMultiple', 'roundMultiple', 'nextMultiple', 'prevMultiple'):
            add(F('%s<%s>' % (fn_, T), T, [('x', T, inner), ('m', T, mult)], '%s(x, m)' % fn_), vec=('x', 'm'))
    # the multiples again at the two ends of the signed 32- / 64-bit ranges, where the answer is still representable (max - 1 and min + 2 are multiples of 3 for both widths):
    # one-point boxes - the conservative boxes above stay a quarter of the range away from the ends, and an intermediate like (x - 1) + m only overflows within m of them
    for T, w in (('int', 32), ('int64', 64)):
        top, bot = (1 << (w - 1)) - 2, -(1 << (w - 1)) + 2
        for fn_ in ('ceilMultiple', 'floorMultiple', 'roundMultiple', 'nextMultiple', 'prevMultiple'):
            add(F('%s<%s>@top' % (fn_, T), T, [('x', T, (top, top)), ('m', T, (3, 3))], '%s(x, m)' % fn_))
            add(F('%s<%s>@bottom' % (fn_, T), T, [('x', T, (bot, bot)), ('m', T, (3, 3))], '%s(x, m)' % fn_))
    # carries
    add(F('uaddCarry', 'uint', [('x', 'uint', FULL), ('y', 'uint', FULL)], '[&]{ glm::uint c; return uaddCarry(x, y, c) + c; }()'))
    add(F('usubBorrow', 'uint', [('x', 'uint', FULL), ('y', 'uint', FULL)], '[&]{ glm::uint c; return usubBorrow(x, y, c) ^ c; }()'))
    add(F('umulExtended', 'uint', [('x', 'uint', FULL), ('y', 'uint', FULL)], '[&]{ glm::uint a, b; umulExtended(x, y, a, b); return a ^ b; }()'))
    add(F('imulExtended', 'int', [('x', 'int', FULL), ('y', 'int', FULL)], '[&]{ int a, b; imulExtended(x, y, a, b); return a ^ b; }()'))
    # interleave
    add(F('bitfieldInterleave(u8,u8)', 'uint16', [('x', 'uint8', FULL), ('y', 'uint8', FULL)], 'bitfieldInterleave(x, y)'))
    add(F('bitfieldInterleave(i16,i16)', 'int32', [('x', 'int16', FULL), ('y', 'int16', FULL)], 'bitfieldInterleave(x, y)'))
    add(F('bitfieldInterleave(u32,u32)', 'uint64', [('x', 'uint32', FULL), ('y', 'uint32', FULL)], 'bitfieldInterleave(x, y)'))
    add(F('bitfieldInterleave(i32,i32,i32)', 'int64', [('x', 'int32', FULL), ('y', 'int32', FULL), ('z', 'int32', FULL)], 'bitfieldInterleave(x, y, z)'))
    add(F('bitfieldInterleave(u16 x4)', 'uint64', [('x', 'uint16', FULL), ('y', 'uint16', FULL), ('z', 'uint16', FULL), ('w', 'uint16', FULL)], 'bitfieldInterleave(x, y, z, w)'))
    # float -> int conversions
    for T in ('float', 'double'):
        i31 = (-2147483000.0, 2147483000.0)
        add(F('roundEven<%s>' % T, T, [('x', T, ANYF)], 'roundEven(x)'), vec=('x',))
        add(F('round<%s>' % T, T, [('x', T, ANYF)], 'round(x)'), vec=('x',))
        add(F('iround<%s>' % T, 'int', [('x', T, i31)], 'iround(x)'), vec=('x',))
        add(F('uround<%s>' % T, 'uint', [('x', T, (0.0, 4294967000.0))], 'uround(x)'), vec=('x',))
        add(F('floatBitsToInt-mod<%s>' % T, T, [('x', T, ANYF), ('y', T, ANYF)], 'mod(x, y)'))
        for fn_ in ('ceilMultiple', 'floorMultiple', 'roundMultiple'):
            add(F('%s<%s>' % (fn_, T), T, [('x', T, (-1e6, 1e6)), ('m', T, (1.0, 1e3))], '%s(x, m)' % fn_), vec=('x', 'm'))
    add(F('frexp<float>', 'float', [('x', 'float', ANYF)], '[&]{ int e; float m = frexp(x, e); return m + float(e); }()'))
    add(F('ldexp<float>', 'float', [('x', 'float', ANYF), ('e', 'int', (-200, 200))], 'ldexp(x, e)'))
    add(F('floatBitsToInt', 'int', [('x', 'float', ANYF)], 'floatBitsToInt(x)'))
    add(F('intBitsToFloat', 'float', [('x', 'int', FULL)], 'intBitsToFloat(x)'))
    add(F('inversesqrt<lowp float>', 'float', [('x', 'float', (1e-30, 1e30))], 'inversesqrt(glm::vec<1, float, glm::lowp>(x)).x'))
    # packing: every format, finite inputs of any magnitude
    v2, v3, v4 = G.vec(2, 'float'), G.vec(3, 'float'), G.vec(4, 'float')
    packs = [('packUnorm2x16', v2, 'uint'), ('packSnorm2x16', v2, 'uint'), ('packUnorm4x8', v4, 'uint'), ('packSnorm4x8', v4, 'uint'), ('packHalf2x16', v2, 'uint'),
             ('packUnorm1x8', 'float', 'uint8'), ('packUnorm2x8', v2, 'uint16'), ('packSnorm1x8', 'float', 'uint8'), ('packSnorm2x8', v2, 'uint16'), ('packUnorm1x16', 'float', 'uint16'),
             ('packUnorm4x16', v4, 'uint64'), ('packSnorm1x16', 'float', 'uint16'), ('packSnorm4x16', v4, 'uint64'), ('packHalf1x16', 'float', 'uint16'), ('packHalf4x16', v4, 'uint64'),
             ('packSnorm3x10_1x2', v4, 'uint32'), ('packUnorm3x10_1x2', v4, 'uint32'), ('packF2x11_1x10', v3, 'uint32'), ('packF3x9_E1x5', v3, 'uint32'),
             ('packUnorm2x4', v2, 'uint8'), ('packUnorm4x4', v4, 'uint16'), ('packUnorm1x5_1x6_1x5', v3, 'uint16'), ('packUnorm3x5_1x1', v4, 'uint16'), ('packUnorm2x3_1x2', v3, 'uint8')]
    for fn_, it_, ot in packs:
        add(F(fn_, ot, [('v', it_, ANYF)], '%s(v)' % fn_))
    unpacks = [('unpackUnorm4x8', 'uint', v4), ('unpackSnorm4x8', 'uint', v4), ('unpackHalf2x16', 'uint', v2), ('unpackHalf1x16', 'uint16', 'float'), ('unpackF2x11_1x10', 'uint32', v3), ('unpackF3x9_E1x5', 'uint32', v3),
               ('unpackSnorm3x10_1x2', 'uint32', v4), ('unpackUnorm3x5_1x1', 'uint16', v4)]
    for fn_, it_, ot in unpacks:
        # the half decoder renormalises subnormals in a loop of at most ten rounds: analysed with the loop peeled (a longer run would be reported as undecided)
        add(F(fn_, ot, [('p', it_, FULL)], '%s(p)' % fn_, cfg=CFG_PEEL if 'Half' in fn_ else None))
    # gtx/integer: pow(x, k) for fixed exponents on the bases whose k-th power is representable (the loop runs k times: fully unrolled), floor_log2 / nlz on
    # every positive value, mod with a non-zero divisor, factorial on its domain 0 .. 12
    for kx in (1, 2, 3, 4, 5, 7, 8, 16, 30):
        bi = int((2 ** 31 - 1) ** (1.0 / kx))
        while (bi + 1) ** kx <= 2 ** 31 - 1:
            bi += 1
        while bi ** kx > 2 ** 31 - 1:
            bi -= 1
        add(F('gtx pow(int, %d)' % kx, 'int', [('x', 'int', (-bi, bi))], 'pow(x, %du)' % kx, cfg=CFG_PEEL if kx > 8 else None))
    add(F('gtx mod(int, int)', 'int', [('x', 'int', (-(1 << 30), 1 << 30)), ('y', 'int', (1, 1 << 30))], 'mod(x, y)'))
    add(F('gtx floor_log2', 'uint', [('x', 'uint', (1, (1 << 32) - 1))], 'floor_log2(x)'))
    add(F('gtx nlz', 'uint', [('x', 'uint', (1, (1 << 32) - 1))], 'nlz(x)'))
    add(F('packRGBM', v4, [('v', v3, (0.0, 1e3))], 'packRGBM(v)'))
    add(F('packUnorm<uint8>(vec4)', G.vec(4, 'uint8'), [('v', v4, ANYF)], 'packUnorm<glm::uint8>(v)'))
    add(F('packSnorm<int16>(vec2)', G.vec(2, 'int16'), [('v', v2, ANYF)], 'packSnorm<glm::int16>(v)'))
    # component access with a run-time index (documented precondition: 0 <= i < length())
    iv4, m4, qt = G.vec(4, 'int'), G.mat(4, 4, 'float'), G.quat('float')
    add(F('vec4[i]', 'float', [('v', v4, ANYF), ('i', 'int', (0, 3))], 'v[i]'))
    add(F('vec3[i]', 'float', [('v', v3, ANYF), ('i', 'int', (0, 2))], 'v[i]'))
    add(F('ivec4[i]', 'int', [('v', iv4, FULL), ('i', 'int', (0, 3))], 'v[i]'))
    add(F('mat4[i][j]', 'float', [('m', m4, ANYF), ('i', 'int', (0, 3)), ('j', 'int', (0, 3))], 'm[i][j]'))
    add(F('quat[i]', 'float', [('q', qt, ANYF), ('i', 'int', (0, 3))], 'q[i]'))
    add(F('swizzle vec4.zyx[i]', 'float', [('v', v4, ANYF), ('i', 'int', (0, 2))], 'glm::vec3(v.zyx)[i]', cfg=CFG_SWZ))
    # integer vector arithmetic: the caller's own arithmetic
    for opn, op in (('+', '+'), ('-', '-'), ('*', '*'), ('/', '/'), ('%', '%'), ('<<', '<<'), ('>>', '>>')):
        add(F('ivec4 %s ivec4' % opn, iv4, [('a', iv4, FULL), ('b', iv4, FULL)], 'a %s b' % op))
    add(F('-ivec4', iv4, [('a', iv4, FULL)], '-a'))
    # bool / enum loads
    bv4 = G.vec(4, 'bool')
    add(F('any(bvec4)', 'bool', [('a', bv4, FULL)], 'any(a)'))
    add(F('mix(vec4, vec4, bvec4)', v4, [('x', v4, ANYF), ('y', v4, ANYF), ('a', bv4, FULL)], 'mix(x, y, a)'))
    return fs


# (function-name regex, kind) -> reason.   Only inputs outside the documented domain reach these checks.
import re
PRECONDITIONS = [
    (r'^ivec4 [-+*] ivec4$|^-ivec4$', ('add_overflow', 'sub_overflow', 'mul_overflow', 'negate_overflow'), 'component-wise integer arithmetic is the caller\'s own: x + y overflowing is outside the domain of the built-in operator the vector operator stands for'),
    (r'^ivec4 [/%] ivec4$', ('divrem_overflow',), 'integer division by zero / INT_MIN / -1 is outside the domain of the built-in operator'),
    (r'^ivec4 (<<|>>) ivec4$', ('shift_out_of_bounds',), 'shift counts outside 0 .. 31 (and left shifts of negative values) are outside the domain of the built-in operator'),
]


def excused(fname, kind):
    for rx, kinds, why in PRECONDITIONS:
        if kind in kinds and re.search(rx, fname):
            return why
    return None


# ---- kernels ------------------------------------------------------------------------------------------------------------------------------------------

def mk_kernel(f, idx):
    rt = ty(f.ret)
    params = [Par('o', rt, False)]
    decls = []
    for pn, pt, box in f.params:
        t = ty(pt)
        params.append(Par('p_' + pn, t))
        decls.append('%s const& %s = *p_%s;' % (t.cpp, pn, pn))
    body = '%s *o = %s;' % (' '.join(decls), f.call)
    return K('ub%d_%s' % (idx, re.sub(r'\W+', '_', f.name)), params, body, f.cfg, meta={'f': f})


def input_boxes(f):
    """-> (int box {in-term: (lo, hi)}, float box, [(in-term, kind, lo, hi)])"""
    ib, fb, lanes = {}, {}, []
    for pn, pt, box in f.params:
        t = ty(pt)
        w = t.elem * 8
        for lane, off in t.lanes.items():
            x = tm.inp('p_' + pn, off * 8, w)
            if t.isfloat:
                lo, hi = (-3.0e38, 3.0e38) if (box == ANYF and w == 32) else (-1.0e308, 1.0e308) if box == ANYF else box
                fb[x] = (float(lo), float(hi))
                lanes.append((x, 'f', float(lo), float(hi)))
            else:
                if t.T == 'bool':
                    lo, hi = 0, 1
                elif box == FULL:
                    lo, hi = (-(1 << (w - 1)), (1 << (w - 1)) - 1) if t.signed else (0, (1 << w) - 1)
                else:
                    lo, hi = box
                # interval domain works on signed values: an unsigned box above the signed maximum is widened to the full range
                if hi >= (1 << (w - 1)):
                    ib[x] = IV.full(w)
                else:
                    ib[x] = (lo, hi)
                lanes.append((x, 'u' if not t.signed else 's', lo, hi))
    return ib, fb, lanes


def narrow(box_i, box_f, lit):
    """refine the boxes by one literal; returns False if the literal is certainly false inside the boxes"""
    neg = False
    t = lit
    if t.op == 'not':
        neg, t = True, t.args[0]
    if t.op == 'icmp':
        pred, a, b = t.args
        if neg:
            pred = {'eq': 'ne', 'ne': 'eq', 'slt': 'sge', 'sle': 'sgt', 'sgt': 'sle', 'sge': 'slt', 'ult': 'uge', 'ule': 'ugt', 'ugt': 'ule', 'uge': 'ult'}[pred]
        for x, c, p in ((a, b, pred), (b, a, {'slt': 'sgt', 'sle': 'sge', 'sgt': 'slt', 'sge': 'sle', 'ult': 'ugt', 'ule': 'uge', 'ugt': 'ult', 'uge': 'ule'}.get(pred, pred))):
            if x.op == 'in' and c.op == 'const' and x in box_i:
                lo, hi = box_i[x]
                cv = tm.sval(c) if p[0] == 's' or p in ('eq', 'ne') else tm.cval(c)
                if p[0] == 'u' and lo < 0:
                    # unsigned comparison of a possibly negative value against a constant below 2^(w-1):  x <u c  <=>  0 <= x < c ; x >=u c <=> x < 0 or x >= c
                    if cv < (1 << (x.w - 1)) and p in ('ult', 'ule'):
                        lo = 0
                        hi = min(hi, cv - 1 if p == 'ult' else cv)
                    else:
                        continue
                else:
                    q = p[-2:]
                    if q == 'lt':
                        hi = min(hi, cv - 1)
                    elif q == 'le':
                        hi = min(hi, cv)
                    elif q == 'gt':
                        lo = max(lo, cv + 1)
                    elif q == 'ge':
                        lo = max(lo, cv)
                    elif q == 'eq':
                        lo, hi = max(lo, cv), min(hi, cv)
                if lo > hi:
                    return False
                box_i[x] = (lo, hi)
    if t.op == 'fcmp':
        pred, a, b = t.args
        p = pred[1:]
        if neg:
            p = {'lt': 'ge', 'le': 'gt', 'gt': 'le', 'ge': 'lt', 'eq': 'ne', 'ne': 'eq'}.get(p, p)
        for x, c, q in ((a, b, p), (b, a, {'lt': 'gt', 'le': 'ge', 'gt': 'lt', 'ge': 'le'}.get(p, p))):
            if x.op == 'in' and c.op == 'const' and x in box_f:
                lo, hi = box_f[x]
                cv = tm.fval(c)
                if cv != cv:
                    continue
                if q in ('lt', 'le'):
                    hi = min(hi, cv)
                elif q in ('gt', 'ge'):
                    lo = max(lo, cv)
                elif q == 'eq':
                    lo, hi = max(lo, cv), min(hi, cv)
                if lo > hi:
                    return False
                box_f[x] = (lo, hi)
    return True


def expand_dnf(cond, limit=256):
    """the path condition as a list of conjunctions of literals, or-literals distributed (bounded)"""
    def lits(t):
        # -> list of alternative literal lists
        if t.op == 'or' and t.w == 1:
            return lits(t.args[0]) + lits(t.args[1])
        if t.op == 'and' and t.w == 1:
            out = []
            for a in lits(t.args[0]):
                for b in lits(t.args[1]):
                    out.append(a + b)
                    if len(out) > limit:
                        raise OverflowError
            return out
        return [[t]]
    out = []
    for conj in cond.d:
        alts = [[]]
        try:
            for lit in conj:
                nxt = []
                for a in alts:
                    for b in lits(lit):
                        nxt.append(a + b)
                if len(nxt) > limit:
                    raise OverflowError
                alts = nxt
        except OverflowError:
            alts = [list(conj)]
        out += alts
    return out


def unsat_in_box(cond, ib, fb, depth=0):
    """True if no input inside the boxes satisfies the path condition (DNF of literals); integer inputs whose box straddles zero are split by sign
    (bit tricks on the sign bit are linear on each half)"""
    if _unsat_in_box(cond, ib, fb):
        return True
    if depth >= 3:
        return False
    used = {x for conj in cond.d for lit in conj for x in tm.walk(lit) if x.op == 'in'}
    for x in sorted(used, key=lambda t: t.id):
        if x in ib and ib[x][0] < 0 <= ib[x][1]:
            lo, hi = ib[x]
            a, b = dict(ib), dict(ib)
            a[x], b[x] = (lo, -1), (0, hi)
            return unsat_in_box(cond, a, fb, depth + 1) and unsat_in_box(cond, b, fb, depth + 1)
    return False


def _unsat_in_box(cond, ib, fb):
    for conj in expand_dnf(cond):
        bi, bf = dict(ib), dict(fb)
        dead = False
        for _ in range(2):
            for lit in conj:
                if not narrow(bi, bf, lit):
                    dead = True
                    break
            if dead:
                break
        if dead:
            continue
        bx = IV.Box(bi, bf)
        if any(bx.b(lit) is False for lit in conj):
            continue
        return False
    return True


def _fcands(lo, hi, w):
    base = [0.0, 0.5, -0.5, 1.0, -1.0, 1.5, 2.5, -2.5, 2147483648.5, -2147483649.5, 4294967296.5, 9007199254740991.5 / 2, 255.0, 256.0, 0.49999997, 65504.0, 65536.0, 2147483648.0, -2147483904.0, 4294967296.0, 8388609.0, 1e10, -1e10, 1e30, -1e30, 3.0e38, -3.0e38, 1e-40, 3.4e38, 1e-20, -1e-20, 2.0 ** -46, 2.0 ** -25, 2.0 ** -24, 6e-8, 6.1e-5, 1e-10, 1e-30, 65520.0, 1e5, 0.1, 1.0 / 3.0]
    out = [lo, hi] + [v for v in base if lo <= v <= hi]
    return out


def _icands(lo, hi, w):
    base = [lo, lo + 1, hi - 1, hi, 0, 1, 2, 3, -1, -2, w - 1, w, w // 2, 7, 8, 31, 32, 33, (lo + hi) // 2, 1 << (w - 2), -(1 << (w - 2)), (1 << (w - 1)) - 1, -(1 << (w - 1)), 0x55, 6]
    seen, out = set(), []
    for v in base:
        if lo <= v <= hi and v not in seen:
            seen.add(v)
            out.append(v)
    return out


def find_witness(cond_term, lanes, budget=20000):
    """an input inside the boxes at which the condition term evaluates to true"""
    ins = {x for x in tm.walk(cond_term) if x.op == 'in'}
    used = [l for l in lanes if l[0] in ins]
    if not used:
        return None
    cands = []
    for x, kind, lo, hi in used:
        if kind == 'f':
            cands.append([CE.f2b(x.w, v) for v in _fcands(lo, hi, x.w)])
        else:
            cands.append([v & ((1 << x.w) - 1) for v in _icands(lo, hi, x.w)])
    total = 1
    for c in cands:
        total *= len(c)
    while total > budget:
        j = max(range(len(cands)), key=lambda i: len(cands[i]))
        total //= len(cands[j])
        cands[j] = cands[j][:max(2, len(cands[j]) // 2)]
        total *= len(cands[j])
    for combo in itertools.product(*cands):
        env = {x[0]: v for x, v in zip(used, combo)}
        try:
            if CE.evaluate(cond_term, env):
                return {tm.show(x[0]): (CE.b2f(x[0].w, v) if x[1] == 'f' else (v - (1 << x[0].w) if (x[1] == 's' and v >> (x[0].w - 1)) else v)) for x, v in zip(used, combo)}
        except CE.NoValue:
            continue
    return None


def msb_split_unsat(ct, lanes):
    """conditions over a single non-negative integer input that go through bit ladders (1 << findMSB(x)): case analysis on the position p of the
    highest set bit, x = {symbolic low bits (p), 1, 0...}; every case inside the box must normalise to the constant false"""
    ins = sorted({x for x in tm.walk(ct) if x.op == 'in'}, key=lambda t: t.id)
    if len(ins) != 1:
        return False
    x = ins[0]
    box = [l for l in lanes if l[0] is x]
    if not box or box[0][1] == 'f' or box[0][2] < 0:
        return False
    lo, hi = box[0][2], box[0][3]
    w = x.w
    shapes = []
    if lo == 0:
        shapes.append(tm.zeros(w))
    for p_ in range(hi.bit_length()):
        if (1 << (p_ + 1)) - 1 < lo:
            continue
        parts = ([tm.slice_(x, 0, p_)] if p_ else []) + [tm.const(1, 1)] + ([tm.zeros(w - p_ - 1)] if w - p_ - 1 else [])
        shapes.append(tm.concat(parts))
    if all(_is_false(tm.substitute(ct, {x: sh})) for sh in shapes):
        return True
    # the ladder may be applied to x - 1 (ceilPowerOfTwo): the same case analysis on y = x - 1, x := y + 1, y in [lo - 1, hi - 1]
    if lo >= 1:
        y = tm.inp('y_eq_x_minus_1', 0, w)
        ys = [tm.zeros(w)] if lo == 1 else []
        for p_ in range((hi - 1).bit_length()):
            if (1 << (p_ + 1)) - 1 < lo - 1:
                continue
            parts = ([tm.slice_(y, 0, p_)] if p_ else []) + [tm.const(1, 1)] + ([tm.zeros(w - p_ - 1)] if w - p_ - 1 else [])
            ys.append(tm.concat(parts))
        # x is non-negative in the box: its sign bit is 0, which resolves the absolute value of the signed variants; the ladder's operand x - 1 is then one
        # node of the condition and is replaced by the shape of y itself, x elsewhere by y + 1
        X = tm.concat([tm.slice_(x, 0, w - 1), tm.zeros(1)])
        ct1 = tm.substitute(ct, {x: X})
        N = tm.arith('add', X, tm.const(w, (1 << w) - 1))
        if all(_is_false(tm.substitute(ct1, {N: sh, X: tm.arith('add', sh, tm.const(w, 1))})) for sh in ys):
            return True
    return False


def half_split_unsat(ct):
    """conditions of the half decoders over a 16-bit code (or a 32-bit word holding two codes): case analysis on the 52 shapes of a half pattern (zero, subnormal
    with the leading one at each position, each exponent field, infinity, NaN by lowest payload bit; the remaining bits symbolic) which together cover all 65536
    codes; every case must normalise to the constant false.  For a word of two codes the halves are split one at a time, then jointly."""
    from rules import c07
    ins = sorted({x for x in tm.walk(ct) if x.op == 'in'}, key=lambda t: t.id)
    if len(ins) != 1 or ins[0].w not in (16, 32):
        return False
    x = ins[0]
    if x.w == 16:
        return all(_is_false(tm.substitute(ct, {x: sh})) for _, sh, _ in c07.half_shapes(x))
    lo, hi = tm.slice_(x, 0, 16), tm.slice_(x, 16, 16)
    los = [tm.concat([sh, hi]) for _, sh, _ in c07.half_shapes(lo)]
    if all(_is_false(tm.substitute(ct, {x: w_})) for w_ in los):
        return True
    his = [tm.concat([lo, sh]) for _, sh, _ in c07.half_shapes(hi)]
    if all(_is_false(tm.substitute(ct, {x: w_})) for w_ in his):
        return True
    for _, a, _ in c07.half_shapes(lo):
        r = tm.substitute(ct, {x: tm.concat([a, hi])})
        if _is_false(r):
            continue                    # this shape of the low code already excludes the condition, whatever the high code is
        for _, b, _ in c07.half_shapes(hi):
            if not _is_false(tm.substitute(r, {x: tm.concat([a, b])})):
                return False
    return True


def _is_false(r):
    return r.op == 'const' and r.args[0] == 0


def msb_split_unsat_dnf(cond, lanes):
    """every conjunct of the condition contains a group of literals over one single input that is unsatisfiable by the highest-set-bit case analysis
    (conditions of several vector lanes merged into one trap block)"""
    try:
        conjs = expand_dnf(cond, limit=512)
    except Exception:
        return False
    memo = {}
    for conj in conjs:
        groups = {}
        for lit in conj:
            ins = frozenset(x for x in tm.walk(lit) if x.op == 'in')
            if len(ins) == 1:
                groups.setdefault(next(iter(ins)), []).append(lit)
        dead = False
        for x, lits in groups.items():
            t = tm.TRUE
            for l in sorted(lits, key=lambda q: q.id):
                t = tm.and_(t, l)
            if t not in memo:
                memo[t] = msb_split_unsat(t, lanes)
            if memo[t]:
                dead = True
                break
        if not dead:
            return False
    return True


def judge_of(f, k):
    def judge(ctx):
        err = ctx.compile_error(k)
        if err:
            return [R.ob(f.name, 'existence', R.REFUTED, 'cannot be instantiated with the sanitizers enabled: ' + err, kernel=k.source())]
        try:
            it = ctx.fn(k)
        except I.Unsupported as e:
            return [R.ob(f.name, 'engine', R.UNDECIDED, 'kernel not analysable: %s' % e, kernel=k.source())]
        traps = getattr(it, 'traps', [])
        if not traps:
            return [R.ob(f.name, 'no_check', R.PROVED, 'no sanitizer check survives optimisation: every emitted check is redundant for all inputs', kernel=k.source())]
        ib, fb, lanes = input_boxes(f)
        res = []
        seen = {}
        for tr in traps:
            kind = KINDS.get(tr['kind'], 'kind%d' % tr['kind'])
            n = seen[kind] = seen.get(kind, 0) + 1
            oid = '%s.%s%s' % (f.name, kind, '' if n == 1 else '#%d' % n)
            where = ['%s:%d %s' % (_rel(fr[0]), fr[1], fr[2]) for fr in (tr['dbg'] or [])][:4]
            cond = tr['cond']
            ct = cond.to_term()
            why = excused(f.name, kind)
            if why:
                res.append(R.ob(oid, 'precondition', R.PROVED, 'reached only outside the documented domain: ' + why, kernel=k.source()))
                continue
            if unsat_in_box(cond, ib, fb):
                res.append(R.ob(oid, kind, R.PROVED, 'the check cannot fail inside the documented domain (%s): condition %s' % (box_text(f), tm.show(ct, 4)[:160]), kernel=k.source()))
                continue
            wit = find_witness(ct, lanes)
            if wit is None and 'Half' in f.name and half_split_unsat(ct):
                res.append(R.ob(oid, kind, R.PROVED, 'the check cannot fail for any half code: on each of the 52 shapes of a half pattern (remaining bits symbolic) the condition normalises to false', kernel=k.source()))
                continue
            if wit is None and (msb_split_unsat(ct, lanes) or msb_split_unsat_dnf(cond, lanes)):
                res.append(R.ob(oid, kind, R.PROVED, 'the check cannot fail inside the documented domain (%s): on every shape of the argument (position of its highest set bit fixed, lower bits symbolic) the condition normalises to false' % box_text(f), kernel=k.source()))
                continue
            if wit is not None:
                res.append(R.ob(oid, kind, R.REFUTED, 'undefined behaviour (%s) is executed for %s, inside the documented domain (%s); condition %s' % (kind.replace('_', ' '), ', '.join('%s = %s' % (a, b) for a, b in wit.items()), box_text(f), tm.show(ct, 4)[:200]),
                                where=where, kernel=k.source()))
            else:
                res.append(R.ob(oid, kind, R.UNDECIDED, 'neither excluded by intervals nor reached by a witness: %s' % tm.show(ct, 5)[:300], where=where, kernel=k.source()))
        return res
    return judge


def box_text(f):
    out = []
    for pn, pt, box in f.params:
        out.append('%s: %s' % (pn, 'any value' if box == FULL else 'any finite value' if box == ANYF else '%s .. %s' % box))
    return ', '.join(out)


def cases(tier):
    cs = []
    for i, f in enumerate(corpus(tier)):
        k = mk_kernel(f, i)
        cs.append(R.Case(f.name, [k], judge_of(f, k)))
    cs += canaries()
    if not _NO_MEM:
        import sys
        from rules import c20_mem
        cs += c20_mem.cases(tier, sys.modules[__name__])
    return cs


_NO_MEM = False


def canaries():
    it_ = G.scalar('int')
    pre = 'static int verif_bad_mask(int bits){ return (1 << bits) - 1; }'
    k = K('canary_ub', [Par('o', it_, False), Par('p_b', it_)], '*o = verif_bad_mask(*p_b);', CFG, pre=pre)
    f = F('canary:mask-without-width-guard', 'int', [('b', 'int', (0, 32))], '')

    def judge(ctx):
        it = ctx.fn(k)
        ib, fb, lanes = input_boxes(f)
        for tr in getattr(it, 'traps', []):
            if KINDS.get(tr['kind']) == 'shift_out_of_bounds' and not unsat_in_box(tr['cond'], ib, fb):
                wit = find_witness(tr['cond'].to_term(), lanes)
                if wit:
                    return [R.ob(f.name, 'shift_out_of_bounds', R.REFUTED, 'shift by %s' % wit)]
        return [R.ob(f.name, 'shift_out_of_bounds', R.PROVED, 'no witness')]
    return [R.Case(f.name, [k], judge, canary=True)]


EXPLANATION = ('static obligation inventory: every function of the corpus is instantiated from /repo with the UBSan checks compiled in as traps; after optimisation each surviving check is a proof obligation whose exact '
               'reachability condition LaneFlow derives as a term over the inputs; the obligation is discharged by interval abstract interpretation over the documented input box, refuted by an explicit witness input, or '
               'tabled as a documented precondition. Nothing is executed.')
ASSUMPTIONS = ['UB classes UBSan does not instrument are out of scope (strict aliasing, unsequenced modification, uninitialised reads; library calls such as std::abs(INT_MIN)); null / alignment / object-size checks concern the '
               'kernel\'s own pointer arguments and are not enabled', 'float inputs are finite and not NaN', 'one optimisation pipeline is analysed; checks the optimiser removes are proved redundant by LLVM',
               'input boxes are the documented domains written as intervals; where the documentation is silent the box is a conservative sub-domain and the claim is limited to it']
TRUSTED = ['clang 14 UBSan instrumentation (which operations get a check)', 'LLVM -O2 (removal of redundant checks)', 'tools/irtool.cc', 'laneflow interval domain and concrete term evaluator']
# floors: one pooled count of decided obligations (the surviving sanitizer checks per kind move with every refactor of the library)
FLOOR_GROUP = lambda rule: 'memory' if rule == 'memory' else 'obligations'
FLOOR_RATIO = 0.9
LEVEL = 'other'
