"""C01 — vector functions/operators equal the scalar overload applied per component.

For every component-wise API function/operator f, every overload pattern (vector / scalar / vec1 operands), every
length 1..4 and element type of the tier, two kernels are instantiated from /repo: the vector call and the all-scalar
call.  LaneFlow gives t_i (output lane i) and s (scalar result); with the scalar inputs renamed to lane i:

  D1 lane discipline   t_i depends only on lane i of vector operands and on scalar operands
  D2 identical         t_i is the same term as s (or the same integer polynomial mod 2^w, or the same boolean function)
  D3 composite         for mix/smoothstep/mod/fma the float normal forms are ring-equal
  D4 existence         every declared overload combination instantiates
A ring-equal but not identical float lane is REFUTED only if the float-class domain exhibits a class of inputs on
which the two results provably differ (e.g. 0-x vs -x on x=+0).
"""
from laneflow import term as tm
from laneflow import poly as P
from laneflow import gtypes as G
from laneflow import runner as R
from laneflow import rulelib as L
from laneflow import fclass as FC
from laneflow import interp as I
from laneflow import order as O
from laneflow.build import K, P as Par, Cfg

H_CORE = ('glm/glm.hpp',)
H_EXT = ('glm/glm.hpp', 'glm/ext/scalar_common.hpp', 'glm/ext/vector_common.hpp', 'glm/ext/scalar_integer.hpp', 'glm/ext/vector_integer.hpp',
         'glm/ext/scalar_relational.hpp', 'glm/ext/vector_relational.hpp', 'glm/ext/scalar_reciprocal.hpp', 'glm/ext/vector_reciprocal.hpp',
         'glm/ext/matrix_common.hpp', 'glm/ext/matrix_relational.hpp', 'glm/gtc/integer.hpp', 'glm/gtc/round.hpp', 'glm/gtc/bitfield.hpp',
         'glm/gtc/epsilon.hpp', 'glm/gtc/reciprocal.hpp')
H_GTX = ('glm/glm.hpp', 'glm/gtx/extended_min_max.hpp', 'glm/gtx/component_wise.hpp')
LOOPY = ('findNSB',)
CFGS = {'core': Cfg('core', headers=H_CORE), 'ext': Cfg('ext', headers=H_EXT), 'gtx': Cfg('gtx', headers=H_GTX)}

F, S, U, B = 'f', 's', 'u', 'b'      # type classes: float, signed, unsigned, bool


class Fn:
    def __init__(self, name, pats, types, ret='T', cls='id', grp='core', scalar=None, call=None, scalar_pat=None):
        self.name, self.pats, self.types, self.ret, self.cls, self.grp = name, pats, types, ret, cls, grp
        self.scalar = scalar      # C++ expression template for the scalar oracle ({0},{1}.. are scalar lvalues)
        self.call = call          # C++ expression template for the vector call
        self.scalar_pat = scalar_pat


def _p(s):
    return [x.split() for x in s.split('|')]


FUNCS = [
    # ---- common
    Fn('abs', _p('v'), F + S), Fn('sign', _p('v'), F + S),
    Fn('floor', _p('v'), F), Fn('trunc', _p('v'), F), Fn('round', _p('v'), F), Fn('roundEven', _p('v'), F), Fn('ceil', _p('v'), F),
    Fn('fract', _p('v'), F),
    Fn('mod', _p('v v|v s'), F, cls='comp'),
    Fn('modf', _p('v ov'), F),
    Fn('min', _p('v v|v s'), F + S + U), Fn('max', _p('v v|v s'), F + S + U),
    Fn('clamp', _p('v v v|v s s'), F + S + U),
    Fn('mix', _p('v v v|v v s'), F, cls='comp'),
    Fn('mix', _p('v v vb'), F + S + U, scalar_pat='s s sb'),
    Fn('step', _p('v v|s v'), F), Fn('smoothstep', _p('v v v|s s v'), F, cls='comp'),
    Fn('isnan', _p('v'), F, ret='b'), Fn('isinf', _p('v'), F, ret='b'),
    Fn('floatBitsToInt', _p('v'), 'float', ret='i'), Fn('floatBitsToUint', _p('v'), 'float', ret='u'),
    Fn('intBitsToFloat', _p('v'), 'int', ret='f'), Fn('uintBitsToFloat', _p('v'), 'uint', ret='f'),
    Fn('fma', _p('v v v'), F, cls='comp'),
    Fn('frexp', _p('v ovi'), F), Fn('ldexp', _p('v vi'), F),
    # ---- exponential
    Fn('pow', _p('v v'), F), Fn('exp', _p('v'), F), Fn('log', _p('v'), F), Fn('exp2', _p('v'), F), Fn('log2', _p('v'), F),
    Fn('sqrt', _p('v'), F), Fn('inversesqrt', _p('v'), F),
    # ---- trigonometric
    Fn('radians', _p('v'), F), Fn('degrees', _p('v'), F),
    Fn('sin', _p('v'), F), Fn('cos', _p('v'), F), Fn('tan', _p('v'), F), Fn('asin', _p('v'), F), Fn('acos', _p('v'), F),
    Fn('atan', _p('v|v v'), F), Fn('sinh', _p('v'), F), Fn('cosh', _p('v'), F), Fn('tanh', _p('v'), F),
    Fn('asinh', _p('v'), F), Fn('acosh', _p('v'), F), Fn('atanh', _p('v'), F),
    # ---- integer
    Fn('bitCount', _p('v'), S + U, ret='i'), Fn('findLSB', _p('v'), S + U, ret='i'), Fn('findMSB', _p('v'), S + U, ret='i'),
    Fn('bitfieldReverse', _p('v'), S + U),
    Fn('bitfieldExtract', _p('v si si'), S + U), Fn('bitfieldInsert', _p('v v si si'), S + U),
    Fn('uaddCarry', _p('v v ov'), 'uint'), Fn('usubBorrow', _p('v v ov'), 'uint'),
    Fn('umulExtended', _p('v v ov ov'), 'uint', ret='void'), Fn('imulExtended', _p('v v ov ov'), 'int', ret='void'),
    # ---- relational (scalar oracle = the C++ operator)
    Fn('lessThan', _p('v v'), F + S + U, ret='b', scalar='{0} < {1}'), Fn('lessThanEqual', _p('v v'), F + S + U, ret='b', scalar='{0} <= {1}'),
    Fn('greaterThan', _p('v v'), F + S + U, ret='b', scalar='{0} > {1}'), Fn('greaterThanEqual', _p('v v'), F + S + U, ret='b', scalar='{0} >= {1}'),
    Fn('equal', _p('v v'), F + S + U + B, ret='b', scalar='{0} == {1}'), Fn('notEqual', _p('v v'), F + S + U + B, ret='b', scalar='{0} != {1}'),
    Fn('not_', _p('v'), B, ret='b', scalar='!{0}'),
    # ---- ext twins
    Fn('min', _p('v v v|v v v v'), F + S + U, grp='ext'), Fn('max', _p('v v v|v v v v'), F + S + U, grp='ext'),
    Fn('fmin', _p('v s|v v|v v v|v v v v'), F, grp='ext'), Fn('fmax', _p('v s|v v|v v v|v v v v'), F, grp='ext'),
    Fn('fclamp', _p('v s s|v v v'), F, grp='ext'),
    Fn('clamp', _p('v'), F, grp='ext'), Fn('repeat', _p('v'), F, grp='ext'), Fn('mirrorClamp', _p('v'), F, grp='ext'), Fn('mirrorRepeat', _p('v'), F, grp='ext'),
    Fn('iround', _p('v'), F, ret='i', grp='ext'), Fn('uround', _p('v'), F, ret='u', grp='ext'),
    Fn('isPowerOfTwo', _p('v'), S + U, ret='b', grp='ext'), Fn('nextPowerOfTwo', _p('v'), S + U, grp='ext'), Fn('prevPowerOfTwo', _p('v'), S + U, grp='ext'),
    Fn('isMultiple', _p('v s|v v'), S + U, ret='b', grp='ext'), Fn('nextMultiple', _p('v s|v v'), S + U, grp='ext'), Fn('prevMultiple', _p('v s|v v'), S + U, grp='ext'),
    Fn('findNSB', _p('v vi'), S + U, ret='i', grp='ext'),
    Fn('equal', _p('v v s|v v v'), F, ret='b', grp='ext'), Fn('notEqual', _p('v v s|v v v'), F, ret='b', grp='ext'),
    Fn('equal', _p('v v si|v v vi'), F, ret='b', grp='ext'), Fn('notEqual', _p('v v si|v v vi'), F, ret='b', grp='ext'),
    Fn('epsilonEqual', _p('v v s|v v v'), F, ret='b', grp='ext'), Fn('epsilonNotEqual', _p('v v s|v v v'), F, ret='b', grp='ext'),
    Fn('sec', _p('v'), F, grp='ext'), Fn('csc', _p('v'), F, grp='ext'), Fn('cot', _p('v'), F, grp='ext'),
    Fn('asec', _p('v'), F, grp='ext'), Fn('acsc', _p('v'), F, grp='ext'), Fn('acot', _p('v'), F, grp='ext'),
    Fn('sech', _p('v'), F, grp='ext'), Fn('csch', _p('v'), F, grp='ext'), Fn('coth', _p('v'), F, grp='ext'),
    Fn('asech', _p('v'), F, grp='ext'), Fn('acsch', _p('v'), F, grp='ext'), Fn('acoth', _p('v'), F, grp='ext'),
    Fn('ceilPowerOfTwo', _p('v'), S + U, grp='ext'), Fn('floorPowerOfTwo', _p('v'), S + U, grp='ext'), Fn('roundPowerOfTwo', _p('v'), S + U, grp='ext'),
    Fn('ceilMultiple', _p('v v'), F + S + U, grp='ext'), Fn('floorMultiple', _p('v v'), F + S + U, grp='ext'), Fn('roundMultiple', _p('v v'), F + S + U, grp='ext'),
    Fn('bitfieldRotateRight', _p('v si'), S + U, grp='ext'), Fn('bitfieldRotateLeft', _p('v si'), S + U, grp='ext'),
    Fn('bitfieldFillOne', _p('v si si'), S + U, grp='ext'), Fn('bitfieldFillZero', _p('v si si'), S + U, grp='ext'),
    Fn('mask', _p('v'), S + U, grp='ext'),
]

BINOPS = [('+', 'add', F + S + U), ('-', 'sub', F + S + U), ('*', 'mul', F + S + U), ('/', 'div', F + S + U), ('%', 'rem', S + U),
          ('&', 'and', S + U), ('|', 'or', S + U), ('^', 'xor', S + U), ('<<', 'shl', S + U), ('>>', 'shr', S + U)]


def tclass(T):
    return {'f': F, 's': S, 'u': U, 'b': B}[G.SCALARS[T][2]]


def types_for(spec, tier):
    quick = ['float', 'double', 'int', 'uint']
    thorough = quick + ['int8', 'uint8', 'int16', 'uint16', 'int64', 'uint64']
    pool = quick if tier == 'quick' else thorough
    if spec in G.SCALARS:
        return [spec]
    out = [T for T in pool if tclass(T) in spec]
    if B in spec:
        out.append('bool')
    return out


def arg_type(tok, T, L, Q):
    """token -> (Ty, is_vector, is_out)"""
    out = tok.startswith('o')
    if out:
        tok = tok[1:]
    kind = tok[0]
    et = {'': T, 'b': 'bool', 'i': 'int', 'u': 'uint', 'f': 'float'}[tok[1:]]
    if kind == 'v':
        return G.vec(L, et, Q), True, out
    if kind == '1':
        return G.vec(1, et, Q), False, out
    return G.scalar(et), False, out


def ret_elem(ret, T):
    return {'T': T, 'b': 'bool', 'i': 'int', 'u': 'uint', 'f': 'float'}[ret]


NAMES = 'abcdefg'


def make_kernels(fn, pat, T, L, Q, cfg):
    """returns (vector kernel, scalar kernel, io description)"""
    toks = pat
    vparams, sparams, vargs, sargs = [], [], [], []
    io = []   # (name, Ty_vec, Ty_scalar, is_vector, is_out)
    spat = fn.scalar_pat.split() if fn.scalar_pat else None
    for n, tok in enumerate(toks):
        ty, isv, out = arg_type(tok, T, L, Q)
        sty = G.scalar(ty.T)
        nm = ('o%d' % (n + 2)) if out else NAMES[n]
        vparams.append(Par(nm, ty, not out))
        sparams.append(Par(nm, sty, not out))
        vargs.append('*' + nm)
        sargs.append('*' + nm)
        io.append((nm, ty, sty, isv or tok.startswith('ov'), out))
    tg = '%s_%s_%d%s%s' % (fn.name, ''.join(t[0] if not t.startswith('o') else 'o' for t in toks) + ''.join(t[1:] for t in toks if len(t) > 1 and not t.startswith('o')), L, G.scalar(T).tag, '' if Q == 'highp' else Q)
    tg = tg.replace('<', 'l').replace('>', 'g')
    if fn.ret == 'void':
        rv = rs = None
        vbody = '%s(%s);' % (fn.name, ', '.join(vargs))
        sbody = '%s(%s);' % (fn.name, ', '.join(sargs))
    else:
        re_ = ret_elem(fn.ret, T)
        rv, rs = G.vec(L, re_, Q), G.scalar(re_)
        vcall = fn.call.format(*vargs) if fn.call else '%s(%s)' % (fn.name, ', '.join(vargs))
        scall = fn.scalar.format(*sargs) if fn.scalar else '%s(%s)' % (fn.name, ', '.join(sargs))
        vbody = '*o = %s;' % vcall
        sbody = '*o = %s;' % scall
        vparams = [Par('o', rv, False)] + vparams
        sparams = [Par('o', rs, False)] + sparams
    kv = K('v_%s_%s' % (cfg.name, tg), vparams, vbody, cfg)
    ks = K('s_%s_%s_%s%s' % (cfg.name, fn.name + ('_' + ''.join(t[-1] for t in toks if len(t) > 1) if any(len(t) > 1 for t in toks) else '') + str(len(toks)),
                             G.scalar(T).tag, '' if Q == 'highp' else Q), sparams, sbody, cfg)
    return kv, ks, io, rv, rs


def lane_map(io, i):
    """substitution scalar-kernel input lane -> vector-kernel input lane i"""
    m = {}
    for nm, vty, sty, isv, out in io:
        if out:
            continue
        w = sty.elem * 8
        src = tm.inp(nm, 0, w)
        dst = tm.inp(nm, (i * vty.elem * 8) if isv else 0, w)
        if src is not dst:
            m[src] = dst
    return m


def compare(tv, ts, cls, isfloat, w):
    """(status, detail)"""
    if tv is ts:
        return R.PROVED, 'identical term'
    pc = P.PCtx()
    if isfloat:
        try:
            pv, ps = pc.fpoly(tv), pc.fpoly(ts)
        except (P.NonFinite, P.TooBig):
            pv = ps = None
        if pv is not None and pv == ps:
            if cls == 'comp':
                return R.PROVED, 'ring-equal normal forms (composite formula: association/fusion may differ)'
            wit = FC.differ(tv, ts)
            if wit:
                return R.REFUTED, 'same polynomial but different float results on %s: vector lane is %s, scalar overload is %s ; vector: %s ; scalar: %s' % (
                    wit[0], FC.name(wit[1]), FC.name(wit[2]), tm.show(tv, 5), tm.show(ts, 5))
            return R.UNDECIDED, 'ring-equal but not the same term: vector %s ; scalar %s' % (tm.show(tv, 5), tm.show(ts, 5))
        if pv is not None and L.lanes_only(pv - ps):
            return R.REFUTED, 'different polynomial: vector %s ; scalar %s' % (P.show_poly(pv), P.show_poly(ps))
        if O.in_fragment(tv) and O.in_fragment(ts):
            r = O.equivalent(tv, ts)
            if r is True:
                return R.PROVED, 'same selection in every weak ordering x NaN case of the operands (sign of a zero among equal operands not distinguished)'
            if r:
                return R.REFUTED, 'different selection in case [%s]: vector returns %s, scalar returns %s ; vector: %s ; scalar: %s' % (r[1], r[2], r[3], tm.show(tv, 6), tm.show(ts, 6))
        wit = FC.differ(tv, ts)
        if wit:
            return R.REFUTED, 'different float results on %s: vector lane is %s, scalar overload is %s ; vector: %s ; scalar: %s' % (
                wit[0], FC.name(wit[1]), FC.name(wit[2]), tm.show(tv, 6), tm.show(ts, 6))
        # an established difference at an explicit input: the two derived terms evaluated by the concrete term evaluator at float bit patterns (integers, ties,
        # signed zeros, large and small magnitudes).  Identical-result classes may not differ at all (NaN payloads aside); composite formulas only beyond rounding.
        fw = float_witness(tv, ts, w, cls)
        if fw:
            return R.REFUTED, 'vector lane and scalar overload return different values for %s: vector %s, scalar %s ; vector: %s ; scalar: %s' % (fw[0], fw[1], fw[2], tm.show(tv, 5), tm.show(ts, 5))
        return R.UNDECIDED, 'terms differ: vector %s ; scalar %s' % (tm.show(tv, 5), tm.show(ts, 5))
    # integer / bool results
    if w == 8 and _is_bool(tv) and _is_bool(ts):
        bv, bs = tm.slice_(tv, 0, 1), tm.slice_(ts, 0, 1)
        r = L.always(tm.xor(bv, bs), False)
        if r is True:
            return R.PROVED, 'same boolean function of the comparison atoms'
        if O.in_fragment(bv) and O.in_fragment(bs):
            r2 = O.equivalent(bv, bs, boolean=True)
            if r2 is True:
                return R.PROVED, 'same decision in every weak ordering x NaN case of the operands'
            if r2:
                return R.REFUTED, 'different decision in case [%s]: vector %s ; scalar %s' % (r2[1], tm.show(bv, 6), tm.show(bs, 6))
        wit = FC.differ(bv, bs, boolean=True)
        if wit:
            return R.REFUTED, 'different decision on %s: vector %s ; scalar %s' % (wit[0], tm.show(bv, 6), tm.show(bs, 6))
        if r is False and all(x.op in ('icmp',) for x in tm.walk(tm.xor(bv, bs)) if x.w == 1 and x.op in ('icmp', 'fcmp')):
            return R.UNDECIDED, 'boolean terms differ (integer compares are not independent atoms): %s vs %s' % (tm.show(bv, 5), tm.show(bs, 5))
        return R.UNDECIDED, 'boolean terms differ: %s vs %s' % (tm.show(bv, 5), tm.show(bs, 5))
    try:
        pv, ps = pc.ipoly(tv, w), pc.ipoly(ts, w)
    except (P.TooBig, ValueError):
        return R.UNDECIDED, 'no integer normal form'
    if pv == ps:
        return R.PROVED, 'same polynomial mod 2^%d' % w
    if L.lanes_only(pv - ps):
        return R.REFUTED, 'different integer polynomial: vector %s ; scalar %s' % (P.show_poly(pv), P.show_poly(ps))
    d = tm.diff(tv, ts)
    wit = L.pattern_witness(tv, ts)
    if wit:
        return R.REFUTED, 'vector lane and scalar overload differ for the input bit patterns %s: vector %#x, scalar %#x (terms differ at %s: vector %s ; scalar %s)' % (wit[0], wit[1], wit[2], d[0], tm.show(d[1], 3), tm.show(d[2], 3))
    return R.UNDECIDED, 'terms differ at %s: vector %s ; scalar %s' % (d[0], tm.show(d[1], 5), tm.show(d[2], 5))


_FW_VALUES = [1.0, -1.0, 3.0, -3.0, 2.0, 0.0, -0.0, 0.5, -0.5, 2.5, -2.5, 1.5, 0.25, 0.75, -0.75, 5.0, 4.0, 7.25, -7.25, 1e-3, 123.456, -100.0, 8388609.0, 1e10, 1e-20, 3.5]


def float_witness(tv, ts, w, cls):
    from laneflow import ceval as CE
    import itertools
    ins = sorted({x for t in (tv, ts) for x in tm.walk(t) if x.op == 'in'}, key=lambda q: q.id)
    if not ins or len(ins) > 3 or any(x.w != w for x in ins) or w not in (32, 64):
        return None
    vals = _FW_VALUES if len(ins) == 1 else _FW_VALUES[:14] if len(ins) == 2 else _FW_VALUES[:8]
    for combo in itertools.product(vals, repeat=len(ins)):
        env = {x: CE.f2b(w, v) for x, v in zip(ins, combo)}
        try:
            a, b = CE.evaluate(tv, env), CE.evaluate(ts, env)
        except CE.NoValue:
            continue
        if a == b:
            continue
        fa, fb = CE.b2f(w, a), CE.b2f(w, b)
        if fa != fa and fb != fb:
            continue
        if cls == 'comp':
            # composite formulas agree within rounding: only a gross difference counts
            if fa != fa or fb != fb or abs(fa - fb) <= 1e-3 * max(1.0, abs(fa), abs(fb)):
                continue
        return ', '.join('%s = %r' % (tm.show(x), v) for x, v in zip(ins, combo)), repr(fa), repr(fb)
    return None


def certain_dependence(t, foreign, ty):
    """is the dependence of t on one of the foreign lanes certain?  yes when t is a pure selection of it, a polynomial
    over input lanes with a non-zero monomial in it, or a comparison-only term whose value changes with it"""
    if t.op == 'in' or (t.op == 'slice' and t.args[0].op == 'in'):
        return True
    pc = P.PCtx()
    try:
        p = pc.fpoly(t) if ty.isfloat else pc.ipoly(t, ty.elem * 8)
    except Exception:
        return False
    if L.lanes_only(p):
        fl = {(n, o * 8) for n, o in foreign}
        for a in p.atoms():
            k = P.atom_key(a)
            if (k[1], k[2]) in fl:
                return True
    if O.in_fragment(t):
        # a comparison/selection term: it depends on a lane iff substituting another free lane changes it
        for n, o in foreign:
            src = tm.inp(n, o * 8, ty.elem * 8)
            if src in tm.walk(t):
                t2 = tm.substitute(t, {src: tm.inp('__fresh', 0, ty.elem * 8)})
                r = O.equivalent(t, t2)
                if r and r is not True:
                    return True
    return False


def _is_bool(t):
    return t.op == 'concat' and len(t.args) == 2 and t.args[0].w == 1 and t.args[1].op == 'const' and t.args[1].args[0] == 0 or (t.op == 'const' and t.args[0] in (0, 1))


def lift_case(name, kv, ks, io, rv, rs, cls, L_):
    def judge(ctx):
        res = []
        ev, es = ctx.compile_error(kv), ctx.compile_error(ks)
        if es:
            return [R.ob(name, 'engine', R.UNDECIDED, 'scalar oracle does not instantiate: ' + es)]
        if ev:
            return [R.ob(name, 'existence', R.REFUTED, 'declared vector overload cannot be instantiated although the scalar overload can: ' + ev, kernel=kv.source())]
        itv, its = ctx.fn(kv), ctx.fn(ks)
        outs = []
        if rv is not None:
            outs.append(('o', rv, rs))
        for nm, vty, sty, isv, out in io:
            if out:
                outs.append((nm, vty, sty))
        for oname, vty, sty in outs:
            for i in range(L_):
                oid = '%s.%s[%d]' % (name, oname, i)
                tv = I.out_lane(itv, oname, vty.lanes[i], vty.elem)
                ts0 = I.out_lane(its, oname, 0, sty.elem)
                ts = tm.substitute(ts0, lane_map(io, i))
                # D2/D3 agreement with the scalar overload
                st, detail = compare(tv, ts, cls, vty.isfloat, vty.elem * 8)
                # D1 lane discipline: syntactic dependence is an over-approximation (SWAR shifts on coerced integers),
                # so a foreign lane is only a violation when the dependence is certain
                allowed = set()
                for nm, avty, asty, isv, out in io:
                    if not out:
                        allowed.add((nm, avty.lanes[i] if isv else 0))
                foreign = L.deps(tv) - allowed
                if not foreign or st == R.PROVED:
                    res.append(R.ob(oid, 'lane_discipline', R.PROVED, 'depends only on lane %d / scalar operands' % i))
                elif certain_dependence(tv, foreign, vty):
                    res.append(R.ob(oid, 'lane_discipline', R.REFUTED, 'output lane %d depends on foreign input lanes %s: %s' % (i, sorted(foreign), tm.show(tv, 5)),
                                    where=R.where_of(itv, tv), kernel=kv.source()))
                else:
                    res.append(R.ob(oid, 'lane_discipline', R.UNDECIDED, 'syntactic dependence on %s not established as real: %s' % (sorted(foreign), tm.show(tv, 4))))
                res.append(R.ob(oid, 'scalar_agreement' if cls == 'id' else 'scalar_agreement_composite', st, detail,
                                where=R.where_of(itv, tv) if st != R.PROVED else None, kernel=kv.source() + '\n' + ks.source()))
        return res
    return R.Case(name, [kv, ks], judge)


def op_cases(T, L_, Q, tier):
    """operators: vec op vec / vec op scalar / scalar op vec / vec op vec1 / vec1 op vec, compound forms, unary, ++/--"""
    cs = []
    cfg = CFGS['core']
    sc = G.scalar(T)
    vt, v1 = G.vec(L_, T, Q), G.vec(1, T, Q)
    tc = tclass(T)
    tg = '%d%s%s' % (L_, sc.tag, '' if Q == 'highp' else Q)
    cast = '(%s)' % sc.cpp
    for sym, nm, types in BINOPS:
        if tc not in types:
            continue
        ks = K('s_core_op%s_%s%s' % (nm, sc.tag, '' if Q == 'highp' else Q), [Par('o', sc, False), Par('a', sc), Par('b', sc)], '*o = %s(*a %s *b);' % (cast, sym), cfg)
        forms = [('vv', vt, vt, True, True), ('vs', vt, sc, True, False), ('sv', sc, vt, False, True)]
        if L_ > 1:
            forms += [('v1', vt, v1, True, False), ('1v', v1, vt, False, True)]
        for fnm, ta, tb, va, vb in forms:
            io = [('a', ta, sc, va, False), ('b', tb, sc, vb, False)]
            kv = K('v_core_op%s_%s_%s' % (nm, fnm, tg), [Par('o', vt, False), Par('a', ta), Par('b', tb)], '*o = *a %s *b;' % sym, cfg)
            cs.append(lift_case('operator%s(%s)<%s>' % (sym, fnm, tg), kv, ks, io, vt, sc, 'id', L_))
            if va:
                kv = K('v_core_cop%s_%s_%s' % (nm, fnm, tg), [Par('o', vt, False), Par('a', ta), Par('b', tb)], '*o = *a; *o %s= *b;' % sym, cfg)
                cs.append(lift_case('operator%s=(%s)<%s>' % (sym, fnm, tg), kv, ks, io, vt, sc, 'id', L_))
    un = [('+', 'pos', F + S + U), ('-', 'neg', F + S + U), ('~', 'not', S + U)]
    for sym, nm, types in un:
        if tc not in types:
            continue
        ks = K('s_core_un%s_%s%s' % (nm, sc.tag, '' if Q == 'highp' else Q), [Par('o', sc, False), Par('a', sc)], '*o = %s(%s*a);' % (cast, sym), cfg)
        kv = K('v_core_un%s_%s' % (nm, tg), [Par('o', vt, False), Par('a', vt)], '*o = %s*a;' % sym, cfg)
        cs.append(lift_case('operator%s(unary)<%s>' % (sym, tg), kv, ks, [('a', vt, sc, True, False)], vt, sc, 'id', L_))
    if tc != B:
        for nm, vb, sb in (('preinc', '*o = *a; ++*o;', '*o = *a; ++*o;'), ('predec', '*o = *a; --*o;', '*o = *a; --*o;'),
                           ('postinc', '*o = *a; (*o)++;', '*o = *a; (*o)++;'), ('postdec', '*o = *a; (*o)--;', '*o = *a; (*o)--;')):
            ks = K('s_core_%s_%s%s' % (nm, sc.tag, '' if Q == 'highp' else Q), [Par('o', sc, False), Par('a', sc)], sb, cfg)
            kv = K('v_core_%s_%s' % (nm, tg), [Par('o', vt, False), Par('a', vt)], vb, cfg)
            cs.append(lift_case('operator %s<%s>' % (nm, tg), kv, ks, [('a', vt, sc, True, False)], vt, sc, 'id', L_))
    return cs


def bool_op_cases(L_, Q):
    cs = []
    cfg = CFGS['core']
    sc = G.scalar('bool')
    vt = G.vec(L_, 'bool', Q)
    for sym, nm in (('&&', 'land'), ('||', 'lor')):
        ks = K('s_core_op%s_b' % nm, [Par('o', sc, False), Par('a', sc), Par('b', sc)], '*o = (*a %s *b);' % sym, cfg)
        kv = K('v_core_op%s_%db' % (nm, L_), [Par('o', vt, False), Par('a', vt), Par('b', vt)], '*o = *a %s *b;' % sym, cfg)
        cs.append(lift_case('operator%s<%db>' % (sym, L_), kv, ks, [('a', vt, sc, True, False), ('b', vt, sc, True, False)], vt, sc, 'id', L_))
    return cs


def reduction_cases(L_, T, Q):
    """operator== / != of vectors, any / all: the conjunction / disjunction of the per-lane results"""
    cs = []
    cfg = CFGS['core']
    vt = G.vec(L_, T, Q)
    bo = G.scalar('bool')
    fl = vt.isfloat
    tg = '%d%s' % (L_, G.scalar(T).tag)

    def lits(neg):
        if T == 'bool':
            # bool lanes are bytes holding 0/1: the compare is on the bytes
            return [tm.icmp('ne' if neg else 'eq', L.in_term('a', vt, i), L.in_term('b', vt, i)) for i in range(L_)]
        if fl:
            return [tm.fcmp('une' if neg else 'oeq', L.in_term('a', vt, i), L.in_term('b', vt, i)) for i in range(L_)]
        return [tm.icmp('ne' if neg else 'eq', L.in_term('a', vt, i), L.in_term('b', vt, i)) for i in range(L_)]
    for nm, body, neg in (('eq', '*o = (*a == *b);', False), ('ne', '*o = (*a != *b);', True)):
        k = K('v_core_%s_%s' % (nm, tg), [Par('o', bo, False), Par('a', vt), Par('b', vt)], body, cfg)

        def judge(ctx, k=k, neg=neg, nm=nm):
            name = 'operator%s(vec)<%s>' % ('!=' if neg else '==', tg)
            err = ctx.compile_error(k)
            if err:
                return [R.ob(name, 'existence', R.REFUTED, 'cannot be instantiated: ' + err, kernel=k.source())]
            it = ctx.fn(k)
            t = tm.slice_(ctx.out(k, 0, 1), 0, 1)
            ls = lits(neg)
            f = tm.not_(t) if neg else t
            r = L.is_conjunction(f, [tm.not_(x) for x in ls] if neg else ls)
            st = R.PROVED if r is True else R.REFUTED if r is False else R.UNDECIDED
            return [R.ob(name, 'reduction', st, ('%s of the %d per-lane compares' % ('disjunction' if neg else 'conjunction', L_)) if r is True else tm.show(t, 8),
                         where=R.where_of(it, t) if r is not True else None, kernel=k.source())]
        cs.append(R.Case('operator%s(vec)<%s>' % ('!=' if neg else '==', tg), [k], judge))
    return cs


def anyall_cases(L_, Q):
    cs = []
    cfg = CFGS['core']
    vt = G.vec(L_, 'bool', Q)
    bo = G.scalar('bool')
    for nm, conj in (('all', True), ('any', False)):
        k = K('v_core_%s_%db' % (nm, L_), [Par('o', bo, False), Par('a', vt)], '*o = %s(*a);' % nm, cfg)

        def judge(ctx, k=k, conj=conj, nm=nm):
            name = '%s(bvec%d)' % (nm, L_)
            it = ctx.fn(k)
            t = tm.slice_(ctx.out(k, 0, 1), 0, 1)
            # a bool lane is "true" iff its byte is non-zero; clang loads bools as i8 and tests bit 0 / != 0
            sub = {}
            lits = []
            for i in range(L_):
                a = L.in_term('a', vt, i)
                b = tm.mk('boolatom', (i,), 1)
                sub[tm.icmp('ne', a, tm.zeros(8))] = b
                sub[tm.icmp('eq', a, tm.zeros(8))] = tm.not_(b)
                sub[tm.slice_(a, 0, 1)] = b
                lits.append(b)
            t2 = tm.substitute(t, sub)
            f = t2 if conj else tm.not_(t2)
            ls = lits if conj else [tm.not_(x) for x in lits]
            r = _conj_atoms(f, ls)
            st = R.PROVED if r is True else R.REFUTED if r is False else R.UNDECIDED
            return [R.ob(name, 'reduction', st, ('%s of the %d lanes' % ('conjunction' if conj else 'disjunction', L_)) if r is True else tm.show(t, 8), kernel=k.source())]
        cs.append(R.Case('%s(bvec%d)' % (nm, L_), [k], judge))
    return cs


def _conj_atoms(f, lits):
    """like rulelib.is_conjunction but for opaque 1-bit atoms"""
    def assign(t, lit, val):
        neg = lit.op == 'not'
        atom = lit.args[0] if neg else lit
        v = val != neg
        return tm.substitute(t, {atom: tm.TRUE if v else tm.FALSE})
    u = f
    for l in lits:
        u = assign(u, l, True)
    if u is not tm.TRUE:
        return False if u is tm.FALSE else None
    for l in lits:
        u = assign(f, l, False)
        # remaining atoms free: must be FALSE for all valuations
        stack = [u]
        n = 0
        while stack:
            x = stack.pop()
            n += 1
            if n > 512:
                return None
            if x.op == 'const':
                if x.args[0]:
                    return False
                continue
            a = next((y for y in tm.walk(x) if y.op == 'boolatom'), None)
            if a is None:
                return None
            stack.append(tm.substitute(x, {a: tm.TRUE}))
            stack.append(tm.substitute(x, {a: tm.FALSE}))
    return True


def matrix_cases(tier):
    """matrix abs / mix / equal act per element (glm/ext/matrix_common, matrix_relational)"""
    cs = []
    cfg = CFGS['ext']
    shapes = [(2, 2), (3, 3), (4, 4), (2, 3), (3, 2), (4, 3), (3, 4), (2, 4), (4, 2)]
    for T in (('float',) if tier == 'quick' else ('float', 'double')):
        sc = G.scalar(T)
        for C, Rr in shapes:
            mt = G.mat(C, Rr, T)
            tg = mt.tag
            specs = [
                ('abs', [('a', mt)], '*o = abs(*a);', 'abs(*a)', 1, 'id'),
                ('mix', [('a', mt), ('b', mt), ('c', mt)], '*o = mix(*a, *b, *c);', 'mix(*a, *b, *c)', 3, 'comp'),
                ('mix_s', [('a', mt), ('b', mt), ('c', sc)], '*o = mix(*a, *b, *c);', 'mix(*a, *b, *c)', 3, 'comp'),
            ]
            for nm, args, vbody, scall, n, cls in specs:
                kv = K('v_ext_m%s_%s' % (nm, tg), [Par('o', mt, False)] + [Par(a, t) for a, t in args], vbody, cfg)
                ks = K('s_ext_m%s_%s' % (nm.split('_')[0], sc.tag), [Par('o', sc, False)] + [Par(a, sc) for a, t in args], '*o = %s;' % scall, cfg)
                cs.append(mat_lift_case('%s(mat%dx%d<%s>)' % (nm, C, Rr, sc.tag), kv, ks, args, mt, sc, cls))
    return cs


def mat_lift_case(name, kv, ks, args, mt, sc, cls):
    def judge(ctx):
        ev = ctx.compile_error(kv)
        if ev:
            return [R.ob(name, 'existence', R.REFUTED, 'declared matrix overload cannot be instantiated: ' + ev, kernel=kv.source())]
        itv, its = ctx.fn(kv), ctx.fn(ks)
        res = []
        ts0 = I.out_lane(its, 'o', 0, sc.elem)
        for lane, off in sorted(mt.lanes.items()):
            oid = '%s[%d,%d]' % (name, lane[0], lane[1])
            tv = I.out_lane(itv, 'o', off, mt.elem)
            m = {}
            allowed = set()
            for a, t in args:
                o = t.lanes[lane] if t.kind == 'mat' else 0
                allowed.add((a, o))
                if o:
                    m[tm.inp(a, 0, sc.elem * 8)] = tm.inp(a, o * 8, sc.elem * 8)
            ts = tm.substitute(ts0, m)
            foreign = L.deps(tv) - allowed
            if foreign:
                res.append(R.ob(oid, 'lane_discipline', R.REFUTED, 'element depends on foreign lanes %s' % sorted(foreign), where=R.where_of(itv, tv), kernel=kv.source()))
                continue
            st, detail = compare(tv, ts, cls, True, sc.elem * 8)
            res.append(R.ob(oid, 'matrix_per_element', st, detail, where=R.where_of(itv, tv) if st != R.PROVED else None, kernel=kv.source()))
        return res
    return R.Case(name, [kv, ks], judge)


# documented exception of the property: lowp inversesqrt is a deliberate fast approximation
ALLOW = {('inversesqrt', 'lowp'): 'property C01: "on lowp-qualified types only, within the accuracy of GLM\'s deliberate fast approximations (inversesqrt)"'}


def cases(tier):
    cs = []
    quals = ['highp'] if tier == 'quick' else ['highp', 'mediump', 'lowp']
    lengths = (1, 2, 3, 4)
    seen = set()
    for fn in FUNCS:
        cfg = CFGS[fn.grp]
        if fn.name in LOOPY:
            # functions with a data-dependent loop: a fixed number of iterations is peeled and the residual back edge cut in both the vector and the
            # scalar kernel; the lane terms (and the exceed conditions, folded into the lane term by the interpreter's select chains) are compared as usual.
            # Both kernels inline the same scalar code, so equal peeled terms mean the same function of the lane's own operands
            cfg = Cfg(cfg.name + '_peel', defines=cfg.defines, flags=cfg.flags, headers=cfg.headers, peel=8)
        for T in types_for(fn.types, tier):
            for Q in quals:
                if Q != 'highp' and T not in ('float', 'int'):
                    continue
                for pat in fn.pats:
                    for L_ in lengths:
                        if (fn.name, Q) in ALLOW and T == 'float':
                            continue
                        kv, ks, io, rv, rs = make_kernels(fn, pat, T, L_, Q, cfg)
                        if kv.name in seen:
                            continue
                        seen.add(kv.name)
                        name = '%s(%s)<%d,%s,%s>' % (fn.name, ' '.join(pat), L_, T, Q) + ('' if fn.grp == 'core' else '@' + fn.grp)
                        cs.append(lift_case(name, kv, ks, io, rv, rs, fn.cls, L_))
    optypes = ['float', 'int', 'uint', 'double'] if tier == 'quick' else ['float', 'double', 'int', 'uint', 'int8', 'uint8', 'int16', 'uint16', 'int64', 'uint64']
    for T in optypes:
        for Q in quals:
            if Q != 'highp' and T not in ('float', 'int'):
                continue
            for L_ in lengths:
                cs += op_cases(T, L_, Q, tier)
                if Q == 'highp':
                    cs += reduction_cases(L_, T, Q)
    for L_ in lengths:
        cs += bool_op_cases(L_, 'highp')
        cs += anyall_cases(L_, 'highp')
    cs += matrix_cases(tier)
    cs += lowp_inversesqrt_cases()
    import sys
    from rules import c01_cw
    cs += c01_cw.cases(tier, sys.modules[__name__])
    cs += canaries()
    return cs


def lowp_inversesqrt_cases():
    """the property's accuracy clause for the one deliberate approximation: inversesqrt on lowp float vectors has relative error below 2^-8 (rules/c01_isqrt.py)"""
    from rules import c01_isqrt as Q
    cs = []
    for L_ in (1, 2, 3, 4):
        vt = G.vec(L_, 'float', 'lowp')
        k = K('v_core_isqrt_lowp_%d' % L_, [Par('o', vt, False), Par('a', vt)], '*o = inversesqrt(*a);', CFGS['core'])
        name = 'inversesqrt(v)<%d,float,lowp>' % L_

        def judge(ctx, k=k, vt=vt, name=name):
            err = ctx.compile_error(k)
            if err:
                return [R.ob(name, 'existence', R.REFUTED, 'cannot be instantiated: ' + err, kernel=k.source())]
            it = ctx.fn(k)
            res = []
            for lane, t in sorted(L.out_lanes(ctx, k, vt).items()):
                st, detail = Q.analyse(t, L.in_term('a', vt, lane))
                res.append(R.ob('%s.o[%s]' % (name, lane), 'lowp_accuracy', st, detail, where=R.where_of(it, t) if st == R.REFUTED else None, kernel=k.source()))
            return res
        cs.append(R.Case(name, [k], judge))
    return cs


def canaries():
    cfg = CFGS['core']
    vt, sc = G.vec(3, 'float'), G.scalar('float')
    pre = 'static glm::vec3 verif_bad_min(glm::vec3 const& a, glm::vec3 const& b){ return glm::vec3(glm::min(a.x,b.x), glm::min(a.y,b.x), glm::min(a.z,b.z)); }'
    kv = K('v_core_canary_min', [Par('o', vt, False), Par('a', vt), Par('b', vt)], '*o = verif_bad_min(*a, *b);', cfg, pre=pre)
    ks = K('s_core_min2_f', [Par('o', sc, False), Par('a', sc), Par('b', sc)], '*o = min(*a, *b);', cfg)
    c = lift_case('canary:wrong-lane-in-min', kv, ks, [('a', vt, sc, True, False), ('b', vt, sc, True, False)], vt, sc, 'id', 3)
    c.canary = True
    j = c.judge
    c.judge = lambda ctx: [r for r in j(ctx) if r['id'].endswith('o[1]') and r['rule'] == 'lane_discipline']
    pre2 = 'static glm::vec2 verif_bad_step(glm::vec2 const& e, glm::vec2 const& x){ return glm::vec2(x.x < e.x ? 0.f : 1.f, x.y <= e.y ? 0.f : 1.f); }'
    v2 = G.vec(2, 'float')
    kv2 = K('v_core_canary_step', [Par('o', v2, False), Par('a', v2), Par('b', v2)], '*o = verif_bad_step(*a, *b);', cfg, pre=pre2)
    ks2 = K('s_core_step2_f', [Par('o', sc, False), Par('a', sc), Par('b', sc)], '*o = step(*a, *b);', cfg)
    c2 = lift_case('canary:flipped-compare-in-step', kv2, ks2, [('a', v2, sc, True, False), ('b', v2, sc, True, False)], v2, sc, 'id', 2)
    c2.canary = True
    j2 = c2.judge
    c2.judge = lambda ctx: [r for r in j2(ctx) if r['id'].endswith('o[1]') and r['rule'].startswith('scalar_agreement')]
    return [c, c2]


EXPLANATION = ('static: for every component-wise function and operator (core + ext/gtc twins + matrix abs/mix) the vector call and the all-scalar call are instantiated '
               'from /repo for lengths 1-4 and each element type; each output lane term of the vector kernel is compared with the scalar kernel\'s term after renaming inputs '
               'to that lane: dependence sets (lane discipline), term identity / integer polynomial identity / boolean-function equivalence (identical class), '
               'ring equality (composite formulas); float-class abstract evaluation supplies witnesses for sign-of-zero/NaN differences')
ASSUMPTIONS = ['the scalar overload (or built-in C++ operator on T) is the oracle: a defect shared by scalar and vector code is out of scope here (C11 covers definitions)',
               'numeric error bounds of composite formulas are not decided; lowp inversesqrt is excluded from the scalar-agreement rule (the property grants it an approximation) and its 2^-8 accuracy clause is decided by interval analysis of the derived lane term over [1, 4) plus the exact 4^k scaling of the bit trick (rules/c01_isqrt.py)',
               'clang 14 -O2 pipeline without fast-math preserves values']
TRUSTED = ['clang/LLVM 14', 'tools/irtool.cc', 'laneflow term normaliser, polynomial and float-class domains']
LEVEL = 'other'
