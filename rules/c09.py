"""C09 — translate / rotate / scale / shear / lookAt build the transforms they name.

  elementary   translate(M,v), rotate(M,a,axis), scale(M,s), shear(M,p,lx,ly,lz) and their *_slow reference forms: every result lane is
               ring-equal to the lane of M * E with E the elementary matrix written down from its textbook definition (translation,
               Rodrigues rotation about the normalised axis with cos/sin kept as atoms, diagonal scale, the shear matrix of the manual)
  helpers      gtx/transform (translate/rotate/scale without a base matrix), gtx/rotate_normalized_axis, gtx/matrix_transform_2d
               (translate/rotate/scale/shearX/shearY on mat3), gtx/transform2 (shear*2D/3D, reflect, proj, scaleBias), gtx/rotate_vector
               (rotate, rotateX/Y/Z), gtx/matrix_interpolation (axisAngleMatrix, extractMatrixRotation): same comparison
  look_at      lookAtRH / lookAtLH: lanes equal the rows (s, u, -+f | -s.eye, -u.eye, +-f.eye) of the textbook construction, and the
               derived identities are checked on the kernel's own lanes: L*(eye,1) = (0,0,0,1), the view direction d = center - eye
               has no x / y component (s.d = u.d = 0), its z component is -|d|^2/|d| (RH) / +|d|^2/|d| (LH), and up's y component is
               |d x up|^2 times positive factors
  recompose    gtx/matrix_decompose recompose() == perspective row * translate * mat4_cast(orientation) * skew shears * scale, lane by lane against
               the composition of GLM's own factors (the |skew| > 0 guards are decided over the order relations; NaN skews excluded), in the
               scalar type of the arguments
  decompose    decompose() applied to the composition P * T * R(q) * Kx * Ky * Kz * S of symbolic components (unit q, positive scales, M[3][3] == 1):
               the decision tree of its guards and of the trace / largest-diagonal quaternion extraction is explored path by path, every
               intermediate polynomial reduced modulo |q| = 1 (sqrt of perfect squares -> |.|, signs of the scales fixed): on every path that
               returns true the scale, skew, translation and perspective come back exactly and the orientation is parallel to q with unit norm
               (q or -q); perspective may only be dropped when all three bottom-row entries are below epsilon.  A mismatch is REFUTED with an
               explicit rational input that takes the path.  Together with `recompose` this is the statement's round-trip clause.
"""
from fractions import Fraction
from laneflow import term as tm
from laneflow import poly as P
from laneflow import gtypes as G
from laneflow import runner as R
from laneflow import rulelib as L
from laneflow import spec as S
from laneflow import interp as I
from laneflow.build import K, P as Par, Cfg
from laneflow.poly import Poly

HDR = ('glm/glm.hpp', 'glm/ext/matrix_transform.hpp', 'glm/gtx/transform.hpp', 'glm/gtx/transform2.hpp', 'glm/gtx/rotate_vector.hpp',
       'glm/gtx/rotate_normalized_axis.hpp', 'glm/gtx/matrix_transform_2d.hpp', 'glm/gtx/matrix_interpolation.hpp', 'glm/gtx/matrix_decompose.hpp',
       'glm/gtc/quaternion.hpp')
CFG = Cfg('xform', headers=HDR, defines=('GLM_ENABLE_EXPERIMENTAL',))


# ---- matrices of E expressions, column-major: M[c][r] ----------------------------------------------------------------

def matE(name, mt):
    cols, rows = mt.shape
    return [[S.lane(name, mt, (c, r)) for r in range(rows)] for c in range(cols)]


def ident(n, w):
    return [[S.const(w, 1.0 if c == r else 0.0) for r in range(n)] for c in range(n)]


def mmul(A, B):
    """A * B  (both column-major lists of columns)"""
    n, rows = len(A), len(A[0])
    out = []
    for c in range(len(B)):
        col = []
        for r in range(rows):
            s = A[0][r] * B[c][0]
            for k in range(1, n):
                s = s + A[k][r] * B[c][k]
            col.append(s)
        out.append(col)
    return out


def mvec(A, v):
    rows = len(A[0])
    out = []
    for r in range(rows):
        s = A[0][r] * v[0]
        for k in range(1, len(A)):
            s = s + A[k][r] * v[k]
        out.append(s)
    return out


def lanes_of(M):
    return {(c, r): M[c][r] for c in range(len(M)) for r in range(len(M[0]))}


def rodrigues(w, cs, sn, n, dim=4):
    """c*I + (1-c) n n^T + s [n]x   embedded in a dim x dim identity"""
    one = S.const(w, 1.0)
    K_ = [[None, -n[2], n[1]], [n[2], None, -n[0]], [-n[1], n[0], None]]      # K_[row][col]
    E = ident(dim, w)
    for c in range(3):
        for r in range(3):
            e = (one - cs) * n[r] * n[c]
            if r == c:
                e = e + cs
            else:
                e = e + sn * K_[r][c]
            E[c][r] = e
    return E


def trig(a):
    return S.fn('cos', a), S.fn('sin', a)


def sincos_axiom(p):
    """sin^2 -> 1 - cos^2 for every argument (canonical representative modulo the Pythagorean identity)"""
    for a in list(p.atoms()):
        k = P.atom_key(a)
        if k[0] == 'fn:sin':
            c = Poly.atom(('fn:cos',) + k[1:])
            p = P.reduce_ideal(p, a, Poly.const(1) - c * c, deg=2)
    return p


def spec_case(name, rule, k, outty, specfn, axioms=()):
    def judge(ctx):
        err = ctx.compile_error(k)
        if err:
            return [R.ob(name, 'existence', R.REFUTED, 'cannot be instantiated: ' + err, kernel=k.source())]
        it = ctx.fn(k)
        lanes = L.out_lanes(ctx, k, outty)
        sp = specfn()
        res = []
        pc = P.PCtx()
        for lane, t in sorted(lanes.items(), key=lambda x: str(x[0])):
            oid = '%s[%s]' % (name, lane)
            st, detail = S.compare(t, sp[lane].t, pc=pc, axioms=axioms)
            if st == R.REFUTED:
                # a refutation needs the difference to be a non-zero function: transparent atoms only, checked again modulo sin^2 + cos^2 = 1
                d = sincos_axiom(P.reduce_inv(pc.fpoly(t) - pc.fpoly(sp[lane].t)))
                if d.is_zero():
                    st, detail = R.PROVED, 'equal to the definition modulo sin^2 + cos^2 = 1'
            if st == R.UNDECIDED:
                # an explicit rational input (angles as rational points of the unit circle) at which the two normal forms evaluate to different numbers
                try:
                    d = P.reduce_inv(pc.fpoly(t) - pc.fpoly(sp[lane].t))
                    env = P.find_witness('gt', Poly.const(1), [d]) if P.transparent(d) else None
                except (P.NonFinite, P.TooBig, P.CantEval):
                    env = None
                if env is not None:
                    for a_ in P.lane_atoms([pc.fpoly(t), pc.fpoly(sp[lane].t)]):
                        env.setdefault(a_, Fraction(1))
                    try:
                        st, detail = R.REFUTED, 'differs from the definition at %s: got %s, definition %s' % (P.show_env(env), P.eval_poly(pc.fpoly(t), env), P.eval_poly(pc.fpoly(sp[lane].t), env))
                    except P.CantEval:
                        st, detail = R.REFUTED, 'differs from the definition at %s (difference %s)' % (P.show_env(env), P.eval_poly(d, env))
            if st != R.PROVED and any(x.op == 'in' and x.args[0] == 'o' for x in tm.walk(t)):
                detail += '  [o[..] is the previous content of the result object: the lane is never written]'
            res.append(R.ob(oid, rule, st, detail, where=R.where_of(it, t) if st != R.PROVED else None, kernel=k.source()))
        return res
    return R.Case(name, [k], judge)


def type_cases(T, Q, tier):
    cs = []
    sc = G.scalar(T)
    w = sc.elem * 8
    tg = sc.tag + ('' if Q == 'highp' else '_' + Q)
    m4, m3, v2, v3, v4 = G.mat(4, 4, T, Q), G.mat(3, 3, T, Q), G.vec(2, T, Q), G.vec(3, T, Q), G.vec(4, T, Q)
    c = lambda x: S.const(w, x)
    one, zero = c(1.0), c(0.0)
    Mm = lambda: matE('m', m4)
    V = lambda nm, vt=v3: S.vecE(nm, vt)
    A = lambda nm='a': S.lane(nm, sc, 0)
    pM, pV, pA = Par('m', m4), Par('v', v3), Par('a', sc)

    def add(name, rule, params, body, outty, specfn, axioms=()):
        k = K('%s_%s' % (''.join(ch if ch.isalnum() else '_' for ch in name), tg), [Par('o', outty, False)] + params, body, CFG)
        cs.append(spec_case('%s<%s>' % (name, tg), rule, k, outty, specfn, axioms))

    # ---- elementary -----------------------------------------------------------------------------------------------------
    def T_(v):
        E = ident(4, w)
        E[3] = [v[0], v[1], v[2], one]
        return E

    def Sc(v):
        E = ident(4, w)
        for i in range(3):
            E[i][i] = v[i]
        return E

    def Rot(a, axis, normalise=True):
        cs_, sn = trig(a)
        return rodrigues(w, cs_, sn, S.normalize(axis) if normalise else axis)

    def Shear(p, lx, ly, lz):
        # manual (ext/matrix_transform.hpp):  rows  [1, l_xy, l_xz, -(l_xy+l_xz) p_x] [l_yx, 1, l_yz, -(l_yx+l_yz) p_y] [l_zx, l_zy, 1, -(l_zx+l_zy) p_z] [0 0 0 1]
        # with l_x = (l_xy, l_xz), l_y = (l_yx, l_yz), l_z = (l_zx, l_zy)
        rows = [[one, lx[0], lx[1], -(lx[0] + lx[1]) * p[0]],
                [ly[0], one, ly[1], -(ly[0] + ly[1]) * p[1]],
                [lz[0], lz[1], one, -(lz[0] + lz[1]) * p[2]],
                [zero, zero, zero, one]]
        return [[rows[r][c_] for r in range(4)] for c_ in range(4)]

    for fn_ in ('translate',):
        add('%s(M,v)' % fn_, 'elementary', [pM, pV], '*o = %s(*m, *v);' % fn_, m4, lambda: lanes_of(mmul(Mm(), T_(V('v')))))
    for fn_ in ('scale', 'scale_slow'):
        add('%s(M,v)' % fn_, 'elementary', [pM, pV], '*o = %s(*m, *v);' % fn_, m4, lambda: lanes_of(mmul(Mm(), Sc(V('v')))))
    for fn_ in ('rotate', 'rotate_slow'):
        add('%s(M,a,axis)' % fn_, 'elementary', [pM, pA, pV], '*o = %s(*m, *a, *v);' % fn_, m4, lambda: lanes_of(mmul(Mm(), Rot(A(), V('v')))))
    shp = [pM, Par('p', v3), Par('x', v2), Par('y', v2), Par('z', v2)]
    for fn_ in ('shear', 'shear_slow'):
        add('%s(M,p,lx,ly,lz)' % fn_, 'elementary', shp, '*o = %s(*m, *p, *x, *y, *z);' % fn_, m4,
            lambda: lanes_of(mmul(Mm(), Shear(V('p'), V('x', v2), V('y', v2), V('z', v2)))))

    # ---- gtx/transform ------------------------------------------------------------------------------------------------------
    add('gtx translate(v)', 'helpers', [pV], '*o = translate(*v);', m4, lambda: lanes_of(T_(V('v'))))
    add('gtx scale(v)', 'helpers', [pV], '*o = scale(*v);', m4, lambda: lanes_of(Sc(V('v'))))
    add('gtx rotate(a,axis)', 'helpers', [pA, pV], '*o = rotate(*a, *v);', m4, lambda: lanes_of(Rot(A(), V('v'))))
    add('rotateNormalizedAxis(M,a,axis)', 'helpers', [pM, pA, pV], '*o = rotateNormalizedAxis(*m, *a, *v);', m4,
        lambda: lanes_of(mmul(Mm(), Rot(A(), V('v'), normalise=False))))
    add('axisAngleMatrix(axis,a)', 'helpers', [pV, pA], '*o = axisAngleMatrix(*v, *a);', m4, lambda: lanes_of(Rot(A(), V('v'))))

    # gtx/rotate_vector: slerp of two vectors and the orientation matrix
    def vslerp():
        x, y, a = V('x'), V('y'), A()
        alpha = S.fn('acos', S.dot(x, y))
        sa = S.fn('sin', alpha)
        t1 = S.fn('sin', (1 - a) * alpha) / sa
        t2 = S.fn('sin', a * alpha) / sa
        return {i: x[i] * t1 + y[i] * t2 for i in range(3)}
    add('slerp(vec3,vec3,a)', 'helpers', [Par('x', v3), Par('y', v3), pA], '*o = slerp(*x, *y, *a);', v3, vslerp)
    ko = K('orientation_%s' % tg, [Par('o', m4, False), Par('n', v3), Par('u', v3)], '*o = orientation(*n, *u);', CFG)
    kor = K('orientation_ref_%s' % tg, [Par('o', m4, False), Par('n', v3), Par('u', v3)],
            '*o = all(equal(*n, *u, epsilon<%s>())) ? %s(%s(1)) : rotate(acos(dot(*n, *u)), cross(*u, *n));' % (sc.cpp, m4.cpp, sc.cpp), CFG)

    def jor(ctx):
        name = 'orientation(n,up)<%s>' % tg
        for kk in (ko, kor):
            err = ctx.compile_error(kk)
            if err:
                return [R.ob(name, 'existence', R.REFUTED, 'cannot be instantiated: ' + err, kernel=kk.source())]
        a, b = L.out_lanes(ctx, ko, m4), L.out_lanes(ctx, kor, m4)
        pc = P.PCtx()
        res = []
        for lane in sorted(a):
            st, detail = S.compare(a[lane], b[lane], pc=pc, nan=False)
            res.append(R.ob('%s[%s]' % (name, lane), 'helpers', st, 'identity when n == up (within epsilon), otherwise rotate(acos(n . up), up x n): ' + detail if st == R.PROVED else detail.replace('the definition', 'rotate(acos(n . up), up x n)'),
                            where=R.where_of(ctx.fn(ko), a[lane]) if st != R.PROVED else None, kernel=ko.source() + '\n' + kor.source()))
        return res
    cs.append(R.Case('orientation(n,up)<%s>' % tg, [ko, kor], jor))

    def extract_rot():
        M = Mm()
        E = ident(4, w)
        for c_ in range(3):
            for r in range(3):
                E[c_][r] = M[c_][r]
        return lanes_of(E)
    add('extractMatrixRotation(M)', 'helpers', [pM], '*o = extractMatrixRotation(*m);', m4, extract_rot)

    # ---- gtx/matrix_transform_2d -----------------------------------------------------------------------------------------------------
    pM3, pV2 = Par('m', m3), Par('v', v2)
    M3 = lambda: matE('m', m3)

    def E3(entries):
        E = ident(3, w)
        for (c_, r), e in entries.items():
            E[c_][r] = e
        return E
    add('2d translate(M3,v)', 'helpers', [pM3, pV2], '*o = translate(*m, *v);', m3, lambda: lanes_of(mmul(M3(), E3({(2, 0): V('v', v2)[0], (2, 1): V('v', v2)[1]}))))
    add('2d scale(M3,v)', 'helpers', [pM3, pV2], '*o = scale(*m, *v);', m3, lambda: lanes_of(mmul(M3(), E3({(0, 0): V('v', v2)[0], (1, 1): V('v', v2)[1]}))))

    def rot2():
        cs_, sn = trig(A())
        return lanes_of(mmul(M3(), E3({(0, 0): cs_, (0, 1): sn, (1, 0): -sn, (1, 1): cs_})))
    add('2d rotate(M3,a)', 'helpers', [pM3, pA], '*o = rotate(*m, *a);', m3, rot2)
    # shearX / shearY of matrix_transform_2d: the manual names them "horizontal (parallel to the x axis)" / "vertical" shears without writing the
    # matrix down, and the sibling shearX2D of gtx/transform2 uses the transposed slot.  Decided convention-independently: each is M * (I + k e_ab)
    # with a != b in the upper-left 2x2 block, and shearY uses the transposed slot of shearX.
    kx = K('shearX2d_%s' % tg, [Par('o', m3, False), pM3, pA], '*o = shearX(*m, *a);', CFG)
    ky = K('shearY2d_%s' % tg, [Par('o', m3, False), pM3, pA], '*o = shearY(*m, *a);', CFG)

    def judge_shear(ctx):
        res = []
        pc = P.PCtx()
        slot = {}
        for nm_, k in (('shearX', kx), ('shearY', ky)):
            lanes = L.out_lanes(ctx, k, m3)
            for cand in ((1, 0), (0, 1)):
                sp = lanes_of(mmul(M3(), E3({cand: A()})))
                if all(pc.fpoly(t) == pc.fpoly(sp[lane].t) for lane, t in lanes.items()):
                    slot[nm_] = cand
            for lane, t in sorted(lanes.items()):
                oid = '2d %s(M3,k)<%s>[%s]' % (nm_, tg, lane)
                if nm_ in slot:
                    res.append(R.ob(oid, 'helpers', R.PROVED, 'lane of M * (I + k e) with k in column %d row %d' % slot[nm_], kernel=k.source()))
                else:
                    cands = [lanes_of(mmul(M3(), E3({cand: A()})))[lane].t for cand in ((1, 0), (0, 1))]
                    ds = [pc.fpoly(t) - pc.fpoly(c_) for c_ in cands]
                    res.append(R.ob(oid, 'helpers', R.REFUTED if all(not d.is_zero() and P.transparent(d) for d in ds) else (R.PROVED if any(d.is_zero() for d in ds) else R.UNDECIDED),
                                    'lane matches neither M * (I + k e_01) nor M * (I + k e_10): got %s' % P.show_poly(pc.fpoly(t), limit=6), kernel=k.source()))
        if len(slot) == 2:
            ok = slot['shearX'] == slot['shearY'][::-1]
            res.append(R.ob('2d shearX/shearY<%s>.transposed' % tg, 'helpers', R.PROVED if ok else R.REFUTED,
                            'shearX uses slot %s, shearY the transposed slot %s' % (slot['shearX'], slot['shearY']) if ok else 'shearX and shearY build the same shear (slot %s)' % (slot['shearX'],)))
        return res
    cs.append(R.Case('2d shearX/shearY<%s>' % tg, [kx, ky], judge_shear))

    # ---- gtx/transform2 ---------------------------------------------------------------------------------------------------------------
    add('shearX2D(M3,s)', 'helpers', [pM3, pA], '*o = shearX2D(*m, *a);', m3, lambda: lanes_of(mmul(M3(), E3({(1, 0): A()}))))
    add('shearY2D(M3,s)', 'helpers', [pM3, pA], '*o = shearY2D(*m, *a);', m3, lambda: lanes_of(mmul(M3(), E3({(0, 1): A()}))))
    pB = Par('b', sc)

    def E4(entries):
        E = ident(4, w)
        for (c_, r), e in entries.items():
            E[c_][r] = e
        return E
    # shearX3D: "Transforms a matrix with a shearing on X axis": y' = y + s x, z' = z + t x  (x is the sheared-along axis as GLM documents from GLSL cookbook)
    add('shearX3D(M,s,t)', 'helpers', [pM, pA, pB], '*o = shearX3D(*m, *a, *b);', m4, lambda: lanes_of(mmul(Mm(), E4({(0, 1): A(), (0, 2): A('b')}))))
    add('shearY3D(M,s,t)', 'helpers', [pM, pA, pB], '*o = shearY3D(*m, *a, *b);', m4, lambda: lanes_of(mmul(Mm(), E4({(1, 0): A(), (1, 2): A('b')}))))
    add('shearZ3D(M,s,t)', 'helpers', [pM, pA, pB], '*o = shearZ3D(*m, *a, *b);', m4, lambda: lanes_of(mmul(Mm(), E4({(2, 0): A(), (2, 1): A('b')}))))

    def householder(n, dim, scale2=True):
        # reflect: I - 2 n n^T ; proj: I - n n^T   (upper-left block)
        E = ident(dim, w)
        k_ = 2.0 if scale2 else 1.0
        m_ = dim - 1 if dim == 3 else 3
        for c_ in range(m_):
            for r in range(m_):
                e = c(k_) * n[r] * n[c_]
                E[c_][r] = (one - e) if r == c_ else -e
        return E
    add('reflect2D(M3,n)', 'helpers', [pM3, pV], '*o = reflect2D(*m, *v);', m3, lambda: lanes_of(mmul(M3(), householder(V('v'), 3))))
    add('reflect3D(M,n)', 'helpers', [pM, pV], '*o = reflect3D(*m, *v);', m4, lambda: lanes_of(mmul(Mm(), householder(V('v'), 4))))
    add('proj2D(M3,n)', 'helpers', [pM3, pV], '*o = proj2D(*m, *v);', m3, lambda: lanes_of(mmul(M3(), householder(V('v'), 3, scale2=False))))
    add('proj3D(M,n)', 'helpers', [pM, pV], '*o = proj3D(*m, *v);', m4, lambda: lanes_of(mmul(Mm(), householder(V('v'), 4, scale2=False))))

    def scale_bias():
        s_, b_ = A(), A('b')
        E = ident(4, w)
        for i in range(3):
            E[i][i] = s_
        E[3] = [b_, b_, b_, one]
        return E
    add('scaleBias(s,b)', 'helpers', [pA, pB], '*o = scaleBias<%s, glm::%s>(*a, *b);' % (sc.cpp, Q), m4, lambda: lanes_of(scale_bias()))
    add('scaleBias(M,s,b)', 'helpers', [pM, pA, pB], '*o = scaleBias(*m, *a, *b);', m4, lambda: lanes_of(mmul(Mm(), scale_bias())))

    # ---- gtx/rotate_vector --------------------------------------------------------------------------------------------------------------
    def rot_axis(v, ax):
        cs_, sn = trig(A())
        i, j = [(1, 2), (2, 0), (0, 1)][ax]
        out = list(v)
        out[i] = v[i] * cs_ - v[j] * sn
        out[j] = v[i] * sn + v[j] * cs_
        return dict(enumerate(out))
    for ax, nm_ in enumerate(('rotateX', 'rotateY', 'rotateZ')):
        add('%s(vec3,a)' % nm_, 'helpers', [pV, pA], '*o = %s(*v, *a);' % nm_, v3, lambda ax=ax: rot_axis(V('v'), ax))
        add('%s(vec4,a)' % nm_, 'helpers', [Par('v', v4), pA], '*o = %s(*v, *a);' % nm_, v4, lambda ax=ax: rot_axis(V('v', v4), ax))

    def rot2v():
        cs_, sn = trig(A())
        v = V('v', v2)
        return {0: v[0] * cs_ - v[1] * sn, 1: v[0] * sn + v[1] * cs_}
    add('rotate(vec2,a)', 'helpers', [pV2, pA], '*o = rotate(*v, *a);', v2, rot2v)
    pN = Par('n', v3)
    add('rotate(vec3,a,normal)', 'helpers', [pV, pA, pN], '*o = rotate(*v, *a, *n);', v3,
        lambda: dict(enumerate(mvec(Rot(A(), V('n')), V('v') + [zero])[:3])))
    add('rotate(vec4,a,normal)', 'helpers', [Par('v', v4), pA, pN], '*o = rotate(*v, *a, *n);', v4,
        lambda: dict(enumerate(mvec(Rot(A(), V('n')), V('v', v4)))))

    # ---- lookAt ---------------------------------------------------------------------------------------------------------------------------
    pE, pC, pU = Par('e', v3), Par('c', v3), Par('u', v3)
    for hand in ('RH', 'LH'):
        k = K('lookAt%s_%s' % (hand, tg), [Par('o', m4, False), pE, pC, pU], '*o = lookAt%s(*e, *c, *u);' % hand, CFG)
        cs.append(lookat_case('lookAt%s<%s>' % (hand, tg), k, hand, m4, v3, w))

    # ---- recompose: P(perspective) * T(translation) * R(orientation) * skew shears * S(scale), built from GLM's own (separately decided) factors ----
    qt = G.quat(T, Q)
    ps = [Par('s', v3), Par('q', qt), Par('t', v3), Par('k', v3), Par('p', v4)]
    k1 = K('recompose_%s' % tg, [Par('o', m4, False)] + ps, '*o = recompose(*s, *q, *t, *k, *p);', CFG)
    body = ('{ typedef %s M; M m(1); m[0][3] = p->x; m[1][3] = p->y; m[2][3] = p->z; m[3][3] = p->w; M kx(1), ky(1), kz(1); kx[2][1] = k->x; ky[2][0] = k->y; kz[1][0] = k->z; '
            '*o = m * translate(*t) * mat4_cast(*q) * kx * ky * kz * scale(*s); }' % m4.cpp)
    k2 = K('recompose_ref_%s' % tg, [Par('o', m4, False)] + ps, body, CFG)
    rname = 'recompose<%s>' % tg

    def judge_re(ctx):
        err = ctx.compile_error(k1)
        if err:
            return [R.ob(rname, 'existence', R.REFUTED, 'recompose cannot be instantiated for %s: %s' % (tg, err), kernel=k1.source())]
        it = ctx.fn(k1)
        a, b = L.out_lanes(ctx, k1, m4), L.out_lanes(ctx, k2, m4)
        pc = P.PCtx()
        res = []
        for lane in sorted(a):
            st, detail = S.compare(a[lane], b[lane], pc=pc, nan=False)
            narrow = [x for x in tm.walk(a[lane]) if x.op in ('fptrunc', 'fpext')]
            if narrow and st != R.REFUTED:
                st, detail = R.REFUTED, 'the lane passes through a conversion to another float width (%s): the result does not have the precision of its arguments' % tm.show(narrow[0], 2)
            res.append(R.ob('%s[%s]' % (rname, lane), 'recompose', st, detail.replace('the definition', 'P * T * R * Kx * Ky * Kz * S'), where=R.where_of(it, a[lane]) if st != R.PROVED else None,
                            kernel=k1.source() + '\n' + k2.source()))
        return res
    cs.append(R.Case(rname, [k1, k2], judge_re))
    return cs


def lookat_case(name, k, hand, m4, v3, w):
    def judge(ctx):
        err = ctx.compile_error(k)
        if err:
            return [R.ob(name, 'existence', R.REFUTED, 'cannot be instantiated: ' + err, kernel=k.source())]
        it = ctx.fn(k)
        lanes = L.out_lanes(ctx, k, m4)
        pc = P.PCtx()
        res = []
        eye, center, up = S.vecE('e', v3), S.vecE('c', v3), S.vecE('u', v3)
        one, zero = S.const(w, 1.0), S.const(w, 0.0)
        f = S.normalize(S.vsub(center, eye))
        if hand == 'RH':
            s = S.normalize(S.cross(f, up))
            u = S.cross(s, f)
            rows = [s, u, [-x for x in f]]
            tr = [-S.dot(s, eye), -S.dot(u, eye), S.dot(f, eye)]
        else:
            s = S.normalize(S.cross(up, f))
            u = S.cross(f, s)
            rows = [s, u, f]
            tr = [-S.dot(s, eye), -S.dot(u, eye), -S.dot(f, eye)]
        spec = {}
        for c_ in range(3):
            for r in range(3):
                spec[(c_, r)] = rows[r][c_]
            spec[(c_, 3)] = zero
        for r in range(3):
            spec[(3, r)] = tr[r]
        spec[(3, 3)] = one
        for lane, t in sorted(lanes.items()):
            st, detail = S.compare(t, spec[lane].t, pc=pc)
            res.append(R.ob('%s[%s]' % (name, lane), 'look_at', st, detail, where=R.where_of(it, t) if st != R.PROVED else None, kernel=k.source()))
        # derived identities on the kernel's own lanes
        Lp = {lane: pc.fpoly(t) for lane, t in lanes.items()}
        ep = [L.in_atom('e', v3, i) for i in range(3)]
        cp = [L.in_atom('c', v3, i) for i in range(3)]
        upp = [L.in_atom('u', v3, i) for i in range(3)]
        d = [cp[i] - ep[i] for i in range(3)]

        def row_dot(r, v, wv):
            return sum((Lp[(c_, r)] * v[c_] for c_ in range(3)), Poly()) + Lp[(3, r)] * wv

        def idn(sub, p, want, text):
            dd = P.reduce_sqrt(P.reduce_inv(p - want))
            ok = dd.is_zero()
            res.append(R.ob('%s.%s' % (name, sub), 'look_at_identity', R.PROVED if ok else (R.REFUTED if P.transparent(dd) else R.UNDECIDED),
                            text if ok else '%s fails: residual %s' % (text, P.show_poly(dd, limit=5)), kernel=k.source()))
        for r, nm_ in enumerate('xyz'):
            idn('eye->origin.%s' % nm_, row_dot(r, ep, Poly.const(1)), Poly(), 'L * (eye, 1) has %s = 0' % nm_)
        idn('eye->origin.w', row_dot(3, ep, Poly.const(1)), Poly.const(1), 'L * (eye, 1) has w = 1')
        for r, nm_ in enumerate('xy'):
            idn('view_dir.%s' % nm_, row_dot(r, d, Poly()), Poly(), 'the view direction center - eye has no %s component after L' % nm_)
        dd_ = sum((x * x for x in d), Poly())
        rho = pc.inv(Poly.atom(('sqrt', ('P', dd_))))
        sign = -1 if hand == 'RH' else 1
        idn('view_dir.z', row_dot(2, d, Poly()), (dd_ * rho).scale(sign), 'the view direction maps to %s|d| on the z axis (|d|^2 / |d|)' % ('-' if hand == 'RH' else '+'))
        # up.y = |d x up|^2 * rho^2 * rho_s  (all factors positive)
        uy = P.reduce_sqrt(P.reduce_inv(row_dot(1, upp, Poly())))
        cr = [d[1] * upp[2] - upp[1] * d[2], d[2] * upp[0] - upp[2] * d[0], d[0] * upp[1] - upp[0] * d[1]]
        n2 = sum((x * x for x in cr), Poly())
        # find the (single) inverse-sqrt atom of s
        cand = [a for a in uy.atoms() if P.atom_key(a)[0] == 'inv' and a not in rho.atoms()]
        ok = False
        if len(cand) == 1:
            ok = P.reduce_sqrt(P.reduce_inv(uy - n2 * rho * rho * Poly.var(cand[0]))).is_zero()
        res.append(R.ob('%s.up_half_plane' % name, 'look_at_identity', R.PROVED if ok else R.UNDECIDED,
                        'up maps to y = |d x up|^2 / (|d|^2 |f x up|) >= 0' if ok else 'y component of the image of up: %s' % P.show_poly(uy, limit=6), kernel=k.source()))
        return res
    return R.Case(name, [k], judge)


# ---- decompose(compose(scale, orientation, translation, skew, perspective)) -------------------------------------------------------------------


def decompose_conditioning_case(T):
    """decompose(): the quaternion is extracted from the orthonormalised rows by Shepperd's method - the branch that computes root = sqrt(trace + 1) and divides the off-diagonal
    differences by it may only be taken while the divisor is bounded away from zero, otherwise the cancellation residue of trace + 1 near a half turn is amplified without
    bound and recompose() cannot rebuild the matrix.  Decided structurally on the derived orientation term: every comparison that guards sqrt(X + 1) by a lower bound c on the
    same X must have c >= -3/4 (divisor root >= 1/2: the rounding error of the numerators is at most doubled); the reference code uses c = 0."""
    sc = G.scalar(T)
    qt, m4 = G.quat(T), G.mat(4, 4, T)
    k = K('decomp_cond_%s' % sc.tag, [Par('o', qt, False), Par('m', m4)],
          '{ glm::vec<3, %s, glm::defaultp> s, t, sk; glm::vec<4, %s, glm::defaultp> p; glm::qua<%s, glm::defaultp> q; glm::decompose(*m, s, q, t, sk, p); *o = q; }' % (sc.cpp, sc.cpp, sc.cpp), CFG)
    name = 'decompose<%s>.branch_conditioning' % sc.tag

    def judge(ctx):
        err = ctx.compile_error(k)
        if err:
            return [R.ob(name, 'existence', R.REFUTED, 'cannot be instantiated: ' + err, kernel=k.source())]
        lanes = L.out_lanes(ctx, k, qt)
        found = []
        for c_ in 'wxyz':
            nodes = tm.walk(lanes[c_])
            roots = set()
            for x in nodes:
                if x.op == 'sqrt' and x.args[0].op == 'fadd' and len(x.args[0].args) == 2:
                    a, b = x.args[0].args
                    for u, v in ((a, b), (b, a)):
                        if v.op == 'const' and tm.fval(v) == 1.0:
                            roots.add(u)
            for x in nodes:
                if x.op != 'fcmp':
                    continue
                pr, p_, q_ = x.args
                for X in roots:
                    # lower bounds on X: c < X, c <= X (and their negations X <= c, X < c, which guard the other arm of the same selection)
                    if p_.op == 'const' and q_ is X and pr in ('olt', 'ole', 'uge', 'ugt'):
                        found.append(tm.fval(p_))
                    if q_.op == 'const' and p_ is X and pr in ('ogt', 'oge', 'ule', 'ult'):
                        found.append(tm.fval(q_))
        if not found:
            return [R.ob(name, 'decompose_conditioning', R.UNDECIDED, 'no comparison of the trace with a constant guards sqrt(trace + 1)', kernel=k.source())]
        lo = min(found)
        ok = lo >= -0.75
        return [R.ob(name, 'decompose_conditioning', R.PROVED if ok else R.REFUTED,
                     'sqrt(trace + 1) is only divided by while trace > %g: the divisor is at least %.3g' % (lo, (lo + 1) ** 0.5) if ok else
                     'the branch that divides by root = sqrt(trace + 1) is taken for every trace > %g: for rotations near a half turn trace + 1 is a cancellation residue and the orientation is rounding noise '
                     '(Shepperd\'s method takes this branch only for trace > 0, where root >= 1)' % lo, where=R.where_of(ctx.fn(k), lanes['w']) if not ok else None, kernel=k.source())]
    return R.Case(name, [k], judge)

def decompose_case(T, Q):
    """decompose() applied to P * T * R(q) * Kx * Ky * Kz * S (the composition recompose() is proved equal to), with symbolic components,
    |q| = 1 and positive scales: in every branch of its guards and of the quaternion extraction the returned components are the ones the
    matrix was composed from (orientation up to sign), so recompose() rebuilds the same matrix."""
    from rules import c04 as Q4
    sc = G.scalar(T)
    tg = sc.tag + ('' if Q == 'highp' else '_' + Q)
    m4, v3, v4, qt, bt = G.mat(4, 4, T, Q), G.vec(3, T, Q), G.vec(4, T, Q), G.quat(T, Q), G.scalar('uint8')
    outs = [Par('os', v3, False), Par('oq', qt, False), Par('ot', v3, False), Par('ok', v3, False), Par('op', v4, False), Par('ob', bt, False)]
    ins = [Par('s', v3), Par('q', qt), Par('t', v3), Par('k', v3), Par('p', v3)]
    # the perspective w is chosen so that the composed matrix has M[3][3] == 1 (decompose normalises by M[3][3]; a homogeneous scale is not a component)
    body = ('{ typedef %s M; M m(1); m[0][3] = p->x; m[1][3] = p->y; m[2][3] = p->z; m[3][3] = 1 - (p->x * t->x + p->y * t->y + p->z * t->z); M kx(1), ky(1), kz(1); kx[2][1] = k->x; ky[2][0] = k->y; kz[1][0] = k->z; '
            'M c = m * translate(*t) * mat4_cast(*q) * kx * ky * kz * scale(*s); *ob = decompose(c, *os, *oq, *ot, *ok, *op) ? 1 : 0; }' % m4.cpp)
    k = K('decompose_rt_%s' % tg, outs + ins, body, CFG)
    name = 'decompose(compose)<%s>' % tg

    def judge(ctx):
        err = ctx.compile_error(k)
        if err:
            return [R.ob(name, 'existence', R.REFUTED, 'cannot be instantiated: ' + err, kernel=k.source())]
        it = ctx.fn(k)
        terms = {}
        for nm_, ty in (('os', v3), ('ot', v3), ('ok', v3), ('op', v4), ('oq', qt)):
            for lane, t in L.out_lanes(ctx, k, ty, base=nm_).items():
                terms[(nm_, lane)] = t
        flag = I.out_lane(it, 'ob', 0, 1)
        q = Q4.qin('q', qt)
        sA = [L.in_atom('s', v3, i) for i in range(3)]
        kA = [L.in_atom('k', v3, i) for i in range(3)]
        tA = [L.in_atom('t', v3, i) for i in range(3)]
        pA = [L.in_atom('p', v3, i) for i in range(3)]
        pA.append(Poly.const(1) - sum((pA[i] * tA[i] for i in range(3)), Poly()))
        positive = {m[0] for x in sA for m in x.t}
        norm = lambda x: Q4.unit(x, q)
        orient = []
        for e in range(4):
            (ea,), = [m for m in q[e].t]
            repl = Poly.const(1) - sum((q[j] * q[j] for j in range(4) if j != e), Poly())
            orient.append((ea, repl))

        def abs_mono(mp, pc):
            (m, c), = mp.t.items()
            pos = tuple(a for a in m if a in positive)
            rest = tuple(a for a in m if a not in positive)
            r = Poly({tuple(sorted(pos)): abs(Fraction(c))})
            if rest:
                r = r * Poly.atom(('fabs', ('P', Poly({tuple(sorted(rest)): Fraction(1)}))))
            return r

        def hook(kind, arg, pc):
            if kind == 'fabs':
                return abs_mono(arg, pc) if len(arg.t) == 1 else None
            for ea, repl in orient:
                a2 = P.reduce_ideal(arg, ea, repl, deg=2)
                if len(a2.t) == 1:
                    (m, c), = a2.t.items()
                    rc = P._isqrt_frac(Fraction(c)) if c > 0 else None
                    if rc is not None and not any(m.count(x) % 2 for x in set(m)):
                        root = Poly({tuple(sorted(x for x in set(m) for _ in range(m.count(x) // 2))): rc})
                        return abs_mono(root, pc)
            return None
        # explore the decision tree of the guards / branch comparisons
        def evaluate(cx):
            fl = cx._ieval(flag)
            if fl is None:
                fl = 1 if cx.decide(tm.icmp('ne', flag, tm.const(flag.w, 0))) else 0
            if not fl:
                return None
            return {kk: cx.fpoly(terms[kk]) for kk in keys}
        keys = sorted(terms)
        try:
            leaves = P.decision_paths(lambda a_: P.NormCtx(a_, norm, hook), evaluate)
        except P.TooManyPaths:
            return [R.ob(name, 'decompose', R.UNDECIDED, 'more than 3000 decision paths')]
        rows = [(tuple(asg.values()), got, cx, list(asg.keys()), infos) for asg, infos, got, cx in leaves]
        res = []
        seen = {}
        nret = 0
        for vals, got, cx, atoms, infos in rows:
            if got is None:
                nret += 1
                continue
            key = tuple(got[kk].key() for kk in keys)
            if key in seen:
                continue
            seen[key] = vals
            bi = len(seen) - 1
            regime = ', '.join('%s %s %s' % (P.show_poly(infos[at][0], limit=2), '<' if v == 'lt' else '>', P.show_poly(infos[at][1], limit=2))
                               for at, v in zip(atoms, vals) if at[0] == 'pair')
            bad = []
            diffs = []
            for i in range(3):
                for nm_, want, what in (('os', sA, 'scale'), ('ok', kA, 'skew'), ('ot', tA, 'translation')):
                    d = got[(nm_, i)] - want[i]
                    if not Q4.zero_in_all_sign_cases(d, cx, norm):
                        bad.append('%s.%s = %s' % (what, 'xyz'[i], P.show_poly(norm(got[(nm_, i)]), limit=4)))
                        diffs.append(('%s.%s' % (what, 'xyz'[i]), got[(nm_, i)], want[i]))
            # perspective: the composed (0,0,0,1)-or-p : equal to p, or dropped because all three bottom-row entries are below epsilon
            pd = [got[('op', i)] - pA[i] for i in range(4)]
            p_ok = all(Q4.zero_in_all_sign_cases(d, cx, norm) for d in pd)
            dropped = all(got[('op', i)] == (Poly.const(1) if i == 3 else Poly()) for i in range(4))
            if not p_ok:
                small = 0
                for at, v in zip(atoms, vals):
                    if at[0] != 'pair':
                        continue
                    pa, pb = infos[at]
                    mentions_p = lambda x: any(a in P.lane_atoms([x]) for pp in pA[:3] for m in pp.t for a in m)
                    if (pb.is_const() and mentions_p(pa) and v == 'lt') or (pa.is_const() and mentions_p(pb) and v == 'gt'):
                        small += 1
                if not (dropped and small >= 3):
                    for i in range(4):
                        if not Q4.zero_in_all_sign_cases(pd[i], cx, norm):
                            diffs.append(('perspective.%s' % 'xyzw'[i], got[('op', i)], pA[i]))
                    bad.append('perspective = (%s) although only %d bottom-row entries are tested below epsilon' % (', '.join(P.show_poly(got[('op', i)], limit=2) for i in range(4)), small))
            # orientation: parallel to q and unit
            gq = tuple(got[('oq', c)] for c in 'wxyz')
            okq = True
            for i in range(4):
                for j in range(i + 1, 4):
                    if not Q4.zero_in_all_sign_cases(gq[i] * q[j] - gq[j] * q[i], cx, norm):
                        okq = False
            okq = okq and any(Q4.zero_in_all_sign_cases(Q4.qnorm2(gq) - Poly.const(1), cx, lambda x, ea=ea, repl=repl: P.reduce_ideal(x, ea, repl, deg=2)) for ea, repl in orient)
            if not okq:
                bad.append('orientation (w = %s) is not +-q' % P.show_poly(gq[0], limit=4))
            status = R.PROVED if not bad else R.UNDECIDED
            wit = ''
            if bad and diffs:
                # an explicit rational input (unit quaternion, positive scales) that takes exactly this decision path and where the returned
                # component, evaluated exactly, differs from the composing one
                cons = []
                for at, v in zip(atoms, vals):
                    if at[0] != 'pair':
                        continue
                    pa, pb = infos[at]
                    e_ = pa - pb
                    # |x| below a tiny positive constant: realised by x == 0
                    u_ = P._unwrap_abs(e_)
                    if u_ is not None and ((u_[0] > 0 and v == 'lt' and 0 < -u_[2] < Fraction(1, 1000)) or (u_[0] < 0 and v == 'gt' and 0 < u_[2] < Fraction(1, 1000))):
                        cons.append(('eq', u_[1]))
                    else:
                        cons.append((v, e_))
                cons += [('gt', x) for x in sA]
                cons.sort(key=lambda c_: 0 if c_[0] == 'eq' else 1)
                for what, g_, w_ in diffs[:3]:
                    if not all(P.transparent(x) for x in [g_ - w_] + [e_ for _, e_ in cons]):
                        continue
                    env = P.find_witness(cons[0][0], cons[0][1], [g_ - w_], extra=cons[1:], spheres=Q4.sph(q), tries=1500)
                    if env is not None:
                        status = R.REFUTED
                        wit = ' -- e.g. at %s: decompose returns %s = %s, the matrix was composed with %s' % (P.show_env(env), what, P.eval_poly(g_, env), P.eval_poly(w_, env))
                        break
            short = regime if len(regime) < 400 else regime[:400] + ' ...'
            res.append(R.ob('%s.branch%d' % (name, bi), 'decompose', status,
                            ('returns the composing scale, skew, translation, perspective and +-orientation in the regime [%s]' % short) if not bad else
                            ('%s%s  (regime [%s])' % ('; '.join(bad[:4]), wit, short)), where=None, kernel=k.source()))
        if not seen:
            res.append(R.ob(name, 'decompose', R.UNDECIDED, 'no branch returns true (%d rows return false)' % nret))
        return res
    return R.Case(name, [k], judge)


def axis_angle_case(T, Q):
    """gtx/matrix_interpolation axisAngle() on an exact half turn R = 2 n n^T - I (|n| = 1), the case its symmetric-matrix branch exists for: on every
    path of the branch (which component is largest) the returned axis is parallel to n and unit, the angle is pi.  The general (non-symmetric)
    path: not decided (the decision tree of the symmetry / identity tests explodes; the exact half turn is what the branch exists for)."""
    from rules import c04 as Q4
    sc = G.scalar(T)
    tg = sc.tag + ('' if Q == 'highp' else '_' + Q)
    m4, v3 = G.mat(4, 4, T, Q), G.vec(3, T, Q)
    ent = ' '.join('m[%d][%d] = %s(2) * n->%s * n->%s%s;' % (i, j, sc.cpp, 'xyz'[i], 'xyz'[j], (' - %s(1)' % sc.cpp) if i == j else '') for i in range(3) for j in range(3))
    body = '{ typedef %s M; M m(1); %s %s ax; %s an; axisAngle(m, ax, an); *oa = ax; *og = an; }' % (m4.cpp, ent, v3.cpp, sc.cpp)
    k = K('axisAngle_halfturn_%s' % tg, [Par('oa', v3, False), Par('og', sc, False), Par('n', v3)], body, CFG)
    name = 'axisAngle(half turn about n)<%s>' % tg

    def judge(ctx):
        err = ctx.compile_error(k)
        if err:
            return [R.ob(name, 'existence', R.REFUTED, 'cannot be instantiated: ' + err, kernel=k.source())]
        ax = L.out_lanes(ctx, k, v3, base='oa')
        ang = L.out_lanes(ctx, k, sc, base='og')[0]
        n = [L.in_atom('n', v3, i) for i in range(3)]
        atoms = [list(x.t)[0][0] for x in n]
        orient = []
        for e in range(3):
            repl = Poly.const(1) - sum((n[j] * n[j] for j in range(3) if j != e), Poly())
            orient.append((atoms[e], repl))
        norm = lambda x: P.reduce_ideal(x, orient[2][0], orient[2][1], deg=2)

        def hook(kind, arg, pc):
            if kind == 'fabs':
                return None
            for ea, repl in orient:
                a2 = P.reduce_ideal(arg, ea, repl, deg=2)
                if len(a2.t) == 1:
                    (m, c), = a2.t.items()
                    rc = P._isqrt_frac(Fraction(c)) if c > 0 else None
                    if rc is not None and m and not any(m.count(x) % 2 for x in set(m)):
                        root = Poly({tuple(sorted(x for x in set(m) for _ in range(m.count(x) // 2))): Fraction(1)})
                        return Poly.atom(('fabs', ('P', root))).scale(rc)
            return None

        def evaluate(cx):
            return tuple(cx.fpoly(ax[i]) for i in range(3)) + (cx.fpoly(ang),)
        try:
            leaves = P.decision_paths(lambda a_: P.NormCtx(a_, norm, hook), evaluate)
        except P.TooManyPaths:
            return [R.ob(name, 'axis_angle', R.UNDECIDED, 'too many decision paths')]
        res = []
        seen = set()
        import math
        for asg, infos, got, cx in leaves:
            key = tuple(g.key() for g in got)
            if key in seen:
                continue
            seen.add(key)
            if all(g.is_const() for g in got[:3]):
                continue            # the fallback axes for a vanishing largest component / the identity: not reachable for a unit n
            bi = len(seen)
            regime = ', '.join('%s %s %s' % (P.show_poly(infos[at][0], limit=2), '<' if v == 'lt' else '>', P.show_poly(infos[at][1], limit=2)) for at, v in asg.items() if at[0] == 'pair')[:300]
            bad = []
            diffs = []
            for i, j in ((0, 1), (0, 2), (1, 2)):
                d = got[i] * n[j] - got[j] * n[i]
                if not any(Q4.zero_in_all_sign_cases(d, cx, lambda x, ea=ea, repl=repl: P.reduce_ideal(Q4.abs_square(x), ea, repl, deg=2)) for ea, repl in orient):
                    bad.append('axis x n != 0 (component %d%d: %s)' % (i, j, P.show_poly(P.reduce_inv(d), limit=4)))
                    diffs.append(d)
            n2 = got[0] * got[0] + got[1] * got[1] + got[2] * got[2] - Poly.const(1)
            if not any(Q4.zero_in_all_sign_cases(n2, cx, lambda x, ea=ea, repl=repl: P.reduce_ideal(Q4.abs_square(x), ea, repl, deg=2)) for ea, repl in orient):
                bad.append('|axis|^2 - 1 = %s' % P.show_poly(P.reduce_inv(n2), limit=4))
                diffs.append(n2)
            okang = got[3].is_const() and abs(float(got[3].cval() if got[3].t else 0) - math.pi) < 1e-6
            if not okang:
                bad.append('angle = %s, not pi' % P.show_poly(got[3], limit=3))
            status, wit = (R.PROVED, '') if not bad else (R.UNDECIDED, '')
            if bad and diffs:
                cons = [(v, infos[at][0] - infos[at][1]) for at, v in asg.items() if at[0] == 'pair']
                for d in diffs[:2]:
                    if not all(P.transparent(x) for x in [d] + [e_ for _, e_ in cons]):
                        continue
                    env = P.find_witness(cons[0][0], cons[0][1], [d], extra=cons[1:], spheres=(tuple(atoms),), tries=1500) if cons else P.find_witness('gt', Poly.const(1), [d], spheres=(tuple(atoms),), tries=800)
                    if env is not None:
                        status = R.REFUTED
                        wit = ' -- e.g. for the half turn about n = (%s): axis = (%s)' % (', '.join(str(env[a_]) for a_ in atoms), ', '.join(str(P.eval_poly(g, env)) for g in got[:3]))
                        break
            res.append(R.ob('%s.branch%d' % (name, bi), 'axis_angle', status, ('axis is +-n (parallel, unit) and the angle is pi  [%s]' % regime) if not bad else '%s%s  [%s]' % ('; '.join(bad[:3]), wit, regime),
                            where=R.where_of(ctx.fn(k), ax[0]) if status == R.REFUTED else None, kernel=k.source()))
        if not res:
            res.append(R.ob(name, 'axis_angle', R.UNDECIDED, 'no non-constant branch found'))
        return res

    return [R.Case(name, [k], judge)]


def axis_angle_general_case(T, Q):
    """gtx/matrix_interpolation axisAngle() on a rotation matrix in general position: m = c I + s [n]x + (1 - c) n n^T with |n| = 1 (the matrix axisAngleMatrix(n, a)
    builds, c and s standing for cos a and sin a).  On every decision path that does not take the near-symmetric branch (that one is the half-turn rule's):
    the axis is sign(s) n (unit, parallel to n, oriented with the sine) and the angle is acos(c) (0 / pi where the cosine test clamps), i.e. the same rotation."""
    from rules import c04 as Q4
    sc = G.scalar(T)
    tg = sc.tag + ('' if Q == 'highp' else '_' + Q)
    m4, v3, v2 = G.mat(4, 4, T, Q), G.vec(3, T, Q), G.vec(2, T, Q)
    body = ('{ typedef %s M; typedef %s S; S c = cs->x, s = cs->y, t = S(1) - c, x = n->x, y = n->y, z = n->z; M m(1); '
            'm[0][0] = t * x * x + c; m[0][1] = t * x * y + z * s; m[0][2] = t * x * z - y * s; '
            'm[1][0] = t * x * y - z * s; m[1][1] = t * y * y + c; m[1][2] = t * y * z + x * s; '
            'm[2][0] = t * x * z + y * s; m[2][1] = t * y * z - x * s; m[2][2] = t * z * z + c; '
            '%s ax; S an; axisAngle(m, ax, an); *oa = ax; *og = an; }' % (m4.cpp, sc.cpp, v3.cpp))
    k = K('axisAngle_general_%s' % tg, [Par('oa', v3, False), Par('og', sc, False), Par('n', v3), Par('cs', v2)], body, CFG)
    name = 'axisAngle(rotation by (c, s) about n)<%s>' % tg

    def judge(ctx):
        import math
        err = ctx.compile_error(k)
        if err:
            return [R.ob(name, 'existence', R.REFUTED, 'cannot be instantiated: ' + err, kernel=k.source())]
        ax = L.out_lanes(ctx, k, v3, base='oa')
        ang = L.out_lanes(ctx, k, sc, base='og')[0]
        n = [L.in_atom('n', v3, i) for i in range(3)]
        c_, s_ = L.in_atom('cs', v2, 0), L.in_atom('cs', v2, 1)
        atoms = [list(x.t)[0][0] for x in n]
        nz2 = Poly.const(1) - n[0] * n[0] - n[1] * n[1]
        norm = lambda x: P.reduce_ideal(x, atoms[2], nz2, deg=2)

        def hook(kind, arg, pc):
            if kind == 'fabs':
                return None
            a2 = norm(arg)
            if len(a2.t) == 1:
                (m, cf), = a2.t.items()
                rc = P._isqrt_frac(Fraction(cf)) if cf > 0 else None
                if rc is not None and m and not any(m.count(x) % 2 for x in set(m)):
                    root = Poly({tuple(sorted(x for x in set(m) for _ in range(m.count(x) // 2))): Fraction(1)})
                    return Poly.atom(('fabs', ('P', root))).scale(rc)
            return None

        has = lambda t_: any(y.op == 'fn' and y.args[0] == 'acos' for y in tm.walk(t_))

        def evaluate(cx):
            # the near-symmetric branch is pruned as soon as the selection at the root of the angle chooses the arm without the arc cosine
            if ang.op == 'select' and has(ang.args[1]) != has(ang.args[2]):
                if not has(ang.args[1] if cx.decide(ang.args[0]) else ang.args[2]):
                    return None
            return (cx.fpoly(ang),) + tuple(cx.fpoly(ax[i]) for i in range(3))
        try:
            leaves = P.decision_paths(lambda a_: P.NormCtx(a_, norm, hook), evaluate, max_leaves=6000)
        except P.TooManyPaths:
            return [R.ob(name, 'axis_angle', R.UNDECIDED, 'too many decision paths')]
        res = []
        seen = set()
        nsym = 0
        acos_c = Poly.atom(('fn:acos', ('P', c_)))
        csat = (list(c_.t)[0][0], list(s_.t)[0][0])
        for asg, infos, got, cx in leaves:
            if got is None:
                nsym += 1
                continue
            cons = [(v, norm(infos[at][0] - infos[at][1])) for at, v in asg.items() if at[0] == 'pair']
            has_acos = any(P.atom_key(a_)[0] == 'fn:acos' for a_ in got[0].atoms())
            key = tuple(g.key() for g in got)
            if key in seen:
                continue
            seen.add(key)
            bi = len(seen)
            regime = ', '.join('%s %s %s' % (P.show_poly(infos[at][0], limit=2), '<' if v == 'lt' else '>', P.show_poly(infos[at][1], limit=2)) for at, v in asg.items() if at[0] == 'pair')[-300:]
            bad, diffs = [], []
            angwit = ''
            sabs = Poly.atom(('fabs', ('P', s_)))
            post = lambda x: norm(Q4.abs_square(x))
            for i in range(3):
                d = got[1 + i] * sabs - n[i] * s_
                if not Q4.zero_in_all_sign_cases(d, cx, post):
                    bad.append('axis.%s |s| - n.%s s = %s' % ('xyz'[i], 'xyz'[i], P.show_poly(P.reduce_inv(d), limit=4)))
                    diffs.append(d)
            if has_acos:
                okang = (got[0] - acos_c).is_zero()
                wantang = 'acos(c)'
            else:
                # a constant angle is right only at the clamped ends: 0 where the path has c >= 1, pi where it has c <= -1 (the comparisons of the path itself)
                val = float(got[0].cval() if got[0].t else 0) if got[0].is_const() else None
                hi = any((v == 'gt' and e_ == c_ - Poly.const(1)) or (v == 'lt' and e_ == Poly.const(1) - c_) for v, e_ in cons)
                lo = any((v == 'lt' and e_ == c_ + Poly.const(1)) or (v == 'gt' and e_ == -c_ - Poly.const(1)) for v, e_ in cons)
                okang = val is not None and ((hi and abs(val) < 1e-12) or (lo and abs(val - math.pi) < 1e-6))
                wantang = '0' if hi else 'pi' if lo else 'acos(c)'
                if not okang and val is not None and not hi and not lo and all(P.transparent(e_) for _, e_ in cons):
                    # a point of the path strictly inside -1 < c < 1 (unit n, c^2 + s^2 = 1), where acos(c) is neither 0 nor pi
                    env = P.find_witness('gt', c_ + Poly.const(1), [c_], extra=[('lt', c_ - Poly.const(1))] + cons, spheres=(tuple(atoms), csat), tries=1500)
                    if env is not None:
                        angwit = ' -- e.g. at %s the angle is acos(%s)' % (P.show_env(env), env[csat[0]])
            if not okang:
                bad.append('angle = %s, not %s%s' % (P.show_poly(got[0], limit=3), wantang, angwit))
            status, wit = (R.PROVED, '') if not bad else (R.REFUTED, '') if angwit else (R.UNDECIDED, '')
            if bad and diffs:
                for d in diffs[:2]:
                    d2 = P.reduce_inv(d)
                    if not all(P.transparent(x) for x in [d2] + [e_ for _, e_ in cons]):
                        continue
                    env = P.find_witness(cons[0][0], cons[0][1], [d2], extra=cons[1:], spheres=(tuple(atoms), csat), tries=1500) if cons else None
                    if env is not None:
                        status = R.REFUTED
                        wit = ' -- e.g. at %s' % P.show_env(env)
                        break
            res.append(R.ob('%s.path%d' % (name, bi), 'axis_angle', status, ('axis = sign(s) n, angle = %s  [%s]' % (wantang, regime)) if not bad else '%s%s  [%s]' % ('; '.join(bad[:3]), wit, regime),
                            where=R.where_of(ctx.fn(k), ax[0]) if status == R.REFUTED else None, kernel=k.source()))
        if not res:
            res.append(R.ob(name, 'axis_angle', R.UNDECIDED, 'no path through the general branch found (%d near-symmetric paths)' % nsym))
        return res
    return R.Case(name, [k], judge)


CFG_OPQ = Cfg('xform_opaque', headers=HDR, defines=('GLM_ENABLE_EXPERIMENTAL',), noinline=(r'glm::axisAngle<', r'glm::axisAngleMatrix<'))


def interpolate_case(T, Q):
    """gtx/matrix_interpolation interpolate(m1, m2, delta) as a composition of its (separately decided) parts, which are kept as opaque calls:
      (1) axisAngle() is applied to a matrix whose rotation block is m2 * transpose(rot(m1)), i.e. the rotation taking m1's frame to m2's;
      (2) axisAngleMatrix() receives exactly the axis axisAngle() returned and its angle times delta;
      (3) the result is that rotation times rot(m1), with the translation column replaced by the affine blend m1[3] + delta (m2[3] - m1[3])."""
    sc = G.scalar(T)
    tg = sc.tag + ('' if Q == 'highp' else '_' + Q)
    m4 = G.mat(4, 4, T, Q)
    w = sc.elem * 8
    k = K('interpolate_%s' % tg, [Par('o', m4, False), Par('a', m4), Par('b', m4), Par('d', sc)], '*o = interpolate(*a, *b, *d);', CFG_OPQ)
    name = 'interpolate(m1,m2,delta)<%s>' % tg

    def judge(ctx):
        err = ctx.compile_error(k)
        if err:
            return [R.ob(name, 'existence', R.REFUTED, 'cannot be instantiated: ' + err, kernel=k.source())]
        it = ctx.fn(k)
        aa = [c for n, c, _ in it.calls if 'axisAngleI' in n]
        am = [c for n, c, _ in it.calls if 'axisAngleMatrixI' in n]
        if len(aa) != 1 or len(am) != 1:
            return [R.ob(name, 'interpolate', R.UNDECIDED, 'expected one call of axisAngle and one of axisAngleMatrix, found %d and %d' % (len(aa), len(am)), kernel=k.source())]
        aa, am = aa[0], am[0]
        pc = P.PCtx()
        A = lambda c, r: L.in_atom('a', m4, (c, r))
        B = lambda c, r: L.in_atom('b', m4, (c, r))
        d = L.in_atom('d', sc, 0)
        res = []
        # (1) the matrix handed to axisAngle
        marg = aa.args[1]
        for c in range(3):
            for r in range(3):
                got = pc.fpoly(tm.slice_(marg, m4.lanes[(c, r)] * 8, w))
                want = sum((B(kk, r) * A(kk, c) for kk in range(3)), Poly())
                st, detail = L.compare_poly(got, want)
                res.append(R.ob('%s.delta_rotation[%d][%d]' % (name, c, r), 'interpolate', st,
                                'axisAngle() is applied to m2 * transpose(rot(m1))' if st == R.PROVED else 'argument of axisAngle: ' + detail, kernel=k.source()))
        # (2) what axisAngleMatrix receives
        axis, ang = am.args[2], am.args[3]
        ok_axis = axis.op == 'callout' and axis.args[0] is aa and axis.args[1] == 1
        res.append(R.ob(name + '.axis', 'interpolate', R.PROVED if ok_axis else R.UNDECIDED,
                        'axisAngleMatrix() receives the axis returned by axisAngle()' if ok_axis else 'axis argument is %s' % tm.show(axis, 4), kernel=k.source()))
        angle_out = tm.mk('callout', (aa, 2), w)
        try:
            pa = pc.fpoly(ang)
            wa = pc.fpoly(angle_out) * d
            st, detail = L.compare_poly(pa, wa)
        except (P.NonFinite, P.TooBig, ValueError) as e:
            st, detail = R.UNDECIDED, 'no normal form: %r' % e
        res.append(R.ob(name + '.angle', 'interpolate', st, 'axisAngleMatrix() receives angle * delta' if st == R.PROVED else 'angle argument: ' + detail, kernel=k.source()))
        # (3) the result
        Rm = lambda c, r: pc.fpoly(tm.slice_(tm.mk('callout', (am, 0), m4.size * 8), m4.lanes[(c, r)] * 8, w))
        rot = lambda c, r: (A(c, r) if (c < 3 and r < 3) else Poly.const(1) if (c == 3 and r == 3) else Poly())
        lanes = L.out_lanes(ctx, k, m4)
        # a realisable point for refutations: m1 = the quarter turn about x, m2 = (quarter turn about z) * m1 plus translations, delta = 1; the delta rotation is
        # then the quarter turn about z (clause 1), which axisAngle / axisAngleMatrix reproduce (their own rules): the opaque result lanes take its entries
        RX = [[1, 0, 0, 0], [0, 0, 1, 0], [0, -1, 0, 0], [0, 0, 0, 1]]          # [column][row]
        RZ = [[0, 1, 0, 0], [-1, 0, 0, 0], [0, 0, 1, 0], [0, 0, 0, 1]]
        M1 = [list(col) for col in RX]
        M1[3] = [3, 5, 7, 1]
        M2 = [[sum(RZ[kk][r] * RX[c][kk] for kk in range(4)) for r in range(4)] for c in range(4)]
        M2[3] = [11, 13, 17, 1]
        env = {}
        for c in range(4):
            for r in range(4):
                env[list(A(c, r).t)[0][0]] = Fraction(M1[c][r])
                env[list(B(c, r).t)[0][0]] = Fraction(M2[c][r])
                rp = Rm(c, r)
                if len(rp.t) == 1 and len(list(rp.t)[0]) == 1:
                    env[list(rp.t)[0][0]] = Fraction(RZ[c][r])
        env[list(d.t)[0][0]] = Fraction(1)

        def value(p_):
            tot = Fraction(0)
            for mono, cf in p_.t.items():
                v = Fraction(cf)
                for a_ in mono:
                    if a_ not in env:
                        return None
                    v *= env[a_]
                tot += v
            return tot
        for c in range(4):
            for r in range(4):
                try:
                    got = pc.fpoly(lanes[(c, r)])
                except (P.NonFinite, P.TooBig, ValueError) as e:
                    res.append(R.ob('%s[%d][%d]' % (name, c, r), 'interpolate', R.UNDECIDED, 'no normal form: %r' % e, kernel=k.source()))
                    continue
                if c == 3 and r < 3:
                    want = A(3, r) + d * (B(3, r) - A(3, r))
                    text = 'm1[3] + delta (m2[3] - m1[3])'
                else:
                    want = sum((Rm(kk, r) * rot(c, kk) for kk in range(4)), Poly())
                    text = '(axisAngleMatrix(axis, angle delta) * rot(m1))[%d][%d]' % (c, r)
                st, detail = L.compare_poly(got, want)
                if st == R.UNDECIDED:
                    gv, wv = value(got), value(want)
                    if gv is not None and wv is not None and gv != wv:
                        st = R.REFUTED
                        detail += '  -- e.g. m1 = quarter turn about x with translation (3,5,7), m2 = (quarter turn about z) * rot(m1) with translation (11,13,17), delta = 1: entry is %s, should be %s' % (gv, wv)
                res.append(R.ob('%s[%d][%d]' % (name, c, r), 'interpolate', st, text if st == R.PROVED else detail, where=None if st == R.PROVED else R.where_of(it, lanes[(c, r)]), kernel=k.source()))
        return res
    return R.Case(name, [k], judge)


def cases(tier):
    cs = []
    types = [('float', 'highp'), ('double', 'highp')]
    if tier == 'thorough':
        types += [('float', 'mediump'), ('double', 'lowp')]
    for T, Q in types:
        cs += type_cases(T, Q, tier)
        cs.append(decompose_case(T, Q))
        cs += axis_angle_case(T, Q)
        cs.append(interpolate_case(T, Q))
        cs.append(axis_angle_general_case(T, Q))
    cs += canaries()
    cs += [decompose_conditioning_case('float'), decompose_conditioning_case('double')]
    from rules import narrow
    cs += narrow.cases(cs, 'C09')
    return cs


def canaries():
    m4, v3, sc = G.mat(4, 4, 'float'), G.vec(3, 'float'), G.scalar('float')
    pre = ('static glm::mat4 verif_bad_translate(glm::mat4 const& m, glm::vec3 const& v){ glm::mat4 r(m); r[3] = m[0] * v[0] + m[1] * v[1] + m[2] * v[2]; return r; }')
    k = K('canary_translate', [Par('o', m4, False), Par('m', m4), Par('v', v3)], '*o = verif_bad_translate(*m, *v);', CFG, pre=pre)

    def spec():
        M = matE('m', m4)
        E = ident(4, 32)
        v = S.vecE('v', v3)
        E[3] = [v[0], v[1], v[2], S.const(32, 1.0)]
        return lanes_of(mmul(M, E))
    c1 = spec_case('canary:translate-drops-old-translation', 'elementary', k, m4, spec)
    j1 = c1.judge
    c1.judge = lambda ctx: [r for r in j1(ctx) if r['id'].endswith('[(3, 0)]')]
    c1.canary = True
    return [c1]


EXPLANATION = ('static: translate/rotate/scale/shear (+ _slow forms), the gtx transform / transform2 / rotate_vector / rotate_normalized_axis / matrix_transform_2d / '
               'matrix_interpolation helpers and lookAtRH/LH are instantiated from /repo; every output lane is compared, as a normal form over the input lanes with cos/sin/sqrt/inverse atoms, '
               'with the lane of M * E for the elementary matrix E written from its definition; lookAt additionally satisfies eye -> origin, view direction -> -+z, up -> +y half-plane as '
               'polynomial identities on its own lanes')
ASSUMPTIONS = ['float operations read as exact real arithmetic (the elementary-matrix product is an algebraic identity; rounding differences between fast and _slow paths are not decided)',
               'cos/sin are uninterpreted atoms of the angle: equal up to the ring axioms only (no angle-sum identities needed)',
               'decompose is decided for matrices composed with positive scales and M[3][3] == 1 (negative scales are returned with flipped signs, a homogeneous factor is not a component)',
               'axisAngle() is decided on exact half turns and on rotation matrices in general position (c I + s [n]x + (1 - c) n n^T, |n| = 1, c^2 + s^2 = 1 for witnesses); the near-symmetric branch for other inputs is not; interpolate() is decided as a composition of opaque axisAngle / axisAngleMatrix calls',
               'handedness dispatch of lookAt is decided by the C08 dispatch rule']
TRUSTED = ['clang/LLVM 14', 'tools/irtool.cc', 'laneflow normal forms', 'elementary matrices in rules/c09.py (each a few lines, from the property / manual)']
LEVEL = 'proof'
