"""C11 — common functions obey their documented per-value definitions; constants are correctly rounded.

The statement quantifies over all 2^32 float patterns; a static argument cannot enumerate values.  What is decided here are the clauses
whose truth is visible in the instantiated code:

  constant      every function of ext/scalar_constants and gtc/constants returns, for float and double, a constant whose bit pattern is the
                correctly rounded (nearest, ties-to-even) value of the quantity it names, computed independently to 80 digits (mpmath)
  definition    abs, sign, floor, ceil, trunc, round, fract, mod, modf, min, max, clamp, step, smoothstep, mix, fma, isnan, isinf, frexp, ldexp:
                the lane term is the GLSL definition (libm rounding primitives by name; arithmetic ring-equal; selections equal over all
                orderings of the operands, with NaN where the definition fixes it)
  bitcast       floatBitsToInt / floatBitsToUint / intBitsToFloat / uintBitsToFloat are the identity on the bit pattern (lossless)
  nan_aware     fmin / fmax (2, 3, 4 operands) / fclamp: result is NaN only if every operand is NaN, otherwise the min / max of the non-NaN operands
                (all orderings x NaN patterns)
  special       floor / ceil / trunc / round / roundEven map NaN to NaN, +-inf to +-inf (float-class abstract evaluation; over-approximation, so a
                result class set that excludes the required class is a proof of violation)
  round_even    roundEven: away from ties the result is round(x); ties are detected as fract(x) == 0.5; on a tie the value returned is the even
                neighbour (abstract evaluation over x = n + 1/2 with the sign of x and the parity of n)
  idiom         integer roundings written as  int(x + 0.5)  are matched structurally: the idiom is not round-to-nearest (fl(0.49999997f + 0.5f) = 1;
                odd integers above 2^23 move to the next even one)
  range         clamp / repeat / mirrorClamp / mirrorRepeat return values in [0, 1] (interval evaluation with  x - floor(x) in [0, 1])
"""
from fractions import Fraction
import math
from laneflow import term as tm
from laneflow import poly as P
from laneflow import gtypes as G
from laneflow import runner as R
from laneflow import rulelib as L
from laneflow import spec as S
from laneflow.poly import Poly
from fractions import Fraction
from laneflow import order as O
from laneflow import fclass as FC
from laneflow import interp as I
from laneflow.build import K, P as Par, Cfg

HDR = ('glm/glm.hpp', 'glm/ext/scalar_common.hpp', 'glm/ext/vector_common.hpp', 'glm/ext/scalar_constants.hpp', 'glm/gtc/constants.hpp', 'glm/gtx/common.hpp',
       'glm/gtx/compatibility.hpp', 'glm/gtx/wrap.hpp')
CFG = Cfg('common', headers=HDR, defines=('GLM_ENABLE_EXPERIMENTAL',))


# ---- constants ------------------------------------------------------------------------------------------------------------------------------

def _mp():
    import mpmath as mp
    mp.mp.dps = 80
    return mp


def constant_table():
    mp = _mp()
    one = mp.mpf(1)
    return {
        'zero': mp.mpf(0), 'one': one, 'two_pi': 2 * mp.pi, 'tau': 2 * mp.pi, 'root_pi': mp.sqrt(mp.pi), 'half_pi': mp.pi / 2, 'three_over_two_pi': 3 * mp.pi / 2,
        'quarter_pi': mp.pi / 4, 'one_over_pi': 1 / mp.pi, 'one_over_two_pi': 1 / (2 * mp.pi), 'two_over_pi': 2 / mp.pi, 'four_over_pi': 4 / mp.pi,
        'two_over_root_pi': 2 / mp.sqrt(mp.pi), 'one_over_root_two': 1 / mp.sqrt(2), 'root_half_pi': mp.sqrt(mp.pi / 2), 'root_two_pi': mp.sqrt(2 * mp.pi),
        'root_ln_four': mp.sqrt(mp.log(4)), 'e': mp.e, 'euler': mp.euler, 'root_two': mp.sqrt(2), 'root_three': mp.sqrt(3), 'root_five': mp.sqrt(5),
        'ln_two': mp.log(2), 'ln_ten': mp.log(10), 'ln_ln_two': mp.log(mp.log(2)), 'third': one / 3, 'two_thirds': 2 * one / 3,
        'golden_ratio': (1 + mp.sqrt(5)) / 2, 'pi': mp.pi, 'cos_one_over_two': mp.cos(one / 2),
    }


def nearest_bits(x, w):
    """bit pattern of the binary32 / binary64 value nearest (ties to even) to the mpmath number x (normal range)"""
    mp = _mp()
    p, bias, ebits = (24, 127, 8) if w == 32 else (53, 1023, 11)
    if x == 0:
        return 0
    sign = 1 if x < 0 else 0
    ax = abs(x)
    f = Fraction(int(mp.floor(ax * mp.mpf(2) ** 400)), 1 << 400)         # exact rational below x by < 2^-400
    e = int(mp.floor(mp.log(ax, 2)))
    while Fraction(2) ** e > f:
        e -= 1
    while Fraction(2) ** (e + 1) <= f:
        e += 1
    ulp = Fraction(2) ** (e - p + 1)
    qn = f / ulp
    n = qn.numerator // qn.denominator
    r = qn - n
    if r > Fraction(1, 2) or (r == Fraction(1, 2) and n % 2):
        n += 1
    if n == 1 << p:
        n >>= 1
        e += 1
    return (sign << (w - 1)) | ((e + bias) << (p - 1)) | (n - (1 << (p - 1)))


def constant_cases():
    cs = []
    tab = constant_table()
    for T in ('float', 'double'):
        sc = G.scalar(T)
        w = sc.elem * 8
        for nm_ in sorted(tab) + ['epsilon']:
            k = K('const_%s_%s' % (nm_, sc.tag), [Par('o', sc, False)], '*o = glm::%s<%s>();' % (nm_, sc.cpp), CFG)
            name = '%s<%s>()' % (nm_, T)

            def judge(ctx, k=k, nm_=nm_, name=name, w=w, T=T):
                err = ctx.compile_error(k)
                if err:
                    return [R.ob(name, 'existence', R.REFUTED, 'cannot be instantiated: ' + err, kernel=k.source())]
                it = ctx.fn(k)
                t = I.out_lane(it, 'o', 0, w // 8)
                if t.op != 'const':
                    return [R.ob(name, 'constant', R.UNDECIDED, 'not a compile-time constant: %s' % tm.show(t, 3))]
                if nm_ == 'epsilon':
                    want = tm.fconst(w, 2.0 ** (-23 if w == 32 else -52)).args[0]
                    what = '2^%d' % (-23 if w == 32 else -52)
                else:
                    want = nearest_bits(tab[nm_], w)
                    what = _mp().nstr(tab[nm_], 25)
                ok = t.args[0] == want
                return [R.ob(name, 'constant', R.PROVED if ok else R.REFUTED,
                             'bit pattern 0x%x is the %s nearest to %s' % (want, T, what) if ok else
                             'returns 0x%x (%r); the %s nearest to %s is 0x%x (%r)' % (t.args[0], tm.fval(t), T, what, want, tm.fval(tm.const(w, want))),
                             where=R.where_of(it, t) if not ok else None, kernel=k.source())]
            cs.append(R.Case(name, [k], judge))
    return cs


# ---- definitions --------------------------------------------------------------------------------------------------------------------------

def spec_case(name, rule, k, outty, specfn, nan=True, base=None, pre=None):
    """pre: lane -> boolean term, the part of the operand space on which GLSL defines the function (clamp: minVal <= maxVal); outside it every result
    is acceptable, so both sides are compared under that guard only"""
    def judge(ctx):
        err = ctx.compile_error(k)
        if err:
            return [R.ob(name, 'existence', R.REFUTED, 'cannot be instantiated: ' + err, kernel=k.source())]
        it = ctx.fn(k)
        lanes = L.out_lanes(ctx, k, outty, base)
        sp = specfn()
        res = []
        pc = P.PCtx()
        for lane, t in sorted(lanes.items(), key=lambda x: str(x[0])):
            oid = '%s[%s]' % (name, lane)
            want = sp[lane]
            want = want.t if isinstance(want, S.E) else want
            if pre is not None and t is not want:
                g_ = pre(lane)
                g_ = g_.t if isinstance(g_, S.E) else g_
                t, want = tm.select(g_, t, tm.zeros(t.w)), tm.select(g_, want, tm.zeros(t.w))
            if t is want:
                st, detail = R.PROVED, 'term identical to the definition'
            elif outty.isfloat:
                st, detail = S.compare(t, want, pc=pc, nan=nan)
                if st == R.UNDECIDED:
                    wit = L.pattern_witness(t, want)
                    if wit:
                        st, detail = R.REFUTED, 'differs from the definition for the input bit patterns %s: %#x versus %#x (got %s ; definition %s)' % (wit[0], wit[1], wit[2], tm.show(t, 4), tm.show(want, 4))
            else:
                from laneflow import bitlogic as BL
                if t.w == 1 or (t.op == 'concat' and all(p.op == 'const' for p in t.args[1:])):
                    b1 = tm.slice_(t, 0, 1)
                    b2 = tm.slice_(want, 0, 1)
                    r = b1 is b2 or BL.separate(b1, b2)
                    st, detail = (R.PROVED, 'same predicate') if r is True else ((R.REFUTED, 'differs when ' + r) if r else (R.UNDECIDED, tm.show(t, 4)))
                else:
                    st, detail = R.UNDECIDED, 'got %s ; definition %s' % (tm.show(t, 4), tm.show(want, 4))
            res.append(R.ob(oid, rule, st, detail, where=R.where_of(it, t) if st != R.PROVED else None, kernel=k.source()))
        return res
    return R.Case(name, [k], judge)


def definition_cases(T, tier):
    """the GLSL definitions, for the scalar overload and for every vector length (each component against the definition applied to the components of the
    operands, including the mixed vector / scalar overloads)"""
    cs = []
    sc = G.scalar(T)
    w = sc.elem * 8
    c = lambda x: S.const(w, x)
    bt = G.scalar('bool')
    for Lv in (0, 1, 2, 3, 4):
        ty = sc if Lv == 0 else G.vec(Lv, T)
        bty = bt if Lv == 0 else G.vec(Lv, 'bool')
        lanes = [0] if Lv == 0 else list(range(Lv))
        tg = sc.tag if Lv == 0 else ty.tag
        pX, pY, pZ = Par('x', ty), Par('y', ty), Par('z', ty)
        sY, sZ = Par('y', sc), Par('z', sc)
        X = lambda nm='x', i=0, ty=ty: S.lane(nm, ty, i)
        Sx = lambda nm: S.lane(nm, sc, 0)

        def add(name, rule, params, body, lanefn, outty=None, nan=True, kname=None, ty=ty, tg=tg, lanes=lanes, pre=None):
            outty = outty or ty
            k = K('%s_%s' % (kname or ''.join(ch if ch.isalnum() else '_' for ch in name), tg), [Par('o', outty, False)] + params, body, CFG)
            cs.append(spec_case('%s<%s>' % (name, tg), rule, k, outty, lambda: {i: lanefn(i) for i in lanes}, nan=nan, pre=pre))
        fn1 = lambda f: (lambda i: S.fn(f, X('x', i)))
        add('abs(x)', 'definition', [pX], '*o = abs(*x);', lambda i: S.fabs(X('x', i)))
        add('floor(x)', 'definition', [pX], '*o = floor(*x);', fn1('floor'))
        add('ceil(x)', 'definition', [pX], '*o = ceil(*x);', fn1('ceil'))
        add('trunc(x)', 'definition', [pX], '*o = trunc(*x);', fn1('trunc'))
        add('round(x)', 'definition', [pX], '*o = round(*x);', fn1('round'))
        add('fract(x)', 'definition', [pX], '*o = fract(*x);', lambda i: X('x', i) - S.fn('floor', X('x', i)))
        add('mod(x,y)', 'definition', [pX, pY], '*o = mod(*x, *y);', lambda i: X('x', i) - X('y', i) * S.fn('floor', X('x', i) / X('y', i)))
        add('sign(x)', 'definition', [pX], '*o = sign(*x);', lambda i: S.sel(c(0).lt(X('x', i)), c(1), S.sel(X('x', i).lt(c(0)), c(-1), c(0))), nan=False)
        add('min(x,y)', 'definition', [pX, pY], '*o = min(*x, *y);', lambda i: S.gmin(X('x', i), X('y', i)))
        add('max(x,y)', 'definition', [pX, pY], '*o = max(*x, *y);', lambda i: S.gmax(X('x', i), X('y', i)))
        # GLSL: clamp is min(max(x, minVal), maxVal), undefined when minVal > maxVal -- compared on minVal <= maxVal only (max(min(x, hi), lo) is as good)
        le = lambda a_, b_: tm.fcmp('ole', a_.t, b_.t)
        add('clamp(x,lo,hi)', 'definition', [pX, pY, pZ], '*o = clamp(*x, *y, *z);', lambda i: S.gmin(S.gmax(X('x', i), X('y', i)), X('z', i)), pre=lambda i: le(X('y', i), X('z', i)))
        # step: 0 if x < edge, otherwise 1 -- total, also for NaN operands (the comparison is false)
        add('step(edge,x)', 'definition', [pY, pX], '*o = step(*y, *x);', lambda i: S.sel(X('x', i).lt(X('y', i)), c(0), c(1)))
        add('mix(x,y,a)', 'definition', [pX, pY, pZ], '*o = mix(*x, *y, *z);', lambda i: X('x', i) * (1 - X('z', i)) + X('y', i) * X('z', i))
        add('mix(x,y,bool)', 'definition', [pX, pY, Par('b', bty)], '*o = mix(*x, *y, *b);',
            lambda i, bty=bty: S.sel(tm.slice_(tm.inp('b', bty.lanes[i] * 8 if Lv else 0, 8), 0, 1), X('y', i), X('x', i)), kname='mixb')

        def smooth(e0, e1, x):
            t = S.gclamp((x - e0) / (e1 - e0), c(0), c(1))
            return t * t * (3 - 2 * t)
        add('smoothstep(e0,e1,x)', 'definition', [pY, pZ, pX], '*o = smoothstep(*y, *z, *x);', lambda i: smooth(X('y', i), X('z', i), X('x', i)), nan=False)
        add('fma(a,b,c)', 'definition', [pX, pY, pZ], '*o = fma(*x, *y, *z);', lambda i: X('x', i) * X('y', i) + X('z', i))
        add('isnan(x)', 'definition', [pX], '*o = isnan(*x);', lambda i: tm.zext(tm.fcmp('uno', X('x', i).t, tm.fconst(w, 0.0)), 8), outty=bty)
        add('isinf(x)', 'definition', [pX], '*o = isinf(*x);', lambda i: tm.zext(tm.fcmp('oeq', tm.fabs(X('x', i).t), tm.fconst(w, float('inf'))), 8), outty=bty)
        if Lv:
            # the overloads that take a scalar for some operands
            add('mod(v,s)', 'definition', [pX, sY], '*o = mod(*x, *y);', lambda i: X('x', i) - Sx('y') * S.fn('floor', X('x', i) / Sx('y')), kname='mod_vs')
            add('min(v,s)', 'definition', [pX, sY], '*o = min(*x, *y);', lambda i: S.gmin(X('x', i), Sx('y')), kname='min_vs')
            add('max(v,s)', 'definition', [pX, sY], '*o = max(*x, *y);', lambda i: S.gmax(X('x', i), Sx('y')), kname='max_vs')
            add('clamp(v,s,s)', 'definition', [pX, sY, sZ], '*o = clamp(*x, *y, *z);', lambda i: S.gmin(S.gmax(X('x', i), Sx('y')), Sx('z')), kname='clamp_vss', pre=lambda i: le(Sx('y'), Sx('z')))
            add('step(s,v)', 'definition', [sY, pX], '*o = step(*y, *x);', lambda i: S.sel(X('x', i).lt(Sx('y')), c(0), c(1)), kname='step_sv')
            add('mix(v,v,s)', 'definition', [pX, pY, sZ], '*o = mix(*x, *y, *z);', lambda i: X('x', i) * (1 - Sx('z')) + X('y', i) * Sx('z'), kname='mix_vvs')
            add('smoothstep(s,s,v)', 'definition', [sY, sZ, pX], '*o = smoothstep(*y, *z, *x);', lambda i: smooth(Sx('y'), Sx('z'), X('x', i)), nan=False, kname='smoothstep_ssv')
    return cs


# ---- bit casts, libm plumbing --------------------------------------------------------------------------------------------------------------

def plumbing_cases(T):
    cs = []
    sc = G.scalar(T)
    w = sc.elem * 8
    tg = sc.tag
    it_, ut = (G.scalar('int'), G.scalar('uint')) if T == 'float' else (G.scalar('int64'), G.scalar('uint64'))
    if T == 'float':
        for fn_, a, b in (('floatBitsToInt', sc, it_), ('floatBitsToUint', sc, ut), ('intBitsToFloat', it_, sc), ('uintBitsToFloat', ut, sc)):
            k = K('%s_%s' % (fn_, tg), [Par('o', b, False), Par('x', a)], '*o = %s(*x);' % fn_, CFG)

            def judge(ctx, k=k, fn_=fn_, b=b):
                it = ctx.fn(k)
                t = I.out_lane(it, 'o', 0, b.elem)
                ok = t is tm.inp('x', 0, w)
                return [R.ob(fn_, 'bitcast', R.PROVED if ok else R.REFUTED, 'the result is the argument\'s bit pattern, unchanged' if ok else 'result is %s' % tm.show(t, 4), kernel=k.source())]
            cs.append(R.Case(fn_, [k], judge))
    i32 = G.scalar('int')
    k = K('modf_%s' % tg, [Par('o', sc, False), Par('i', sc, False), Par('x', sc)], '*o = modf(*x, *i);', CFG)

    def jm(ctx):
        it = ctx.fn(k)
        x = tm.inp('x', 0, w)
        r, o = I.out_lane(it, 'o', 0, sc.elem), I.out_lane(it, 'i', 0, sc.elem)
        ok = r is tm.fn('modf.ret', [x], w) and o is tm.fn('modf.out', [x], w)
        if not ok:
            # not the library call: the derived terms evaluated exactly at the inputs where a hand-written split goes wrong - both parts carry the sign of x
            # (modf(-3) = (-0, -3), modf(-0) = (-0, -0)) and an infinite argument has the fractional part +-0, not inf - inf
            from laneflow import ceval as CE
            sign = 1 << (w - 1)
            for v, fr, ip in ((-3.0, sign, CE.f2b(w, -3.0)), (-0.0, sign, sign), (float('inf'), 0, CE.f2b(w, float('inf'))), (float('-inf'), sign, CE.f2b(w, float('-inf'))), (2.5, CE.f2b(w, 0.5), CE.f2b(w, 2.0)),
                              (-2.5, CE.f2b(w, -0.5), CE.f2b(w, -2.0))):
                try:
                    gr, go = CE.evaluate(r, {x: CE.f2b(w, v)}), CE.evaluate(o, {x: CE.f2b(w, v)})
                except CE.NoValue:
                    continue
                nan = lambda b: CE.b2f(w, b) != CE.b2f(w, b)
                if (gr != fr and not (nan(gr) and nan(fr))) or go != ip:
                    return [R.ob('modf<%s>' % tg, 'definition', R.REFUTED, 'modf(%r): fractional part %#x and integral part %#x, the definition (both parts carry the sign of x; a fractional part of +-0 for an infinite x) gives %#x and %#x; ret %s ; out %s' % (
                        v, gr, go, fr, ip, tm.show(r, 3), tm.show(o, 3)), where=R.where_of(ctx.fn(k), r), kernel=k.source())]
        return [R.ob('modf<%s>' % tg, 'definition', R.PROVED if ok else R.UNDECIDED, 'fractional and integral part both come from one libm modf(x)' if ok else 'ret %s ; out %s' % (tm.show(r, 3), tm.show(o, 3)), kernel=k.source())]
    cs.append(R.Case('modf<%s>' % tg, [k], jm))
    k2 = K('frexp_%s' % tg, [Par('o', sc, False), Par('e', i32, False), Par('x', sc)], '*o = frexp(*x, *e);', CFG)

    def jf(ctx):
        it = ctx.fn(k2)
        x = tm.inp('x', 0, w)
        r, o = I.out_lane(it, 'o', 0, sc.elem), I.out_lane(it, 'e', 0, 4)
        ok = r is tm.fn('frexp.ret', [x], w) and o is tm.fn('frexp.out', [x], 32)
        return [R.ob('frexp<%s>' % tg, 'definition', R.PROVED if ok else R.UNDECIDED, 'significand and exponent both come from one libm frexp(x)' if ok else 'ret %s ; out %s' % (tm.show(r, 3), tm.show(o, 3)), kernel=k2.source())]
    cs.append(R.Case('frexp<%s>' % tg, [k2], jf))
    k3 = K('ldexp_%s' % tg, [Par('o', sc, False), Par('x', sc), Par('e', i32)], '*o = ldexp(*x, *e);', CFG)

    def jl(ctx):
        it = ctx.fn(k3)
        r = I.out_lane(it, 'o', 0, sc.elem)
        ok = r is tm.fn('ldexp', [tm.inp('x', 0, w), tm.inp('e', 0, 32)], w)
        return [R.ob('ldexp<%s>' % tg, 'definition', R.PROVED if ok else R.UNDECIDED, 'libm ldexp(x, exp)' if ok else tm.show(r, 4), kernel=k3.source())]
    cs.append(R.Case('ldexp<%s>' % tg, [k3], jl))
    return cs


# ---- NaN-aware minimum / maximum ----------------------------------------------------------------------------------------------------------

def nan_aware_cases(T):
    cs = []
    sc = G.scalar(T)
    w = sc.elem * 8
    tg = sc.tag
    names = 'xyzu'
    isn = lambda e: tm.fcmp('uno', e.t, tm.fconst(w, 0.0))

    def f2(a, b, mn):
        core = S.gmin(a, b) if mn else S.gmax(a, b)
        return S.sel(isn(a), b, S.sel(isn(b), a, core))
    for n in (2, 3, 4):
        for fn_, mn in (('fmin', True), ('fmax', False)):
            ps = [Par(names[i], sc) for i in range(n)]
            k = K('%s%d_%s' % (fn_, n, tg), [Par('o', sc, False)] + ps, '*o = %s(%s);' % (fn_, ', '.join('*' + names[i] for i in range(n))), CFG)

            def spec(n=n, mn=mn):
                es = [S.lane(names[i], sc, 0) for i in range(n)]
                r = es[0]
                for e in es[1:]:
                    r = f2(r, e, mn)
                return {0: r}
            cs.append(nan_case('%s(%d operands)<%s>' % (fn_, n, tg), k, sc, spec))
    k = K('fclamp_%s' % tg, [Par('o', sc, False), Par('x', sc), Par('y', sc), Par('z', sc)], '*o = fclamp(*x, *y, *z);', CFG)
    cs.append(nan_case('fclamp<%s>' % tg, k, sc, lambda: {0: f2(f2(S.lane('x', sc, 0), S.lane('y', sc, 0), False), S.lane('z', sc, 0), True)}))
    # the vector overloads (separate code in ext/vector_common.inl): vector / vector and vector / scalar operand forms, every lane with the same definition
    for L_ in (1, 2, 3, 4):
        vt = G.vec(L_, T)
        forms = []
        for fn_, mn in (('fmin', True), ('fmax', False)):
            forms.append((fn_ + '(v,v)', [('x', vt), ('y', vt)], '%s(*x, *y)' % fn_, lambda es, mn=mn: f2(es[0], es[1], mn)))
            forms.append((fn_ + '(v,s)', [('x', vt), ('y', sc)], '%s(*x, *y)' % fn_, lambda es, mn=mn: f2(es[0], es[1], mn)))
            forms.append((fn_ + '(v,v,v)', [('x', vt), ('y', vt), ('z', vt)], '%s(*x, *y, *z)' % fn_, lambda es, mn=mn: f2(f2(es[0], es[1], mn), es[2], mn)))
            forms.append((fn_ + '(v,v,v,v)', [('x', vt), ('y', vt), ('z', vt), ('u', vt)], '%s(*x, *y, *z, *u)' % fn_, lambda es, mn=mn: f2(f2(f2(es[0], es[1], mn), es[2], mn), es[3], mn)))
        forms.append(('fclamp(v,v,v)', [('x', vt), ('y', vt), ('z', vt)], 'fclamp(*x, *y, *z)', lambda es: f2(f2(es[0], es[1], False), es[2], True)))
        forms.append(('fclamp(v,s,s)', [('x', vt), ('y', sc), ('z', sc)], 'fclamp(*x, *y, *z)', lambda es: f2(f2(es[0], es[1], False), es[2], True)))
        for fname, ps, call, sp in forms:
            kname = ''.join(ch if ch.isalnum() else '_' for ch in fname)
            k = K('nanv_%s_%d%s' % (kname, L_, tg), [Par('o', vt, False)] + [Par(n_, t_) for n_, t_ in ps], '*o = %s;' % call, CFG)
            cs.append(nan_vec_case('%s<vec%d,%s>' % (fname, L_, tg), k, vt, ps, sp))
    return cs


def nan_vec_case(name, k, vt, ps, sp):
    def judge(ctx):
        err = ctx.compile_error(k)
        if err:
            return [R.ob(name, 'existence', R.REFUTED, 'cannot be instantiated: ' + err, kernel=k.source())]
        it = ctx.fn(k)
        lanes = L.out_lanes(ctx, k, vt)
        res = []
        for i in sorted(lanes):
            es = [S.lane(n_, t_, i if t_.kind == 'vec' else 0) for n_, t_ in ps]
            want = sp(es).t
            t = lanes[i]
            oid = '%s[%d]' % (name, i)
            if not (O.in_fragment(t) and O.in_fragment(want)):
                res.append(R.ob(oid, 'nan_aware', R.UNDECIDED, 'not a comparison-only term: %s' % tm.show(t, 4)))
                continue
            r = O.equivalent(t, want, nan=True)
            if r is True:
                res.append(R.ob(oid, 'nan_aware', R.PROVED, 'min / max of the non-NaN operands of this lane in every ordering x NaN case', kernel=k.source()))
            elif r:
                res.append(R.ob(oid, 'nan_aware', R.REFUTED, 'in the case [%s] the lane is %s, the NaN-aware definition %s' % (r[1], r[2], r[3]), where=R.where_of(it, t), kernel=k.source()))
            else:
                res.append(R.ob(oid, 'nan_aware', R.UNDECIDED, tm.show(t, 4)))
        return res
    return R.Case(name, [k], judge)


def nan_case(name, k, sc, specfn):
    def judge(ctx):
        err = ctx.compile_error(k)
        if err:
            return [R.ob(name, 'existence', R.REFUTED, 'cannot be instantiated: ' + err, kernel=k.source())]
        it = ctx.fn(k)
        t = I.out_lane(it, 'o', 0, sc.elem)
        want = specfn()[0].t
        if not (O.in_fragment(t) and O.in_fragment(want)):
            return [R.ob(name, 'nan_aware', R.UNDECIDED, 'not a comparison-only term: %s' % tm.show(t, 4))]
        r = O.equivalent(t, want, nan=True)
        if r is True:
            return [R.ob(name, 'nan_aware', R.PROVED, 'for every ordering of the operands and every pattern of NaN operands the result is the min / max of the non-NaN operands (NaN only if all are NaN)', kernel=k.source())]
        if r:
            return [R.ob(name, 'nan_aware', R.REFUTED, 'in the case [%s] the function returns %s, the NaN-aware definition %s' % (r[1], r[2], r[3]), where=R.where_of(it, t), kernel=k.source())]
        return [R.ob(name, 'nan_aware', R.UNDECIDED, tm.show(t, 4))]
    return R.Case(name, [k], judge)


# ---- special values of the rounding family (float-class abstract evaluation) ---------------------------------------------------------------

def special_cases(T):
    cs = []
    sc = G.scalar(T)
    w = sc.elem * 8
    tg = sc.tag
    x = tm.inp('x', 0, w)
    for fn_ in ('floor', 'ceil', 'trunc', 'round', 'roundEven', 'fract', 'abs', 'sign'):
        k = K('sp_%s_%s' % (fn_, tg), [Par('o', sc, False), Par('x', sc)], '*o = %s(*x);' % fn_, CFG)

        def judge(ctx, k=k, fn_=fn_):
            it = ctx.fn(k)
            t = I.out_lane(it, 'o', 0, sc.elem)
            res = []
            if fn_ in ('floor', 'ceil', 'trunc', 'round', 'roundEven'):
                probes = [(FC.NAN, FC.NAN, 'NaN'), (FC.PI, FC.PI, '+inf'), (FC.NI, FC.NI, '-inf'), (FC.PZ, FC.PZ | FC.NZ, '+-0'), (FC.NZ, FC.PZ | FC.NZ, '+-0')]
            elif fn_ == 'fract':
                probes = [(FC.NAN, FC.NAN, 'NaN'), (FC.PZ, FC.PZ | FC.NZ, '+-0')]
            elif fn_ == 'abs':
                probes = [(FC.NAN, FC.NAN, 'NaN'), (FC.PI, FC.PI, '+inf'), (FC.NI, FC.PI, '+inf'), (FC.NF, FC.PF, 'a positive value'), (FC.PF, FC.PF, 'a positive value')]
            else:
                probes = [(FC.PI, FC.PF, '1'), (FC.NI, FC.NF, '-1'), (FC.PF, FC.PF, '1'), (FC.NF, FC.NF, '-1'), (FC.PZ, FC.PZ | FC.NZ, '0'), (FC.NZ, FC.PZ | FC.NZ, '0')]
            for cls, want, wn in probes:
                m = FC.Eval({x: cls}).f(t)
                oid = '%s(%s)<%s>' % (fn_, FC.NAMES[cls], tg)
                if m & ~want == 0 and m:
                    res.append(R.ob(oid, 'special', R.PROVED, 'result class %s' % FC.name(m), kernel=k.source()))
                elif m & want == 0:
                    res.append(R.ob(oid, 'special', R.REFUTED, '%s(%s) is never %s: its value lies in %s' % (fn_, FC.NAMES[cls], wn, FC.name(m)), where=R.where_of(it, t), kernel=k.source()))
                else:
                    res.append(R.ob(oid, 'special', R.UNDECIDED, 'result class %s, expected %s' % (FC.name(m), wn), kernel=k.source()))
            return res
        cs.append(R.Case('special:%s<%s>' % (fn_, tg), [k], judge))
    return cs


# ---- integer rounding idiom -------------------------------------------------------------------------------------------------------------------

def idiom_cases(T):
    cs = []
    sc = G.scalar(T)
    w = sc.elem * 8
    tg = sc.tag
    for fn_, oty in (('iround', G.scalar('int')), ('uround', G.scalar('uint'))):
        k = K('%s_%s' % (fn_, tg), [Par('o', oty, False), Par('x', sc)], '*o = %s(*x);' % fn_, CFG)

        def judge(ctx, k=k, fn_=fn_):
            it = ctx.fn(k)
            t = I.out_lane(it, 'o', 0, 4)
            x = tm.inp('x', 0, w)
            name = '%s<%s>' % (fn_, tg)
            if t.op in ('fptosi', 'fptoui'):
                a = t.args[0]
                if (fn_ == 'uround') != (t.op == 'fptoui'):
                    return [R.ob(name, 'idiom', R.REFUTED,
                                 '%s converts with %s: %s' % (fn_, t.op, 'a nearest integer in (2^31, 2^32) is representable in the unsigned result type but the conversion goes through int (undefined; 2147483648 on x86)'
                                                              if fn_ == 'uround' else 'negative values are not representable in the unsigned intermediate type'),
                                 where=R.where_of(it, t), kernel=k.source())]
                if a.op == 'fn' and a.args[0] in ('round', 'rint', 'nearbyint', 'roundeven') and a.args[1] is x:
                    return [R.ob(name, 'idiom', R.PROVED, 'conversion of %s(x): a nearest integer, exact' % a.args[0], kernel=k.source())]
                if a.op == 'fadd' and any(p.op == 'const' and tm.fval(p) == 0.5 for p in a.args) and any(p is x for p in a.args):
                    pred = '0.49999997f' if w == 32 else '0.49999999999999994'
                    big = ' and the odd integer 8388609.f (2^23 + 1) gives 8388610' if w == 32 else ''
                    return [R.ob(name, 'idiom', R.REFUTED,
                                 'int(x + 0.5) is not round-to-nearest: the addition rounds, so %s (the predecessor of 0.5) gives 1 instead of 0%s' % (pred, big),
                                 where=R.where_of(it, t), kernel=k.source())]
            return [R.ob(name, 'idiom', R.UNDECIDED, tm.show(t, 4))]
        cs.append(R.Case('%s<%s>' % (fn_, tg), [k], judge))
    return cs


# ---- texture-coordinate wrapping: range [0, 1] ------------------------------------------------------------------------------------------------

def interval(t, memo):
    """(lo, hi) bounds of a float term over finite inputs, or None.  x - floor(x) is in [0, 1]; |x| >= 0."""
    r = memo.get(t, 0)
    if r != 0:
        return r
    r = _interval(t, memo)
    memo[t] = r
    return r


INF = float('inf')


def _interval(t, memo):
    op = t.op
    if op == 'const':
        v = tm.fval(t)
        return (v, v) if v == v else None
    if op == 'in':
        return (-INF, INF)
    if op == 'fsub':
        a, b = t.args
        if b.op == 'fn' and b.args[0] == 'floor' and b.args[1] is a:
            return (0.0, 1.0)
        ia, ib = interval(a, memo), interval(b, memo)
        if ia is None or ib is None:
            return None
        lo, hi = ia[0] - ib[1], ia[1] - ib[0]
        return None if lo != lo or hi != hi else (lo, hi)
    if op == 'fadd':
        ia, ib = interval(t.args[0], memo), interval(t.args[1], memo)
        if ia is None or ib is None:
            return None
        lo, hi = ia[0] + ib[0], ia[1] + ib[1]
        return None if lo != lo or hi != hi else (lo, hi)
    if op == 'fneg':
        ia = interval(t.args[0], memo)
        return None if ia is None else (-ia[1], -ia[0])
    if op == 'fabs':
        ia = interval(t.args[0], memo)
        if ia is None:
            return None
        lo = 0.0 if ia[0] <= 0 <= ia[1] else min(abs(ia[0]), abs(ia[1]))
        return (lo, max(abs(ia[0]), abs(ia[1])))
    if op == 'select':
        c, a, b = t.args
        # |x| written as a selection
        if c.op == 'fcmp' and c.args[0] in ('ole', 'olt') and c.args[1].op == 'const' and tm.fval(c.args[1]) == 0 and a is c.args[2] and b is tm.fneg(a):
            return interval(tm.fabs(a), memo)
        ia, ib = interval(a, memo), interval(b, memo)
        if ia is None or ib is None:
            return None
        # the comparison refines the arm that is one of its operands:  (p < q ? . : .)
        if c.op == 'fcmp' and c.args[0] in ('olt', 'ole', 'ogt', 'oge'):
            p_, q_ = c.args[1], c.args[2]
            if c.args[0] in ('ogt', 'oge'):
                p_, q_ = q_, p_
            ip, iq = interval(p_, memo), interval(q_, memo)
            if ip is not None and iq is not None:
                # true arm: p <= q holds ; false arm (finite operands): p >= q holds
                if a is p_:
                    ia = (ia[0], min(ia[1], iq[1]))
                if a is q_:
                    ia = (max(ia[0], ip[0]), ia[1])
                if b is p_:
                    ib = (max(ib[0], iq[0]), ib[1])
                if b is q_:
                    ib = (ib[0], min(ib[1], ip[1]))
        return (min(ia[0], ib[0]), max(ia[1], ib[1]))
    if op in ('minnum', 'maxnum'):
        ia, ib = interval(t.args[0], memo), interval(t.args[1], memo)
        if ia is None or ib is None:
            return None
        f = min if op == 'minnum' else max
        return (f(ia[0], ib[0]), f(ia[1], ib[1]))
    if op == 'fn' and t.args[0] in ('floor', 'ceil', 'trunc', 'round'):
        ia = interval(t.args[1], memo)
        if ia is None:
            return None
        return (math.floor(ia[0]) if ia[0] > -INF else -INF, math.ceil(ia[1]) if ia[1] < INF else INF)
    return None


def range_cases(T):
    cs = []
    sc = G.scalar(T)
    tg = sc.tag
    for fn_ in ('clamp', 'repeat', 'mirrorClamp', 'mirrorRepeat'):
        k = K('wrap_%s_%s' % (fn_, tg), [Par('o', sc, False), Par('x', sc)], '*o = %s(*x);' % fn_, CFG)

        def judge(ctx, k=k, fn_=fn_):
            it = ctx.fn(k)
            t = I.out_lane(it, 'o', 0, sc.elem)
            iv = interval(t, {})
            name = '%s(texcoord)<%s>' % (fn_, tg)
            if iv is None:
                return [R.ob(name, 'range', R.UNDECIDED, 'no interval for %s' % tm.show(t, 4), kernel=k.source())]
            ok = iv[0] >= 0.0 and iv[1] <= 1.0
            return [R.ob(name, 'range', R.PROVED if ok else R.UNDECIDED, 'value in [%g, %g] for every finite coordinate' % iv, kernel=k.source())]
        cs.append(R.Case('%s(texcoord)<%s>' % (fn_, tg), [k], judge))
    return cs


def canaries():
    sc = G.scalar('double')
    k = K('canary_pi', [Par('o', sc, False)], '*o = 3.14159265358979;', CFG)

    def j1(ctx):
        it = ctx.fn(k)
        t = I.out_lane(it, 'o', 0, 8)
        want = nearest_bits(_mp().pi, 64)
        return [R.ob('canary:pi-with-15-digits', 'constant', R.REFUTED if (t.op == 'const' and t.args[0] != want) else R.PROVED, 'bits 0x%x vs 0x%x' % (t.args[0] if t.op == 'const' else 0, want))]
    fl = G.scalar('float')
    pre = 'static float verif_bad_fmin(float a, float b){ return glm::min(a, b); }'
    k2 = K('canary_fmin', [Par('o', fl, False), Par('x', fl), Par('y', fl)], '*o = verif_bad_fmin(*x, *y);', CFG, pre=pre)
    c2 = nan_case('canary:fmin-as-plain-min', k2, fl, lambda: {0: S.sel(tm.fcmp('uno', S.lane('x', fl, 0).t, tm.fconst(32, 0.0)), S.lane('y', fl, 0),
                                                                   S.sel(tm.fcmp('uno', S.lane('y', fl, 0).t, tm.fconst(32, 0.0)), S.lane('x', fl, 0), S.gmin(S.lane('x', fl, 0), S.lane('y', fl, 0))))})
    c2.canary = True
    return [R.Case('canary:pi-with-15-digits', [k], j1, canary=True), c2]


# ---- gtx/common and gtx/compatibility helpers --------------------------------------------------------------------------------------------------------

def gtx_cases(T, tier):
    """fmod == std::fmod per component in the element type (no narrowing), openBounded / closeBounded, lerp == mix, saturate == clamp(x, 0, 1),
    isfinite, isdenormal (bit-level classes)"""
    cs = []
    cfgx = Cfg('gtxc', headers=HDR + ('glm/gtx/compatibility.hpp',), defines=('GLM_ENABLE_EXPERIMENTAL',))
    sc, bt = G.scalar(T), G.scalar('bool')
    w = sc.elem * 8
    tg = sc.tag
    c = lambda v: S.const(w, v)
    X = lambda nm='x': S.lane(nm, sc, 0)

    def add(name, params, body, outty, specfn, nan=True):
        k = K('%s_%s' % (''.join(ch if ch.isalnum() else '_' for ch in name), tg), [Par('o', outty, False)] + params, body, cfgx)
        cs.append(spec_case('%s<%s>' % (name, tg), 'gtx_helpers', k, outty, specfn, nan=nan))
    frem = lambda a, b: S.E(tm.mk('frem', (a.t, b.t), w))
    add('fmod(x,y)', [Par('x', sc), Par('y', sc)], '*o = glm::fmod(*x, *y);', sc, lambda: {0: frem(X(), X('y'))})
    for n in ((1, 4) if tier == 'quick' else (1, 2, 3, 4)):
        vt, bv = G.vec(n, T), G.vec(n, 'bool')
        V = lambda nm, vt=vt: S.vecE(nm, vt)
        add('fmod(vec%d,vec%d)' % (n, n), [Par('x', vt), Par('y', vt)], '*o = glm::fmod(*x, *y);', vt, lambda V=V, n=n: {i: frem(V('x')[i], V('y')[i]) for i in range(n)})
        add('fmod(vec%d,scalar)' % n, [Par('x', vt), Par('y', sc)], '*o = glm::fmod(*x, *y);', vt, lambda V=V, n=n: {i: frem(V('x')[i], X('y')) for i in range(n)})
        zb = lambda b_: tm.zext(b_, 8)
        add('openBounded(vec%d)' % n, [Par('x', vt), Par('y', vt), Par('z', vt)], '*o = openBounded(*x, *y, *z);', bv,
            lambda V=V, n=n: {i: zb(tm.and_(V('y')[i].lt(V('x')[i]), V('x')[i].lt(V('z')[i]))) for i in range(n)})
        add('closeBounded(vec%d)' % n, [Par('x', vt), Par('y', vt), Par('z', vt)], '*o = closeBounded(*x, *y, *z);', bv,
            lambda V=V, n=n: {i: zb(tm.and_(V('y')[i].le(V('x')[i]), V('x')[i].le(V('z')[i]))) for i in range(n)})
        if n == 1:
            continue          # gtx/compatibility declares lerp / saturate for scalars and vec2..vec4 only
        add('lerp(vec%d,vec%d,a)' % (n, n), [Par('x', vt), Par('y', vt), Par('z', sc)], '*o = lerp(*x, *y, *z);', vt, lambda V=V, n=n: {i: V('x')[i] * (1 - X('z')) + V('y')[i] * X('z') for i in range(n)})
        add('saturate(vec%d)' % n, [Par('x', vt)], '*o = saturate(*x);', vt, lambda V=V, n=n: {i: S.gclamp(V('x')[i], c(0), c(1)) for i in range(n)})
    add('lerp(x,y,a)', [Par('x', sc), Par('y', sc), Par('z', sc)], '*o = lerp(*x, *y, *z);', sc, lambda: {0: X() * (1 - X('z')) + X('y') * X('z')})
    add('saturate(x)', [Par('x', sc)], '*o = saturate(*x);', sc, lambda: {0: S.gclamp(X(), c(0), c(1))})
    inf = tm.fconst(w, float('inf'))
    add('isfinite(x)', [Par('x', sc)], '*o = glm::isfinite(*x);', bt, lambda: {0: tm.zext(tm.fcmp('one', tm.fabs(X().t), inf), 8)})
    return cs


# ---- roundEven on ties ---------------------------------------------------------------------------------------------------------------------------------

def round_even_cases(T):
    """roundEven returns the even neighbour on every tie: the four tie shapes x = +-(2k + 1/2), +-(2k + 3/2) with k a non-negative integer symbol
    (and k = 0) are pushed through the code; floor / ceil of (integer-valued polynomial + constant) is the polynomial + floor / ceil of the constant,
    comparisons are decided by signs.  Off ties the function returns round(x) (the library function, assumed to return a nearest integer)."""
    from rules.c19_hsv import ConeCtx, Undetermined
    import math
    sc = G.scalar(T)
    k = K('roundEven_ties_%s' % sc.tag, [Par('o', sc, False), Par('x', sc)], '*o = roundEven(*x);', CFG)
    kv = K('roundEven_ties_v3_%s' % sc.tag, [Par('o', G.vec(3, T), False), Par('x', G.vec(3, T))], '*o = roundEven(*x);', CFG)
    name = 'roundEven(ties)<%s>' % sc.tag
    Ksym = Poly.atom(('sym', 'k'))

    class IntCone(ConeCtx):
        def _split(self, p):
            c0 = p.t.get((), Fraction(0))
            ip = p - Poly.const(c0)
            if any(Fraction(cf).denominator != 1 for cf in ip.t.values()):
                raise Undetermined('not an integer-valued polynomial plus a constant')
            return ip, Fraction(c0)

        def _fpoly(self, t):
            if t.op == 'fn' and t.args[0] in ('floor', 'ceil', 'trunc'):
                p = self.fpoly(t.args[1])
                ip, c0 = self._split(p)
                kind = t.args[0]
                if kind == 'trunc':
                    # truncation is floor for a non-negative value and ceil for a non-positive one; the symbols are strictly positive, so a polynomial whose
                    # coefficients all have one sign has that sign
                    cfs = [Fraction(cf) for cf in p.t.values()]
                    if all(cf >= 0 for cf in cfs):
                        kind = 'floor'
                    elif all(cf <= 0 for cf in cfs):
                        kind = 'ceil'
                    else:
                        raise Undetermined('trunc of a value of undetermined sign')
                f = math.floor(c0) if kind == 'floor' else math.ceil(c0)
                return ip + Poly.const(f)
            if t.op == 'fn' and t.args[0] == 'round':
                raise Undetermined('round() reached on a tie shape')
            return super()._fpoly(t)

    def judge(ctx):
        res = []
        for kern, lanes_ty, nm in ((k, sc, name), (kv, G.vec(3, T), name.replace('(ties)', '(ties, vec3)'))):
            err = ctx.compile_error(kern)
            if err:
                res.append(R.ob(nm, 'existence', R.REFUTED, 'cannot be instantiated: ' + err, kernel=kern.source()))
                continue
            lanes = L.out_lanes(ctx, kern, lanes_ty)
            for lane, t in sorted(lanes.items(), key=lambda q: str(q[0])):
                xin = L.in_term('x', lanes_ty, lane)
                for zero in (False, True):
                    kk = Poly() if zero else Ksym
                    for desc, xs, want in (('x = 2k + 1/2', kk.scale(2) + Poly.const(Fraction(1, 2)), kk.scale(2)),
                                           ('x = 2k + 3/2', kk.scale(2) + Poly.const(Fraction(3, 2)), kk.scale(2) + Poly.const(2)),
                                           ('x = -(2k + 1/2)', -(kk.scale(2) + Poly.const(Fraction(1, 2))), -kk.scale(2)),
                                           ('x = -(2k + 3/2)', -(kk.scale(2) + Poly.const(Fraction(3, 2))), -(kk.scale(2) + Poly.const(2)))):
                        oid = '%s[%s].%s%s' % (nm, lane, desc, ', k = 0' if zero else ', k >= 1')
                        try:
                            got = IntCone({xin: xs}).fpoly(L.signbit_select(t))
                            d = got - want
                            if d.is_zero():
                                res.append(R.ob(oid, 'round_even_ties', R.PROVED, 'returns %s: the even neighbour' % P.show_poly(want), kernel=kern.source()))
                            elif any(P.atom_key(a_)[0] != 'sym' for a_ in d.atoms()):
                                res.append(R.ob(oid, 'round_even_ties', R.UNDECIDED, 'not decided: the result %s contains a quantity the integer-symbol reading does not model' % P.show_poly(got, limit=3), kernel=kern.source()))
                            else:
                                res.append(R.ob(oid, 'round_even_ties', R.REFUTED, 'returns %s on the tie %s; the even neighbour is %s (e.g. k = 1)' % (P.show_poly(got), desc, P.show_poly(want)), where=R.where_of(ctx.fn(kern), t), kernel=kern.source()))
                        except Undetermined as e:
                            res.append(R.ob(oid, 'round_even_ties', R.UNDECIDED, 'not decided: %s' % e, kernel=kern.source()))
                        except (P.NonFinite, P.TooBig, P.NeedAtom) as e:
                            res.append(R.ob(oid, 'round_even_ties', R.UNDECIDED, 'no normal form: %s' % type(e).__name__, kernel=kern.source()))
        return res
    return [R.Case(name, [k, kv], judge)]


def cases(tier):
    cs = []
    cs += canaries()
    cs += constant_cases()
    for T in ('float', 'double'):
        cs += definition_cases(T, tier)
        cs += plumbing_cases(T)
        cs += nan_aware_cases(T)
        cs += special_cases(T)
        cs += idiom_cases(T)
        cs += range_cases(T)
        cs += gtx_cases(T, tier)
        cs += round_even_cases(T)
    return cs


EXPLANATION = ('static: the common functions and constants are instantiated from /repo; constants are compared bit for bit with independently computed correctly rounded values; function lanes are '
               'compared with their GLSL definitions as terms (libm primitives by name, ring-equal arithmetic, selections over all orderings)')
ASSUMPTIONS = ['libm floor/ceil/trunc/round/fmin/fmax and the LLVM intrinsics they lower to behave as IEEE 754 / C99 specify',
               'per-value numeric claims of the statement (all 2^32 inputs) are not enumerated: only the clauses visible in the code shape are decided']
TRUSTED = ['clang/LLVM 14', 'tools/irtool.cc', 'laneflow term normaliser and domains', 'mpmath (80 digits) for the reference constants']
LEVEL = 'other'
