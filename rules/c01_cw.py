"""C01, gtx/component_wise: the reductions and the per-component normalise / scale conversions.

  comp_reduce     compAdd == sum of the components, compMul == product (polynomial identities; exact mod 2^w for integers);
                  compMin / compMax / fcompMin / fcompMax == the left fold of the scalar min / max / fmin / fmax overload over the components (sibling comparison with
                  the machinery of the scalar-agreement rule: identical term, ordering x NaN cases, bit-pattern witnesses)
  comp_normalize  compNormalize<floatType>(vec<L, T>): lane i == float(v_i) / max(T) for unsigned T, ((float(v_i) - min) / (max - min)) * 2 - 1 for signed T, v_i itself for float T
  comp_scale      compScale<T>(vec<L, floatType>): lane i == T(v_i * max(T)) for unsigned T, T(v_i * (max + 0.5) - 0.5) for signed T (conversion instruction of T's signedness)
each lane built from its own component only.
"""
from laneflow import term as tm
from laneflow import poly as P
from laneflow import gtypes as G
from laneflow import runner as R
from laneflow import rulelib as L
from laneflow import spec as S
from laneflow.build import K, P as Par, Cfg

CFG = Cfg('cw', headers=('glm/glm.hpp', 'glm/gtx/component_wise.hpp', 'glm/ext/scalar_common.hpp'))
LIMITS = {'uint8': (0, 255), 'uint16': (0, 65535), 'uint': (0, 4294967295), 'int8': (-128, 127), 'int16': (-32768, 32767), 'int': (-2147483648, 2147483647)}


def cases(tier, c01):
    cs = []
    lens = (1, 2, 3, 4)
    # ---- reductions ---------------------------------------------------------------------------------------------------------------------
    for T in (('float', 'int', 'double', 'uint') if tier == 'thorough' else ('float', 'int')):
        sc = G.scalar(T)
        w = sc.elem * 8
        for L_ in lens:
            vt = G.vec(L_, T)
            nm = 'vec%d<%s>' % (L_, T)
            for fn_, op in (('compAdd', '+'), ('compMul', '*')):
                k = K('%s_%s' % (fn_, vt.tag), [Par('o', sc, False), Par('v', vt)], '*o = %s(*v);' % fn_, CFG)

                def judge(ctx, k=k, fn_=fn_, op=op, vt=vt, sc=sc, w=w, nm=nm, L_=L_):
                    name = '%s(%s)' % (fn_, nm)
                    err = ctx.compile_error(k)
                    if err:
                        return [R.ob(name, 'existence', R.REFUTED, 'cannot be instantiated: ' + err, kernel=k.source())]
                    t = L.out_lanes(ctx, k, sc)[0]
                    pc = P.PCtx()
                    mod = None if sc.isfloat else 1 << w
                    want = P.Poly.const(0 if op == '+' else 1, mod)
                    for i in range(L_):
                        a = L.in_atom('v', vt, i, mod)
                        want = want + a if op == '+' else want * a
                    try:
                        got = pc.fpoly(t) if sc.isfloat else pc.ipoly(t, w)
                    except (P.NonFinite, P.TooBig, ValueError) as e:
                        return [R.ob(name, 'comp_reduce', R.UNDECIDED, 'no normal form: %r' % e, kernel=k.source())]
                    ok = got == want
                    return [R.ob(name, 'comp_reduce', R.PROVED if ok else (R.REFUTED if L.lanes_only(got - want) else R.UNDECIDED),
                                 '%s of the %d components' % ('sum' if op == '+' else 'product', L_) if ok else 'got %s ; expected %s' % (P.show_poly(got, limit=6), P.show_poly(want, limit=6)),
                                 where=R.where_of(ctx.fn(k), t) if not ok else None, kernel=k.source())]
                cs.append(R.Case('%s(%s)' % (fn_, nm), [k], judge))
            folds = [('compMin', 'min'), ('compMax', 'max')] + ([('fcompMin', 'fmin'), ('fcompMax', 'fmax')] if sc.isfloat else [])
            for fn_, sfn in folds:
                k = K('%s_%s' % (fn_, vt.tag), [Par('o', sc, False), Par('v', vt)], '*o = %s(*v);' % fn_, CFG)
                expr = '(*v)[0]'
                for i in range(1, L_):
                    expr = '%s(%s, (*v)[%d])' % (sfn, expr, i)
                kr = K('%s_ref_%s' % (fn_, vt.tag), [Par('o', sc, False), Par('v', vt)], '*o = %s;' % expr, CFG)

                def judge(ctx, k=k, kr=kr, fn_=fn_, sfn=sfn, sc=sc, w=w, nm=nm):
                    name = '%s(%s)' % (fn_, nm)
                    for kk in (k, kr):
                        err = ctx.compile_error(kk)
                        if err:
                            return [R.ob(name, 'existence', R.REFUTED, 'cannot be instantiated: ' + err, kernel=kk.source())]
                    a, b = L.out_lanes(ctx, k, sc)[0], L.out_lanes(ctx, kr, sc)[0]
                    st, detail = c01.compare(a, b, 'sel', sc.isfloat, w)
                    return [R.ob(name, 'comp_reduce', st, ('left fold of the scalar %s over the components: ' % sfn) + detail if st == R.PROVED else detail.replace('scalar overload', 'fold of the scalar ' + sfn).replace('vector lane', fn_),
                                 where=R.where_of(ctx.fn(k), a) if st != R.PROVED else None, kernel=k.source() + '\n' + kr.source())]
                cs.append(R.Case('%s(%s)' % (fn_, nm), [k, kr], judge))
    # ---- compNormalize / compScale ------------------------------------------------------------------------------------------------------------
    combos = [('float', 'uint8'), ('float', 'uint16'), ('float', 'int8'), ('float', 'int16'), ('double', 'uint'), ('double', 'int'), ('float', 'float')]
    if tier == 'thorough':
        combos += [('double', 'uint8'), ('double', 'int16'), ('double', 'double')]
    for F, T in combos:
        fs, ts = G.scalar(F), G.scalar(T)
        fw = fs.elem * 8
        for L_ in lens:
            vf, vi = G.vec(L_, F), G.vec(L_, T)
            kn = K('compNormalize_%s_%s' % (vi.tag, fs.tag), [Par('o', vf, False), Par('v', vi)], '*o = compNormalize<%s>(*v);' % fs.cpp, CFG)
            ksc = K('compScale_%s_%s' % (vi.tag, fs.tag), [Par('o', vi, False), Par('v', vf)], '*o = compScale<%s>(*v);' % ts.cpp, CFG)

            def jn(ctx, kn=kn, vf=vf, vi=vi, F=F, T=T, fw=fw, L_=L_, ts=ts):
                name = 'compNormalize<%s>(vec%d<%s>)' % (F, L_, T)
                err = ctx.compile_error(kn)
                if err:
                    return [R.ob(name, 'existence', R.REFUTED, 'cannot be instantiated: ' + err, kernel=kn.source())]
                lanes = L.out_lanes(ctx, kn, vf)
                res = []
                pc = P.PCtx()
                for i in range(L_):
                    x = L.in_term('v', vi, i)
                    if ts.isfloat:
                        spec = x
                    else:
                        lo, hi = LIMITS[T]
                        conv = S.E(tm.make('sitofp' if ts.signed else 'uitofp', (x,), fw))
                        if ts.signed:
                            spec = ((conv - float(lo)) / float(hi - lo) * 2.0 - 1.0).t
                        else:
                            spec = (conv / float(hi)).t
                    st, detail = (R.PROVED, 'the component itself') if lanes[i] is spec else S.compare(lanes[i], spec, pc=pc, nan=False)
                    res.append(R.ob('%s[%d]' % (name, i), 'comp_normalize', st, detail, where=R.where_of(ctx.fn(kn), lanes[i]) if st != R.PROVED else None, kernel=kn.source()))
                return res
            cs.append(R.Case('compNormalize<%s>(vec%d<%s>)' % (F, L_, T), [kn], jn))

            def jsc(ctx, ksc=ksc, vf=vf, vi=vi, F=F, T=T, fw=fw, L_=L_, ts=ts):
                name = 'compScale<%s>(vec%d<%s>)' % (T, L_, F)
                err = ctx.compile_error(ksc)
                if err:
                    return [R.ob(name, 'existence', R.REFUTED, 'cannot be instantiated: ' + err, kernel=ksc.source())]
                lanes = L.out_lanes(ctx, ksc, vi)
                res = []
                pc = P.PCtx()
                for i in range(L_):
                    x = S.lane('v', vf, i)
                    t = lanes[i]
                    oid = '%s[%d]' % (name, i)
                    if ts.isfloat:
                        ok = t is x.t
                        res.append(R.ob(oid, 'comp_scale', R.PROVED if ok else R.UNDECIDED, 'the component itself' if ok else tm.show(t, 4), kernel=ksc.source()))
                        continue
                    lo, hi = LIMITS[T]
                    want_op = 'fptosi' if ts.signed else 'fptoui'
                    core = t
                    while core.op in ('trunc', 'slice') or (core.op == 'concat' and all(p_.op == 'const' and p_.args[0] == 0 for p_ in core.args[1:])):
                        core = core.args[0]
                    if core.op not in ('fptosi', 'fptoui'):
                        res.append(R.ob(oid, 'comp_scale', R.UNDECIDED, 'not a float-to-integer conversion: %s' % tm.show(t, 4), kernel=ksc.source()))
                        continue
                    msgs = []
                    if core.op != want_op and core.w <= ts.elem * 8:
                        msgs.append('converts with %s although %s is %s' % (core.op, T, 'signed' if ts.signed else 'unsigned'))
                    spec = (x * (float(hi) + 0.5) - 0.5).t if ts.signed else (x * float(hi)).t
                    st, detail = S.compare(core.args[0], spec, pc=pc, nan=False)
                    if msgs:
                        st, detail = R.REFUTED, '; '.join(msgs)
                    res.append(R.ob(oid, 'comp_scale', st, ('%s(v * %s)' % (T, 'max' if not ts.signed else '(max + 0.5) - 0.5')) if st == R.PROVED else detail,
                                    where=R.where_of(ctx.fn(ksc), t) if st != R.PROVED else None, kernel=ksc.source()))
                return res
            cs.append(R.Case('compScale<%s>(vec%d<%s>)' % (T, L_, F), [ksc], jsc))
    return cs
