"""C13 — slerp / mix / lerp of quaternions.

The decision tree of every function (negation for the shorter arc, linear fallback above 1 - epsilon) is explored path by path; on each path the
four result lanes are polynomials over the lanes of x, y, the factor a and sin/cos/acos atoms.  With A = a*theta, theta = acos(c) the sines of
(1-a)*theta = theta - A are expanded by the angle-difference formula, cos(acos c) = c, sin(acos c) = sqrt(1 - c^2), and everything is reduced
modulo |x| = |y| = 1, sin^2 + cos^2 = 1:

  endpoints      the lanes with a := 0 are x, with a := 1 are +-y (z = y negated exactly when x.y < 0)            [slerp, mix, shortMix, fastMix, lerp]
  unit_length    |result|^2 == 1 on the spherical arm                                                            [slerp, mix, shortMix]
  angular_speed  x . result == cos(a * theta) and z . result == cos((1 - a) * theta): the result lies on the arc from x to z at the fraction a
                 of the angle (constant angular speed, any a)                                                    [slerp, mix, shortMix]
  shorter_arc    the angle is acos(|x.y|): c == x.z with z = -y exactly on the paths where x.y < 0, so theta <= pi/2   [slerp, shortMix]
  guard          acos is applied to c only on paths where 0 <= c <= 1 - epsilon (slerp) resp. c <= 1 - epsilon (mix): the argument of acos never
                 exceeds 1, and sin(theta) is not zero there                                                     [slerp, mix]
  symmetry       slerp(x, y, a) == sign(x.y) * slerp(y, x, 1 - a) on corresponding paths
  lerp           lerp(x, y, a) == x (1 - a) + y a exactly; dual-quaternion lerp blends with -a when the real parts are in opposite hemispheres
Not decided: unit length on the linear-fallback arm (within epsilon only), NaN freedom for inputs that are not exactly unit, the spin variant's
integer-multiple-of-pi reasoning, squad / intermediate.
"""
import os
from fractions import Fraction
from laneflow import term as tm
from laneflow import poly as P
from laneflow import gtypes as G
from laneflow import runner as R
from laneflow import rulelib as L
from laneflow import spec as S
from laneflow import interp as I
from laneflow.build import K, P as Par, Cfg
from laneflow.poly import Poly
from rules import c04 as Q4

HDR = ('glm/glm.hpp', 'glm/gtc/quaternion.hpp', 'glm/gtx/quaternion.hpp', 'glm/gtx/dual_quaternion.hpp', 'glm/gtx/compatibility.hpp')
CFG = Cfg('slerp', headers=HDR, defines=('GLM_ENABLE_EXPERIMENTAL',))
ONE, ZERO = Poly.const(1), Poly()


def trig_atoms(p):
    return [a for a in sorted(p.atoms()) if P.atom_key(a)[0] in ('fn:sin', 'fn:cos') and len(P.atom_key(a)) == 2]


def expand_angles(p, theta, A):
    """rewrite sin / cos of  m*theta + n*A  (m, n integers, |m|, |n| <= 2) in terms of sin/cos(theta), sin/cos(A).  theta, A: polynomials (A = a * theta)"""
    st, ct = Poly.atom(('fn:sin', ('P', theta))), Poly.atom(('fn:cos', ('P', theta)))
    sA, cA = Poly.atom(('fn:sin', ('P', A))), Poly.atom(('fn:cos', ('P', A)))

    def sc(m, n):
        # (sin, cos) of m*theta + n*A
        def mult(s1, c1, k):
            s, c = ZERO, ONE
            for _ in range(abs(k)):
                s, c = s * c1 + c * s1, c * c1 - s * s1
            return (s, c) if k >= 0 else (-s, c)
        s1, c1 = mult(st, ct, m)
        s2, c2 = mult(sA, cA, n)
        return s1 * c2 + c1 * s2, c1 * c2 - s1 * s2
    for a in trig_atoms(p):
        k = P.atom_key(a)
        arg = k[1][1]
        for m in range(-2, 3):
            for n in range(-2, 3):
                if (m, n) in ((1, 0), (0, 1)) or (m == 0 and n == 0):
                    continue
                if arg == theta.scale(m) + A.scale(n):
                    s_, c_ = sc(m, n)
                    p = p.subst(a, s_ if k[0] == 'fn:sin' else c_)
    return p


def acos_axioms(p, theta_atom_arg):
    """cos(acos c) -> c ; sin(acos c) -> sqrt(1 - c^2)   for theta = acos(c) given as the atom fn:acos(P(c))"""
    for a in trig_atoms(p):
        k = P.atom_key(a)
        arg = k[1][1]
        if len(arg.t) == 1:
            (m, cf), = arg.t.items()
            if len(m) == 1 and cf == 1 and P.atom_key(m[0])[0] == 'fn:acos':
                c = P.atom_key(m[0])[1][1]
                p = p.subst(a, c if k[0] == 'fn:cos' else Poly.atom(('sqrt', ('P', ONE - c * c))))
    return p


def abs_by_sign(p, dot, sg, pc):
    """|x.y| -> sign * x.y on a path that fixes the sign of x.y"""
    if sg is None:
        return p
    for a in sorted(p.atoms()):
        k = P.atom_key(a)
        if k[0] == 'fabs' and (k[1][1] == dot or k[1][1] == -dot):
            p = p.subst(a, dot.scale(sg))
    return p


def spin_pi_case(T):
    """the spin overload adds k half turns as k * pi~: pi~ must be pi correctly rounded to the element type -- a coarser constant (float's pi in a double computation)
    shifts every extra half turn by 8.7e-8 rad, so slerp(x, y, 1, k) misses +-y and the angular position is off by a k"""
    from laneflow import ceval as CE
    import math
    sc = G.scalar(T)
    w = sc.elem * 8
    qt, it_ = G.quat(T), G.scalar('int')
    k = K('spin_pi_%s' % sc.tag, [Par('o', qt, False), Par('a', qt), Par('b', qt), Par('s', sc), Par('i', it_)], '*o = slerp(*a, *b, *s, *i);', CFG)
    name = 'slerp_spin<%s>.pi' % sc.tag

    def judge(ctx):
        if ctx.compile_error(k):
            return []
        lanes = L.out_lanes(ctx, k, qt)
        want = CE.b2f(w, CE.f2b(w, math.pi))
        found = set()
        for t in lanes.values():
            for x in tm.walk(t):
                if x.op == 'fmul':
                    for i in (0, 1):
                        c, o = x.args[i], x.args[1 - i]
                        if c.op == 'const' and o.op in ('sitofp', 'uitofp'):
                            v = tm.fval(c)
                            if abs(abs(v) - math.pi) < 1e-3:
                                found.add(abs(v))
        if not found:
            return [R.ob(name, 'spin_constant', R.UNDECIDED, 'no product of the converted spin count with a constant near pi found', kernel=k.source())]
        res = []
        for v in sorted(found):
            ok = v == want
            res.append(R.ob(name, 'spin_constant', R.PROVED if ok else R.REFUTED,
                            'the spin count is multiplied by %r, pi correctly rounded to the element type' % v if ok else
                            'the spin count is multiplied by %r; pi correctly rounded to %s is %r: every extra half turn is off by %.3g rad (slerp(x, y, 1, k) misses +-y by k times that)' % (v, T, want, abs(v - math.pi)),
                            kernel=k.source()))
        return res
    return R.Case(name, [k], judge)


def spin_endpoint(got, cx):
    """a = 1 in the spin overload: the sines are sin(-k*pi~) and sin(theta + k*pi~) with k an integer and pi~ the rounded pi.  Read pi~ as pi:
    sin(k pi) = 0 and cos(k pi) = sigma with sigma^2 = 1.  Returns the rewritten lanes and sigma (None if no such atom occurs)."""
    sigma = Poly.atom(('spin_sign',))
    found = [False]

    def split(arg):
        # arg = rest + c * K with K the converted spin count (an opaque non-input atom times the constant pi~)
        for m, cf in arg.t.items():
            if len(m) == 1 and P.atom_key(m[0])[0] not in ('in', 'fn:acos', 'fn:atan2') and abs(abs(float(cf)) - 3.141592653589793) < 1e-6:
                rest = arg - Poly({m: cf})
                return rest, (1 if cf > 0 else -1)
        return None

    def rw(p):
        for a_ in trig_atoms(p):
            k_ = P.atom_key(a_)
            sp_ = split(k_[1][1])
            if sp_ is None:
                continue
            rest, sgn_ = sp_
            found[0] = True
            # sin(rest +- k pi) = sin(rest) cos(k pi) ; cos(rest +- k pi) = cos(rest) cos(k pi)
            base = Poly.atom((k_[0], ('P', rest))) if not rest.is_zero() else (ZERO if k_[0] == 'fn:sin' else ONE)
            p = p.subst(a_, base * sigma)
        return p
    out = tuple(Q4.deep(g, rw, cx) for g in got)
    # sigma^2 -> 1
    sa = list(sigma.t)[0][0]
    out = tuple(P.reduce_ideal(g, sa, ONE) if sa in g.atoms() else g for g in out)
    return out, (sigma if found[0] else None)


def sincos_of_acos(p):
    return acos_axioms(p, None)


def zero_angle(p):
    """sin(0) -> 0, cos(0) -> 1"""
    for a in trig_atoms(p):
        k = P.atom_key(a)
        if k[1][1].is_zero():
            p = p.subst(a, ZERO if k[0] == 'fn:sin' else ONE)
    return p


def interp_case(fn_, T, lay='xyzw', negate=True, spin=False):
    """fn_ in slerp / mix / shortMix"""
    sc = G.scalar(T)
    tg = sc.tag
    qt = G.quat(T)
    pX, pY, pA = Par('x', qt), Par('y', qt), Par('a', sc)
    sp = [Par('k', G.scalar('int'))] if spin else []
    sa = ', *k' if spin else ''
    kn = fn_ + ('_spin' if spin else '')
    k = K('%s_%s' % (kn, tg), [Par('o', qt, False), pX, pY, pA] + sp, '*o = %s(*x, *y, *a%s);' % (fn_, sa), CFG)
    k0 = K('%s_a0_%s' % (kn, tg), [Par('o', qt, False), pX, pY] + sp, '*o = %s(*x, *y, %s(0)%s);' % (fn_, sc.cpp, sa), CFG)
    k1 = K('%s_a1_%s' % (kn, tg), [Par('o', qt, False), pX, pY] + sp, '*o = %s(*x, *y, %s(1)%s);' % (fn_, sc.cpp, sa), CFG)
    ks = K('%s_sym_%s' % (kn, tg), [Par('o', qt, False), pX, pY, pA] + sp, '*o = %s(*y, *x, %s(1) - *a%s);' % (fn_, sc.cpp, sa), CFG)
    kz = K('%s_k0_%s' % (kn, tg), [Par('o', qt, False), pX, pY, pA], '*o = %s(*x, *y, *a, 0);' % fn_, CFG) if spin else None
    kplain = K('%s_%s' % (fn_, tg), [Par('o', qt, False), pX, pY, pA], '*o = %s(*x, *y, *a);' % fn_, CFG) if spin else None
    name = '%s%s<%s>' % (fn_, '(spin k)' if spin else '', tg)

    def judge(ctx):
        for kk in (k, k0, k1, ks):
            err = ctx.compile_error(kk)
            if err:
                return [R.ob(name, 'existence', R.REFUTED, 'cannot be instantiated: ' + err, kernel=kk.source())]
        x, y = Q4.qin('x', qt), Q4.qin('y', qt)
        a = L.in_atom('a', sc, 0)
        dot = sum((p_ * q_ for p_, q_ in zip(x, y)), Poly())
        units = lambda p_: Q4.unit(Q4.unit(p_, x), y)
        res = []

        def paths(kern):
            lanes = L.out_lanes(ctx, kern, qt)
            return P.decision_paths(lambda asg: P.DecisionCtx(asg), lambda cx: tuple(cx.fpoly(lanes[c]) for c in 'wxyz'))

        def sign_of_dot(asg, infos):
            """-1 / +1 if the path fixes the sign of x.y (pair (x.y, 0)), else None"""
            for at, v in asg.items():
                if at[0] != 'pair':
                    continue
                pa, pb = infos[at]
                if pb.is_zero() and pa == dot:
                    return -1 if v == 'lt' else 1
                if pa.is_zero() and pb == dot:
                    return 1 if v == 'lt' else -1
            return None

        def paths_sg(kern):
            """decision paths, split by the sign of x.y where the path does not fix it although the result depends on |x.y|"""
            for asg, infos, got, cx in paths(kern):
                sg_ = sign_of_dot(asg, infos)
                if sg_ is None and any(P.atom_key(a_)[1][1] in (dot, -dot) for g in got for a_ in Q4.fabs_atoms(g)):
                    yield asg, infos, got, cx, 1
                    yield asg, infos, got, cx, -1
                else:
                    yield asg, infos, got, cx, sg_

        def regime(asg, infos):
            return ', '.join('%s %s %s' % (P.show_poly(infos[at][0], limit=2), '<' if v == 'lt' else '>', P.show_poly(infos[at][1], limit=2)) for at, v in asg.items() if at[0] == 'pair')[:260]
        def path_witness(d, asg, infos):
            """an explicit pair of unit quaternions (rational) that takes the path and at which the residual d is non-zero"""
            if not P.transparent(d):
                return None
            cons = [(v, infos[at][0] - infos[at][1]) for at, v in asg.items() if at[0] == 'pair']
            if not all(P.transparent(e_) for _, e_ in cons):
                return None
            if cons:
                return P.find_witness(cons[0][0], cons[0][1], [d], extra=cons[1:], spheres=Q4.sph(x, y), tries=800)
            return P.find_witness('gt', ONE, [d], spheres=Q4.sph(x, y), tries=800)
        # ---- end points -----------------------------------------------------------------------------------------------------------------
        for kern, nm_, tgt in ((k0, 'a=0', 'x'), (k1, 'a=1', 'y')):
            seen = set()
            for asg, infos, got, cx, sg in paths_sg(kern):
                key = tuple(g.key() for g in got) + (sg,)
                if key in seen:
                    continue
                seen.add(key)
                want = x if tgt == 'x' else tuple(q_.scale(sg if (sg is not None and negate) else 1) for q_ in y)
                ok = True
                spin_sign = None
                if spin and tgt == 'y':
                    got, spin_sign = spin_endpoint(got, cx)
                    if spin_sign is not None:
                        want = tuple(q_ * spin_sign for q_ in want)
                for i in range(4):
                    g = Q4.deep(got[i], lambda q_: abs_by_sign(zero_angle(q_), dot, sg, cx), cx)
                    g = Q4.deep(g, lambda q_: acos_axioms(q_, None), cx)
                    if spin_sign is not None:
                        g = Q4.deep(g, lambda q_: sincos_of_acos(q_), cx)
                    d = units(P.reduce_inv(P.reduce_sqrt(P.reduce_inv(g - want[i]))))
                    d2 = Q4.clear_invsqrt(P.reduce_inv(g - want[i]), cx)
                    if not d.is_zero() and not (d2 is not None and units(P.reduce_sqrt(d2)).is_zero()):
                        ok = False
                        bad = d
                status, wit = (R.PROVED, '') if ok else (R.UNDECIDED, '')
                if not ok:
                    env = path_witness(bad, asg, infos)
                    if env is not None:
                        status, wit = R.REFUTED, ' -- e.g. at %s' % P.show_env(env)
                res.append(R.ob('%s.endpoint(%s).path%d' % (name, nm_, len(seen)), 'endpoints', status,
                                '%s(x, y, %s) == %s  [%s]' % (fn_, nm_[2:], 'x' if tgt == 'x' else ('-y' if (sg == -1 and negate) else 'y'), regime(asg, infos)) if ok else
                                '%s(x, y, %s) is not %s: residual %s%s  [%s]' % (fn_, nm_[2:], 'x' if tgt == 'x' else '+-y on the shorter arc', P.show_poly(bad, limit=4), wit, regime(asg, infos)), kernel=kern.source()))
        # ---- spherical arm ----------------------------------------------------------------------------------------------------------------
        seen = set()
        nsph = 0
        sph_rows = []
        for asg, infos, got, cx, sg in paths_sg(k):
            key = tuple(g.key() for g in got) + (sg,)
            if key in seen:
                continue
            seen.add(key)
            got = tuple(Q4.deep(g, lambda q_: abs_by_sign(q_, dot, sg, cx), cx) for g in got)
            thetas = set()
            for g in got:
                for at in trig_atoms(g):
                    for m in P.atom_key(at)[1][1].t:
                        for b in m:
                            if P.atom_key(b)[0] in ('fn:acos', 'fn:atan2'):
                                thetas.add(b)
            if not thetas:
                continue                      # linear fallback arm
            nsph += 1
            pid = '%s.spherical%d' % (name, nsph)
            if len(thetas) != 1:
                res.append(R.ob(pid, 'unit_length', R.UNDECIDED, 'several angle atoms'))
                continue
            (tha,) = thetas
            kth = P.atom_key(tha)
            theta = Poly.var(tha)
            A = theta * a
            if spin:
                # a * phi with phi = theta + k*pi: taken from the code as the argument of the sine that multiplies z (any sine argument that is a multiple of a)
                for g in got:
                    for at in trig_atoms(g):
                        arg = P.atom_key(at)[1][1]
                        q_, r_ = P.divmod_poly(arg, a)
                        if r_.is_zero() and not q_.is_zero() and (q_ - theta).atoms() and not any(P.atom_key(b)[0] == 'in' and P.atom_key(b)[1] in ('x', 'y') for b in (q_ - theta).atoms()):
                            A = arg
            z = tuple(q_.scale(sg if (sg is not None and negate) else 1) for q_ in y)
            if kth[0] == 'fn:acos':
                c = kth[1][1]
                sin_t = Poly.atom(('sqrt', ('P', ONE - c * c)))
            else:
                # shortMix: theta = atan2(sqrt(1 - c^2), c): sin = sqrt(1 - c^2), cos = c
                sin_arg, c = kth[1][1], kth[2][1]
                sin_t = sin_arg
            st, ct = Poly.atom(('fn:sin', ('P', theta))), Poly.atom(('fn:cos', ('P', theta)))

            sta, cta = list(st.t)[0][0], list(ct.t)[0][0]

            def nrm(p_):
                p_ = Q4.deep(p_, lambda q_: expand_angles(q_, theta, A).subst(sta, sin_t).subst(cta, c), cx)
                p_ = units(Q4.sincos(p_))
                y_ = Q4.clear_invsqrt(P.reduce_inv(p_), cx)
                p_ = P.reduce_sqrt(y_) if y_ is not None else P.reduce_sqrt(P.reduce_inv(p_))
                return Q4.sincos(units(p_))
            rg = regime(asg, infos)
            # shorter arc: c == x . z
            if negate:
                d = units(c - sum((p_ * q_ for p_, q_ in zip(x, z)), Poly()))
                okc = d.is_zero() and sg is not None
                st_ = R.PROVED if okc else R.UNDECIDED
                if not okc and not d.is_zero() and path_witness(d, asg, infos) is not None:
                    st_ = R.REFUTED
                res.append(R.ob(pid + '.shorter_arc', 'shorter_arc', st_,
                                'the angle is acos(x . z) with z = %sy on the path where x.y %s 0, i.e. acos(|x.y|) <= pi/2' % ('-' if sg == -1 else '', '<' if sg == -1 else '>=') if okc else
                                'cos(theta) - x.z = %s (sign of x.y on the path: %s)' % (P.show_poly(d, limit=3), sg), kernel=k.source()))
            def sph_witness(resid):
                """x = 1, y = (c, s, 0, 0) with (c, s) a rational point of the circle on the side of this path, a = 2 (so sin / cos of A = 2 theta [+ 2 k pi] are rational):
                an exact evaluation of the residual that is non-zero proves the identity fails there"""
                xat = [list(q_.t)[0][0] for q_ in x]
                yat = [list(q_.t)[0][0] for q_ in y]
                for cv, sv in ((Fraction(3, 5), Fraction(4, 5)), (Fraction(5, 13), Fraction(12, 13)), (Fraction(-3, 5), Fraction(4, 5)), (Fraction(-5, 13), Fraction(12, 13)), (Fraction(4, 5), Fraction(-3, 5))):
                    if sg is not None and (cv < 0) != (sg == -1):
                        continue
                    env = {xat[0]: Fraction(1), xat[1]: Fraction(0), xat[2]: Fraction(0), xat[3]: Fraction(0), yat[0]: cv, yat[1]: sv, yat[2]: Fraction(0), yat[3]: Fraction(0)}
                    try:
                        ok_path = True
                        for at, v in asg.items():
                            if at[0] != 'pair':
                                continue
                            val = P.eval_poly(infos[at][0] - infos[at][1], env)
                            if not ((val < 0) if v == 'lt' else (val > 0)):
                                ok_path = False
                                break
                        if not ok_path:
                            continue
                        cz = P.eval_poly(c, env)                 # cos(theta) on this path
                        sz2 = 1 - cz * cz
                        sz = P._isqrt_frac(sz2)
                        if sz is None or sz == 0:
                            continue
                        r_ = resid
                        aid = list(a.t)[0][0]
                        for a_val, k_val in ((3, 1), (2, 0), (3, 0), (5, 1)):
                            import math

                            def cheb(m):
                                # (sin(m theta), cos(m theta)) from (sz, cz)
                                sn, cs_ = Fraction(0), Fraction(1)
                                for _ in range(abs(m)):
                                    sn, cs_ = sn * cz + cs_ * sz, cs_ * cz - sn * sz
                                return (sn if m >= 0 else -sn), cs_

                            def subst_all(pp, depth=0):
                                pp = pp.subst(aid, Poly.const(a_val))
                                for at_ in sorted(pp.atoms()):
                                    ka = P.atom_key(at_)
                                    if ka[0] == 'sitofp':
                                        pp = pp.subst(at_, Poly.const(k_val))
                                for at_ in sorted(pp.atoms()):
                                    ka = P.atom_key(at_)
                                    if ka[0] in ('fn:sin', 'fn:cos') and len(ka) == 2:
                                        arg = subst_all(ka[1][1], depth + 1) if depth < 3 else ka[1][1]
                                        mth = arg.t.get((tha,), Fraction(0))
                                        rest = arg - Poly({(tha,): mth})
                                        if not rest.is_const() or Fraction(mth).denominator != 1:
                                            raise P.CantEval('trig argument')
                                        rc = float(rest.cval() if rest.t else 0) / math.pi
                                        if abs(rc - round(rc)) > 1e-6:
                                            raise P.CantEval('trig argument not a multiple of pi')
                                        sn, cs_ = cheb(int(mth))
                                        sg_ = -1 if int(round(rc)) % 2 else 1
                                        pp = pp.subst(at_, Poly.const((sn if ka[0] == 'fn:sin' else cs_) * sg_))
                                return pp
                            try:
                                rr = subst_all(r_)
                                val = P.eval_poly(rr, env)
                            except P.CantEval:
                                continue
                            if val != 0:
                                return 'x = (1, 0, 0, 0), y = (%s, %s, 0, 0), a = %d%s: residual %s' % (cv, sv, a_val, (', k = %d' % k_val) if spin else '', val)
                        continue
                    except (P.CantEval, Exception) as ex_:
                        import sys, traceback
                        if os.environ.get('C13_DEBUG'): traceback.print_exc()
                        continue
                return None
            n2 = nrm(Q4.qnorm2(got) - ONE)
            wn = None if n2.is_zero() else sph_witness(n2)
            res.append(R.ob(pid + '.unit_length', 'unit_length', R.PROVED if n2.is_zero() else (R.REFUTED if wn else R.UNDECIDED),
                            '|result|^2 == 1 for unit x, y  [%s]' % rg if n2.is_zero() else 'residual %s%s' % (P.show_poly(n2, limit=4), (' -- |result|^2 - 1 is non-zero at ' + wn) if wn else ''), kernel=k.source()))
            sA, cA = Poly.atom(('fn:sin', ('P', A))), Poly.atom(('fn:cos', ('P', A)))
            dx = nrm(sum((p_ * q_ for p_, q_ in zip(x, got)), Poly()) - cA)
            # cos((1-a) theta) = cos(theta) cos(A) + sin(theta) sin(A)
            dz = nrm(sum((p_ * q_ for p_, q_ in zip(z, got)), Poly()) - (c * cA + sin_t * sA))
            oka = dx.is_zero() and dz.is_zero()
            wa = None if oka else (sph_witness(dx) if not dx.is_zero() else sph_witness(dz))
            res.append(R.ob(pid + '.angular_speed', 'angular_speed', R.PROVED if oka else (R.REFUTED if wa else R.UNDECIDED),
                            'x . result == cos(a theta) and z . result == cos((1 - a) theta): the result is on the arc x -> z at the fraction a of the angle  [%s]' % rg if oka else
                            'x.result - cos(a theta) = %s ; z.result - cos((1-a) theta) = %s%s' % (P.show_poly(dx, limit=3), P.show_poly(dz, limit=3), (' -- non-zero at ' + wa) if wa else ''), kernel=k.source()))
            # guard: acos only under c <= 1 - epsilon (and c >= 0 when the arc is shortened)
            hi = None
            too_high = None
            for at, v in asg.items():
                if at[0] != 'pair':
                    continue
                pa, pb = infos[at]
                for p1, p2, rel in ((pa, pb, v), (pb, pa, {'lt': 'gt', 'gt': 'lt'}[v])):
                    p1n = abs_by_sign(p1, dot, sg, cx)
                    if (p1 == c or p1n == c) and p2.is_const() and rel == 'lt' and Fraction(1, 2) < p2.cval() < 1:
                        hi = p2.cval()
                    elif (p1 == c or p1n == c) and p2.is_const() and rel == 'lt' and p2.cval() >= 1:
                        too_high = p2.cval()
            if hi is None and too_high is not None:
                # the only bound on cos(theta) admits cos(theta) = 1: for x == y the arm divides 0 by sin(0) = 0
                res.append(R.ob(pid + '.guard', 'guard', R.REFUTED,
                                'the spherical arm is entered whenever cos(theta) < %r, which includes cos(theta) = 1: for x == y (e.g. both the identity) theta = 0 and the result is sin(0) / sin(0) = NaN in every component  [%s]' % (float(too_high), rg),
                                kernel=k.source()))
                sph_rows.append((asg, infos, got, sg, theta, A, nrm))
                continue
            res.append(R.ob(pid + '.guard', 'guard', R.PROVED if hi is not None else R.UNDECIDED,
                            'acos / division by sin(theta) are reached only with cos(theta) < %s < 1: theta is bounded away from 0' % float(hi) if hi is not None else
                            'no path condition bounds cos(theta) below 1  [%s]' % rg, kernel=k.source()))
            sph_rows.append((asg, infos, got, sg, theta, A, nrm))
        if not nsph:
            res.append(R.ob(name + '.spherical', 'unit_length', R.UNDECIDED, 'no spherical arm found'))
        # ---- spin count 0 is the plain function ---------------------------------------------------------------------------------------------------
        if spin:
            la, lb = L.out_lanes(ctx, kz, qt), L.out_lanes(ctx, kplain, qt)
            for c in 'wxyz':
                st_, det = L.compare_terms(lb[c], la[c])
                res.append(R.ob('%s.k=0[%s]' % (name, c), 'spin_zero', st_, 'slerp(x, y, a, 0) == slerp(x, y, a): ' + det, kernel=kz.source()))
        # ---- symmetry ---------------------------------------------------------------------------------------------------------------------------
        if fn_ == 'slerp' and not spin:
            sym = []
            for asg, infos, got, cx in paths(ks):
                if any(P.atom_key(b)[0] == 'fn:acos' for g in got for at in trig_atoms(g) for m in P.atom_key(at)[1][1].t for b in m):
                    sym.append((asg, infos, got, sign_of_dot(asg, infos)))
            done = set()
            for asg, infos, got, sg, theta, A, nrm in sph_rows:
                for asg2, infos2, got2, sg2 in sym:
                    if sg2 != sg or sg is None or (sg,) in done:
                        continue
                    g2 = tuple(Q4.deep(g, lambda q_: abs_by_sign(q_, dot, sg, P.PCtx()), P.PCtx()) for g in got2)
                    ok = all(nrm(got[i] - g2[i].scale(sg)).is_zero() for i in range(4))
                    done.add((sg,))
                    res.append(R.ob('%s.symmetry(x.y %s 0)' % (name, '<' if sg == -1 else '>'), 'symmetry', R.PROVED if ok else R.UNDECIDED,
                                    'slerp(x, y, a) == %sslerp(y, x, 1 - a)' % ('-' if sg == -1 else ''), kernel=k.source() + '\n' + ks.source()))
        return res
    return R.Case(name, [k, k0, k1, ks] + ([kz, kplain] if spin else []), judge)


def lerp_cases(T):
    cs = []
    sc = G.scalar(T)
    tg = sc.tag
    qt = G.quat(T)
    pX, pY, pA = Par('x', qt), Par('y', qt), Par('a', sc)
    k = K('lerp_%s' % tg, [Par('o', qt, False), pX, pY, pA], '*o = lerp(*x, *y, *a);', CFG)

    def judge(ctx):
        pc = P.PCtx()
        got = Q4.poly_lanes(ctx, k, qt, pc)
        x, y, a = Q4.qin('x', qt), Q4.qin('y', qt), L.in_atom('a', sc, 0)
        return [Q4.judge_identity('lerp<%s>[%s]' % (tg, c), 'lerp', got[c], x[i] * (ONE - a) + y[i] * a, k.source(), text='x (1 - a) + y a') for i, c in enumerate('wxyz')]
    cs.append(R.Case('lerp<%s>' % tg, [k], judge))
    kf = K('fastMix_%s' % tg, [Par('o', qt, False), pX, pY, pA], '*o = fastMix(*x, *y, *a);', CFG)
    k0 = K('fastMix_a0_%s' % tg, [Par('o', qt, False), pX, pY], '*o = fastMix(*x, *y, %s(0));' % sc.cpp, CFG)
    k1 = K('fastMix_a1_%s' % tg, [Par('o', qt, False), pX, pY], '*o = fastMix(*x, *y, %s(1));' % sc.cpp, CFG)

    def judge_f(ctx):
        res = []
        x, y = Q4.qin('x', qt), Q4.qin('y', qt)
        for kern, want, nm_ in ((k0, x, 'a=0 -> x'), (k1, y, 'a=1 -> y')):
            lanes = L.out_lanes(ctx, kern, qt)
            ok = True
            n = 0
            for asg, infos, got, cx in P.decision_paths(lambda asg: P.DecisionCtx(asg), lambda cx: tuple(cx.fpoly(lanes[c]) for c in 'wxyz')):
                n += 1
                for i in range(4):
                    # normalise: x / sqrt(x.x) with x.x -> 1
                    g = Q4.renorm_atoms(got[i], lambda p_: Q4.unit(Q4.unit(p_, x), y), cx)
                    g = Q4.sqrt_square(g, cx)
                    d = Q4.unit(Q4.unit(P.reduce_inv(g - want[i]), x), y)
                    if not d.is_zero():
                        # the zero-length fallback of normalize (identity) is unreachable for unit operands: skip the path that returns the identity
                        if got[0] == ONE and all(q_.is_zero() for q_ in got[1:]):
                            continue
                        ok = False
            res.append(R.ob('fastMix<%s>.endpoint(%s)' % (tg, nm_), 'endpoints', R.PROVED if ok else R.UNDECIDED, 'normalised blend returns the end point for unit operands (%d paths)' % n, kernel=kern.source()))
        return res
    cs.append(R.Case('fastMix<%s>' % tg, [kf, k0, k1], judge_f))
    return cs


def dualquat_cases(T):
    """gtx/dual_quaternion: lerp(x, y, a) is the affine blend x (1 - a) + y (+-a) of all eight components, the sign of the second weight being the
    sign of dot(x.real, y.real) (so a = 0 returns x, a = 1 returns x (1 - 1) +- y = +-y on the hemisphere of x); normalize divides all eight
    components by |real|; identity is (1,0,0,0 ; 0,0,0,0)."""
    cs = []
    sc = G.scalar(T)
    tg = sc.tag
    dq = G.dualquat(T)
    keys = sorted(dq.lanes, key=lambda l_: dq.lanes[l_])
    k = K('dq_lerp_%s' % tg, [Par('o', dq, False), Par('x', dq), Par('y', dq), Par('a', sc)], '*o = lerp(*x, *y, *a);', CFG)

    def judge(ctx):
        err = ctx.compile_error(k)
        if err:
            return [R.ob('dualquat_lerp<%s>' % tg, 'existence', R.REFUTED, 'cannot be instantiated: ' + err, kernel=k.source())]
        lanes = L.out_lanes(ctx, k, dq)
        X = {l_: L.in_atom('x', dq, l_) for l_ in keys}
        Y = {l_: L.in_atom('y', dq, l_) for l_ in keys}
        a = L.in_atom('a', sc, 0)
        dot = sum((X[('real', c)] * Y[('real', c)] for c in 'xyzw'), Poly())
        res = []
        seen = {}
        signs = set()
        for asg, infos, got, cx in P.decision_paths(lambda asg: P.DecisionCtx(asg), lambda cx: tuple(cx.fpoly(lanes[l_]) for l_ in keys)):
            sg = None
            for at, v in asg.items():
                if at[0] == 'pair':
                    e_ = infos[at][0] - infos[at][1]
                    if e_ == dot:
                        sg = -1 if v == 'lt' else 1
                    elif e_ == -dot:
                        sg = -1 if v == 'gt' else 1
            key = tuple(g.key() for g in got) + (sg,)
            if key in seen:
                continue
            seen[key] = 1
            rg = ', '.join('%s %s %s' % (P.show_poly(infos[at][0], limit=3), '<' if v == 'lt' else '>', P.show_poly(infos[at][1], limit=3)) for at, v in asg.items() if at[0] == 'pair')[:200]
            for i, l_ in enumerate(keys):
                oid = 'dualquat_lerp<%s>.path%d[%s.%s]' % (tg, len(seen), l_[0], l_[1])
                if sg is None:
                    # the path does not fix the hemisphere: the result must not depend on it, i.e. both signs would have to give the lane (impossible unless a y == 0)
                    res.append(R.ob(oid, 'dualquat', R.UNDECIDED, 'the path [%s] does not test dot(x.real, y.real): the sign of the second weight cannot be the hemisphere' % rg, kernel=k.source()))
                    continue
                want = X[l_] * (ONE - a) + Y[l_] * a.scale(sg)
                d = got[i] - want
                if d.is_zero():
                    res.append(R.ob(oid, 'dualquat', R.PROVED, 'x (1 - a) %s y a  where %s' % ('-' if sg < 0 else '+', rg), kernel=k.source()))
                    continue
                st, wit = R.UNDECIDED, ''
                cons = [(v, infos[at][0] - infos[at][1]) for at, v in asg.items() if at[0] == 'pair']
                if P.transparent(d) and all(P.transparent(e_) for _, e_ in cons):
                    env = P.find_witness(cons[0][0], cons[0][1], [d], extra=cons[1:], tries=800) if cons else P.find_witness('gt', ONE, [d], tries=200)
                    if env is not None:
                        st, wit = R.REFUTED, ' -- e.g. at %s the lane differs from the blend by %s' % (P.show_env(env), P.eval_poly(d, env))
                res.append(R.ob(oid, 'dualquat', st, 'is %s, not x (1 - a) %s y a, where %s%s' % (P.show_poly(got[i], limit=4), '-' if sg < 0 else '+', rg, wit), kernel=k.source()))
            signs.add(sg)
        res.append(R.ob('dualquat_lerp<%s>.hemispheres' % tg, 'dualquat', R.PROVED if signs == {1, -1} else R.UNDECIDED,
                        'both hemispheres are distinguished (%d paths)' % len(seen) if signs == {1, -1} else 'paths found for the signs %s only' % sorted(signs, key=str), kernel=k.source()))
        return res
    cs.append(R.Case('dualquat_lerp<%s>' % tg, [k], judge))

    kn = K('dq_normalize_%s' % tg, [Par('o', dq, False), Par('x', dq)], '*o = normalize(*x);', CFG)
    ki = K('dq_identity_%s' % tg, [Par('o', dq, False)], '*o = dual_quat_identity<%s, glm::defaultp>();' % sc.cpp, CFG)

    def judge_n(ctx):
        res = []
        for kern in (kn, ki):
            err = ctx.compile_error(kern)
            if err:
                res.append(R.ob('dualquat.%s<%s>' % (kern.name, tg), 'existence', R.REFUTED, 'cannot be instantiated: ' + err, kernel=kern.source()))
        if res:
            return res
        pc = P.PCtx()
        lanes = L.out_lanes(ctx, kn, dq)
        X = {l_: L.in_atom('x', dq, l_) for l_ in keys}
        n2 = sum((X[('real', c)] * X[('real', c)] for c in 'xyzw'), Poly())
        for l_ in keys:
            oid = 'dualquat_normalize<%s>[%s.%s]' % (tg, l_[0], l_[1])
            try:
                g = pc.fpoly(lanes[l_])
            except (P.NonFinite, P.TooBig, ValueError) as e:
                res.append(R.ob(oid, 'dualquat', R.UNDECIDED, 'no normal form: %r' % e, kernel=kn.source()))
                continue
            # g == x / sqrt(n2)  <=>  g^2 n2 == x^2 and g x >= 0 (same sign: g / x is a positive function); decided through the square
            d = P.reduce_sqrt(P.reduce_inv(g * g * n2 - X[l_] * X[l_]))
            lin = P.reduce_sqrt(P.reduce_inv(g * Poly.atom(('sqrt', ('P', n2))) - X[l_]))
            ok = lin.is_zero()
            if ok:
                res.append(R.ob(oid, 'dualquat', R.PROVED, 'component / |real|', kernel=kn.source()))
            else:
                st = R.REFUTED if (P.transparent(d) and L.lanes_only(d) and not d.is_zero()) else R.UNDECIDED
                res.append(R.ob(oid, 'dualquat', st, 'lane * |real| - component = %s' % P.show_poly(lin, limit=4), kernel=kn.source()))
        li = L.out_lanes(ctx, ki, dq)
        for l_ in keys:
            want = tm.fconst(sc.elem * 8, 1.0 if l_ == ('real', 'w') else 0.0)
            res.append(R.ob('dual_quat_identity<%s>[%s.%s]' % (tg, l_[0], l_[1]), 'dualquat', R.PROVED if li[l_] is want else R.REFUTED if li[l_].op == 'const' else R.UNDECIDED,
                            'is %s' % tm.show(li[l_], 3), kernel=ki.source()))
        return res
    cs.append(R.Case('dualquat_normalize<%s>' % tg, [kn, ki], judge_n))
    return cs


# ---- memory layout / constructor-order configurations ------------------------------------------------------------------------------------------------

CFG_WXYZ = Cfg('slerp_wxyz', headers=HDR, defines=('GLM_ENABLE_EXPERIMENTAL', 'GLM_FORCE_QUAT_DATA_WXYZ'))
CFG_XYZW = Cfg('slerp_ctor_xyzw', headers=HDR, defines=('GLM_ENABLE_EXPERIMENTAL', 'GLM_FORCE_QUAT_DATA_XYZW'))


def layout_cases(tier):
    """every interpolation function returns, component by component (by name), the same term under GLM_FORCE_QUAT_DATA_WXYZ (other memory order) and under
    GLM_FORCE_QUAT_DATA_XYZW (other argument order of the four-scalar constructor) as in the default configuration"""
    cs = []
    for T in ('float', 'double'):
        sc = G.scalar(T)
        it_ = G.scalar('int')
        fns = [('slerp', 'q q s', '*o = slerp(*a, *b, *s);'), ('slerp_spin', 'q q s i', '*o = slerp(*a, *b, *s, *i);'), ('mix', 'q q s', '*o = mix(*a, *b, *s);'), ('lerp', 'q q s', '*o = lerp(*a, *b, *s);'),
               ('shortMix', 'q q s', '*o = shortMix(*a, *b, *s);'), ('fastMix', 'q q s', '*o = fastMix(*a, *b, *s);'), ('squad', 'q q q q s', '*o = squad(*a, *b, *c, *d, *s);'),
               ('intermediate', 'q q q', '*o = intermediate(*a, *b, *c);'), ('dualquat_lerp', 'd d s', '*o = lerp(*a, *b, *s);'), ('dualquat_normalize', 'd', '*o = normalize(*a);')]
        for fn_, sig, body in fns:
            isd = sig[0] == 'd'
            for cname, cfg, wx in (('wxyz', CFG_WXYZ, True), ('ctor_xyzw', CFG_XYZW, False)):
                def mkk(cfg_, wx_, suffix):
                    qt = (G.dualquat if isd else G.quat)(T, wxyz=wx_)
                    params = [Par('o', qt, False)]
                    names = iter('abcd')
                    for ch in sig.split():
                        if ch in 'qd':
                            params.append(Par(next(names), qt))
                        elif ch == 's':
                            params.append(Par('s', sc))
                        else:
                            params.append(Par('i', it_))
                    return K('lay_%s_%s%s' % (fn_, sc.tag, suffix), params, body, cfg_), qt
                k, qd = mkk(CFG, False, '')
                kc, qc = mkk(cfg, wx, '_' + cname)
                rename = {}
                for prm in kc.params:
                    if prm[0] in 'abcd':
                        for lane in qc.lanes:
                            rename[tm.inp(prm[0], qc.lanes[lane] * 8, qc.elem * 8)] = tm.inp(prm[0], qd.lanes[lane] * 8, qd.elem * 8)
                outs = [('%s' % (lane if isinstance(lane, str) else '.'.join(lane)), 'o', qd.lanes[lane], qc.lanes[lane], qd.elem) for lane in qd.lanes]
                cs.append(L.config_pair_case('%s<%s>@%s' % (fn_, sc.tag, cname), 'layout', k, kc, outs, rename=rename if wx else None,
                                             what='GLM_FORCE_QUAT_DATA_' + ('WXYZ' if wx else 'XYZW')))
    return cs


CFG_COMP = Cfg('slerp_comp', headers=HDR, defines=('GLM_ENABLE_EXPERIMENTAL',), noinline=(r'glm::mix<', r'glm::slerp<', r'glm::exp<', r'glm::log<', r'glm::inverse<'))


def composition_cases(tier):
    """squad and intermediate are compositions of other interpolation primitives; with those primitives kept as opaque calls the kernel must be the documented composition:
      squad(q1, q2, s1, s2, h)  == mix(mix(q1, q2, h), mix(s1, s2, h), 2 (1 - h) h)         (the oriented-arc mix on both levels)
      intermediate(p, c, n)     == exp((log(n * inverse(c)) + log(p * inverse(c))) / -4) * c"""
    cs = []
    for T in ('float', 'double'):
        sc = G.scalar(T)
        qt = G.quat(T)
        two, one, m4 = '%s(2)' % sc.cpp, '%s(1)' % sc.cpp, '%s(-4)' % sc.cpp
        pairs = [('squad', [Par(n_, qt) for n_ in 'abcd'] + [Par('s', sc)], '*o = squad(*a, *b, *c, *d, *s);',
                  '*o = mix(mix(*a, *b, *s), mix(*c, *d, *s), %s * (%s - *s) * *s);' % (two, one), 'mix(mix(q1, q2, h), mix(s1, s2, h), 2 (1 - h) h)'),
                 ('intermediate', [Par(n_, qt) for n_ in 'abc'], '*o = intermediate(*a, *b, *c);',
                  '{ %s iq = inverse(*b); *o = exp((log(*c * iq) + log(*a * iq)) / %s) * *b; }' % (qt.cpp, m4), 'exp((log(next * inverse(curr)) + log(prev * inverse(curr))) / -4) * curr')]
        for fn_, ps, body, ref, text in pairs:
            k = K('comp_%s_%s' % (fn_, sc.tag), [Par('o', qt, False)] + ps, body, CFG_COMP)
            kr = K('comp_%s_ref_%s' % (fn_, sc.tag), [Par('o', qt, False)] + ps, ref, CFG_COMP)
            name = '%s<%s>' % (fn_, sc.tag)

            def judge(ctx, k=k, kr=kr, name=name, text=text, qt=qt):
                for kk in (k, kr):
                    err = ctx.compile_error(kk)
                    if err:
                        return [R.ob(name, 'existence', R.REFUTED, 'cannot be instantiated: ' + err, kernel=kk.source())]
                a, b = L.out_lanes(ctx, k, qt), L.out_lanes(ctx, kr, qt)
                res = []
                for c in 'xyzw':
                    oid = '%s.composition[%s]' % (name, c)
                    if a[c] is b[c]:
                        res.append(R.ob(oid, 'composition', R.PROVED, 'the kernel is ' + text + ' (primitives kept opaque)', kernel=k.source()))
                        continue
                    # different opaque primitives (e.g. slerp where the definition says mix) are different functions: a definite difference; different scalar arguments are compared as polynomials
                    ca = sorted({x.args[0] for x in tm.walk(a[c]) if x.op == 'call'})
                    cb = sorted({x.args[0] for x in tm.walk(b[c]) if x.op == 'call'})
                    if ca != cb:
                        res.append(R.ob(oid, 'composition', R.REFUTED, 'not ' + text + ': the kernel calls %s where the definition calls %s' % (', '.join(n_[:60] for n_ in ca if n_ not in cb) or '-', ', '.join(n_[:60] for n_ in cb if n_ not in ca) or '-'),
                                        where=R.where_of(ctx.fn(k), a[c]), kernel=k.source() + '\n' + kr.source()))
                    else:
                        d = tm.diff(a[c], b[c])
                        res.append(R.ob(oid, 'composition', R.UNDECIDED, 'terms differ at %s: %s versus %s' % (d[0], tm.show(d[1], 3), tm.show(d[2], 3)), kernel=k.source() + '\n' + kr.source()))
                return res
            cs.append(R.Case(name + '.composition', [k, kr], judge))
    return cs


def cases(tier):
    cs = []
    cs += composition_cases(tier)
    for T in ('float', 'double'):
        cs.append(interp_case('slerp', T))
        cs.append(interp_case('slerp', T, spin=True))
        cs.append(interp_case('mix', T, negate=False))
        cs.append(interp_case('shortMix', T))
        cs += lerp_cases(T)
        cs += dualquat_cases(T)
        cs.append(spin_pi_case(T))
    cs += layout_cases(tier)
    cs += canaries()
    from rules import narrow
    cs += narrow.cases(cs, 'C13')
    return cs


def canaries():
    qt, sc = G.quat('float'), G.scalar('float')
    pre = ('static glm::quat verif_bad_lerp(glm::quat const& x, glm::quat const& y, float a){ return x * (1.f - a) + y * (a * a); }')
    k = K('canary_lerp', [Par('o', qt, False), Par('x', qt), Par('y', qt), Par('a', sc)], '*o = verif_bad_lerp(*x, *y, *a);', CFG, pre=pre)

    def judge(ctx):
        pc = P.PCtx()
        got = Q4.poly_lanes(ctx, k, qt, pc)
        x, y, a = Q4.qin('x', qt), Q4.qin('y', qt), L.in_atom('a', sc, 0)
        return [Q4.judge_identity('canary:lerp-with-squared-factor[w]', 'lerp', got['w'], x[0] * (ONE - a) + y[0] * a, k.source())]
    return [R.Case('canary:lerp-with-squared-factor', [k], judge, canary=True)]


EXPLANATION = ('static: slerp, mix, shortMix, fastMix and lerp of quaternions are instantiated from /repo; their decision trees are explored path by path and the result lanes, as polynomials with '
               'sin/cos/acos atoms, are checked for the end points, unit length, the position on the arc (x . result = cos(a theta)), the shorter-arc choice, the guard of acos / division and the x <-> y symmetry, '
               'modulo |x| = |y| = 1, the angle-difference formulas and cos(acos c) = c')
ASSUMPTIONS = ['float operations read as exact real arithmetic; x and y exactly unit', 'acos/sin/cos/atan2 are the mathematical functions (principal values)',
               'unit length on the linear-fallback arm, NaN freedom for nearly-unit inputs, the spin variant, squad and intermediate are not decided']
TRUSTED = ['clang/LLVM 14', 'tools/irtool.cc', 'laneflow normal forms', 'the trigonometric rewriting in rules/c13.py']
LEVEL = 'proof'
