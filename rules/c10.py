"""C10 — inverse, determinant and their gtc variants satisfy the defining identities.

determinant == Leibniz expansion; every entry of inverse == cofactor * inv(det) with det == Leibniz, and M*inverse(M) == I,
inverse(M)*M == I modulo the axiom inv(p)*p = 1 (exact polynomial division); inverseTranspose == transpose(inverse);
affineInverse == inverse on affine input; operator/ == multiplication by the inverse; adjugate == det*inverse.
"""
import itertools
from fractions import Fraction
from laneflow import term as tm
from laneflow import poly as P
from laneflow import gtypes as G
from laneflow import runner as R
from laneflow import rulelib as L
from laneflow.build import K, P as Par, Cfg
from laneflow.poly import Poly

HDR = ('glm/glm.hpp', 'glm/ext.hpp', 'glm/ext/matrix_integer.hpp')
CFG = Cfg('default', headers=HDR)
CFG_SSE2 = Cfg('sse2', defines=('GLM_FORCE_INTRINSICS',), flags=('-msse2',), headers=HDR + ('glm/gtc/type_aligned.hpp',))
CFG_AVX2 = Cfg('avx2', defines=('GLM_FORCE_INTRINSICS',), flags=('-mavx2', '-mfma'), headers=HDR + ('glm/gtc/type_aligned.hpp',))
NEEDS_X86 = True


def perm_sign(p):
    s = 1
    for i in range(len(p)):
        for j in range(i + 1, len(p)):
            if p[i] > p[j]:
                s = -s
    return s


def leibniz(E, n, mod=None):
    """E(row, col) -> Poly ; determinant of the n x n matrix"""
    tot = Poly({}, mod)
    for p in itertools.permutations(range(n)):
        t = Poly.const(perm_sign(p), mod)
        for i in range(n):
            t = t * E(i, p[i])
        tot = tot + t
    return tot


def minor(E, n, dr, dc, mod=None):
    rows = [i for i in range(n) if i != dr]
    cols = [j for j in range(n) if j != dc]
    if n == 1:
        return Poly.const(1, mod)
    return leibniz(lambda i, j: E(rows[i], cols[j]), n - 1, mod)


def spec_inverse(E, n):
    """{(c, r): Poly} of the inverse in GLM indexing [column][row], E(row, col)"""
    det = leibniz(E, n)
    invd = P.PCtx().inv(det)
    out = {}
    for c in range(n):
        for r in range(n):
            # element (row r, col c) of the inverse = cofactor(row c, col r) / det
            cof = minor(E, n, c, r)
            if (r + c) % 2:
                cof = -cof
            out[(c, r)] = cof * invd
    return out, det


def judge_lanes(name, rule, k, outty, spec, post=None):
    def judge(ctx):
        err = ctx.compile_error(k)
        if err:
            return [R.ob(name, 'existence', R.REFUTED, 'overload exists but cannot be instantiated: ' + err, kernel=k.source())]
        it = ctx.fn(k)
        pc = P.PCtx()
        res = []
        lanes = L.out_lanes(ctx, k, outty)
        sp = spec()
        for lane, t in sorted(lanes.items(), key=lambda x: str(x[0])):
            oid = '%s[%s]' % (name, ','.join(map(str, lane)) if isinstance(lane, tuple) else lane)
            try:
                got = L.to_poly(pc, t, outty)
                if post:
                    got = post(got)
                exp = sp[lane]
                if post:
                    exp = post(exp)
            except (P.NonFinite, P.TooBig) as e:
                res.append(R.ob(oid, rule, R.UNDECIDED, 'no normal form: %r' % e))
                continue
            st, detail = L.compare_poly(got, exp)
            nw = L.narrowing(t, outty.elem * 8) if outty.isfloat else None
            if nw is not None:
                res.append(R.ob(oid, rule, R.REFUTED, 'the %d-bit result passes through a %d-bit float (%s): it has float accuracy only, whatever the formula' % (outty.elem * 8, nw.w, tm.show(nw, 3)),
                                where=R.where_of(it, nw), kernel=k.source()))
                continue
            if st == R.UNDECIDED:
                # differences that survive with only inv atoms whose argument is a lane polynomial are real
                d = got - exp
                if all(P.atom_key(a)[0] == 'in' or (P.atom_key(a)[0] == 'inv' and L.lanes_only(P.atom_key(a)[1][1])) for a in d.atoms()):
                    d2 = P.reduce_inv(d)
                    if d2.is_zero():
                        st, detail = R.PROVED, ''
                    else:
                        st, detail = R.REFUTED, 'rational functions differ: got %s ; expected %s' % (P.show_poly(got, limit=6), P.show_poly(exp, limit=6))
            if st == R.PROVED:
                detail = 'normal form == ' + P.show_poly(exp, limit=4)
            res.append(R.ob(oid, rule, st, detail, where=R.where_of(it, t) if st != R.PROVED else None, kernel=k.source()))
        return res
    return R.Case(name, [k], judge)


def identity_case(name, k, mt, n):
    """M * inverse(M) == I and inverse(M) * M == I modulo inv(det)*det = 1"""
    def judge(ctx):
        err = ctx.compile_error(k)
        if err:
            return [R.ob(name, 'existence', R.REFUTED, 'cannot be instantiated: ' + err, kernel=k.source())]
        it = ctx.fn(k)
        pc = P.PCtx()
        lanes = L.out_lanes(ctx, k, mt)
        inv = {lane: pc.fpoly(t) for lane, t in lanes.items()}
        M = {lane: L.in_atom('m', mt, lane) for lane in mt.lanes}
        res = []
        for side in ('right', 'left'):
            for c in range(n):
                for r in range(n):
                    s = Poly()
                    for kk in range(n):
                        s = s + (M[(kk, r)] * inv[(c, kk)] if side == 'right' else inv[(kk, r)] * M[(c, kk)])
                    s = P.reduce_inv(s)
                    exp = Poly.const(1) if c == r else Poly()
                    oid = '%s:%s[%d,%d]' % (name, side, c, r)
                    if s == exp:
                        res.append(R.ob(oid, 'inverse_identity', R.PROVED, '(%s product)[%d][%d] reduces to %s with inv(det)*det -> 1' % (side, c, r, 1 if c == r else 0), kernel=k.source()))
                    else:
                        ok_atoms = all(P.atom_key(a)[0] in ('in', 'inv') for a in s.atoms())
                        res.append(R.ob(oid, 'inverse_identity', R.REFUTED if ok_atoms else R.UNDECIDED,
                                        '(%s product)[%d][%d] reduces to %s, expected %s' % (side, c, r, P.show_poly(s, limit=6), 1 if c == r else 0),
                                        where=R.where_of(it, lanes[(c, r)]), kernel=k.source()))
        return res
    return R.Case(name, [k], judge)


def cases(tier):
    cs = []
    ftypes = [('float', 'highp'), ('double', 'highp')]
    if tier == 'thorough':
        ftypes += [('float', 'mediump'), ('float', 'lowp'), ('double', 'mediump')]
    for T, Q in ftypes:
        cs += float_cases(T, Q)
    # the aligned types of the SIMD configurations have their own inverse / determinant code (simd/matrix.h for mat4, the aligned branch of inv3x3 built on
    # the SIMD cross product for mat3): the same definitions must hold there
    cs += float_cases('float', 'aligned_highp', CFG_SSE2)
    cs += float_cases('double', 'aligned_highp', CFG_SSE2)          # no SIMD specialisation for double at this level: the aligned branch runs on the generic vec4 cross overload
    if tier == 'thorough':
        cs += float_cases('float', 'aligned_mediump', CFG_SSE2)
        cs += float_cases('float', 'aligned_highp', CFG_AVX2)
        cs += float_cases('double', 'aligned_highp', CFG_AVX2)
    for T in (('int', 'uint') if tier == 'quick' else ('int', 'uint', 'int64', 'int16')):
        cs += int_cases(T)
    from rules import c10_aux
    cs += c10_aux.cases(tier)
    cs += canaries()
    return cs


def float_cases(T, Q, CFG=None):
    cs = []
    CFG = CFG or globals()['CFG']
    sc = G.scalar(T)
    tg = sc.tag + ('' if Q == 'highp' else '_' + Q) + ('' if CFG is globals()['CFG'] else '@' + CFG.name)
    K = (lambda name, *a, **kw: globals()['K'](name + ('' if CFG is globals()['CFG'] else '_' + CFG.name), *a, **kw))
    for n in (2, 3, 4):
        mt = G.mat(n, n, T, Q)
        vt = G.vec(n, T, Q)
        E = lambda i, j, mt=mt, nm='m': L.in_atom(nm, mt, (j, i))
        nm = 'mat%d<%s>' % (n, tg)
        # determinant
        k = K('det_%s' % mt.tag, [Par('o', sc, False), Par('m', mt)], '*o = determinant(*m);', CFG)
        cs.append(judge_lanes('determinant(%s)' % nm, 'determinant', k, sc, lambda E=E, n=n: {0: leibniz(E, n)}))
        # inverse: entries and identities
        k = K('inv_%s' % mt.tag, [Par('o', mt, False), Par('m', mt)], '*o = inverse(*m);', CFG)
        cs.append(judge_lanes('inverse(%s)' % nm, 'inverse_entries', k, mt, lambda E=E, n=n: spec_inverse(E, n)[0]))
        cs.append(identity_case('inverse(%s)' % nm, k, mt, n))
        # inverseTranspose
        k = K('invT_%s' % mt.tag, [Par('o', mt, False), Par('m', mt)], '*o = inverseTranspose(*m);', CFG)
        cs.append(judge_lanes('inverseTranspose(%s)' % nm, 'inverse_transpose', k, mt,
                              lambda E=E, n=n: {(c, r): v for (r, c), v in spec_inverse(E, n)[0].items()}))
        # operator/ : mat/mat, mat/vec, vec/mat, compound
        def Eb(i, j, mt=mt):
            return L.in_atom('b', mt, (j, i))

        def div_mm(mt=mt, n=n, Eb=Eb):
            ib, _ = spec_inverse(Eb, n)
            return {(c, r): sum((L.in_atom('a', mt, (kk, r)) * ib[(c, kk)] for kk in range(n)), Poly()) for c in range(n) for r in range(n)}
        k = K('div_mm_%s' % mt.tag, [Par('o', mt, False), Par('a', mt), Par('b', mt)], '*o = *a / *b;', CFG)
        cs.append(judge_lanes('%s/%s' % (nm, nm), 'divide', k, mt, div_mm, post=P.reduce_inv))
        k = K('cdiv_mm_%s' % mt.tag, [Par('o', mt, False), Par('a', mt), Par('b', mt)], '*o = *a; *o /= *b;', CFG)
        cs.append(judge_lanes('%s/=%s' % (nm, nm), 'divide', k, mt, div_mm, post=P.reduce_inv))

        def div_mv(mt=mt, vt=vt, n=n, E=E):
            im, _ = spec_inverse(E, n)
            return {r: sum((im[(c, r)] * L.in_atom('v', vt, c) for c in range(n)), Poly()) for r in range(n)}
        k = K('div_mv_%s' % mt.tag, [Par('o', vt, False), Par('m', mt), Par('v', vt)], '*o = *m / *v;', CFG)
        cs.append(judge_lanes('%s/vec' % nm, 'divide', k, vt, div_mv, post=P.reduce_inv))

        def div_vm(mt=mt, vt=vt, n=n, E=E):
            im, _ = spec_inverse(E, n)
            return {c: sum((L.in_atom('v', vt, r) * im[(c, r)] for r in range(n)), Poly()) for c in range(n)}
        k = K('div_vm_%s' % mt.tag, [Par('o', vt, False), Par('v', vt), Par('m', mt)], '*o = *v / *m;', CFG)
        cs.append(judge_lanes('vec/%s' % nm, 'divide', k, vt, div_vm, post=P.reduce_inv))
        # adjugate (gtx) == det * inverse == cofactor transpose
        k = K('adj_%s' % mt.tag, [Par('o', mt, False), Par('m', mt)], '*o = adjugate(*m);', CFG)

        def adj(E=E, n=n):
            out = {}
            for c in range(n):
                for r in range(n):
                    cof = minor(E, n, c, r)
                    out[(c, r)] = -cof if (r + c) % 2 else cof
            return out
        cs.append(judge_lanes('adjugate(%s)' % nm, 'adjugate', k, mt, adj))
    # affineInverse for mat3 (2D affine) and mat4 (3D affine): equals inverse when the last row is (0,..,0,1)
    for n in (3, 4):
        mt = G.mat(n, n, T, Q)
        nm = 'mat%d<%s>' % (n, tg)
        k = K('affinv_%s' % mt.tag, [Par('o', mt, False), Par('m', mt)], '*o = affineInverse(*m);', CFG)

        def Eaff(i, j, mt=mt, n=n):
            if i == n - 1:
                return Poly.const(1) if j == n - 1 else Poly()
            return L.in_atom('m', mt, (j, i))

        def post_aff(p, mt=mt, n=n):
            # impose the affine last row on the kernel's result: m[c][n-1] := 0 (c<n-1), m[n-1][n-1] := 1
            for c in range(n):
                a = P.atom_id(('in', 'm', mt.lanes[(c, n - 1)] * 8, mt.elem * 8))
                p = p.subst(a, Poly.const(1) if c == n - 1 else Poly())
            return p
        cs.append(affine_case('affineInverse(%s)' % nm, k, mt, n, Eaff, post_aff))
    return cs


def affine_case(name, k, mt, n, Eaff, post_aff):
    def judge(ctx):
        err = ctx.compile_error(k)
        if err:
            return [R.ob(name, 'existence', R.REFUTED, 'cannot be instantiated: ' + err, kernel=k.source())]
        it = ctx.fn(k)
        pc = P.PCtx()
        lanes = L.out_lanes(ctx, k, mt)
        res = []
        # after substituting the affine row, inv atoms must be rebuilt: do it at the term level
        sub = {}
        for c in range(n):
            sub[L.in_term('m', mt, (c, n - 1))] = tm.fconst(mt.elem * 8, 1.0 if c == n - 1 else 0.0)
        # the product with M must be the identity: use the identity check, it does not depend on how det is arranged
        inv = {lane: pc.fpoly(tm.substitute(t, sub)) for lane, t in lanes.items()}
        for side in ('right', 'left'):
            for c in range(n):
                for r in range(n):
                    s = Poly()
                    for kk in range(n):
                        s = s + (Eaff(r, kk) * inv[(c, kk)] if side == 'right' else inv[(kk, r)] * Eaff(kk, c))
                    s = P.reduce_inv(s)
                    exp = Poly.const(1) if c == r else Poly()
                    oid = '%s:%s[%d,%d]' % (name, side, c, r)
                    if s == exp:
                        res.append(R.ob(oid, 'affine_inverse', R.PROVED, 'on affine input the %s product reduces to the identity entry' % side, kernel=k.source()))
                    else:
                        ok_atoms = all(P.atom_key(a)[0] in ('in', 'inv') for a in s.atoms())
                        res.append(R.ob(oid, 'affine_inverse', R.REFUTED if ok_atoms else R.UNDECIDED,
                                        '(%s product)[%d][%d] reduces to %s' % (side, c, r, P.show_poly(s, limit=6)), where=R.where_of(it, lanes[(c, r)]), kernel=k.source()))
        return res
    return R.Case(name, [k], judge)


def int_cases(T):
    cs = []
    sc = G.scalar(T)
    mod = 1 << (sc.elem * 8)
    for n in (2, 3, 4):
        mt = G.mat(n, n, T)
        E = lambda i, j, mt=mt: L.in_atom('m', mt, (j, i), mod)
        k = K('det_%s' % mt.tag, [Par('o', sc, False), Par('m', mt)], '*o = determinant(*m);', CFG)
        cs.append(judge_lanes('determinant(mat%d<%s>)' % (n, sc.tag), 'determinant', k, sc, lambda E=E, n=n: {0: leibniz(E, n, mod)}))
    return cs


def canaries():
    mt = G.mat(3, 3, 'float')
    sc = G.scalar('float')
    pre = ('static float verif_bad_det(glm::mat3 const& m){ return m[0][0]*(m[1][1]*m[2][2]-m[2][1]*m[1][2]) - m[1][0]*(m[0][1]*m[2][2]-m[2][1]*m[0][2]) '
           '+ m[2][0]*(m[0][1]*m[1][2]-m[1][1]*m[0][1]); }')
    k = K('canary_det3', [Par('o', sc, False), Par('m', mt)], '*o = verif_bad_det(*m);', CFG, pre=pre)
    E = lambda i, j: L.in_atom('m', mt, (j, i))
    c = judge_lanes('canary:wrong-index-in-det3', 'determinant', k, sc, lambda: {0: leibniz(E, 3)})
    c.canary = True
    pre2 = ('static glm::mat2 verif_bad_inv(glm::mat2 const& m){ float d = 1.f/(m[0][0]*m[1][1]-m[1][0]*m[0][1]); '
            'return glm::mat2(m[1][1]*d, -m[0][1]*d, m[1][0]*d, m[0][0]*d); }')
    m2 = G.mat(2, 2, 'float')
    k2 = K('canary_inv2', [Par('o', m2, False), Par('m', m2)], '*o = verif_bad_inv(*m);', CFG, pre=pre2)
    c2 = identity_case('canary:sign-error-in-inverse2', k2, m2, 2)
    c2.canary = True
    j2 = c2.judge
    c2.judge = lambda ctx: [r for r in j2(ctx) if r['status'] != R.PROVED][:1] or [R.ob('canary:sign-error-in-inverse2', 'inverse_identity', R.PROVED, 'not refuted')]
    return [c, c2]


EXPLANATION = ('static: determinant/inverse/inverseTranspose/affineInverse/operator-divide/adjugate kernels for sizes 2,3,4 are compiled from /repo and each output lane is '
               'read as a rational function of the input lanes; determinant is compared with the Leibniz expansion, inverse entries with cofactor*inv(det), '
               'M*inverse(M) and inverse(M)*M are reduced to the identity with the single axiom inv(p)*p=1 (applied by exact polynomial division), the gtc variants '
               'and operator/ are compared with the same generated definition')
ASSUMPTIONS = ['float operations read as exact real arithmetic; the condition-number-proportional rounding bound of the property is not decided',
               'axiom inv(p)*p = 1 (p != 0, i.e. the matrix is invertible as the property requires)',
               'clang 14 -O2 pipeline without fast-math preserves values']
TRUSTED = ['clang/LLVM 14', 'tools/irtool.cc', 'laneflow normal forms and polynomial division', 'Leibniz/cofactor generators in rules/c10.py']
LEVEL = 'proof'
