"""C17 — swizzles and constructors select and place exactly the named components.

D2 swizzle semantics (bit provenance): for every 2/3/4-letter name over xyzw / rgba / stpq, every source length and the three
   implementations (operator form under GLM_FORCE_SWIZZLE with anonymous structs, member-function form, gtx/vec_swizzle free
   functions) output lane j IS input lane index(name[j]); writable swizzles change exactly the named lanes.
D3 constructors: every argument-shape composition (scalars, vec1, vec2, vec3, vec4, mixed element types) fills lanes left to right
   with the static_cast conversion of the source lane; single scalar broadcasts; longer vectors truncate; matrix/quaternion
   element-type conversions are per lane.
"""
import itertools
import re
from laneflow import term as tm
from laneflow import gtypes as G
from laneflow import runner as R
from laneflow import rulelib as L
from laneflow.build import K, P as Par, Cfg

LETTERS = {'xyzw': 'xyzw', 'rgba': 'rgba', 'stpq': 'stpq'}
HDR = ('glm/glm.hpp', 'glm/gtc/quaternion.hpp')
CFG_OP = Cfg('swz_op', defines=('GLM_FORCE_SWIZZLE', 'GLM_FORCE_INTRINSICS'), flags=('-msse2',), headers=HDR + ('glm/gtc/type_aligned.hpp',))
CFG_OP_AVX = Cfg('swz_op_avx2', defines=('GLM_FORCE_SWIZZLE', 'GLM_FORCE_INTRINSICS'), flags=('-mavx2', '-mfma'), headers=HDR + ('glm/gtc/type_aligned.hpp',))
CFG_FN = Cfg('swz_fn', defines=('GLM_FORCE_SWIZZLE',), headers=HDR)
CFG_GTX = Cfg('swz_gtx', headers=HDR + ('glm/gtx/vec_swizzle.hpp',))
CFG_DEF = Cfg('ctor', headers=HDR + ('glm/ext/matrix_integer.hpp', 'glm/gtc/matrix_integer.hpp'))
NEEDS_X86 = True


def names(L_, n, letters):
    for idx in itertools.product(range(L_), repeat=n):
        yield ''.join(letters[i] for i in idx), idx


def sel_judge(name, rule, k, outty, want, allow_missing=False):
    def judge(ctx):
        err = ctx.compile_error(k)
        if err:
            if allow_missing and ('no matching' in err or 'no member named' in err or 'no viable' in err or 'ambiguous' in err):
                return []
            return [R.ob(name, 'existence', R.REFUTED, 'cannot be instantiated: ' + err, kernel=k.source())]
        it = ctx.fn(k)
        lanes = L.out_lanes(ctx, k, outty)
        res = []
        for lane, exp in sorted(want.items(), key=lambda x: str(x[0])):
            t = lanes[lane]
            oid = '%s[%s]' % (name, lane)
            if t is exp:
                res.append(R.ob(oid, rule, R.PROVED, 'is %s' % tm.show(exp, 3), kernel=k.source()))
            else:
                pure = t.op in ('in', 'const') or (t.op == 'slice' and t.args[0].op == 'in') or L.deps(t) != L.deps(exp)
                wit = None if pure else L.pattern_witness(t, exp)
                res.append(R.ob(oid, rule, R.REFUTED if (pure or wit) else R.UNDECIDED, 'got %s, expected %s%s' % (tm.show(t, 4), tm.show(exp, 4), (' (for the input bit patterns %s: %#x versus %#x)' % wit) if wit else ''),
                                where=R.where_of(it, t), kernel=k.source()))
        return res
    return judge


def swizzle_cases(tier):
    cs = []
    forms = [('operator', CFG_OP, lambda nm: 'v->%s' % nm, ['float'] if tier == 'quick' else ['float', 'int', 'double'], ['packed_highp']),
             ('function', CFG_FN, lambda nm: 'v->%s()' % nm, ['float'] if tier == 'quick' else ['float', 'int', 'double'], ['highp'])]
    if tier == 'thorough':
        forms.append(('operator_avx2', CFG_OP_AVX, lambda nm: 'v->%s' % nm, ['float', 'double'], ['packed_highp']))
    for form, cfg, expr, types, quals in forms:
        for T in types:
            for Q in quals:
                for L_ in (2, 3, 4):
                    vt = G.vec(L_, T, Q)
                    for setname, letters in LETTERS.items():
                        for n in (2, 3, 4):
                            ot = G.vec(n, T, Q)
                            # batch all names of one (source, n, letter set) into one kernel writing an array of results
                            nl = list(names(L_, n, letters))
                            arr = G.Ty('arr', ot.cpp, ot.elem, ot.size * len(nl), {(i, j): i * ot.size + ot.lanes[j] for i in range(len(nl)) for j in range(n)}, T, (len(nl), n))
                            body = ' '.join('o[%d] = %s(%s);' % (i, ot.cpp, expr(nm)) for i, (nm, idx) in enumerate(nl))
                            k = K('%s_%s_%s_%d' % (form, vt.tag, setname, n), [Par('o', arr, False), Par('v', vt)], body, cfg)
                            want = {(i, j): L.in_term('v', vt, idx[j]) for i, (nm, idx) in enumerate(nl) for j in range(n)}
                            cs.append(R.Case('swizzle.%s<%s>.%s%d' % (form, vt.tag, setname, n), [k],
                                             label_judge(sel_judge('swizzle.%s<%s>' % (form, vt.tag), 'swizzle_read', k, arr, want), nl)))
                            # writable swizzles: distinct components only
                            if form.startswith('operator') and n <= L_:
                                wl = [(nm, idx) for nm, idx in nl if len(set(idx)) == n]
                                for nm, idx in (wl if tier == 'thorough' else wl[::3]):
                                    kw = K('%s_w_%s_%s' % (form, vt.tag, nm), [Par('o', vt, False), Par('v', vt), Par('w', ot)], '*o = *v; o->%s = *w;' % nm, cfg)
                                    want_w = {}
                                    for lane in range(L_):
                                        want_w[lane] = L.in_term('w', ot, idx.index(lane)) if lane in idx else L.in_term('v', vt, lane)
                                    cs.append(R.Case('swizzle.%s<%s>.%s=' % (form, vt.tag, nm), [kw],
                                                     sel_judge('swizzle.%s<%s>.%s=w' % (form, vt.tag, nm), 'swizzle_write', kw, vt, want_w)))
                                    # the other write forms of the same swizzle: scalar fill, the four compound assignments, and (for a swizzle of the
                                    # whole vector) assignment / compound assignment FROM THE VECTOR ITSELF, where source and destination alias
                                    sct = G.scalar(T)
                                    ops = [('fill', 'o[%d].%s = *s;', None)] + [(o_, 'o[%%d].%%s %s= *w;' % o_, o_) for o_ in '+-*/']
                                    if n == L_:
                                        ops += [('self=', 'o[%d].%s = o[%d];', '='), ('self+=', 'o[%d].%s += o[%d];', '+'), ('self*=', 'o[%d].%s *= o[%d];', '*')]
                                    arrw = G.Ty('arr', vt.cpp, vt.elem, vt.size * len(ops), {(i, j): i * vt.size + vt.lanes[j] for i in range(len(ops)) for j in range(L_)}, T, (len(ops), L_))
                                    body = ' '.join(('o[%d] = *v; ' % i) + (fmt % ((i, nm, i) if fmt.count('%d') == 2 else (i, nm))) for i, (lab, fmt, o_) in enumerate(ops))
                                    kc = K('%s_wops_%s_%s' % (form, vt.tag, nm), [Par('o', arrw, False), Par('v', vt), Par('w', ot), Par('s', sct)], body, cfg)
                                    want_c = {}
                                    for i, (lab, fmt, o_) in enumerate(ops):
                                        for lane in range(L_):
                                            old_ = L.in_term('v', vt, lane)
                                            if lane not in idx:
                                                want_c[(i, lane)] = old_
                                                continue
                                            j = idx.index(lane)
                                            src = L.in_term('s', sct, 0) if lab == 'fill' else L.in_term('v', vt, j) if lab.startswith('self') else L.in_term('w', ot, j)
                                            want_c[(i, lane)] = src if o_ in (None, '=') else _arith(sct, o_, old_, src)
                                    cs.append(R.Case('swizzle.%s<%s>.%s op=' % (form, vt.tag, nm), [kc],
                                                     label_ops(sel_judge('swizzle.%s<%s>.%s' % (form, vt.tag, nm), 'swizzle_write_ops', kc, arrw, want_c), [o[0] for o in ops])))
    # swizzle proxies as operands (operator form): scalar - / * swizzle in both orders, swizzle (+ - * /) swizzle / vector in both orders:
    # lane j of the result is  lhs_j OP rhs_j  with the proxy read through its name, operands in the order written
    for T in (['float', 'int'] if tier == 'quick' else ['float', 'int', 'double', 'uint']):
        sct = G.scalar(T)
        for L_, nm, idx, nm2, idx2 in ((4, 'zyx', (2, 1, 0), 'xxw', (0, 0, 3)), (3, 'yx', (1, 0), 'zz', (2, 2)), (2, 'yx', (1, 0), 'xy', (0, 1)), (4, 'wzyx', (3, 2, 1, 0), 'yxwz', (1, 0, 3, 2)),
                                       (4, 'abg', (3, 2, 1), 'rrg', (0, 0, 1)), (3, 'ps', (2, 0), 'tt', (1, 1))):
            n = len(idx)
            vt, ot = G.vec(L_, T, 'packed_highp'), G.vec(n, T, 'packed_highp')
            forms = [('s%sswz' % o_, '*s %s v->%s' % (o_, nm), o_, 's', 'v') for o_ in '-*'] + [('swz%ss' % o_, 'v->%s %s *s' % (nm, o_), o_, 'v', 's') for o_ in '-*']
            forms += [('swz%sswz' % o_, 'v->%s %s u->%s' % (nm, o_, nm2), o_, 'v', 'u') for o_ in '+-*/']
            forms += [('swz%svec' % o_, 'v->%s %s *w' % (nm, o_), o_, 'v', 'w') for o_ in '+-*/'] + [('vec%sswz' % o_, '*w %s v->%s' % (o_, nm), o_, 'w', 'v') for o_ in '+-*/']
            arrx = G.Ty('arr', ot.cpp, ot.elem, ot.size * len(forms), {(i, j): i * ot.size + ot.lanes[j] for i in range(len(forms)) for j in range(n)}, T, (len(forms), n))
            body = ' '.join('o[%d] = %s;' % (i, f[1]) for i, f in enumerate(forms))
            kx = K('swzexpr_%s_%s_%s' % (vt.tag, nm, sct.tag), [Par('o', arrx, False), Par('v', vt), Par('u', vt), Par('w', ot), Par('s', sct)], body, CFG_OP)

            def operand(which, j, vt=vt, ot=ot, sct=sct, idx=idx, idx2=idx2):
                return {'s': lambda: L.in_term('s', sct, 0), 'v': lambda: L.in_term('v', vt, idx[j]), 'u': lambda: L.in_term('u', vt, idx2[j]), 'w': lambda: L.in_term('w', ot, j)}[which]()
            want_x = {(i, j): _arith(sct, f[2], operand(f[3], j), operand(f[4], j)) for i, f in enumerate(forms) for j in range(n)}
            cs.append(R.Case('swizzle.expr<%s>.%s' % (vt.tag, nm), [kx],
                             label_ops(sel_judge('swizzle.expr<%s>.%s' % (vt.tag, nm), 'swizzle_expr', kx, arrx, want_x), [f[0] for f in forms])))
    # SIMD shuffle specialisations: aligned vec4 float / int (and double under AVX in thorough)
    simd = [(CFG_OP, 'sse2', ['float', 'int', 'uint'])]
    if tier == 'thorough':
        simd.append((CFG_OP_AVX, 'avx2', ['float', 'int', 'uint', 'double']))
    for cfg, tag, types in simd:
        for T in types:
            vt = G.vec(4, T, 'aligned_highp')
            for setname, letters in (LETTERS.items() if tier == 'thorough' else [('xyzw', 'xyzw')]):
                nl = list(names(4, 4, letters))
                arr = G.Ty('arr', vt.cpp, vt.elem, vt.size * len(nl), {(i, j): i * vt.size + vt.lanes[j] for i in range(len(nl)) for j in range(4)}, T, (len(nl), 4))
                body = ' '.join('o[%d] = %s(v->%s);' % (i, vt.cpp, nm) for i, (nm, idx) in enumerate(nl))
                k = K('simd_%s_%s_%s' % (tag, vt.tag, setname), [Par('o', arr, False), Par('v', vt)], body, cfg)
                want = {(i, j): L.in_term('v', vt, idx[j]) for i, (nm, idx) in enumerate(nl) for j in range(4)}
                cs.append(R.Case('swizzle.simd_%s<%s>.%s4' % (tag, vt.tag, setname), [k],
                                 label_judge(sel_judge('swizzle.simd_%s<%s>' % (tag, vt.tag), 'swizzle_read_simd', k, arr, want), nl)))
            # shorter results from an aligned source (the 2-component results fall back to the generic proxy, the 3-component ones use the shuffle):
            # one kernel per (source, result length); a sibling element type without its fallback does not compile (existence)
            for L_ in ((4,) if tier == 'quick' else (3, 4)):
                vs = G.vec(L_, T, 'aligned_highp')
                for n in (2, 3):
                    ot = G.vec(n, T, 'aligned_highp')
                    nl = list(names(L_, n, 'xyzw'))
                    arr = G.Ty('arr', ot.cpp, ot.elem, ot.size * len(nl), {(i, j): i * ot.size + ot.lanes[j] for i in range(len(nl)) for j in range(n)}, T, (len(nl), n))
                    body = ' '.join('o[%d] = %s(v->%s);' % (i, ot.cpp, nm) for i, (nm, idx) in enumerate(nl))
                    k = K('simd_%s_%s_to%d' % (tag, vs.tag, n), [Par('o', arr, False), Par('v', vs)], body, cfg)
                    want = {(i, j): L.in_term('v', vs, idx[j]) for i, (nm, idx) in enumerate(nl) for j in range(n)}
                    cs.append(R.Case('swizzle.simd_%s<%s>.xyzw%d' % (tag, vs.tag, n), [k],
                                     label_judge(sel_judge('swizzle.simd_%s<%s>' % (tag, vs.tag), 'swizzle_read_simd', k, arr, want), nl)))
    # gtx/vec_swizzle free functions (xyzw letters; source lengths 1-4)
    for T in (['float', 'int'] if tier == 'quick' else ['float', 'int', 'double', 'uint']):
        for L_ in (1, 2, 3, 4):
            vt = G.vec(L_, T)
            for n in (2, 3, 4):
                ot = G.vec(n, T)
                nl = list(names(L_, n, 'xyzw'))
                arr = G.Ty('arr', ot.cpp, ot.elem, ot.size * len(nl), {(i, j): i * ot.size + ot.lanes[j] for i in range(len(nl)) for j in range(n)}, T, (len(nl), n))
                body = ' '.join('o[%d] = %s(*v);' % (i, nm) for i, (nm, idx) in enumerate(nl))
                k = K('gtx_%s_%d' % (vt.tag, n), [Par('o', arr, False), Par('v', vt)], body, CFG_GTX)
                want = {(i, j): L.in_term('v', vt, idx[j]) for i, (nm, idx) in enumerate(nl) for j in range(n)}
                cs.append(R.Case('swizzle.gtx<%s>.%d' % (vt.tag, n), [k], label_judge(sel_judge('swizzle.gtx<%s>' % vt.tag, 'swizzle_free_function', k, arr, want), nl)))
    return cs


def _arith(sc, o_, a, b):
    if sc.isfloat:
        return tm.arith({'+': 'fadd', '-': 'fsub', '*': 'fmul', '/': 'fdiv'}[o_], a, b)
    return tm.arith({'+': 'add', '-': 'sub', '*': 'mul', '/': 'sdiv' if sc.signed else 'udiv'}[o_], a, b)


def label_ops(j, labels):
    """rewrite obligation ids '(i, lane)' into 'form[lane]'"""
    def judge(ctx):
        res = j(ctx)
        for r in res:
            m = re.search(r'\[\((\d+), (\d+)\)\]$', r['id'])
            if m:
                r['id'] = r['id'][:m.start()] + ' %s [%s]' % (labels[int(m.group(1))], m.group(2))
        return res
    return judge


def label_judge(j, nl):
    """rewrite obligation ids '(i, j)' into the swizzle name"""
    def judge(ctx):
        out = j(ctx)
        for r in out:
            if r['id'].endswith(')]') and '[(' in r['id']:
                head, tail = r['id'].rsplit('[(', 1)
                i, jj = tail[:-2].split(', ')
                r['id'] = '%s.%s[%s]' % (head, nl[int(i)][0], jj)
        return out
    return judge


# ---------------------------------------------------------------------------------------------
# constructors

def conv(U, T, t):
    """term of static_cast<T>(lane t of type U)"""
    if U == T:
        return t
    cu, ct = G.SCALARS[U], G.SCALARS[T]
    wu, wt = cu[1] * 8, ct[1] * 8
    ku, kt = cu[2], ct[2]
    if ku == 'f' and kt == 'f':
        return tm.mk('fpext' if wt > wu else 'fptrunc', (t,), wt)
    if ku == 'f':
        return tm.mk('fptosi' if kt == 's' else 'fptoui', (t,), wt)
    if kt == 'f':
        return tm.mk('sitofp' if ku == 's' else 'uitofp', (t,), wt)
    if wt == wu:
        return t
    if wt < wu:
        return tm.slice_(t, 0, wt)
    return tm.sext(t, wt) if ku == 's' else tm.zext(t, wt)


def compositions(L_):
    """argument size lists summing to L_ with parts in 1..4 (more than one argument)"""
    out = []

    def rec(rem, cur):
        if rem == 0:
            if len(cur) > 1:
                out.append(list(cur))
            return
        for p in (1, 2, 3, 4):
            if p <= rem:
                rec(rem - p, cur + [p])
    rec(L_, [])
    return out


def ctor_cases(tier, cfg=None, QD='highp', tag='', simd=False):
    cs = []
    cfg = cfg or CFG_DEF
    TT = ['float', 'int', 'double', 'uint']
    # the SIMD headers have separate constructor code per element type and register width (float, int / uint, double as two SSE halves or one AVX register)
    dests = TT if tier == 'thorough' else (['float', 'int', 'double'] if simd else ['float', 'int'])
    for T in dests:
        for L_ in (1, 2, 3, 4):
            vt = G.vec(L_, T, QD)
            # (1) single scalar broadcast, possibly of another type via explicit cast semantics
            sc = G.scalar(T)
            k = K('ctor%s_%s_bcast' % (tag, vt.tag), [Par('o', vt, False), Par('s', sc)], '*o = %s(*s);' % vt.cpp, cfg)
            cs.append(R.Case('vec%d<%s>(scalar)%s' % (L_, T, tag), [k], sel_judge('vec%d<%s>(scalar)%s' % (L_, T, tag), 'ctor_broadcast', k, vt, {i: L.in_term('s', sc, 0) for i in range(L_)})))
            # (2) from a vector of any length >= L_ (truncation) and any element type / qualifier
            for M in range(L_, 5):
                for U in TT:
                    if simd:
                        quals = ['packed_highp', 'aligned_highp', 'aligned_mediump'] if tier == 'thorough' else ['packed_highp', 'aligned_highp']
                    else:
                        quals = ['highp', 'mediump'] if tier == 'thorough' else ['highp']
                    for Q in quals:
                        st = G.vec(M, U, Q)
                        k = K('ctor%s_%s_from_%s' % (tag, vt.tag, st.tag), [Par('o', vt, False), Par('a', st)], '*o = %s(*a);' % vt.cpp, cfg)
                        nm = 'vec%d<%s,%s>(vec%d<%s,%s>)%s' % (L_, T, QD, M, U, Q, tag)
                        cs.append(R.Case(nm, [k], sel_judge(nm, 'ctor_convert', k, vt, {i: conv(U, T, L.in_term('a', st, i)) for i in range(L_)}, allow_missing=True)))
            # (3) every composition of scalars / vec1 / vectors in argument order with mixed element types
            if L_ == 1:
                for U in TT:
                    v1 = G.vec(1, U, QD)
                    k = K('ctor%s_%s_from1_%s' % (tag, vt.tag, v1.tag), [Par('o', vt, False), Par('a', v1)], '*o = %s(*a);' % vt.cpp, cfg)
                    nm = 'vec1<%s>(vec1<%s>)%s' % (T, U, tag)
                    cs.append(R.Case(nm, [k], sel_judge(nm, 'ctor_convert', k, vt, {0: conv(U, T, L.in_term('a', v1, 0))}, allow_missing=True)))
                continue
            for comp in compositions(L_):
                # variants: each size-1 part is a scalar or a vec1; element types rotate through TT
                ones = [i for i, p in enumerate(comp) if p == 1]
                variants = list(itertools.product('sv', repeat=len(ones)))
                if tier == 'quick' and len(variants) > 4:
                    variants = [variants[0], variants[-1], variants[len(variants) // 2], variants[1]]
                for rot in (range(len(TT)) if tier == 'thorough' else (0, 1)):
                    for var in variants:
                        params, args, want = [Par('o', vt, False)], [], {}
                        lane = 0
                        desc = []
                        ok = True
                        for ai, p in enumerate(comp):
                            U = TT[(ai + rot) % len(TT)] if rot else T
                            an = 'a%d' % ai
                            if p == 1 and var[ones.index(ai)] == 's':
                                aty = G.scalar(U)
                                want[lane] = conv(U, T, L.in_term(an, aty, 0))
                                desc.append(U)
                            else:
                                aty = G.vec(p, U, QD)
                                for j in range(p):
                                    want[lane + j] = conv(U, T, L.in_term(an, aty, j))
                                desc.append('vec%d<%s>' % (p, U))
                            params.append(Par(an, aty))
                            args.append('*' + an)
                            lane += p
                        nm = 'vec%d<%s>(%s)%s' % (L_, T, ', '.join(desc), tag)
                        k = K('ctor%s_%s_%s_r%d_%s' % (tag, vt.tag, ''.join(map(str, comp)), rot, ''.join(var)), params, '*o = %s(%s);' % (vt.cpp, ', '.join(args)), cfg)
                        cs.append(R.Case(nm, [k], sel_judge(nm, 'ctor_compose', k, vt, want, allow_missing=True)))
    if simd:
        return cs
    # matrices: element-type conversion per lane, mixed-type element and column constructors
    for T, U in ((('float', 'double'), ('float', 'int'), ('int', 'float'), ('double', 'float')) if tier == 'thorough' else (('float', 'double'), ('float', 'int'))):
        for C in (2, 3, 4):
            for Rr in (2, 3, 4):
                mt, su = G.mat(C, Rr, T), G.mat(C, Rr, U)
                k = K('mctor_%s_from_%s' % (mt.tag, su.tag), [Par('o', mt, False), Par('a', su)], '*o = %s(*a);' % mt.cpp, cfg)
                nm = 'mat%dx%d<%s>(mat%dx%d<%s>)' % (C, Rr, T, C, Rr, U)
                cs.append(R.Case(nm, [k], sel_judge(nm, 'ctor_matrix_convert', k, mt, {l: conv(U, T, L.in_term('a', su, l)) for l in mt.lanes}, allow_missing=True)))
                # columns of another element type
                cols = [G.vec(Rr, U) for _ in range(C)]
                k = K('mctor_%s_cols_%s' % (mt.tag, G.scalar(U).tag), [Par('o', mt, False)] + [Par('c%d' % i, cols[i]) for i in range(C)],
                      '*o = %s(%s);' % (mt.cpp, ', '.join('*c%d' % i for i in range(C))), cfg)
                nm = 'mat%dx%d<%s>(columns<%s>)' % (C, Rr, T, U)
                cs.append(R.Case(nm, [k], sel_judge(nm, 'ctor_matrix_convert', k, mt, {(c, r): conv(U, T, L.in_term('c%d' % c, cols[c], r)) for c in range(C) for r in range(Rr)}, allow_missing=True)))
    # columns / elements of *mixed* element types (the templated V1..V4 / X1..W4 constructors): every argument converts on its own, in argument order
    for T in (('float', 'int', 'double') if tier == 'thorough' else ('float', 'int')):
        for C in (2, 3, 4):
            for Rr in (2, 3, 4):
                mt = G.mat(C, Rr, T)
                for rot in ((0, 1, 2, 3) if tier == 'thorough' else (1, 2)):
                    Us = [TT[(i + rot) % len(TT)] for i in range(C)]
                    cols = [G.vec(Rr, U) for U in Us]
                    k = K('mctor_%s_mixcols_r%d' % (mt.tag, rot), [Par('o', mt, False)] + [Par('c%d' % i, cols[i]) for i in range(C)],
                          '*o = %s(%s);' % (mt.cpp, ', '.join('*c%d' % i for i in range(C))), cfg)
                    nm = 'mat%dx%d<%s>(%s)' % (C, Rr, T, ', '.join('vec%d<%s>' % (Rr, U) for U in Us))
                    cs.append(R.Case(nm, [k], sel_judge(nm, 'ctor_matrix_convert', k, mt, {(c, r): conv(Us[c], T, L.in_term('c%d' % c, cols[c], r)) for c in range(C) for r in range(Rr)}, allow_missing=True)))
                    n = C * Rr
                    Es = [TT[(i + rot) % len(TT)] for i in range(n)]
                    scs = [G.scalar(U) for U in Es]
                    k = K('mctor_%s_mixelems_r%d' % (mt.tag, rot), [Par('o', mt, False)] + [Par('e%d' % i, scs[i]) for i in range(n)],
                          '*o = %s(%s);' % (mt.cpp, ', '.join('*e%d' % i for i in range(n))), cfg)
                    nm = 'mat%dx%d<%s>(%d scalars of mixed types, rotation %d)' % (C, Rr, T, n, rot)
                    cs.append(R.Case(nm, [k], sel_judge(nm, 'ctor_matrix_convert', k, mt, {(c, r): conv(Es[c * Rr + r], T, L.in_term('e%d' % (c * Rr + r), scs[c * Rr + r], 0)) for c in range(C) for r in range(Rr)}, allow_missing=True)))
    # quaternions: (w,x,y,z), (s, vec3), conversion, wxyz factory — in both memory orders
    for wx, cfgq in ((False, cfg), (True, Cfg('ctor_wxyz', defines=('GLM_FORCE_QUAT_DATA_WXYZ',), headers=CFG_DEF.headers))):
        for T in ('float', 'double'):
            qt, sc, v3 = G.quat(T, wxyz=wx), G.scalar(T), G.vec(3, T)
            tagq = 'qua<%s>%s' % (T, '@wxyz' if wx else '')
            k = K('qctor_%s_%d_wxyz4' % (qt.tag, wx), [Par('o', qt, False)] + [Par(c, sc) for c in 'wxyz'], '*o = %s(*w, *x, *y, *z);' % qt.cpp, cfgq)
            cs.append(R.Case(tagq + '(w,x,y,z)', [k], sel_judge(tagq + '(w,x,y,z)', 'ctor_quat', k, qt, {c: L.in_term(c, sc, 0) for c in 'xyzw'})))
            k = K('qctor_%s_%d_sv' % (qt.tag, wx), [Par('o', qt, False), Par('s', sc), Par('v', v3)], '*o = %s(*s, *v);' % qt.cpp, cfgq)
            cs.append(R.Case(tagq + '(s,v)', [k], sel_judge(tagq + '(s,v)', 'ctor_quat', k, qt, {'w': L.in_term('s', sc, 0), 'x': L.in_term('v', v3, 0), 'y': L.in_term('v', v3, 1), 'z': L.in_term('v', v3, 2)})))
            k = K('qctor_%s_%d_fact' % (qt.tag, wx), [Par('o', qt, False)] + [Par(c, sc) for c in 'wxyz'], '*o = %s::wxyz(*w, *x, *y, *z);' % qt.cpp, cfgq)
            cs.append(R.Case(tagq + '::wxyz', [k], sel_judge(tagq + '::wxyz', 'ctor_quat', k, qt, {c: L.in_term(c, sc, 0) for c in 'xyzw'})))
            U = 'double' if T == 'float' else 'float'
            qu = G.quat(U, wxyz=wx)
            k = K('qctor_%s_%d_conv' % (qt.tag, wx), [Par('o', qt, False), Par('a', qu)], '*o = %s(*a);' % qt.cpp, cfgq)
            cs.append(R.Case(tagq + '(qua<%s>)' % U, [k], sel_judge(tagq + '(qua<%s>)' % U, 'ctor_quat', k, qt, {c: conv(U, T, L.in_term('a', qu, c)) for c in 'xyzw'})))
            for i, c in enumerate('wxyz' if wx else 'xyzw'):
                pass
    return cs


def simd_ctor_cases(tier):
    """constructors and qualifier conversions of the aligned (SIMD-register) types and of packed types built from them"""
    cs = []
    for cfg, tg in ((CFG_OP, '@sse2'), (CFG_OP_AVX, '@avx2')) if tier == 'thorough' else ((CFG_OP, '@sse2'),):
        for QD in ('aligned_highp', 'packed_highp'):
            cs += ctor_cases(tier, cfg=cfg, QD=QD, tag='%s:%s' % (tg, QD.split('_')[0]), simd=True)
    return cs


def cases(tier):
    return swizzle_cases(tier) + ctor_cases(tier) + simd_ctor_cases(tier) + canaries()


def canaries():
    v4 = G.vec(4, 'float')
    v3 = G.vec(3, 'float')
    pre = 'static glm::vec3 verif_bad_swz(glm::vec4 const& v){ return glm::vec3(v.z, v.y, v.y); }'
    k = K('canary_swz', [Par('o', v3, False), Par('v', v4)], '*o = verif_bad_swz(*v);', CFG_DEF, pre=pre)
    c = R.Case('canary:zyx-returns-zyy', [k], sel_judge('canary:zyx-returns-zyy', 'swizzle_read', k, v3, {2: L.in_term('v', v4, 0)}), canary=True)
    sc = G.scalar('float')
    pre2 = 'static glm::vec4 verif_bad_ctor(glm::vec2 const& a, float b, float c){ return glm::vec4(a.x, a.y, c, b); }'
    v2 = G.vec(2, 'float')
    k2 = K('canary_ctor', [Par('o', v4, False), Par('a', v2), Par('b', sc), Par('c', sc)], '*o = verif_bad_ctor(*a, *b, *c);', CFG_DEF, pre=pre2)
    c2 = R.Case('canary:ctor-swaps-last-two', [k2], sel_judge('canary:ctor-swaps-last-two', 'ctor_compose', k2, v4, {2: L.in_term('b', sc, 0)}), canary=True)
    return [c, c2]


EXPLANATION = ('static: every swizzle name (2/3/4 letters over xyzw/rgba/stpq, source lengths 2-4) in operator form (anonymous-struct members incl. the SIMD shuffle specialisations), '
               'member-function form and the gtx/vec_swizzle free functions, and every vec/mat/qua constructor argument composition with mixed element types, is instantiated from /repo; '
               'each output lane must be exactly the named input lane (bit provenance), converted with the instruction static_cast prescribes')
ASSUMPTIONS = ['constructor compositions that do not name a declared constructor (no matching constructor) are skipped, not counted',
               'clang 14 lowering of the SSE shuffle intrinsics used by the SIMD swizzle specialisations to generic shufflevector']
TRUSTED = ['clang/LLVM 14', 'tools/irtool.cc', 'laneflow term normaliser (concat/slice/shuffle are exact)']
LEVEL = 'proof'
