"""C02 — matrix operators/functions implement column-major linear algebra for all shapes.

Rule "textbook polynomial": every output lane of every kernel, read in the P domain (Q[lanes] for float/double,
Z/2^w[lanes] for integers), equals the definition generated below from the property's own wording
((A*B)[c][r] = sum_k A[k][r]*B[c][k] ...).  Conversions/accessors/transposes must be pure selections.
Float products additionally must have no cancelling terms (AbsCtx), i.e. exactly the K products of the definition.
"""
from fractions import Fraction
from laneflow import term as tm
from laneflow import poly as P
from laneflow import gtypes as G
from laneflow import runner as R
from laneflow import rulelib as L
from laneflow.build import K, P as Par, Cfg, DEFAULT
from laneflow.poly import Poly

HDR = ('glm/glm.hpp', 'glm/ext.hpp', 'glm/ext/matrix_integer.hpp', 'glm/ext/matrix_common.hpp')
CFG = Cfg('default', headers=HDR)


def _types(tier):
    if tier == 'quick':
        return [('float', 'highp'), ('int', 'highp'), ('double', 'highp'), ('uint', 'highp')]
    out = []
    for T in ('float', 'double', 'int', 'uint', 'int8', 'uint8', 'int16', 'uint16', 'int64', 'uint64'):
        out.append((T, 'highp'))
    for Q in ('mediump', 'lowp'):
        out.append(('float', Q))
        out.append(('int', Q))
    return out


def poly_case(name, k, outty, spec, rule, intypes, nocancel=False, base=None, single=None):
    """spec: lane -> Poly (over in-atoms) or T (term to match identically)"""
    def judge(ctx):
        res = []
        err = ctx.compile_error(k)
        if err:
            return [R.ob(name, 'existence', R.REFUTED, 'overload exists but cannot be instantiated: ' + err, kernel=k.source())]
        it = ctx.fn(k)
        pc = P.PCtx()
        ac = L.AbsCtx() if nocancel else None
        lanes = L.out_lanes(ctx, k, outty, base)
        for lane, t in sorted(lanes.items(), key=lambda x: str(x[0])):
            oid = '%s[%s]' % (name, ','.join(map(str, lane)) if isinstance(lane, tuple) else lane)
            exp = spec(lane)
            if isinstance(exp, tm.T):
                if t is exp:
                    res.append(R.ob(oid, rule, R.PROVED, 'term identical to definition: ' + tm.show(exp, 4), kernel=k.source()))
                else:
                    foreign = L.deps(t) - L.deps(exp)
                    st = R.REFUTED if (foreign or _pure_sel(t)) else R.UNDECIDED
                    wtxt = ''
                    if st == R.UNDECIDED:
                        wit = L.pattern_witness(t, exp)
                        if wit:
                            st, wtxt = R.REFUTED, ' ; for the input bit patterns %s the lane is %#x, the definition %#x' % (wit[0], wit[1], wit[2])
                    res.append(R.ob(oid, rule, st, 'got %s ; expected %s%s' % (tm.show(t, 5), tm.show(exp, 5), wtxt),
                                    where=R.where_of(it, t), kernel=k.source()))
                continue
            try:
                got = L.to_poly(pc, t, outty)
            except (P.NonFinite, P.TooBig, ValueError) as e:
                res.append(R.ob(oid, rule, R.UNDECIDED, 'no normal form: %r' % e, kernel=k.source()))
                continue
            st, detail = L.compare_poly(got, exp)
            nw = L.narrowing(t, outty.elem * 8) if outty.isfloat else None
            if nw is not None:
                res.append(R.ob(oid, rule, R.REFUTED, 'the %d-bit result passes through a %d-bit float (%s): float accuracy only, whatever the formula' % (outty.elem * 8, nw.w, tm.show(nw, 3)), where=R.where_of(it, nw), kernel=k.source()))
                continue
            if st == R.PROVED and nocancel and outty.isfloat:
                a = ac.fpoly(t)
                if a != L.abs_poly(got):
                    st, detail = R.REFUTED, 'lane equals the definition only after cancellation of extra terms: |terms| = %s vs definition %s' % (P.show_poly(a), P.show_poly(exp))
            if st == R.PROVED and single is not None and outty.isfloat:
                # a quotient is one correctly rounded operation: the lane must be the single division of the two lanes, not an algebraically equal form with a second
                # rounding (multiplying by the reciprocal is off by an ulp for most divisors); refuted with inputs at which the two derived terms differ
                want = single(lane)
                if t is not want:
                    wit = L.pattern_witness(t, want) or _quotient_witness(t, want)
                    if wit:
                        st, detail = R.REFUTED, ('equal to the definition only in exact arithmetic: the definition is the single division %s, the lane is %s; for the input bit patterns %s they '
                                                 'give %#x and %#x' % (tm.show(want, 3), tm.show(t, 4), wit[0], wit[2], wit[1]))
                    else:
                        st, detail = R.UNDECIDED, 'not the single division %s: %s' % (tm.show(want, 3), tm.show(t, 4))
            if st == R.PROVED:
                detail = 'normal form == ' + P.show_poly(exp, limit=6)
            res.append(R.ob(oid, rule, st, detail, where=R.where_of(it, t) if st != R.PROVED else None, kernel=k.source()))
        return res
    return R.Case(name, [k], judge)


def _quotient_witness(t, want):
    """inputs (every lane the same value, then the divisor) at which a quotient written with a second rounding differs from the single division"""
    from laneflow import ceval as CE
    ins = sorted({x for u in (t, want) for x in tm.walk(u) if x.op == 'in'}, key=lambda q: q.id)
    if not ins or any(x.w not in (32, 64) for x in ins):
        return None
    for v in (49.0, 41.0, 3.0, 7.0, 10.0, 23.0):
        env = {x: CE.f2b(x.w, v) for x in ins}
        try:
            a, b = CE.evaluate(t, env), CE.evaluate(want, env)
        except CE.NoValue:
            continue
        if a != b:
            return {tm.show(x): ('%#x' % e) for x, e in env.items()}, a, b
    return None


def _pure_sel(t):
    return t.op in ('in', 'const') or (t.op == 'slice' and t.args[0].op == 'in')


CFG_SSE2 = Cfg('sse2', defines=('GLM_FORCE_INTRINSICS',), flags=('-msse2',), headers=HDR + ('glm/gtc/type_aligned.hpp',))
CFG_AVX2 = Cfg('avx2', defines=('GLM_FORCE_INTRINSICS',), flags=('-mavx2', '-mfma'), headers=HDR + ('glm/gtc/type_aligned.hpp',))
NEEDS_X86 = True


def cases(tier):
    cs = []
    for T, Q in _types(tier):
        cs += type_cases(T, Q)
    # the aligned types of the SIMD configurations have their own product / transpose / outerProduct code (simd/matrix.h, func_matrix_simd.inl): same definitions
    cs += [_tag(c, '@sse2') for c in type_cases('float', 'aligned_highp', CFG_SSE2)]
    if tier == 'thorough':
        cs += [_tag(c, '@sse2') for c in type_cases('float', 'aligned_mediump', CFG_SSE2)]
        cs += [_tag(c, '@avx2') for c in type_cases('float', 'aligned_highp', CFG_AVX2)]
        cs += [_tag(c, '@avx2') for c in type_cases('double', 'aligned_highp', CFG_AVX2)]
        cs += [_tag(c, '@sse2') for c in type_cases('int', 'aligned_highp', CFG_SSE2)]
    cs += canaries()
    return cs


def _tag(c, suffix):
    """distinct case / obligation names for the same rule set under another configuration"""
    j = c.judge
    c.name = c.name + suffix
    c.judge = lambda ctx, j=j: [dict(r, id=r['id'] + suffix) for r in j(ctx)]
    return c


def type_cases(T, Q, CFG=CFG):
    cs = []
    if True:
        sc = G.scalar(T)
        fl = sc.isfloat
        mod = None if fl else 1 << (sc.elem * 8)
        one = Poly.const(Fraction(1) if fl else 1, mod)
        zero = Poly({}, mod)
        V = {n: G.vec(n, T, Q) for n in (2, 3, 4)}
        M = {(c, r): G.mat(c, r, T, Q) for c in (2, 3, 4) for r in (2, 3, 4)}
        tg = sc.tag + ('' if Q == 'highp' else '_' + Q)

        def A(name, ty, lane):
            return L.in_atom(name, ty, lane, mod)

        # ---- matrix * matrix  : A is mat<Kk,Rr>, B is mat<Cc,Kk>, result mat<Cc,Rr>
        for Kk in (2, 3, 4):
            for Rr in (2, 3, 4):
                for Cc in (2, 3, 4):
                    ta, tb, to = M[(Kk, Rr)], M[(Cc, Kk)], M[(Cc, Rr)]
                    k = K('mul_%s_%s_%s' % (ta.tag, tb.tag, tg), [Par('o', to, False), Par('a', ta), Par('b', tb)], '*o = *a * *b;', CFG)

                    def spec(lane, ta=ta, tb=tb, Kk=Kk):
                        c, r = lane
                        s = zero
                        for kk in range(Kk):
                            s = s + A('a', ta, (kk, r)) * A('b', tb, (c, kk))
                        return s
                    cs.append(poly_case('mat%dx%d*mat%dx%d<%s>' % (Kk, Rr, Cc, Kk, tg), k, to, spec, 'mat_mul', None, nocancel=True))
        for (Cc, Rr), tm_ in M.items():
            nm = 'mat%dx%d<%s>' % (Cc, Rr, tg)
            # ---- matrix * vector, vector * matrix
            k = K('mulmv_%s_%s' % (tm_.tag, tg), [Par('o', V[Rr], False), Par('m', tm_), Par('v', V[Cc])], '*o = *m * *v;', CFG)
            cs.append(poly_case(nm + '*vec', k, V[Rr],
                                lambda r, tm_=tm_, Cc=Cc: sum((A('m', tm_, (c, r)) * A('v', V[Cc], c) for c in range(Cc)), zero),
                                'mat_vec', None, nocancel=True))
            k = K('mulvm_%s_%s' % (tm_.tag, tg), [Par('o', V[Cc], False), Par('v', V[Rr]), Par('m', tm_)], '*o = *v * *m;', CFG)
            cs.append(poly_case('vec*' + nm, k, V[Cc],
                                lambda c, tm_=tm_, Rr=Rr: sum((A('v', V[Rr], r) * A('m', tm_, (c, r)) for r in range(Rr)), zero),
                                'vec_mat', None, nocancel=True))
            # ---- transpose, outerProduct, matrixCompMult
            tt = M[(Rr, Cc)]
            k = K('transpose_%s_%s' % (tm_.tag, tg), [Par('o', tt, False), Par('m', tm_)], '*o = transpose(*m);', CFG)
            cs.append(poly_case('transpose(%s)' % nm, k, tt, lambda lane, tm_=tm_: L.in_term('m', tm_, (lane[1], lane[0])), 'transpose', None))
            k = K('outer_%s_%s' % (tm_.tag, tg), [Par('o', tm_, False), Par('c', V[Rr]), Par('r', V[Cc])], '*o = outerProduct(*c, *r);', CFG)
            cs.append(poly_case('outerProduct->%s' % nm, k, tm_,
                                lambda lane, Rr=Rr, Cc=Cc: A('c', V[Rr], lane[1]) * A('r', V[Cc], lane[0]), 'outer_product', None))
            k = K('compmult_%s_%s' % (tm_.tag, tg), [Par('o', tm_, False), Par('a', tm_), Par('b', tm_)], '*o = matrixCompMult(*a, *b);', CFG)
            cs.append(poly_case('matrixCompMult(%s)' % nm, k, tm_, lambda lane, tm_=tm_: A('a', tm_, lane) * A('b', tm_, lane), 'comp_mult', None))
            # ---- element-wise operators
            S = lambda: L.in_atom('s', sc, 0, mod)
            ew = [
                ('add_mm', '*o = *a + *b;', 'mm', lambda l, t=tm_: A('a', t, l) + A('b', t, l)),
                ('sub_mm', '*o = *a - *b;', 'mm', lambda l, t=tm_: A('a', t, l) - A('b', t, l)),
                ('add_ms', '*o = *a + *s;', 'ms', lambda l, t=tm_: A('a', t, l) + S()),
                ('sub_ms', '*o = *a - *s;', 'ms', lambda l, t=tm_: A('a', t, l) - S()),
                ('mul_ms', '*o = *a * *s;', 'ms', lambda l, t=tm_: A('a', t, l) * S()),
                ('mul_sm', '*o = *s * *a;', 'ms', lambda l, t=tm_: S() * A('a', t, l)),
                ('neg_m', '*o = -*a;', 'm', lambda l, t=tm_: -A('a', t, l)),
                ('pos_m', '*o = +*a;', 'm', lambda l, t=tm_: A('a', t, l)),
                ('cadd_mm', '*o = *a; *o += *b;', 'mm', lambda l, t=tm_: A('a', t, l) + A('b', t, l)),
                ('csub_mm', '*o = *a; *o -= *b;', 'mm', lambda l, t=tm_: A('a', t, l) - A('b', t, l)),
                ('cadd_ms', '*o = *a; *o += *s;', 'ms', lambda l, t=tm_: A('a', t, l) + S()),
                ('csub_ms', '*o = *a; *o -= *s;', 'ms', lambda l, t=tm_: A('a', t, l) - S()),
                ('cmul_ms', '*o = *a; *o *= *s;', 'ms', lambda l, t=tm_: A('a', t, l) * S()),
                ('preinc', '*o = *a; ++*o;', 'm', lambda l, t=tm_: A('a', t, l) + one),
                ('predec', '*o = *a; --*o;', 'm', lambda l, t=tm_: A('a', t, l) - one),
                ('postinc', '*o = *a; (*o)++;', 'm', lambda l, t=tm_: A('a', t, l) + one),
                ('postdec', '*o = *a; (*o)--;', 'm', lambda l, t=tm_: A('a', t, l) - one),
                ('postinc_ret', 'auto t = *a; *o = t++;', 'm', lambda l, t=tm_: A('a', t, l)),
            ]
            if Cc == Rr:
                # scalar + matrix and scalar - matrix exist for the square shapes only
                ew += [('add_sm', '*o = *s + *a;', 'ms', lambda l, t=tm_: S() + A('a', t, l)),
                       ('sub_sm', '*o = *s - *a;', 'ms', lambda l, t=tm_: S() - A('a', t, l))]
            if fl:
                ew += [
                    ('div_ms', '*o = *a / *s;', 'ms', lambda l, t=tm_: A('a', t, l) * Poly.atom(('inv', ('P', S())))),
                    ('div_sm', '*o = *s / *a;', 'ms', lambda l, t=tm_: S() * Poly.atom(('inv', ('P', A('a', t, l))))),
                    ('cdiv_ms', '*o = *a; *o /= *s;', 'ms', lambda l, t=tm_: A('a', t, l) * Poly.atom(('inv', ('P', S())))),
                ]
            else:
                sg = 'sdiv' if sc.signed else 'udiv'
                ew += [
                    ('div_ms', '*o = *a / *s;', 'ms', lambda l, t=tm_, sg=sg: _idiv(sg, L.in_term('a', t, l), L.in_term('s', sc, 0), sc)),
                    ('div_sm', '*o = *s / *a;', 'ms', lambda l, t=tm_, sg=sg: _idiv(sg, L.in_term('s', sc, 0), L.in_term('a', t, l), sc)),
                    ('cdiv_ms', '*o = *a; *o /= *s;', 'ms', lambda l, t=tm_, sg=sg: _idiv(sg, L.in_term('a', t, l), L.in_term('s', sc, 0), sc)),
                ]
            fdivs = {}
            if fl:
                fdivs = {'div_ms': lambda l, t=tm_: tm.arith('fdiv', L.in_term('a', t, l), L.in_term('s', sc, 0)),
                         'div_sm': lambda l, t=tm_: tm.arith('fdiv', L.in_term('s', sc, 0), L.in_term('a', t, l)),
                         'cdiv_ms': lambda l, t=tm_: tm.arith('fdiv', L.in_term('a', t, l), L.in_term('s', sc, 0))}
            for opn, body, sig, spec in ew:
                ps = [Par('o', tm_, False), Par('a', tm_)]
                if sig == 'mm':
                    ps.append(Par('b', tm_))
                if sig == 'ms':
                    ps.append(Par('s', sc))
                k = K('%s_%s_%s' % (opn, tm_.tag, tg), ps, body, CFG)
                cs.append(poly_case('%s(%s)' % (opn, nm), k, tm_, spec, 'elementwise', None, single=fdivs.get(opn)))
            # square-only compound *= matrix
            if Cc == Rr:
                k = K('cmul_mm_%s_%s' % (tm_.tag, tg), [Par('o', tm_, False), Par('a', tm_), Par('b', tm_)], '*o = *a; *o *= *b;', CFG)
                cs.append(poly_case('cmul_mm(%s)' % nm, k, tm_,
                                    lambda lane, t=tm_, n=Cc: sum((A('a', t, (kk, lane[1])) * A('b', t, (lane[0], kk)) for kk in range(n)), zero),
                                    'mat_mul', None, nocancel=True))
            # ---- equality
            bo = G.scalar('bool')
            for opn, body, neg in (('eq', '*o = (*a == *b);', False), ('ne', '*o = (*a != *b);', True)):
                k = K('%s_%s_%s' % (opn, tm_.tag, tg), [Par('o', bo, False), Par('a', tm_), Par('b', tm_)], body, CFG)
                cs.append(eq_case('%s(%s)' % (opn, nm), k, tm_, neg, fl))
            # ---- conversions from every other shape (81 in total) and scalar / column / element constructors
            for (C2, R2), ts in M.items():
                k = K('conv_%s_from_%s_%s' % (tm_.tag, ts.tag, tg), [Par('o', tm_, False), Par('a', ts)], '*o = %s(*a);' % tm_.cpp, CFG)

                def spec(lane, ts=ts, C2=C2, R2=R2):
                    c, r = lane
                    if c < C2 and r < R2:
                        return L.in_term('a', ts, (c, r))
                    return _one(sc) if c == r else tm.zeros(sc.elem * 8)
                cs.append(poly_case('%s(mat%dx%d)' % (nm, C2, R2), k, tm_, spec, 'conversion', None))
            k = K('diag_%s_%s' % (tm_.tag, tg), [Par('o', tm_, False), Par('s', sc)], '*o = %s(*s);' % tm_.cpp, CFG)
            cs.append(poly_case('%s(scalar)' % nm, k, tm_, lambda lane: L.in_term('s', sc, 0) if lane[0] == lane[1] else tm.zeros(sc.elem * 8), 'constructor', None))
            cols = ', '.join('*c%d' % c for c in range(Cc))
            k = K('cols_%s_%s' % (tm_.tag, tg), [Par('o', tm_, False)] + [Par('c%d' % c, V[Rr]) for c in range(Cc)], '*o = %s(%s);' % (tm_.cpp, cols), CFG)
            cs.append(poly_case('%s(columns)' % nm, k, tm_, lambda lane, Rr=Rr: L.in_term('c%d' % lane[0], V[Rr], lane[1]), 'constructor', None))
            ev = G.vec(4, T, Q)
            ev = G.Ty('arr', sc.cpp, sc.elem, sc.elem * Cc * Rr, {i: i * sc.elem for i in range(Cc * Rr)}, T, (Cc * Rr,))
            elems = ', '.join('e[%d]' % i for i in range(Cc * Rr))
            k = K('elems_%s_%s' % (tm_.tag, tg), [Par('o', tm_, False), Par('e', ev)], '*o = %s(%s);' % (tm_.cpp, elems), CFG)
            cs.append(poly_case('%s(elements)' % nm, k, tm_, lambda lane, Rr=Rr, ev=ev: L.in_term('e', ev, lane[0] * Rr + lane[1]), 'constructor', None))
            # ---- gtc/matrix_access: row / column get and set for every constant index
            for r in range(Rr):
                k = K('row%d_%s_%s' % (r, tm_.tag, tg), [Par('o', V[Cc], False), Par('m', tm_)], '*o = row(*m, %d);' % r, CFG)
                cs.append(poly_case('row(%s,%d)' % (nm, r), k, V[Cc], lambda c, t=tm_, r=r: L.in_term('m', t, (c, r)), 'access', None))
                k = K('setrow%d_%s_%s' % (r, tm_.tag, tg), [Par('o', tm_, False), Par('m', tm_), Par('v', V[Cc])], '*o = row(*m, %d, *v);' % r, CFG)
                cs.append(poly_case('row(%s,%d,v)' % (nm, r), k, tm_,
                                    lambda lane, t=tm_, r=r, Cc=Cc: L.in_term('v', V[Cc], lane[0]) if lane[1] == r else L.in_term('m', t, lane), 'access', None))
            for c in range(Cc):
                k = K('col%d_%s_%s' % (c, tm_.tag, tg), [Par('o', V[Rr], False), Par('m', tm_)], '*o = column(*m, %d);' % c, CFG)
                cs.append(poly_case('column(%s,%d)' % (nm, c), k, V[Rr], lambda r, t=tm_, c=c: L.in_term('m', t, (c, r)), 'access', None))
                k = K('setcol%d_%s_%s' % (c, tm_.tag, tg), [Par('o', tm_, False), Par('m', tm_), Par('v', V[Rr])], '*o = column(*m, %d, *v);' % c, CFG)
                cs.append(poly_case('column(%s,%d,v)' % (nm, c), k, tm_,
                                    lambda lane, t=tm_, c=c, Rr=Rr: L.in_term('v', V[Rr], lane[1]) if lane[0] == c else L.in_term('m', t, lane), 'access', None))
                k = K('idx%d_%s_%s' % (c, tm_.tag, tg), [Par('o', V[Rr], False), Par('m', tm_)], '*o = (*m)[%d];' % c, CFG)
                cs.append(poly_case('%s[%d]' % (nm, c), k, V[Rr], lambda r, t=tm_, c=c: L.in_term('m', t, (c, r)), 'access', None))

        # ---- gtx helpers (float and int where the header accepts them)
        if Q == 'highp' and T in ('float', 'double', 'int'):
            cs += gtx_cases(T, Q, sc, V, M, A, zero, one, mod, tg, CFG=CFG)
    return cs


def _one(sc):
    return tm.fconst(sc.elem * 8, 1.0) if sc.isfloat else tm.const(sc.elem * 8, 1)


def _idiv(op, a, b, sc):
    w = sc.elem * 8
    if w >= 32:
        return tm.arith(op, a, b)
    # C++ promotes narrow operands to int, divides, and truncates
    ext = tm.sext if op == 'sdiv' else tm.zext
    return tm.slice_(tm.arith(op, ext(a, 32), ext(b, 32)), 0, w)


def eq_case(name, k, ty, neg, fl):
    def judge(ctx):
        err = ctx.compile_error(k)
        if err:
            return [R.ob(name, 'existence', R.REFUTED, 'overload exists but cannot be instantiated: ' + err, kernel=k.source())]
        it = ctx.fn(k)
        t = tm.slice_(ctx.out(k, 0, 1), 0, 1)
        if fl:
            want = {tm.fcmp('une' if neg else 'oeq', L.in_term('a', ty, l), L.in_term('b', ty, l)) for l in ty.lanes}
        else:
            want = {tm.icmp('ne' if neg else 'eq', L.in_term('a', ty, l), L.in_term('b', ty, l)) for l in ty.lanes}
        # (in)equality must be the conjunction of the per-lane compares as a boolean function
        f = tm.not_(t) if neg else t
        lits = [tm.not_(x) for x in want] if neg else list(want)
        r = L.is_conjunction(f, lits)
        if r is True:
            return [R.ob(name, 'equality', R.PROVED, '%s of %d per-lane compares' % ('disjunction' if neg else 'conjunction', len(want)), kernel=k.source())]
        st = R.REFUTED if r is False else R.UNDECIDED
        return [R.ob(name, 'equality', st, 'result is not the %s of the %d per-lane compares: %s' % ('disjunction' if neg else 'conjunction', len(want), tm.show(t, 8)),
                     where=R.where_of(it, t), kernel=k.source())]
    return R.Case(name, [k], judge)


def gtx_cases(T, Q, sc, V, M, A, zero, one, mod, tg, CFG=CFG):
    cs = []
    fl = sc.isfloat
    cfg = CFG
    # diagonalCxR(vec<min(C,R)>)
    for (Cc, Rr), tm_ in M.items():
        n = min(Cc, Rr)
        k = K('diagonal%dx%d_%s' % (Cc, Rr, tg), [Par('o', tm_, False), Par('v', V[n])], '*o = diagonal%dx%d(*v);' % (Cc, Rr), cfg)
        cs.append(poly_case('diagonal%dx%d<%s>' % (Cc, Rr, tg), k, tm_,
                            lambda lane, n=n: L.in_term('v', V[n], lane[0]) if lane[0] == lane[1] else tm.zeros(sc.elem * 8), 'gtx_matrix', None))
    # row/col major builders
    for n in (2, 3, 4):
        tm_ = M[(n, n)]
        vs = ', '.join('*v%d' % i for i in range(n))
        ps = [Par('o', tm_, False)] + [Par('v%d' % i, V[n]) for i in range(n)]
        k = K('rowMajor%d_v_%s' % (n, tg), ps, '*o = rowMajor%d(%s);' % (n, vs), cfg)
        cs.append(poly_case('rowMajor%d(vectors)<%s>' % (n, tg), k, tm_, lambda lane, n=n: L.in_term('v%d' % lane[1], V[n], lane[0]), 'gtx_matrix', None))
        k = K('colMajor%d_v_%s' % (n, tg), ps, '*o = colMajor%d(%s);' % (n, vs), cfg)
        cs.append(poly_case('colMajor%d(vectors)<%s>' % (n, tg), k, tm_, lambda lane, n=n: L.in_term('v%d' % lane[0], V[n], lane[1]), 'gtx_matrix', None))
        k = K('rowMajor%d_m_%s' % (n, tg), [Par('o', tm_, False), Par('m', tm_)], '*o = rowMajor%d(*m);' % n, cfg)
        cs.append(poly_case('rowMajor%d(mat)<%s>' % (n, tg), k, tm_, lambda lane, t=tm_: L.in_term('m', t, (lane[1], lane[0])), 'gtx_matrix', None))
        k = K('colMajor%d_m_%s' % (n, tg), [Par('o', tm_, False), Par('m', tm_)], '*o = colMajor%d(*m);' % n, cfg)
        cs.append(poly_case('colMajor%d(mat)<%s>' % (n, tg), k, tm_, lambda lane, t=tm_: L.in_term('m', t, lane), 'gtx_matrix', None))
    if fl:
        # ext/matrix_common: mix with a scalar and with a matrix interpolant is the element-wise x*(1-a) + y*a (they are written with the
        # element-wise operators and matrixCompMult of this property)
        S = lambda: L.in_atom('s', sc, 0, mod)
        for (Cc, Rr), tm_ in M.items():
            k = K('mix_s_%s_%s' % (tm_.tag, tg), [Par('o', tm_, False), Par('a', tm_), Par('b', tm_), Par('s', sc)], '*o = mix(*a, *b, *s);', cfg)
            cs.append(poly_case('mix(mat%dx%d,scalar)<%s>' % (Cc, Rr, tg), k, tm_,
                                lambda l, t=tm_: A('a', t, l) * (one - S()) + A('b', t, l) * S(), 'matrix_common', None))
            k = K('mix_m_%s_%s' % (tm_.tag, tg), [Par('o', tm_, False), Par('a', tm_), Par('b', tm_), Par('w', tm_)], '*o = mix(*a, *b, *w);', cfg)
            cs.append(poly_case('mix(mat%dx%d,mat)<%s>' % (Cc, Rr, tg), k, tm_,
                                lambda l, t=tm_: A('a', t, l) * (one - A('w', t, l)) + A('b', t, l) * A('w', t, l), 'matrix_common', None))
            k = K('abs_%s_%s' % (tm_.tag, tg), [Par('o', tm_, False), Par('a', tm_)], '*o = abs(*a);', cfg)
            cs.append(poly_case('abs(mat%dx%d)<%s>' % (Cc, Rr, tg), k, tm_,
                                lambda l, t=tm_: (lambda a_: tm.select(tm.fcmp('ole', tm.zeros(sc.elem * 8), a_), a_, tm.fneg(a_)))(L.in_term('a', t, l)),
                                'matrix_common', None))      # GLM's abs: x >= 0 ? x : -x, per element
        # matrixCross3(x) * v == cross(x, v) ;  the definition: M[c][r] = sum_k eps(r,k,c)... written out
        def cross_mat(lane, n):
            c, r = lane
            if c > 2 or r > 2 or c == r:
                return zero
            # (x cross v)[r] = x[(r+1)%3] v[(r+2)%3] - x[(r+2)%3] v[(r+1)%3] ; coefficient of v[c]
            if c == (r + 2) % 3:
                return A('x', V[3], (r + 1) % 3)
            return -A('x', V[3], (r + 2) % 3)
        for n in (3, 4):
            tm_ = M[(n, n)]
            k = K('matrixCross%d_%s' % (n, tg), [Par('o', tm_, False), Par('x', V[3])], '*o = matrixCross%d(*x);' % n, cfg)
            cs.append(poly_case('matrixCross%d<%s>' % (n, tg), k, tm_, lambda lane, n=n: cross_mat(lane, n), 'gtx_matrix', None))
    return cs


def canaries():
    """deliberately wrong local implementations that the rules must refute on every run"""
    ty = G.mat(3, 3, 'float')
    pre = ('static glm::mat3 verif_bad_mul(glm::mat3 const& a, glm::mat3 const& b){ glm::mat3 r = a * b; '
           'r[2][1] = a[0][1]*b[2][0] + a[1][1]*b[2][1] + a[2][0]*b[2][2]; return r; }')
    k = K('canary_mul_m3', [Par('o', ty, False), Par('a', ty), Par('b', ty)], '*o = verif_bad_mul(*a, *b);', CFG, pre=pre)
    A = lambda n, l: L.in_atom(n, ty, l)
    c1 = poly_case('canary:wrong-index-in-mat3*mat3', k, ty,
                   lambda lane: sum((A('a', (kk, lane[1])) * A('b', (lane[0], kk)) for kk in range(3)), Poly()), 'mat_mul', None, nocancel=True)
    c1.canary = True
    # only lane [2][1] must be refuted; filter others
    j = c1.judge
    c1.judge = lambda ctx: [r for r in j(ctx) if r['id'].endswith('[2,1]')]
    pre2 = ('static glm::mat3 verif_bad_conv(glm::mat2 const& a){ glm::mat3 r(a); r[2][2] = 0.f; return r; }')
    t2 = G.mat(2, 2, 'float')
    k2 = K('canary_conv', [Par('o', ty, False), Par('a', t2)], '*o = verif_bad_conv(*a);', CFG, pre=pre2)
    c2 = poly_case('canary:conversion-pads-with-zero', k2, ty,
                   lambda lane: L.in_term('a', t2, lane) if lane[0] < 2 and lane[1] < 2 else (tm.fconst(32, 1.0) if lane[0] == lane[1] else tm.zeros(32)),
                   'conversion', None)
    c2.canary = True
    j2 = c2.judge
    c2.judge = lambda ctx: [r for r in j2(ctx) if r['id'].endswith('[2,2]')]
    pre3 = ('static glm::mat3 verif_cancel(glm::mat3 const& a, glm::mat3 const& b){ glm::mat3 r = a * b; '
            'r[0][0] = a[0][0]*b[0][0] + a[1][0]*b[0][1] + a[2][0]*b[0][2] + a[1][1]*b[1][1] - a[1][1]*b[1][1]; return r; }')
    k3 = K('canary_cancel', [Par('o', ty, False), Par('a', ty), Par('b', ty)], '*o = verif_cancel(*a, *b);', CFG, pre=pre3)
    c3 = poly_case('canary:cancelling-extra-terms', k3, ty,
                   lambda lane: sum((A('a', (kk, lane[1])) * A('b', (lane[0], kk)) for kk in range(3)), Poly()), 'mat_mul', None, nocancel=True)
    c3.canary = True
    j3 = c3.judge
    c3.judge = lambda ctx: [r for r in j3(ctx) if r['id'].endswith('[0,0]')]
    return [c1, c2, c3]


EXPLANATION = ('static: every matrix operator/function kernel (one API call, all 9 shapes, all operand pairs) is compiled from /repo with clang, '
               'optimised without fast-math, and each output lane is read as a polynomial over the input lanes (Q[lanes] for floats, Z/2^w for integers) '
               'and compared with the textbook column-major definition generated from the property statement; conversions, accessors, transposes and '
               'constructors must be pure selections of the named input lane or the identity padding constant; float products must contain no cancelling extra terms')
ASSUMPTIONS = ['clang 14 front end and -O2 scalar pipeline preserve values (no fast-math, -ffp-contract=off)',
               'float operations are read as exact real arithmetic: the check decides the algebraic definition, not rounding magnitudes',
               'layout of vec/mat as checked by C16 (column-major contiguous lanes)']
TRUSTED = ['clang/LLVM 14', 'tools/irtool.cc', 'laneflow term/poly normal forms', 'specifications in rules/c02.py']
LEVEL = 'proof'
