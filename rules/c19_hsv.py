"""C19, HSV part: rgbColor / hsvColor.

Ordering analysis.  On the RGB cube a colour is, for one of the 6 orderings of its channels, (lo, mid, hi) = (B, B + d2, B + d2 + d1) with B, d1, d2 >= 0.
For every ordering and every pattern of ties (d1 = 0, d2 = 0, B = 0: 48 cases) the inputs of the kernel are replaced by these polynomials in the
*strictly positive* symbols that remain; every comparison of the code is then decided by the sign of a polynomial all of whose coefficients have one sign
(after clearing positive denominators), floor() of a quotient is the integer k with k <= q < k + 1 established the same way, and every selection is
resolved.  The result lanes are rational functions of (B, d1, d2):

  hsv_roundtrip   rgbColor(hsvColor(c)) == c in every case (all colours of the cube, exact real arithmetic)
  hsv_range       hsvColor(c): hue in [0, 360) unless the colour is grey, saturation in [0, 1], value == max channel
  hsv_seam        the hue circle closes: rgbColor(360, s, v) == rgbColor(0, s, v) for symbolic s, v > 0 (hsvColor can return 360 after rounding)

Reading: float constants that are the correctly rounded value of a simple fraction (1/60) stand for that fraction; epsilon in the equal(x, y, epsilon)
tests is an infinitesimal (channels that differ, differ by more than epsilon).  A case whose comparisons cannot all be decided is UNDECIDED.
"""
from fractions import Fraction
import itertools
from laneflow import term as tm
from laneflow import poly as P
from laneflow import gtypes as G
from laneflow import runner as R
from laneflow import rulelib as L
from laneflow.build import K, P as Par
from laneflow.poly import Poly

ONE, ZERO = Poly.const(1), Poly()


class Undetermined(Exception):
    pass


def snap(fr, w):
    """a float constant that is the rounded value of a simple fraction stands for the fraction"""
    import struct
    s = fr.limit_denominator(720)
    if s == fr:
        return fr
    try:
        if w == 32:
            same = struct.unpack('<f', struct.pack('<f', float(s)))[0] == float(fr)
        else:
            same = float(s) == float(fr)
    except OverflowError:
        same = False
    return s if same else fr


EPS = Poly.atom(('sym', 'epsilon'))
_EPS_ATOM = list(EPS.t)[0][0]


def sign_of(p):
    """sign of a polynomial in strictly positive symbols: +1 / -1 / 0, else Undetermined.  epsilon is a positive infinitesimal: the terms of lowest degree in it decide."""
    if p.is_zero():
        return 0
    low = min(m.count(_EPS_ATOM) for m in p.t)
    terms = {m: v for m, v in p.t.items() if m.count(_EPS_ATOM) == low}
    pos = all(v > 0 for v in terms.values())
    neg = all(v < 0 for v in terms.values())
    if pos:
        return 1
    if neg:
        return -1
    raise Undetermined('sign of %s' % P.show_poly(p, limit=6))


class ConeCtx(P.DecisionCtx):
    """inputs are polynomials in strictly positive symbols; comparisons are decided by signs; selections are evaluated lazily"""

    def __init__(self, subst):
        super().__init__({})
        self.subst = subst

    def clear(self, p):
        """p as (numerator polynomial without inverses, sign of the cleared denominator = +1): multiply by the (positive) arguments of inv atoms"""
        p = P.reduce_inv(p)
        for _ in range(12):
            invs = [a for a in p.atoms() if P.atom_key(a)[0] == 'inv']
            if not invs:
                return p
            a = invs[0]
            q = P.atom_key(a)[1][1]
            s = sign_of(self.clear(q))
            if s == 0:
                raise Undetermined('division by zero')
            deg = p.degree_in(a)
            for _ in range(deg):
                p = P.reduce_inv(p * q)
            if s < 0 and deg % 2:
                p = -p
        raise Undetermined('nested inverses')

    def sgn(self, p):
        return sign_of(self.clear(p))

    def _fpoly(self, t):
        op = t.op
        if op == 'in':
            if t in self.subst:
                return self.subst[t]
            raise Undetermined('unbound input %s' % tm.show(t))
        if op == 'const':
            fr = P._frac_of_bits(t)
            if fr != 0 and abs(fr) <= Fraction(1, 100000):
                return EPS if fr > 0 else -EPS          # epsilon<T>(): a positive infinitesimal
            return Poly.const(snap(fr, t.w))
        if op == 'select':
            return self.fpoly(t.args[1] if self.decide(t.args[0]) else t.args[2])
        if op == 'concat' and len(t.args) == 2 and t.args[0].op == 'const' and t.args[1].w == 1 and t.args[1].op != 'const' and t.w in (32, 64):
            # a float constant whose sign bit is a condition (how `c ? -k : k` compiles): the bit is decided like any comparison
            neg = self.decide(t.args[1])
            return self.fpoly(tm.const(t.w, t.args[0].args[0] | ((1 << (t.w - 1)) if neg else 0)))
        if op == 'fabs':
            p = self.fpoly(t.args[0])
            return p if self.sgn(p) >= 0 else -p
        if op == 'fdiv':
            a, b = self.fpoly(t.args[0]), self.fpoly(t.args[1])
            if self.sgn(b) == 0:
                raise Undetermined('division by zero')
            return a * self.inv(b)
        if op == 'fn' and t.args[0] == 'floor':
            p = self.fpoly(t.args[1])
            for k in range(-2, 9):
                try:
                    if self.sgn(p - Poly.const(k)) >= 0 and self.sgn(Poly.const(k + 1) - p) > 0:
                        return Poly.const(k)
                except Undetermined:
                    continue
            raise Undetermined('floor of %s' % P.show_poly(p, limit=5))
        if op in ('minnum', 'maxnum'):
            a, b = self.fpoly(t.args[0]), self.fpoly(t.args[1])
            s = self.sgn(a - b)
            return (a if s <= 0 else b) if op == 'minnum' else (a if s >= 0 else b)
        if op in ('sqrt', 'fn'):
            raise Undetermined('function %s' % (t.args[0] if op == 'fn' else 'sqrt'))
        return super()._fpoly(t)

    def _abs_pattern(self, c, a, b):
        return None

    def _ieval(self, t):
        if t.op in ('fptosi', 'fptoui'):
            p = self.fpoly(t.args[0])
            if p.is_const():
                v = p.cval() if p.t else Fraction(0)
                if v.denominator == 1:
                    return int(v) & ((1 << t.w) - 1)
            raise Undetermined('conversion of %s' % P.show_poly(p, limit=4))
        return super()._ieval(t)

    def decide(self, c):
        if c.op == 'const':
            return bool(c.args[0])
        if c.op == 'fcmp':
            pred = c.args[0]
            if pred == 'ord':
                return True
            if pred == 'uno':
                return False
            s = self.sgn(self.fpoly(c.args[1]) - self.fpoly(c.args[2]))
            rel = 'lt' if s < 0 else 'gt' if s > 0 else 'eq'
            return rel in P._SAT[pred[1:]]
        if c.op == 'not':
            return not self.decide(c.args[0])
        if c.op in ('and', 'or') and c.w == 1:
            # an operand that cannot be evaluated (0/0 speculated by the optimiser on the grey path) does not matter when the other one decides
            vals, errs = [], []
            for x in c.args:
                try:
                    vals.append(self.decide(x))
                except Undetermined as e:
                    errs.append(e)
            dec = (False if c.op == 'and' else True)
            if dec in vals:
                return dec
            if errs:
                raise errs[0]
            return not dec
        if c.op == 'xor' and c.w == 1:
            return self.decide(c.args[0]) != self.decide(c.args[1])
        if c.op == 'icmp':
            x, y = self._ieval(c.args[1]), self._ieval(c.args[2])
            if x is None or y is None:
                raise Undetermined('integer comparison %s' % tm.show(c, 3))
            w_ = c.args[1].w
            sx = x - (1 << w_) if x >> (w_ - 1) else x
            sy = y - (1 << w_) if y >> (w_ - 1) else y
            return {'eq': x == y, 'ne': x != y, 'ult': x < y, 'ule': x <= y, 'ugt': x > y, 'uge': x >= y, 'slt': sx < sy, 'sle': sx <= sy, 'sgt': sx > sy, 'sge': sx >= sy}[c.args[0]]
        if c.op == 'select' and c.w == 1:
            return self.decide(c.args[1]) if self.decide(c.args[0]) else self.decide(c.args[2])
        raise Undetermined('condition %s' % tm.show(c, 3))


def scenarios():
    """(description, {channel index: polynomial}) for the 6 orderings x tie patterns x zero minimum"""
    B, d1, d2 = (Poly.atom(('sym', n)) for n in ('B', 'd1', 'd2'))
    out = []
    names = 'rgb'
    for perm in itertools.permutations(range(3)):          # perm = (index of hi, index of mid, index of lo)
        for z1, z2, zb in itertools.product((False, True), repeat=3):
            b_ = ZERO if zb else B
            e1 = ZERO if z1 else d1
            e2 = ZERO if z2 else d2
            vals = {perm[2]: b_, perm[1]: b_ + e2, perm[0]: b_ + e2 + e1}
            desc = '%s %s %s %s %s%s' % (names[perm[0]], '=' if z1 else '>', names[perm[1]], '=' if z2 else '>', names[perm[2]], ' = 0' if zb else ' > 0')
            out.append((desc, vals))
    return out


def concrete_roundtrip_witness(rt, cin, vals, w):
    """the derived round-trip terms evaluated (IEEE semantics, concrete term evaluator) at the colour B = 1/8, d1 = 1/4, d2 = 1/2 of the scenario: a channel that does not
    come back (NaN included), or a conversion of a non-finite value to int on the way, is an established failure of the round trip at that colour"""
    from laneflow import ceval as CE
    pt = {('sym', 'B'): Fraction(1, 8), ('sym', 'd1'): Fraction(1, 4), ('sym', 'd2'): Fraction(1, 2)}
    col = []
    for i in range(3):
        v = Fraction(0)
        for m, c in vals[i].t.items():
            t_ = Fraction(c)
            for a in m:
                t_ *= pt[P.atom_key(a)]
            v += t_
        col.append(float(v))
    env = {cin[i]: CE.f2b(w, col[i]) for i in range(3)}
    for i in range(3):
        try:
            got = CE.b2f(w, CE.evaluate(rt[i], env))
        except CE.NoValue as e:
            if 'non-finite' in str(e):
                return 'at c = (%g, %g, %g) channel %s goes through the conversion of a non-finite value to an integer (undefined)' % (col[0], col[1], col[2], 'rgb'[i])
            return None
        if got != col[i]:
            return 'at c = (%g, %g, %g) channel %s comes back as %r' % (col[0], col[1], col[2], 'rgb'[i], got)
    return None


def hsv_cases(tier, CFG):
    cs = []
    for T in ('float', 'double'):
        v3 = G.vec(3, T)
        w = v3.elem * 8
        krt = K('hsv_rt_%s' % v3.tag, [Par('o', v3, False), Par('c', v3)], '*o = rgbColor(hsvColor(*c));', CFG)
        kh = K('hsv_%s' % v3.tag, [Par('o', v3, False), Par('c', v3)], '*o = hsvColor(*c);', CFG)
        kr = K('rgb_%s' % v3.tag, [Par('o', v3, False), Par('c', v3)], '*o = rgbColor(*c);', CFG)
        name = 'hsv<%s>' % T

        def judge(ctx, krt=krt, kh=kh, kr=kr, v3=v3, T=T, name=name):
            res = []
            for kk in (krt, kh, kr):
                err = ctx.compile_error(kk)
                if err:
                    return [R.ob(name, 'existence', R.REFUTED, 'cannot be instantiated: ' + err, kernel=kk.source())]
            rt = L.out_lanes(ctx, krt, v3)
            hs = L.out_lanes(ctx, kh, v3)
            cin = [L.in_term('c', v3, i) for i in range(3)]
            for desc, vals in scenarios():
                cx = ConeCtx({cin[i]: vals[i] for i in range(3)})
                oid = '%s[%s]' % (name, desc)
                # ---- round trip
                try:
                    bad = None
                    for i in range(3):
                        got = cx.fpoly(rt[i])
                        d = cx.clear(got - vals[i])
                        if not d.is_zero():
                            bad = (i, got)
                            break
                    if bad is None:
                        res.append(R.ob(oid + '.roundtrip', 'hsv_roundtrip', R.PROVED, 'rgbColor(hsvColor(c)) == c', kernel=krt.source()))
                    else:
                        # the difference is a non-zero rational function of strictly positive symbols with every comparison decided: a definite difference
                        res.append(R.ob(oid + '.roundtrip', 'hsv_roundtrip', R.REFUTED, 'channel %s comes back as %s instead of %s (B, d1, d2 > 0 free: e.g. B = 1/8, d1 = 1/4, d2 = 1/2)' % ('rgb'[bad[0]], P.show_poly(P.reduce_inv(bad[1]), limit=6), P.show_poly(vals[bad[0]])),
                                        where=R.where_of(ctx.fn(krt), rt[bad[0]]), kernel=krt.source()))
                except Undetermined as e:
                    wit = concrete_roundtrip_witness(rt, cin, vals, w) if 'division by zero' in str(e) else None
                    if wit:
                        res.append(R.ob(oid + '.roundtrip', 'hsv_roundtrip', R.REFUTED, 'the round trip divides by zero on the evaluated path for every colour of this case; ' + wit,
                                        where=R.where_of(ctx.fn(krt), rt[0]), kernel=krt.source()))
                    else:
                        res.append(R.ob(oid + '.roundtrip', 'hsv_roundtrip', R.UNDECIDED, 'a comparison could not be decided: %s' % e, kernel=krt.source()))
                except (P.NonFinite, P.TooBig, P.NeedAtom) as e:
                    res.append(R.ob(oid + '.roundtrip', 'hsv_roundtrip', R.UNDECIDED, 'no normal form: %s' % type(e).__name__, kernel=krt.source()))
                # ---- ranges of hsvColor
                try:
                    cx2 = ConeCtx({cin[i]: vals[i] for i in range(3)})
                    mx = max(vals.values(), key=lambda p_: len(p_.t))
                    grey = all((vals[i] - vals[0]).is_zero() for i in range(3))
                    S_, V_ = cx2.fpoly(hs[1]), cx2.fpoly(hs[2])
                    oks = cx2.sgn(S_) >= 0 and cx2.sgn(ONE - S_) >= 0
                    okv = cx2.clear(V_ - mx).is_zero()
                    okh = True
                    if not grey:
                        H_ = cx2.fpoly(hs[0])
                        okh = cx2.sgn(H_) >= 0 and cx2.sgn(Poly.const(360) - H_) > 0
                    ok = oks and okv and okh
                    res.append(R.ob(oid + '.range', 'hsv_range', R.PROVED if ok else R.REFUTED,
                                    'hue in [0, 360), saturation in [0, 1], value = max channel' if ok else 'out of range: saturation ok %s, value ok %s, hue ok %s' % (oks, okv, okh), kernel=kh.source()))
                except Undetermined as e:
                    res.append(R.ob(oid + '.range', 'hsv_range', R.UNDECIDED, 'a comparison could not be decided: %s' % e, kernel=kh.source()))
                except (P.NonFinite, P.TooBig, P.NeedAtom) as e:
                    res.append(R.ob(oid + '.range', 'hsv_range', R.UNDECIDED, 'no normal form: %s' % type(e).__name__, kernel=kh.source()))
            # ---- hue seam: rgbColor is periodic at the seam, rgbColor(360, s, v) == rgbColor(0, s, v)   (s, v positive symbols)
            rg = L.out_lanes(ctx, kr, v3)
            sS, sV = Poly.atom(('sym', 's')), Poly.atom(('sym', 'v'))
            try:
                l0 = [ConeCtx({cin[0]: ZERO, cin[1]: sS, cin[2]: sV}).fpoly(rg[i]) for i in range(3)]
                l6 = [ConeCtx({cin[0]: Poly.const(360), cin[1]: sS, cin[2]: sV}).fpoly(rg[i]) for i in range(3)]
                bad = [i for i in range(3) if not (l0[i] - l6[i]).is_zero()]
                res.append(R.ob(name + '.seam', 'hsv_seam', R.PROVED if not bad else R.REFUTED,
                                'rgbColor(360, s, v) == rgbColor(0, s, v) = (%s)' % ', '.join(P.show_poly(x) for x in l0) if not bad else
                                'rgbColor(360, s, v) = (%s) but rgbColor(0, s, v) = (%s): the hue circle does not close' % (', '.join(P.show_poly(x) for x in l6), ', '.join(P.show_poly(x) for x in l0)),
                                where=R.where_of(ctx.fn(kr), rg[bad[0]]) if bad else None, kernel=kr.source()))
            except Undetermined as e:
                res.append(R.ob(name + '.seam', 'hsv_seam', R.UNDECIDED, 'a comparison could not be decided: %s' % e, kernel=kr.source()))
            except (P.NonFinite, P.TooBig, P.NeedAtom) as e:
                res.append(R.ob(name + '.seam', 'hsv_seam', R.UNDECIDED, 'no normal form: %s' % type(e).__name__, kernel=kr.source()))
            return res
        cs.append(R.Case(name, [krt, kh, kr], judge))
    return cs
