"""shared rule: no narrowing inside a double computation.

The polynomial / rational normal forms read float arithmetic as exact real arithmetic and `fptrunc` / `fpext` as the identity, so a double value that is squeezed
through a float temporary (a local declared `float` in a template instantiated for double, a `static_cast<float>` left over from a float-only version) is invisible
to them although the result then has float accuracy only - which breaks every "within a rounding bound of the element type" clause.  For every kernel of a rule
module whose result has 64-bit float lanes, no lane term may contain a conversion to a narrower float format.  Holds for all inputs (it is a fact about the
expression, not about values); a kernel whose inputs are themselves narrower (mixed-type constructors and conversions) is exempt: there the narrow value is the input."""
from laneflow import term as tm
from laneflow import runner as R
from laneflow import rulelib as L
from laneflow import interp as I


def cases(cs, tag):
    out = []
    seen = set()
    for c in cs:
        if c.canary:
            continue
        for k in c.kernels:
            if (k.cfg.key(), k.name) in seen:
                continue
            seen.add((k.cfg.key(), k.name))
            outs = [(p[0], p[2]) for p in k.params if not p[4] and 'double' in p[1] and 'float' not in p[1] and p[2] % 8 == 0]
            if not outs or len(outs) != sum(1 for p in k.params if not p[4]):
                continue
            if any('float' in p[1] for p in k.params if p[4]):
                continue

            def judge(ctx, k=k, outs=outs):
                if ctx.compile_error(k):
                    return []
                try:
                    ctx.fn(k)
                except I.Unsupported:
                    return []
                bad = None
                n = 0
                it = ctx.fn(k)
                for name, size in outs:
                    for off in range(0, size, 8):
                        t = I.out_lane(it, name, off, 8)
                        n += 1
                        nw = L.narrowing(t, 64)
                        if nw is not None and bad is None:
                            bad = ('%s@%d' % (name, off), nw)
                oid = 'narrowing:%s@%s' % (k.name[2:], k.cfg.name)
                if bad:
                    return [R.ob(oid, 'narrowing', R.REFUTED, 'lane %s of the double result passes through a %d-bit float (%s): float accuracy only, whatever the formula' % (bad[0], bad[1].w, tm.show(bad[1], 3)),
                                 where=R.where_of(ctx.fn(k), bad[1]), kernel=k.source())]
                return [R.ob(oid, 'narrowing', R.PROVED, 'no conversion to a narrower float format in the %d lane terms' % n, kernel=k.source())]
            out.append(R.Case('narrowing:%s@%s' % (k.name[2:], k.cfg.name), [k], judge))
    return out
