"""C20, memory clause (no out-of-bounds and no misaligned access): object-bounds / alignment analysis of every constant-offset access.

The kernels of the other rule modules (one GLM call each: operators, constructors, swizzles, casts, pack / unpack, value_ptr / make_*, the SIMD specialisations at
every ISA level ...) are compiled once more from /repo and `irtool --memcheck` inspects them *before* any optimisation that could narrow or delete an access: after
inlining + mem2reg + sccp + simplifycfg every load, store and constant-length memcpy / memmove / memset whose address is a constant offset into a local object, a
kernel argument (sizeof / alignof from a table emitted next to the kernel) or a global is classified

    in bounds      0 <= offset and offset + access size <= object size
    aligned        the access's required alignment divides the object's guaranteed alignment and the offset

A kernel with a violating access is REFUTED (the access, the object and the source line chain are named); a kernel all of whose decided accesses are fine is PROVED
for those accesses; accesses through a run-time index, a pointer phi / select or a pointer that was loaded from memory are counted as not decided here (run-time
indices are the out_of_bounds obligations of the sanitizer inventory).  Holds for all inputs: sizes, offsets and alignments do not depend on values.
"""
import importlib
from laneflow import runner as R
from laneflow.build import K, Cfg

# module -> tier from which its kernels are taken in the quick tier of this rule (None: thorough only)
QUICK = ('c06', 'c16', 'c17', 'c03', 'c05', 'c07', 'c18', 'c14', 'c19', 'c13', 'c04', 'c10', 'c12', 'c11', 'c09', 'c08', 'c02', 'c01')
SAN_PREFIX = '-fsanitize'



def _rel(path):
    """source path relative to the analysed tree (/repo, or the GLM_REPO override of the developer tools), with any ../ of an include chain folded"""
    import os
    from laneflow import build as _B
    q = os.path.normpath(path)
    root = os.path.normpath(_B.REPO) + os.sep
    return q[len(root):] if q.startswith(root) else q

def mem_cfg(cfg):
    flags = tuple(f for f in cfg.flags if not f.startswith(SAN_PREFIX))
    return Cfg(cfg.name + '@mem', defines=cfg.defines, flags=flags, headers=cfg.headers, noinline=(), std=cfg.std, prelude=cfg.prelude, peel=0, pre_text=cfg.pre_text, memcheck='only')


def judge_of(km, origin):
    def judge(ctx):
        name = km.name[2:]
        err = ctx.compile_error(km)
        if err:
            return []          # instantiability is the originating module's obligation
        d = ctx.mem.get((km.cfg.name, km.name))
        if d is None:
            return [R.ob(name, 'memory', R.UNDECIDED, 'no memory record for the kernel')]
        bad = [r for r in d['records'] if r['what'] in ('out_of_bounds', 'misaligned', 'type_pun')]
        if bad:
            r = bad[0]
            where = ['%s:%d %s' % (_rel(f), ln, fn) for f, ln, fn in r['dbg']][:5]
            obj = {'local': 'a local object of type %s' % r['name'].split(' = ')[0], 'arg': 'kernel argument %s' % r['name'], 'global': 'the global %s' % r['name']}[r['obj']]
            if r['what'] == 'type_pun':
                return [R.ob(name, 'aliasing', R.REFUTED, '%s at offset %d of %s: %s is a plain typed access in the baseline compiler\'s (g++) intrinsic headers, so this is a strict-aliasing violation '
                             'and the stores / loads may be reordered or removed at -O2 (clang\'s headers use may_alias types, which hides it there)' % (r['kind'].replace('_', ' '), r['off'], {'local': 'a local object', 'arg': 'kernel argument', 'global': 'a global'}[r['obj']], r['name']),
                             where=where, kernel=km.source())]
            if r['what'] == 'out_of_bounds':
                msg = '%s of %d byte(s) at offset %d of %s, which is %d bytes: out of bounds for every input' % (r['kind'].replace('_', ' '), r['size'], r['off'], obj, r['objsize'])
            else:
                msg = '%s that requires %d-byte alignment at offset %d of %s, which is only guaranteed %d-byte alignment' % (r['kind'].replace('_', ' '), r['need_align'], r['off'], obj, r['objalign'])
            return [R.ob(name, 'memory', R.REFUTED, msg + ' (%d such access(es) in this kernel)' % len(bad), where=where, kernel=km.source())]
        if d['ok'] == 0:
            return []          # nothing to decide: the kernel touches no object of known extent through a constant offset (scalar-only kernels)
        return [R.ob(name, 'memory', R.PROVED, '%d constant-offset accesses are inside their objects and sufficiently aligned (%d through run-time indices and %d through other pointers are not decided here); origin %s'
                     % (d['ok'], d['varidx'], d['unknown'], origin), kernel=km.source())]
    return judge


def own_kernels(c20, tier):
    out = []
    for i, f in enumerate(c20.corpus(tier)):
        out.append(c20.mk_kernel(f, i))
    return out


def layout_kernels(tier):
    """functions that copy or reinterpret whole objects (memcpy between vectors of different element types, reinterpret_cast between vector types, the lowp bit trick):
    instantiated for every length with packed and aligned qualifiers under the intrinsic configurations, where sizeof(vec<3, T, aligned>) != 3 sizeof(T)"""
    from laneflow import gtypes as G
    from laneflow.build import P as Par
    hdr = ('glm/glm.hpp', 'glm/gtc/packing.hpp', 'glm/gtc/type_aligned.hpp', 'glm/gtc/type_ptr.hpp')
    cfgs = [Cfg('lay_sse2', defines=('GLM_FORCE_INTRINSICS',), flags=('-msse2',), headers=hdr),
            Cfg('lay_sse2_da', defines=('GLM_FORCE_INTRINSICS', 'GLM_FORCE_DEFAULT_ALIGNED_GENTYPES'), flags=('-msse2',), headers=hdr)]
    if tier == 'thorough':
        cfgs.append(Cfg('lay_avx2', defines=('GLM_FORCE_INTRINSICS',), flags=('-mavx2', '-mfma'), headers=hdr))
    out = []
    quals = ['packed_highp', 'aligned_highp', 'aligned_mediump', 'aligned_lowp'] + (['packed_lowp', 'packed_mediump'] if tier == 'thorough' else [])
    for cfg in cfgs:
        for L_ in (1, 2, 3, 4):
            for Q in quals:
                vf, vd, vh, vu, vi = G.vec(L_, 'float', Q), G.vec(L_, 'double', Q), G.vec(L_, 'uint16', Q), G.vec(L_, 'uint', Q), G.vec(L_, 'int', Q)
                v8, s16 = G.vec(L_, 'uint8', Q), G.vec(L_, 'int16', Q)
                tag = '%s_%d_%s' % (cfg.name, L_, Q)
                for nm, o, i, body in (('packHalf', vh, vf, '*o = packHalf(*v);'), ('unpackHalf', vf, vh, '*o = unpackHalf(*v);'),
                                       ('packUnorm8', v8, vf, '*o = packUnorm<glm::uint8>(*v);'), ('unpackUnorm8', vf, v8, '*o = unpackUnorm<float>(*v);'),
                                       ('packSnorm16', s16, vf, '*o = packSnorm<glm::int16>(*v);'), ('unpackSnorm16', vf, s16, '*o = unpackSnorm<float>(*v);'),
                                       ('packUnorm16d', vh, vd, '*o = packUnorm<glm::uint16>(*v);'),
                                       ('floatBitsToUint', vu, vf, '*o = floatBitsToUint(*v);'), ('floatBitsToInt', vi, vf, '*o = floatBitsToInt(*v);'),
                                       ('uintBitsToFloat', vf, vu, '*o = uintBitsToFloat(*v);'), ('intBitsToFloat', vf, vi, '*o = intBitsToFloat(*v);'),
                                       ('inversesqrt', vf, vf, '*o = inversesqrt(*v);'), ('make_vec', vf, vf, '*o = glm::make_vec%d(glm::value_ptr(*v));' % L_ if L_ > 1 else '*o = *v;')):
                    out.append(K('lay_%s_%s' % (nm, tag), [Par('o', o, False), Par('v', i)], body, cfg))
        # make_matCxR / make_quat from the raw array of an explicitly packed object (C * R contiguous values, as the manual's float[] examples)
        dq = 'aligned_highp' if 'GLM_FORCE_DEFAULT_ALIGNED_GENTYPES' in cfg.defines else 'packed_highp'
        for T in ('float', 'double'):
            for C in (2, 3, 4):
                for Rr in (2, 3, 4):
                    src, dst = G.mat(C, Rr, T, 'packed_highp'), G.mat(C, Rr, T, dq)
                    out.append(K('lay_make_mat%dx%d_%s_%s' % (C, Rr, G.scalar(T).tag, cfg.name), [Par('o', dst, False), Par('m', src)], '*o = glm::make_mat%dx%d(glm::value_ptr(*m));' % (C, Rr), cfg))
            out.append(K('lay_make_quat_%s_%s' % (G.scalar(T).tag, cfg.name), [Par('o', G.quat(T, dq), False), Par('q', G.quat(T, 'packed_highp'))], '*o = glm::make_quat(glm::value_ptr(*q));', cfg))
    return out


def cases(tier, c20):
    cs = []
    seen = set()

    def add(k, origin):
        cfgm = mem_cfg(k.cfg)
        key = (cfgm.key(), k.name)
        if key in seen:
            return
        seen.add(key)
        km = K(k.name + '__mem', k.params, k.body, cfgm, meta=k.meta, pre=getattr(k, 'pre', ''))
        cs.append(R.Case('memory:' + km.name[2:] + '@' + k.cfg.name, [km], judge_of(km, origin)))
    for k in own_kernels(c20, tier):
        add(k, 'C20')
    for k in layout_kernels(tier):
        add(k, 'C20 layout')
    for m in QUICK:
        mod = importlib.import_module('rules.' + m)
        for c in mod.cases(tier):
            if c.canary:
                continue
            for k in c.kernels:
                add(k, m.upper())
    cs += canaries()
    return cs


def canaries():
    from laneflow import gtypes as G
    from laneflow.build import P as Par
    v3, u3 = G.vec(3, 'float'), G.vec(3, 'uint16')
    pre = ('static glm::vec<3, glm::uint16, glm::highp> verif_bad_copy(glm::vec3 const& v){ glm::vec<4, glm::uint16, glm::highp> t(glm::uint16(v.x), glm::uint16(v.y), glm::uint16(v.z), 0); '
           'glm::vec<3, glm::uint16, glm::highp> r; memcpy(&r, &t, sizeof(t)); return r; }')       # sizeof of the source, not the destination
    cfg = Cfg('mem_canary', headers=('glm/glm.hpp',), memcheck='only')
    k = K('canary_memcpy_size', [Par('o', u3, False), Par('v', v3)], '*o = verif_bad_copy(*v);', cfg, pre=pre)
    c = R.Case('canary:memcpy-with-the-size-of-the-source', [k], judge_of(k, 'canary'), canary=True)
    j = c.judge
    c.judge = lambda ctx: [dict(r, id='canary:memcpy-with-the-size-of-the-source') for r in j(ctx)]
    return [c]
