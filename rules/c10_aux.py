"""C10, the remaining anchors: gtx/matrix_operation diagonal builders, gtx/matrix_query predicates, gtx/matrix_factorisation.

  diagonal      diagonalCxR(v): v_i on the main diagonal, zero elsewhere (pure selection)
  flip          fliplr / flipud: column / row reversal (pure selection)
  query         isNull / isIdentity / isNormalized / isOrthogonal: the result is the conjunction of exactly the comparisons of the definition: every conjunct |e| <= bound
                of the kernel matches one of the definition (e as a polynomial up to sign, bound as a polynomial) and vice versa
                  isNull(M, eps)        every column c:  |c| <= eps
                  isIdentity(M, eps)    every entry:     |m[c][r] - delta_cr| <= eps
                  isNormalized(M, eps)  every column and every row v:  | |v| - 1 | <= 2 eps
                  isOrthogonal(M, eps)  columns and rows: isNormalized and |v_i . v_j| <= eps for i < j
  qr / rq       qr_decompose: Q = modified Gram-Schmidt of the columns (each made orthogonal to the previous q's one after the other, then normalised), R[j][i] = in[j] . q[i]
                for j >= i and 0 below;  rq_decompose: the same applied to the flipped transpose, flipped back
"""
from fractions import Fraction
from laneflow import term as tm
from laneflow import poly as P
from laneflow import gtypes as G
from laneflow import runner as R
from laneflow import rulelib as L
from laneflow import spec as S
from laneflow.build import K, P as Par, Cfg
from laneflow.poly import Poly

CFG = Cfg('c10aux', headers=('glm/glm.hpp', 'glm/gtx/matrix_operation.hpp', 'glm/gtx/matrix_query.hpp', 'glm/gtx/matrix_factorisation.hpp'))


def sel_case(name, rule, k, outty, want):
    def judge(ctx):
        err = ctx.compile_error(k)
        if err:
            return [R.ob(name, 'existence', R.REFUTED, 'cannot be instantiated: ' + err, kernel=k.source())]
        lanes = L.out_lanes(ctx, k, outty)
        res = []
        for lane in sorted(lanes, key=str):
            w = want(lane)
            ok = lanes[lane] is w
            res.append(R.ob('%s[%s]' % (name, lane), rule, R.PROVED if ok else (R.REFUTED if lanes[lane].op in ('in', 'const') else R.UNDECIDED),
                            'is %s' % tm.show(w, 2) if ok else 'is %s, expected %s' % (tm.show(lanes[lane], 3), tm.show(w, 2)), where=R.where_of(ctx.fn(k), lanes[lane]) if not ok else None, kernel=k.source()))
        return res
    return R.Case(name, [k], judge)


def bool_atoms(t):
    """comparison leaves of the boolean structure (and / or / not / 1-bit select); the operands of a comparison are not entered"""
    out, seen, stack = [], set(), [t]
    while stack:
        x = stack.pop()
        if x in seen:
            continue
        seen.add(x)
        if x.op == 'fcmp':
            out.append(x)
        elif x.op in ('and', 'or', 'not') or (x.op == 'select' and x.w == 1):
            stack.extend(a for a in x.args if isinstance(a, tm.T))
        elif x.op != 'const':
            return []
    return out


class BDD:
    """reduced ordered BDD over the comparison atoms (variables ordered by first appearance): canonical, so equal functions are the same node"""

    def __init__(self):
        self.uniq = {}
        self.memo = {}
        self.order = {}

    def var(self, a):
        i = self.order.setdefault(a, len(self.order))
        return self.mk(i, False, True)

    def mk(self, v, lo, hi):
        if lo is hi or lo == hi:
            return lo
        k = (v, id(lo) if not isinstance(lo, bool) else lo, id(hi) if not isinstance(hi, bool) else hi)
        n = self.uniq.get(k)
        if n is None:
            n = self.uniq[k] = (v, lo, hi)
        return n

    def top(self, *fs):
        return min(f[0] for f in fs if not isinstance(f, bool))

    def cof(self, f, v, val):
        if isinstance(f, bool) or f[0] != v:
            return f
        return f[2] if val else f[1]

    def ite(self, f, g, h):
        if f is True:
            return g
        if f is False:
            return h
        if isinstance(g, bool) and isinstance(h, bool):
            if g and not h:
                return f
            if g == h:
                return g
        k = (id(f), id(g) if not isinstance(g, bool) else g, id(h) if not isinstance(h, bool) else h)
        r = self.memo.get(k)
        if r is not None or k in self.memo:
            return r
        v = self.top(f, g, h)
        lo = self.ite(self.cof(f, v, False), self.cof(g, v, False), self.cof(h, v, False))
        hi = self.ite(self.cof(f, v, True), self.cof(g, v, True), self.cof(h, v, True))
        r = self.mk(v, lo, hi)
        self.memo[k] = r
        return r

    def build(self, t, cache):
        r = cache.get(t)
        if r is not None or t in cache:
            return r
        op = t.op
        if op == 'const':
            r = bool(t.args[0])
        elif op == 'fcmp':
            # an unordered predicate is the negation of the complementary ordered one (ult(a, b) == not oge(a, b)): both spellings of one comparison share a variable
            pred, a_, b_ = t.args
            neg = False
            if pred in ('ult', 'ule', 'ugt', 'uge'):
                pred, neg = {'ult': 'oge', 'ule': 'ogt', 'ugt': 'ole', 'uge': 'olt'}[pred], True
            if pred in ('oge', 'ogt'):
                pred, a_, b_ = {'oge': 'ole', 'ogt': 'olt'}[pred], b_, a_
            r = self.var(tm.fcmp(pred, a_, b_) if pred in ('ole', 'olt') else t)
            if neg:
                r = self.ite(r, False, True)
        elif op == 'and':
            r = True
            for a in t.args:
                r = self.ite(self.build(a, cache), r, False)
        elif op == 'or':
            r = False
            for a in t.args:
                r = self.ite(self.build(a, cache), True, r)
        elif op == 'not':
            r = self.ite(self.build(t.args[0], cache), False, True)
        elif op == 'select' and t.w == 1:
            r = self.ite(self.build(t.args[0], cache), self.build(t.args[1], cache), self.build(t.args[2], cache))
        else:
            raise ValueError(op)
        cache[t] = r
        return r


def canon_atoms(atoms):
    out, seen = [], set()
    for t in atoms:
        pred, a_, b_ = t.args
        if pred in ('ult', 'ule', 'ugt', 'uge'):
            pred = {'ult': 'oge', 'ule': 'ogt', 'ugt': 'ole', 'uge': 'olt'}[pred]
        if pred in ('oge', 'ogt'):
            pred, a_, b_ = {'oge': 'ole', 'ogt': 'olt'}[pred], b_, a_
        c = tm.fcmp(pred, a_, b_) if pred in ('ole', 'olt') else t
        if c not in seen:
            seen.add(c)
            out.append(c)
    return out


def is_conjunction_of(t, atoms):
    """t (and / or / not / 1-bit select over the comparison atoms, e.g. early-exit loops) is exactly the conjunction of the atoms: equality of canonical BDDs"""
    bd = BDD()
    try:
        for a in atoms:
            bd.var(a)
        f = bd.build(t, {})
        g = True
        for a in atoms:
            g = bd.ite(bd.var(a), g, False)
    except (ValueError, RecursionError):
        return False
    return f is g or f == g


def conjuncts(t):
    """the set of comparison leaves of a conjunction (possibly written with selections / early exits), or None"""
    if not (t.op == 'and' and t.w == 1) and t.op not in ('fcmp', 'const'):
        atoms = canon_atoms(bool_atoms(t))
        return atoms if (atoms and len(atoms) <= 64 and is_conjunction_of(t, atoms)) else None
    if t.op == 'and':
        atoms = canon_atoms(bool_atoms(t))
        return atoms if (atoms and len(atoms) <= 64 and is_conjunction_of(t, atoms)) else None
    if t.op == 'and' and t.w == 1:
        out = []
        for a in t.args:
            c = conjuncts(a)
            if c is None:
                return None
            out += c
        return out
    if t.op == 'fcmp':
        return [t]
    if t.op == 'const' and t.args[0] == 1:
        return []
    return None


def cmp_key(c, pc):
    """canonical key of  |e| <= b  (e up to sign): (('abs', poly e normalised by sign) , poly b)"""
    pred, a, b = c.args
    if pred in ('oge', 'uge'):
        pred, a, b = {'oge': 'ole', 'uge': 'ule'}[pred], b, a
    if pred != 'ole':
        return None
    e = None
    if a.op == 'fabs':
        e = a.args[0]
    elif a.op == 'select':
        # select(0 <= x, x, -x)
        cnd, p1, p2 = a.args
        try:
            if pc.fpoly(p1) == -pc.fpoly(p2):
                e = p1
        except (P.NonFinite, P.TooBig):
            pass
    elif a.op == 'sqrt':
        e = None
    try:
        if e is not None:
            pe = pc.fpoly(e)
            if pe.t and pe.t[min(pe.t)] < 0:
                pe = -pe
            return ('abs', pe.key(), pc.fpoly(b).key())
        return ('raw', pc.fpoly(a).key(), pc.fpoly(b).key())
    except (P.NonFinite, P.TooBig):
        return None


def query_case(name, k, specfn):
    """specfn() -> list of (E expression e or None, raw E expression a or None, E bound): conjunct |e| <= bound, or a <= bound when e is None"""
    bt = G.scalar('bool')

    def judge(ctx):
        err = ctx.compile_error(k)
        if err:
            return [R.ob(name, 'existence', R.REFUTED, 'cannot be instantiated: ' + err, kernel=k.source())]
        t = tm.slice_(L.out_lanes(ctx, k, bt)[0], 0, 1)
        cj = conjuncts(t)
        if cj is None:
            return [R.ob(name, 'query', R.UNDECIDED, 'not a pure conjunction of comparisons: %s' % tm.show(t, 3), kernel=k.source())]
        pc = P.PCtx()
        got = {}
        for c in cj:
            kk = cmp_key(c, pc)
            if kk is None:
                return [R.ob(name, 'query', R.UNDECIDED, 'comparison of unexpected form: %s' % tm.show(c, 4), kernel=k.source())]
            got[kk] = c
        want = {}
        for e, a, b in specfn():
            if e is not None:
                pe = pc.fpoly(e.t)
                if pe.t and pe.t[min(pe.t)] < 0:
                    pe = -pe
                want[('abs', pe.key(), pc.fpoly(b.t).key())] = '|%s| <= %s' % (P.show_poly(pe, limit=4), P.show_poly(pc.fpoly(b.t)))
            else:
                want[('raw', pc.fpoly(a.t).key(), pc.fpoly(b.t).key())] = '%s <= %s' % (P.show_poly(pc.fpoly(a.t), limit=4), P.show_poly(pc.fpoly(b.t)))
        missing = [v for kk, v in want.items() if kk not in got]
        extra = [tm.show(c, 4) for kk, c in got.items() if kk not in want]
        if not missing and not extra:
            return [R.ob(name, 'query', R.PROVED, 'the conjunction of exactly the %d comparisons of the definition' % len(want), kernel=k.source())]
        # a missing comparison together with a different one in its place is a definite difference only when both sides are comparisons of lane polynomials
        sure = all(x.op != 'fn' for c in got.values() for x in tm.walk(c))
        return [R.ob(name, 'query', R.REFUTED if sure else R.UNDECIDED, 'differs from the definition: missing %s ; instead %s' % ('; '.join(missing[:3]) or '-', '; '.join(extra[:3]) or '-'),
                     where=R.where_of(ctx.fn(k), t), kernel=k.source())]
    return R.Case(name, [k], judge)


def cases(tier):
    cs = []
    for T in ('float', 'double'):
        sc = G.scalar(T)
        w = sc.elem * 8
        tg = sc.tag
        # ---- diagonal builders, flips ---------------------------------------------------------------------------------------------------------
        for C in (2, 3, 4):
            for Rr in (2, 3, 4):
                mt = G.mat(C, Rr, T)
                n = min(C, Rr)
                vt = G.vec(n, T)
                k = K('diag_%s' % mt.tag, [Par('o', mt, False), Par('v', vt)], '*o = diagonal%dx%d(*v);' % (C, Rr), CFG)
                cs.append(sel_case('diagonal%dx%d<%s>' % (C, Rr, tg), 'diagonal', k, mt, lambda lane, vt=vt, w=w: L.in_term('v', vt, lane[0]) if lane[0] == lane[1] else tm.fconst(w, 0.0)))
                k = K('fliplr_%s' % mt.tag, [Par('o', mt, False), Par('m', mt)], '*o = fliplr(*m);', CFG)
                cs.append(sel_case('fliplr(mat%dx%d<%s>)' % (C, Rr, tg), 'flip', k, mt, lambda lane, mt=mt, C=C: L.in_term('m', mt, (C - 1 - lane[0], lane[1]))))
                k = K('flipud_%s' % mt.tag, [Par('o', mt, False), Par('m', mt)], '*o = flipud(*m);', CFG)
                cs.append(sel_case('flipud(mat%dx%d<%s>)' % (C, Rr, tg), 'flip', k, mt, lambda lane, mt=mt, Rr=Rr: L.in_term('m', mt, (lane[0], Rr - 1 - lane[1]))))
        # ---- predicates ---------------------------------------------------------------------------------------------------------------------
        bt = G.scalar('bool')
        eps = lambda sc=sc: S.lane('e', sc, 0)
        one = S.const(w, 1.0)
        for n in (2, 3, 4):
            mt = G.mat(n, n, T)
            col = lambda c, mt=mt, n=n: [S.lane('m', mt, (c, r)) for r in range(n)]
            row = lambda r, mt=mt, n=n: [S.lane('m', mt, (c, r)) for c in range(n)]
            ps = [Par('o', bt, False), Par('m', mt), Par('e', sc)]
            length = lambda v: S.sqrt(S.dot(v, v))
            k = K('isNull_%s' % mt.tag, ps, '*o = isNull(*m, *e);', CFG)
            cs.append(query_case('isNull(mat%d<%s>)' % (n, tg), k, lambda col=col, n=n, eps=eps, length=length: [(None, length(col(c)), eps()) for c in range(n)]))
            k = K('isIdentity_%s' % mt.tag, ps, '*o = isIdentity(*m, *e);', CFG)
            cs.append(query_case('isIdentity(mat%d<%s>)' % (n, tg), k,
                                 lambda mt=mt, n=n, eps=eps, one=one: [((S.lane('m', mt, (c, r)) - one) if c == r else S.lane('m', mt, (c, r)), None, eps()) for c in range(n) for r in range(n)]))
            k = K('isNormalized_%s' % mt.tag, ps, '*o = isNormalized(*m, *e);', CFG)
            cs.append(query_case('isNormalized(mat%d<%s>)' % (n, tg), k,
                                 lambda col=col, row=row, n=n, eps=eps, one=one, length=length: [(length(col(c)) - one, None, eps() * 2.0) for c in range(n)] + [(length(row(r)) - one, None, eps() * 2.0) for r in range(n)]))
            k = K('isOrthogonal_%s' % mt.tag, ps, '*o = isOrthogonal(*m, *e);', CFG)

            def orth(col=col, row=row, n=n, eps=eps, one=one, length=length):
                out = []
                for vecs in (col, row):
                    for i in range(n):
                        out.append((length(vecs(i)) - one, None, eps() * 2.0))
                        for j in range(i + 1, n):
                            out.append((S.dot(vecs(i), vecs(j)), None, eps()))
                return out
            cs.append(query_case('isOrthogonal(mat%d<%s>)' % (n, tg), k, orth))
        # non-square isIdentity (template over all shapes)
        for C, Rr in ((2, 3), (3, 4)):
            mt = G.mat(C, Rr, T)
            k = K('isIdentity_%s' % mt.tag, [Par('o', bt, False), Par('m', mt), Par('e', sc)], '*o = isIdentity(*m, *e);', CFG)
            cs.append(query_case('isIdentity(mat%dx%d<%s>)' % (C, Rr, tg), k,
                                 lambda mt=mt, C=C, Rr=Rr, eps=eps, one=one: [((S.lane('m', mt, (c, r)) - one) if c == r else S.lane('m', mt, (c, r)), None, eps()) for c in range(C) for r in range(Rr)]))
        # ---- QR / RQ ------------------------------------------------------------------------------------------------------------------------
        shapes = ((2, 2), (3, 3), (3, 2), (2, 3)) + (((4, 4),) if tier == 'thorough' else ())
        for C, Rr in shapes:
            mi = G.mat(C, Rr, T)
            mn = min(C, Rr)
            mq, mr = G.mat(mn, Rr, T), G.mat(C, mn, T)
            kq = K('qr_q_%s' % mi.tag, [Par('o', mq, False), Par('m', mi)], '{ %s r; qr_decompose(*m, *o, r); }' % mr.cpp, CFG)
            kr = K('qr_r_%s' % mi.tag, [Par('o', mr, False), Par('m', mi)], '{ %s q; qr_decompose(*m, q, *o); }' % mq.cpp, CFG)

            def gram(mi=mi, C=C, Rr=Rr, mn=mn, w=w, classical=False):
                cols = [[S.lane('m', mi, (c, r)) for r in range(Rr)] for c in range(C)]
                q = []
                for i in range(mn):
                    v = list(cols[i])
                    for j in range(i):
                        # modified Gram-Schmidt projects the running vector; the classical variant projects the input column (equal in exact arithmetic, but its
                        # loss of orthogonality grows with the square of the condition number)
                        d = S.dot(cols[i] if classical else v, q[j])
                        v = [a - b * d for a, b in zip(v, q[j])]
                    q.append(S.normalize(v))
                rr = {}
                for i in range(mn):
                    for j in range(C):
                        rr[(j, i)] = S.dot(cols[j], q[i]) if j >= i else S.const(w, 0.0)
                return q, rr

            def spec_q(gram=gram, mn=mn, Rr=Rr):
                q, _ = gram()
                return {(c, r): q[c][r] for c in range(mn) for r in range(Rr)}

            def spec_r(gram=gram):
                return gram()[1]
            def alt_q(gram=gram, mn=mn, Rr=Rr):
                q, _ = gram(classical=True)
                return {(c, r): q[c][r] for c in range(mn) for r in range(Rr)}

            def alt_r(gram=gram):
                return gram(classical=True)[1]
            cs.append(spec_case('qr_decompose(mat%dx%d<%s>).Q' % (C, Rr, tg), kq, mq, spec_q, alt_q))
            cs.append(spec_case('qr_decompose(mat%dx%d<%s>).R' % (C, Rr, tg), kr, mr, spec_r, alt_r))
    return cs


def spec_case(name, k, outty, specfn, altfn=None):
    def judge(ctx):
        err = ctx.compile_error(k)
        if err:
            return [R.ob(name, 'existence', R.REFUTED, 'cannot be instantiated: ' + err, kernel=k.source())]
        lanes = L.out_lanes(ctx, k, outty)
        sp = specfn()
        pc = P.PCtx()
        res = []
        for lane in sorted(lanes, key=str):
            t = lanes[lane]
            if any(x.op == 'in' and x.args[0] == 'o' for x in tm.walk(t)) or any(x.op == 'undef' for x in tm.walk(t)):
                res.append(R.ob('%s[%s]' % (name, lane), 'qr', R.REFUTED, 'the entry is never written (previous content of the result object)', kernel=k.source()))
                continue
            st, detail = S.compare(t, sp[lane].t, pc=pc, nan=False)
            if st == R.UNDECIDED and altfn is not None:
                alt = altfn()
                if S.compare(t, alt[lane].t, pc=pc, nan=False)[0] == R.PROVED:
                    st, detail = R.REFUTED, ('the entry is the classical Gram-Schmidt formula (projection coefficients taken from the input column instead of the running, partially '
                                             'orthogonalised vector): equal in exact arithmetic, but the loss of orthogonality of q grows with the square of the condition number, not with the condition number as for the documented modified method')
            res.append(R.ob('%s[%s]' % (name, lane), 'qr', st, 'modified Gram-Schmidt entry' if st == R.PROVED else detail, where=R.where_of(ctx.fn(k), t) if st != R.PROVED else None, kernel=k.source()))
        return res
    return R.Case(name, [k], judge)
