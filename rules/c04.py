"""C04 — quaternion, matrix, axis-angle and Euler forms of a rotation agree  (both quaternion memory orders).

All comparisons are identities between normal forms (polynomials over the input lanes with cos/sin/sqrt/inverse atoms), where needed modulo the
unit-norm ideal  w^2 = 1 - x^2 - y^2 - z^2  of the quaternion arguments and  sin^2 = 1 - cos^2.

  hamilton      q*p, operator*=, cross(q,p): lanes == the Hamilton product
  sandwich      q*v (vec3 / vec4), rotate(q,v), mat3_cast(q)*v, mat4_cast: == vector part of q (0,v) conj(q)  (mod unit ideal);
                v*q == inverse(q)*v
  homomorphism  mat3_cast(q1*q2) == mat3_cast(q1) * mat3_cast(q2)   (mod both unit ideals)
  inverse       q*inverse(q) == (1,0,0,0) as rational identity; inverse(q) == conjugate(q) (mod unit ideal); conjugate negates x,y,z
  axis_angle    angleAxis(a, v) == (cos(a/2), v sin(a/2)); rotate(q, a, v) == q * angleAxis(a, v normalised when | |v| - 1 | > 0.001);
                mat3_cast(angleAxis(a, n)) == Rodrigues matrix of (a, n) for unit n (half-angle identities applied);
                angleAxis(angle(q), axis(q)) == q in each regime of angle()/axis() (inverse-trig axioms)
  euler_ctor    qua(vec3 euler) == angleAxis(z, ez) * angleAxis(y, ey) * angleAxis(x, ex)
  quat_cast     quat_cast(mat3_cast(q)): in every branch of the largest-of-four selection the result is parallel to q and has unit norm
                (mod unit ideal, sqrt(p^2) = |p|)  => it is q or -q
  two_vectors   qua(u, v) / rotation(u, v): shape of the generic arm; the rotation it describes maps u onto a positive multiple of v
  euler_build   eulerAngleX/Y/Z == textbook axis rotations; every eulerAngleAB / ABC, yawPitchRoll, orientate3/4 == product of its
                single-axis factors
  euler_extract extractEulerAngleABC(eulerAngleABC(t1,t2,t3)): each atan2 receives (lambda sin t, lambda cos t) with lambda the
                documented regime factor (cos t2 / sin t2 / 1 / |.|): returns t up to the regime
  layout        every obligation above is decided again with GLM_FORCE_QUAT_DATA_WXYZ
"""
from fractions import Fraction
from laneflow import term as tm
from laneflow import poly as P
from laneflow import gtypes as G
from laneflow import runner as R
from laneflow import rulelib as L
from laneflow import spec as S
from laneflow import interp as I
from laneflow.build import K, P as Par, Cfg
from laneflow.poly import Poly

HDR = ('glm/glm.hpp', 'glm/gtc/quaternion.hpp', 'glm/gtx/quaternion.hpp', 'glm/gtx/euler_angles.hpp', 'glm/gtx/rotate_vector.hpp', 'glm/ext/matrix_transform.hpp')
CFGS = {'xyzw': Cfg('quat_xyzw', headers=HDR, defines=('GLM_ENABLE_EXPERIMENTAL',)),
        'wxyz': Cfg('quat_wxyz', headers=HDR, defines=('GLM_ENABLE_EXPERIMENTAL', 'GLM_FORCE_QUAT_DATA_WXYZ'))}
ONE, ZERO = Poly.const(1), Poly()


# ---- quaternion algebra on polynomials: q = (w, x, y, z) -----------------------------------------------------------------------------

def qmul(p, q):
    return (p[0] * q[0] - p[1] * q[1] - p[2] * q[2] - p[3] * q[3],
            p[0] * q[1] + p[1] * q[0] + p[2] * q[3] - p[3] * q[2],
            p[0] * q[2] + p[2] * q[0] + p[3] * q[1] - p[1] * q[3],
            p[0] * q[3] + p[3] * q[0] + p[1] * q[2] - p[2] * q[1])


def qconj(q):
    return (q[0], -q[1], -q[2], -q[3])


def qnorm2(q):
    return q[0] * q[0] + q[1] * q[1] + q[2] * q[2] + q[3] * q[3]


def sandwich(q, v):
    r = qmul(qmul(q, (ZERO, v[0], v[1], v[2])), qconj(q))
    return r


def qin(name, qt):
    return tuple(L.in_atom(name, qt, c) for c in 'wxyz')


def vin(name, vt):
    return [L.in_atom(name, vt, i) for i in range(vt.shape[0])]


def unit(p, q):
    """reduce modulo |q|^2 = 1 : w^2 -> 1 - x^2 - y^2 - z^2 (q: tuple of atom polynomials)"""
    (wa,), = [m for m in q[0].t]
    return P.reduce_ideal(p, wa, ONE - q[1] * q[1] - q[2] * q[2] - q[3] * q[3], deg=2)


def sincos(p):
    for a in sorted(p.atoms()):
        k = P.atom_key(a)
        if k[0] == 'fn:sin':
            c = Poly.atom(('fn:cos',) + k[1:])
            p = P.reduce_ideal(p, a, ONE - c * c, deg=2)
    return p


def cossin(p):
    """the other orientation: cos^2 -> 1 - sin^2"""
    for a in sorted(p.atoms()):
        k = P.atom_key(a)
        if k[0] == 'fn:cos':
            s_ = Poly.atom(('fn:sin',) + k[1:])
            p = P.reduce_ideal(p, a, ONE - s_ * s_, deg=2)
    return p


def trig_sign(p, pc=None):
    """cos(-x) -> cos(x), sin(-x) -> -sin(x): canonical sign of the argument of every sin/cos atom (also inside other atoms is not needed here)"""
    for a in sorted(p.atoms()):
        k = P.atom_key(a)
        if k[0] in ('fn:sin', 'fn:cos') and len(k) == 2:
            q = k[1][1]
            if q.t and q.t[min(q.t)] < 0:
                rep = Poly.atom((k[0], ('P', -q)))
                p = p.subst(a, -rep if k[0] == 'fn:sin' else rep)
    return p


def judge_identity(oid, rule, got, want, kernel, norm=lambda p: p, text='', spheres=()):
    """PROVED when the normalised difference vanishes; REFUTED only with an explicit rational witness (on the unit spheres given) at which
    the un-normalised difference got - want evaluates, exactly, to a non-zero number"""
    d = norm(P.reduce_inv(got - want))
    if d.is_zero():
        return R.ob(oid, rule, R.PROVED, text or 'identity holds', kernel=kernel)
    env = P.find_witness('gt', ONE, [got - want], spheres=spheres) if P.transparent(got - want) else None
    if env is not None:
        for a_ in P.lane_atoms([got, want]):
            env.setdefault(a_, Fraction(1))          # lanes that cancel in the difference: any value
        return R.ob(oid, rule, R.REFUTED, '%s fails, e.g. at %s: got %s, expected %s' % (text or 'identity', P.show_env(env), P.eval_poly(got, env), P.eval_poly(want, env)), kernel=kernel)
    return R.ob(oid, rule, R.UNDECIDED, '%s: residual %s' % (text or 'identity', P.show_poly(d, limit=6)), kernel=kernel)


def sph(*qs):
    """unit-sphere constraint tuples for quaternion / vector atom tuples"""
    out = []
    for q in qs:
        out.append(tuple(m[0] for x in q for m in x.t))
    return tuple(out)


def poly_lanes(ctx, k, ty, pc, base=None):
    return {lane: pc.fpoly(t) for lane, t in L.out_lanes(ctx, k, ty, base).items()}


def qlanes(pl):
    return tuple(pl[c] for c in 'wxyz')


def guard(name, k, body):
    """wrap a judge so that a kernel that does not compile is a REFUTED existence obligation"""
    def judge(ctx):
        ks = k if isinstance(k, (list, tuple)) else [k]
        for kk in ks:
            err = ctx.compile_error(kk)
            if err:
                return [R.ob(name, 'existence', R.REFUTED, 'cannot be instantiated: ' + err, kernel=kk.source())]
        try:
            return body(ctx)
        except I.Unsupported as e:
            return [R.ob(name, 'engine', R.UNDECIDED, 'not interpretable: %s' % e)]
    return judge


def type_cases(T, lay, tier):
    cs = []
    cfg = CFGS[lay]
    wx = lay == 'wxyz'
    sc = G.scalar(T)
    w = sc.elem * 8
    tg = '%s,%s' % (sc.tag, lay)
    kt = '%s_%s' % (sc.tag, lay)
    qt, v3, v4, m3, m4 = G.quat(T, wxyz=wx), G.vec(3, T), G.vec(4, T), G.mat(3, 3, T), G.mat(4, 4, T)
    pQ, pP, pV, pA = Par('q', qt), Par('p', qt), Par('v', v3), Par('a', sc)

    def case(name, kernels, body):
        ks = kernels if isinstance(kernels, (list, tuple)) else [kernels]
        nm = '%s<%s>' % (name, tg)
        cs.append(R.Case(nm, list(ks), guard(nm, ks, lambda ctx: body(ctx, nm))))

    def kq(name, params, body_, out=None):
        return K('%s_%s' % (name, kt), [Par('o', out or qt, False)] + params, body_, cfg)

    # ---- hamilton -------------------------------------------------------------------------------------------------------------------
    for nm_, kn_, body_ in (('q*p', 'mul', '*o = *q * *p;'), ('q*=p', 'muleq', '{ %s r(*q); r *= *p; *o = r; }' % qt.cpp), ('cross(q,p)', 'cross', '*o = cross(*q, *p);')):
        k = kq('ham_' + kn_, [pQ, pP], body_)

        def body(ctx, nm, k=k):
            pc = P.PCtx()
            got = qlanes(poly_lanes(ctx, k, qt, pc))
            want = qmul(qin('q', qt), qin('p', qt))
            return [judge_identity('%s[%s]' % (nm, c), 'hamilton', got[i], want[i], k.source(), text='%s component of the Hamilton product' % c) for i, c in enumerate('wxyz')]
        case(nm_, k, body)

    # ---- sandwich -------------------------------------------------------------------------------------------------------------------
    def sand_case(nm_, k, outty, n, inv=False):
        def body(ctx, nm):
            pc = P.PCtx()
            got = poly_lanes(ctx, k, outty, pc)
            q = qin('q', qt)
            v = vin('v', v4 if n == 4 else v3)
            res = []
            if inv:
                # inverse(q) * v : conj(q)/|q|^2 sandwiched -> for a unit q it is conj(q) v q
                want = sandwich(qconj(q), v)
            else:
                want = sandwich(q, v)
            nrm = lambda p_: unit(P.reduce_inv(renorm_atoms(p_, lambda x: unit(x, q), pc)), q)
            for i in range(3):
                res.append(judge_identity('%s[%d]' % (nm, i), 'sandwich', got[i], want[i + 1], k.source(), norm=nrm, spheres=sph(q),
                                          text='component %d == vector part of %s for unit q' % (i, 'conj(q) (0,v) q' if inv else 'q (0,v) conj(q)')))
            if n == 4:
                res.append(judge_identity('%s[3]' % nm, 'sandwich', got[3], v[3], k.source(), text='w passes through'))
            return res
        case(nm_, k, body)
    sand_case('q*vec3', K('qv3_' + kt, [Par('o', v3, False), pQ, pV], '*o = *q * *v;', cfg), v3, 3)
    sand_case('q*vec4', K('qv4_' + kt, [Par('o', v4, False), pQ, Par('v', v4)], '*o = *q * *v;', cfg), v4, 4)
    sand_case('rotate(q,vec3)', K('rotqv3_' + kt, [Par('o', v3, False), pQ, pV], '*o = rotate(*q, *v);', cfg), v3, 3)
    sand_case('rotate(q,vec4)', K('rotqv4_' + kt, [Par('o', v4, False), pQ, Par('v', v4)], '*o = rotate(*q, *v);', cfg), v4, 4)
    sand_case('mat3_cast(q)*vec3', K('m3v_' + kt, [Par('o', v3, False), pQ, pV], '*o = mat3_cast(*q) * *v;', cfg), v3, 3)
    sand_case('mat4_cast(q)*vec4', K('m4v_' + kt, [Par('o', v4, False), pQ, Par('v', v4)], '*o = mat4_cast(*q) * *v;', cfg), v4, 4)
    sand_case('mat3(q)*vec3', K('m3cv_' + kt, [Par('o', v3, False), pQ, pV], '*o = %s(*q) * *v;' % m3.cpp, cfg), v3, 3)
    sand_case('vec3*q', K('v3q_' + kt, [Par('o', v3, False), pQ, pV], '*o = *v * *q;', cfg), v3, 3, inv=True)
    sand_case('vec4*q', K('v4q_' + kt, [Par('o', v4, False), pQ, Par('v', v4)], '*o = *v * *q;', cfg), v4, 4, inv=True)

    # mat4_cast == embedding of mat3_cast
    k43 = [K('m4c_' + kt, [Par('o', m4, False), pQ], '*o = mat4_cast(*q);', cfg), K('m3c_' + kt, [Par('o', m3, False), pQ], '*o = mat3_cast(*q);', cfg)]

    def body(ctx, nm):
        pc = P.PCtx()
        a, b = poly_lanes(ctx, k43[0], m4, pc), poly_lanes(ctx, k43[1], m3, pc)
        res = []
        for (c, r), p_ in sorted(a.items()):
            want = b[(c, r)] if c < 3 and r < 3 else (ONE if c == r else ZERO)
            res.append(judge_identity('%s[(%d, %d)]' % (nm, c, r), 'sandwich', p_, want, k43[0].source(), text='mat4_cast is mat3_cast embedded in the identity'))
        return res
    case('mat4_cast(q)', k43, body)

    # ---- homomorphism -------------------------------------------------------------------------------------------------------------
    kh = [K('hom1_' + kt, [Par('o', m3, False), pQ, pP], '*o = mat3_cast(*q * *p);', cfg), K('hom2_' + kt, [Par('o', m3, False), pQ, pP], '*o = mat3_cast(*q) * mat3_cast(*p);', cfg)]

    def body(ctx, nm):
        pc = P.PCtx()
        a, b = poly_lanes(ctx, kh[0], m3, pc), poly_lanes(ctx, kh[1], m3, pc)
        q, p = qin('q', qt), qin('p', qt)
        nrm = lambda x: unit(unit(x, q), p)
        return [judge_identity('%s[%s]' % (nm, lane), 'homomorphism', a[lane], b[lane], kh[0].source() + '\n' + kh[1].source(), norm=nrm, spheres=sph(q, p),
                               text='matrix of the product == product of the matrices for unit q, p') for lane in sorted(a)]
    case('mat3_cast(q*p)', kh, body)

    # ---- inverse / conjugate ----------------------------------------------------------------------------------------------------
    kc = kq('conj', [pQ], '*o = conjugate(*q);')

    def body(ctx, nm):
        pc = P.PCtx()
        got = qlanes(poly_lanes(ctx, kc, qt, pc))
        want = qconj(qin('q', qt))
        return [judge_identity('%s[%s]' % (nm, c), 'inverse', got[i], want[i], kc.source(), text='conjugate keeps w and negates x, y, z') for i, c in enumerate('wxyz')]
    case('conjugate(q)', kc, body)
    ki = kq('qinv', [pQ], '*o = inverse(*q);')

    def body(ctx, nm):
        pc = P.PCtx()
        got = qlanes(poly_lanes(ctx, ki, qt, pc))
        q = qin('q', qt)
        res = []
        prod = qmul(q, got)
        for i, c in enumerate('wxyz'):
            res.append(judge_identity('%s.q*inverse(q)[%s]' % (nm, c), 'inverse', prod[i], ONE if i == 0 else ZERO, ki.source(), text='q * inverse(q) == (1, 0, 0, 0)'))
        want = qconj(q)
        n2 = qnorm2(q)
        for i, c in enumerate('wxyz'):
            res.append(judge_identity('%s.unit[%s]' % (nm, c), 'inverse', got[i] * n2, want[i], ki.source(), text='inverse(q) * |q|^2 == conjugate(q), so inverse == conjugate for unit q'))
        return res
    case('inverse(q)', ki, body)

    # ---- axis / angle -------------------------------------------------------------------------------------------------------------
    ka = kq('angleAxis', [pA, pV], '*o = angleAxis(*a, *v);')
    half = Poly.const(Fraction(1, 2)) * L.in_atom('a', sc, 0)
    ch, sh = Poly.atom(('fn:cos', ('P', half))), Poly.atom(('fn:sin', ('P', half)))

    def body(ctx, nm):
        pc = P.PCtx()
        got = qlanes(poly_lanes(ctx, ka, qt, pc))
        v = vin('v', v3)
        want = (ch, v[0] * sh, v[1] * sh, v[2] * sh)
        return [judge_identity('%s[%s]' % (nm, c), 'axis_angle', got[i], want[i], ka.source(), text='(cos(a/2), v sin(a/2))') for i, c in enumerate('wxyz')]
    case('angleAxis(a,v)', ka, body)

    # mat3_cast(angleAxis(a, n)) == Rodrigues(a, n) for |n| = 1:   with c = cos a = 1 - 2 sh^2, s = sin a = 2 sh ch
    km = K('aa_mat_' + kt, [Par('o', m3, False), pA, pV], '*o = mat3_cast(angleAxis(*a, *v));', cfg)

    def body(ctx, nm):
        pc = P.PCtx()
        got = poly_lanes(ctx, km, m3, pc)
        n = vin('v', v3)
        c_, s_ = ONE - (sh * sh).scale(2), (sh * ch).scale(2)
        Kx = [[ZERO, -n[2], n[1]], [n[2], ZERO, -n[0]], [-n[1], n[0], ZERO]]
        (na,), = [m for m in n[2].t]

        def nrm(p_):
            p_ = sincos(p_)
            return P.reduce_ideal(p_, na, ONE - n[0] * n[0] - n[1] * n[1], deg=2)      # |n| = 1
        res = []
        for col in range(3):
            for r in range(3):
                want = (ONE - c_) * n[r] * n[col] + (c_ if r == col else s_ * Kx[r][col])
                res.append(judge_identity('%s[(%d, %d)]' % (nm, col, r), 'axis_angle', got[(col, r)], want, km.source(), norm=nrm, spheres=sph(n),
                                          text='matrix of angleAxis(a, n) == Rodrigues rotation by a about the unit axis n (cos a = 1 - 2 sin^2(a/2), sin a = 2 sin(a/2) cos(a/2))'))
        return res
    case('mat3_cast(angleAxis(a,n))', km, body)

    # rotate(q, a, v) == q * angleAxis(a, v / |v| if | |v| - 1 | > 0.001 else v)
    kr = [kq('qrot', [pQ, pA, pV], '*o = rotate(*q, *a, *v);'),
          kq('qrot_ref', [pQ, pA, pV], '{ %s n = *v; %s l = length(n); if (abs(l - %s(1)) > %s(0.001)) n = n * (%s(1) / l); *o = *q * angleAxis(*a, n); }' % (v3.cpp, sc.cpp, sc.cpp, sc.cpp, sc.cpp))]

    def body(ctx, nm):
        a, b = L.out_lanes(ctx, kr[0], qt), L.out_lanes(ctx, kr[1], qt)
        pc = P.PCtx()
        res = []
        for c in 'wxyz':
            st, detail = S.compare(a[c], b[c], pc=pc, nan=False)
            res.append(R.ob('%s[%s]' % (nm, c), 'axis_angle', st, detail.replace('the definition', 'q * angleAxis(a, normalised v)'), kernel=kr[0].source() + '\n' + kr[1].source()))
        return res
    case('rotate(q,a,v)', kr, body)

    # ---- euler ctor ---------------------------------------------------------------------------------------------------------------
    ke = [kq('qeuler', [Par('e', v3)], '*o = %s(*e);' % qt.cpp),
          kq('qeuler_ref', [Par('e', v3)], '*o = angleAxis(e->z, %s(0, 0, 1)) * angleAxis(e->y, %s(0, 1, 0)) * angleAxis(e->x, %s(1, 0, 0));' % (v3.cpp, v3.cpp, v3.cpp))]

    def body(ctx, nm):
        pc = P.PCtx()
        a, b = poly_lanes(ctx, ke[0], qt, pc), poly_lanes(ctx, ke[1], qt, pc)
        return [judge_identity('%s[%s]' % (nm, c), 'euler_ctor', a[c], b[c], ke[0].source() + '\n' + ke[1].source(),
                               text='qua(euler) == angleAxis(z, ez) * angleAxis(y, ey) * angleAxis(x, ex)') for c in 'wxyz']
    case('qua(eulerAngles)', ke, body)

    cs += quat_cast_cases(T, lay, cfg, qt, m3, kt, tg)
    cs += two_vector_cases(T, lay, cfg, qt, v3, kt, tg, sc)
    cs += angle_axis_roundtrip(T, lay, cfg, qt, v3, kt, tg, sc)
    cs += euler_extract_cases(T, lay, cfg, qt, v3, kt, tg, sc)
    if lay == 'xyzw':
        cs += euler_cases(T, cfg, kt, tg, sc, m4, m3, v3)
    return cs


# ---- roll / pitch / yaw / eulerAngles ---------------------------------------------------------------------------------------------------------

def euler_extract_cases(T, lay, cfg, qt, v3, kt, tg, sc):
    """quat(eulerAngles(q)) reproduces the rotation.  With q = qua(e), e = (pitch p, yaw y, roll r) (the composition the euler_ctor rule ties to the axis rotations):
      D1  away from the guard, pitch(q) = atan2(sin p cos y, cos p cos y) and roll(q) = atan2(sin r cos y, cos r cos y) -- the arguments of the returned atan2 are
          these products identically (half-angle atoms, sin^2 + cos^2 = 1) -- and yaw(q) = asin(sin y) (clamped to [-1, 1]);  so for cos y > 0 the angles come back;
      D2  in gimbal lock (cos y = 0, i.e. sin(y/2) = +-cos(y/2)), where only p -+ r is determined, roll returns 0 and pitch returns 2 atan2 of arguments
          proportional to (sin((p -+ r)/2), cos((p -+ r)/2));
      D3  (generic unit q) the fallback is taken only on paths that bound BOTH arguments of the regular atan2 by epsilon: a path that leaves the regular formula while one
          argument is still large returns a different angle -- refuted with a rational unit quaternion on that path;
      D4  eulerAngles(q) is (pitch, yaw, roll) lane by lane."""
    cs = []
    half = Fraction(1, 2)
    E = [L.in_atom('e', v3, i) for i in range(3)]
    C = [Poly.atom(('fn:cos', ('P', E[i].scale(half)))) for i in range(3)]
    Sn = [Poly.atom(('fn:sin', ('P', E[i].scale(half)))) for i in range(3)]
    sin_ = lambda i: (Sn[i] * C[i]).scale(2)
    cos_ = lambda i: ONE - (Sn[i] * Sn[i]).scale(2)
    norm = lambda p_: cossin(P.reduce_inv(p_))

    def atan2_atoms(p_):
        return [(a, P.atom_key(a)) for a in p_.atoms() if P.atom_key(a)[0] == 'fn:atan2']

    def regime(asg, infos):
        return ', '.join('%s %s %s' % (P.show_poly(infos[at][0], limit=2), '<' if v == 'lt' else '>', P.show_poly(infos[at][1], limit=2)) for at, v in asg.items() if at[0] == 'pair')[:260]

    for fn_, ang in (('pitch', 0), ('roll', 2)):
        kc = K('%s_of_euler_%s' % (fn_, kt), [Par('o', sc, False), Par('e', v3)], '*o = %s(%s(*e));' % (fn_, qt.cpp), cfg)
        kg = K('%s_q_%s' % (fn_, kt), [Par('o', sc, False), Par('q', qt)], '*o = %s(*q);' % fn_, cfg)
        name = '%s(q)<%s>' % (fn_, tg)

        def judge(ctx, kc=kc, kg=kg, fn_=fn_, ang=ang, name=name):
            res = []
            for kern in (kc, kg):
                err = ctx.compile_error(kern)
                if err:
                    return [R.ob(name, 'existence', R.REFUTED, 'cannot be instantiated: ' + err, kernel=kern.source())]
            # ---- D1 / D2 on the composed kernel
            t = L.out_lanes(ctx, kc, sc)[0]
            leaves = P.decision_paths(lambda a_: P.NormCtx(a_, norm), lambda cx: cx.fpoly(t))
            seen = set()
            Yt, Xt = norm(sin_(ang) * cos_(1)), norm(cos_(ang) * cos_(1))
            nmain = nfall = 0
            for asg, infos, got, cx in leaves:
                if got.key() in seen:
                    continue
                seen.add(got.key())
                at2 = atan2_atoms(got)
                oid = '%s.euler.path%d' % (name, len(seen))
                if len(at2) == 1 and (got - Poly.var(at2[0][0])).is_zero():
                    Y, X = norm(at2[0][1][1][1]), norm(at2[0][1][2][1])
                    ok = (Y - Yt).is_zero() and (X - Xt).is_zero()
                    # a common positive constant factor is as good
                    if not ok and X.t and Xt.t:
                        for f in (Fraction(2), Fraction(1, 2), Fraction(4), Fraction(1, 4)):
                            ok = ok or ((Y - Yt.scale(f)).is_zero() and (X - Xt.scale(f)).is_zero())
                    nmain += 1
                    st = R.PROVED if ok else R.UNDECIDED
                    if not ok:
                        d = [x for x in (Y - Yt, X - Xt) if not x.is_zero()]
                        env = P.find_witness('gt', ONE, d[:1]) if all(P.transparent(x) for x in d[:1]) else None
                        # the arguments differ from the products at a point; they could still be proportional there: require the cross product to be non-zero
                        cr = norm(Y * Xt - X * Yt)
                        if not cr.is_zero() and P.transparent(cr):
                            env = P.find_witness('gt', ONE, [cr])
                            if env is not None:
                                st = R.REFUTED
                                res.append(R.ob(oid, 'euler_extract', st, '%s(qua(e)) = atan2(Y, X) with (Y, X) not parallel to (sin cos y, cos cos y): Y cos - X sin = %s at %s' % (fn_, P.eval_poly(cr, env), P.show_env(env)), kernel=kc.source()))
                                continue
                    res.append(R.ob(oid, 'euler_extract', st, ('%s(qua(e)) = atan2(sin %s cos y, cos %s cos y)  [%s]' % (fn_, 'pr'[ang // 2], 'pr'[ang // 2], regime(asg, infos))) if ok else
                                    'atan2 arguments %s ; %s' % (P.show_poly(Y, limit=4), P.show_poly(X, limit=4)), kernel=kc.source()))
                    continue
                nfall += 1
                if fn_ == 'roll':
                    ok = got.is_zero()
                    res.append(R.ob(oid, 'euler_extract', R.PROVED if ok else R.UNDECIDED, 'gimbal lock: roll is returned as 0' if ok else 'fallback value %s' % P.show_poly(got, limit=4), kernel=kc.source()))
                    continue
                ok = False
                detail = 'fallback value %s' % P.show_poly(got, limit=4)
                if len(at2) == 1 and (got - Poly.var(at2[0][0]).scale(2)).is_zero():
                    Y, X = at2[0][1][1][1], at2[0][1][2][1]
                    (sya,), = list(Sn[1].t)
                    good = 0
                    for sg in (1, -1):
                        # sin(y/2) = sg cos(y/2):  (Y, X) must be  k cos(y/2) (sin((p - sg r)/2), cos((p - sg r)/2)),  k > 0
                        Ys, Xs = norm(Y.subst(sya, C[1].scale(sg))), norm(X.subst(sya, C[1].scale(sg)))
                        sd = Sn[0] * C[2] - (C[0] * Sn[2]).scale(sg)
                        cd = C[0] * C[2] + (Sn[0] * Sn[2]).scale(sg)
                        if norm(Ys - C[1] * sd).is_zero() and norm(Xs - C[1] * cd).is_zero():
                            good += 1
                    ok = good == 2
                    detail = 'gimbal lock: pitch is returned as 2 atan2(k sin((p -+ r)/2), k cos((p -+ r)/2)) = p -+ r' if ok else 'fallback arguments %s ; %s are not proportional to the half-angle sine / cosine of p -+ r' % (P.show_poly(Y, limit=4), P.show_poly(X, limit=4))
                res.append(R.ob(oid, 'euler_extract', R.PROVED if ok else R.UNDECIDED, detail, kernel=kc.source()))
            res.append(R.ob(name + '.euler.paths', 'euler_extract', R.PROVED if (nmain >= 1 and nfall >= 1) else R.UNDECIDED, '%d regular and %d fallback result forms' % (nmain, nfall), kernel=kc.source()))
            # ---- D3 on the generic kernel
            tg_ = L.out_lanes(ctx, kg, sc)[0]
            q = qin('q', qt)
            qa = [list(x.t)[0][0] for x in q]
            nrm = lambda p_: unit(P.reduce_inv(p_), q)
            leaves = P.decision_paths(lambda a_: P.NormCtx(a_, nrm), lambda cx: cx.fpoly(tg_))
            main = [(asg, infos, got) for asg, infos, got, cx in leaves if len(atan2_atoms(got)) == 1 and (got - Poly.var(atan2_atoms(got)[0][0])).is_zero()]
            if not main:
                res.append(R.ob(name + '.guard', 'euler_extract', R.UNDECIDED, 'no regular path found', kernel=kg.source()))
                return res
            at = atan2_atoms(main[0][2])[0][1]
            Yq, Xq = nrm(at[1][1]), nrm(at[2][1])
            n = 0
            for asg, infos, got, cx in leaves:
                a2 = atan2_atoms(got)
                if len(a2) == 1 and (got - Poly.var(a2[0][0])).is_zero():
                    continue
                n += 1
                cons = [(v, nrm(infos[at_][0] - infos[at_][1])) for at_, v in asg.items() if at_[0] == 'pair']
                # which of |X| <= eps, |Y| <= eps does the path contain?  (s X - eps < 0 with the sign s chosen by the path)
                def bounded(Z):
                    for v, e_ in cons:
                        for a_ in e_.atoms():
                            ka = P.atom_key(a_)
                            if ka[0] == 'fabs' and nrm(ka[1][1]) in (Z, -Z):
                                r_ = e_ + Poly.var(a_)
                                if r_.is_const() and r_.t and v == 'gt' and 0 < r_.cval() < Fraction(1, 1000):
                                    return True
                                r_ = e_ - Poly.var(a_)
                                if r_.is_const() and r_.t and v == 'lt' and 0 < -r_.cval() < Fraction(1, 1000):
                                    return True
                    for v, e_ in cons:
                        for sg in (1, -1):
                            r_ = e_ - Z.scale(sg)
                            if r_.is_const() and r_.t and ((v == 'lt' and 0 < -r_.cval() < Fraction(1, 1000)) or False):
                                return True
                            r_ = e_ + Z.scale(sg)
                            if r_.is_const() and r_.t and (v == 'gt' and 0 < r_.cval() < Fraction(1, 1000)):
                                return True
                    return False
                bx, by = bounded(Xq), bounded(Yq)
                oid = '%s.guard.path%d' % (name, n)
                if bx and by:
                    res.append(R.ob(oid, 'euler_extract', R.PROVED, 'the fallback is taken with both atan2 arguments below epsilon  [%s]' % regime(asg, infos), kernel=kg.source()))
                    continue
                # refutation: a rational unit quaternion on this path where the returned angle is not atan2(Y, X)
                wit = None
                for cand in _euler_candidates():
                    env = dict(zip(qa, cand))
                    try:
                        if not all((P.eval_poly(e_, env) < 0) if v == 'lt' else (P.eval_poly(e_, env) > 0) for v, e_ in cons):
                            continue
                        yv, xv = P.eval_poly(Yq, env), P.eval_poly(Xq, env)
                        if fn_ == 'roll' or not a2:
                            # returns a constant (0): wrong unless atan2(Y, X) is that constant, i.e. Y == 0 and X > 0
                            differs = got.is_const() and not (yv == 0 and xv > 0) and (got.is_zero())
                        else:
                            fy, fx = P.eval_poly(a2[0][1][1][1], env), P.eval_poly(a2[0][1][2][1], env)
                            # 2 atan2(fy, fx) has direction (fx + i fy)^2
                            dx, dy = fx * fx - fy * fy, 2 * fx * fy
                            differs = (got - Poly.var(a2[0][0]).scale(2)).is_zero() and (dx * yv - dy * xv != 0 or dx * xv + dy * yv < 0)
                    except P.CantEval:
                        continue
                    if differs:
                        wit = 'q = (w %s, x %s, y %s, z %s): the regular arguments are (Y, X) = (%s, %s), the path returns %s' % (cand[0], cand[1], cand[2], cand[3], yv, xv, P.show_poly(got, limit=3))
                        break
                res.append(R.ob(oid, 'euler_extract', R.REFUTED if wit else R.UNDECIDED,
                                'the fallback is taken although %s is not bounded by epsilon on the path  [%s]%s' % ('X' if not bx else 'Y', regime(asg, infos), ('  -- e.g. ' + wit) if wit else ''),
                                where=R.where_of(ctx.fn(kg), tg_) if wit else None, kernel=kg.source()))
            return res
        cs.append(R.Case(name, [kc, kg], judge))

    # yaw and eulerAngles
    ky = K('yaw_of_euler_%s' % kt, [Par('o', sc, False), Par('e', v3)], '*o = yaw(%s(*e));' % qt.cpp, cfg)
    ke = K('eulerAngles_q_%s' % kt, [Par('o', v3, False), Par('q', qt)], '*o = eulerAngles(*q);', cfg)
    kp = [K('%s_q_%s' % (f, kt), [Par('o', sc, False), Par('q', qt)], '*o = %s(*q);' % f, cfg) for f in ('pitch', 'yaw', 'roll')]
    name = 'yaw(q)<%s>' % tg

    def judge_y(ctx):
        res = []
        for kern in [ky, ke] + kp:
            err = ctx.compile_error(kern)
            if err:
                return [R.ob(name, 'existence', R.REFUTED, 'cannot be instantiated: ' + err, kernel=kern.source())]
        t = L.out_lanes(ctx, ky, sc)[0]
        leaves = P.decision_paths(lambda a_: P.NormCtx(a_, norm), lambda cx: cx.fpoly(t))
        seen = set()
        for asg, infos, got, cx in leaves:
            if got.key() in seen:
                continue
            seen.add(got.key())
            oid = '%s.euler.path%d' % (name, len(seen))
            asn = [P.atom_key(a) for a in got.atoms() if P.atom_key(a)[0] == 'fn:asin']
            if len(asn) == 1 and len(got.t) == 1:
                arg = norm(asn[0][1][1])
                ok = (arg - norm(sin_(1))).is_zero()
                if ok or arg.is_const():
                    # a constant argument is the clamped end: the path has |sin y| >= 1
                    res.append(R.ob(oid, 'euler_extract', R.PROVED, 'yaw(qua(e)) = asin(sin y)' if ok else 'clamped end asin(%s)' % P.show_poly(arg), kernel=ky.source()))
                    continue
                env = P.find_witness('gt', ONE, [arg - norm(sin_(1))]) if P.transparent(arg) else None
                res.append(R.ob(oid, 'euler_extract', R.REFUTED if env else R.UNDECIDED, 'asin argument %s is not sin y%s' % (P.show_poly(arg, limit=4), (' -- e.g. at ' + P.show_env(env)) if env else ''), kernel=ky.source()))
            else:
                res.append(R.ob(oid, 'euler_extract', R.UNDECIDED, 'result %s' % P.show_poly(got, limit=4), kernel=ky.source()))
        le = L.out_lanes(ctx, ke, v3)
        for i, f in enumerate(('pitch', 'yaw', 'roll')):
            ti = L.out_lanes(ctx, kp[i], sc)[0]
            same = le[i] is ti
            res.append(R.ob('eulerAngles(q)<%s>[%d]' % (tg, i), 'euler_extract', R.PROVED if same else R.UNDECIDED, 'component %d is %s(q)' % (i, f) if same else 'component %d: %s versus %s(q) = %s' % (i, tm.show(le[i], 3), f, tm.show(ti, 3)),
                            kernel=ke.source()))
        return res
    cs.append(R.Case(name, [ky, ke] + kp, judge_y))
    return cs


def _euler_candidates():
    """rational unit quaternions (w, x, y, z) in general position and on the zero sets of the regular atan2 arguments of pitch / roll"""
    F = Fraction
    base = [(F(1, 2), F(1, 10), F(7, 10), F(1, 2)), (F(1, 2), F(1, 2), F(1, 10), F(7, 10)), (F(1, 10), F(1, 2), F(1, 2), F(7, 10)), (F(7, 10), F(1, 2), F(1, 2), F(1, 10)),
            (F(0), F(3, 5), F(0), F(4, 5)), (F(3, 5), F(0), F(4, 5), F(0)), (F(0), F(0), F(3, 5), F(4, 5)), (F(3, 5), F(4, 5), F(0), F(0)),
            (F(2, 15), F(1, 3), F(2, 3), F(2, 3) * F(-1) + F(4, 3) - F(2, 15) * 0), (F(1, 3), F(2, 3), F(2, 3), F(0)), (F(2, 7), F(3, 7), F(6, 7), F(0)), (F(6, 7), F(2, 7), F(0), F(3, 7))]
    out = []
    import itertools
    for b in base:
        if sum(v * v for v in b) != 1:
            continue
        for sg in itertools.product((1, -1), repeat=4):
            out.append(tuple(v * s_ for v, s_ in zip(b, sg)))
    return out


# ---- quat_cast(mat3_cast(q)) ---------------------------------------------------------------------------------------------------------------

def sqrt_square(p, pc):
    """sqrt(c * m^2) -> sqrt(c) |m| when the argument is a single monomial with even powers and a square rational coefficient"""
    for a in sorted(p.atoms()):
        k = P.atom_key(a)
        if k[0] != 'sqrt':
            continue
        q = k[1][1]
        if len(q.t) != 1:
            continue
        (m, c), = q.t.items()
        rc = P._isqrt_frac(Fraction(c)) if c > 0 else None
        if rc is None or any(m.count(x) % 2 for x in set(m)):
            continue
        root = Poly({tuple(sorted(x for x in set(m) for _ in range(m.count(x) // 2))): Fraction(1)})
        p = p.subst(a, (Poly.atom(('fabs', ('P', root))) if m else ONE).scale(rc))
    return p


def abs_square(p):
    """|m|^2 -> m^2 ; inv(|m|)^2 -> inv(m)^2 is left to reduce_inv after this"""
    for a in sorted(p.atoms()):
        k = P.atom_key(a)
        if k[0] == 'fabs':
            p = P.reduce_ideal(p, a, k[1][1] * k[1][1], deg=2)
    return p


def fabs_atoms(p, depth=0):
    out = set()
    if depth > 6:
        return out
    for a in p.atoms():
        k = P.atom_key(a)
        if k[0] == 'fabs':
            out.add(a)
        for part in k[1:]:
            if isinstance(part, tuple) and len(part) == 2 and part[0] == 'P':
                out |= fabs_atoms(part[1], depth + 1)
    return out


def subst_abs(p, signs, pc, depth=0):
    """|m| -> sign * m for every fabs atom (signs: {atom: +1 | -1}), also inside inverse / sqrt atoms"""
    if depth > 6:
        return p
    for a in sorted(p.atoms()):
        k = P.atom_key(a)
        if k[0] == 'fabs' and a in signs:
            p = p.subst(a, subst_abs(k[1][1], signs, pc, depth + 1).scale(signs[a]))
        elif k[0] in ('inv', 'sqrt') and len(k) == 2 and k[1][0] == 'P':
            arg = subst_abs(k[1][1], signs, pc, depth + 1)
            if arg != k[1][1]:
                p = p.subst(a, pc.inv(arg) if k[0] == 'inv' else Poly.atom(('sqrt', ('P', arg))))
    return p


def zero_in_all_sign_cases(p, pc, post):
    """p == 0 on every sign region of the arguments of its |.| atoms"""
    import itertools
    fa = sorted(fabs_atoms(p))
    if len(fa) > 4:
        return False
    for sg in itertools.product((1, -1), repeat=len(fa)):
        if not post(P.reduce_inv(subst_abs(p, dict(zip(fa, sg)), pc))).is_zero():
            return False
    return True


def clear_invsqrt(p, pc):
    """multiply p by the smallest even power of sqrt(Q) that removes every inv(sqrt(Q)) / sqrt(Q) atom (a single Q), returning a polynomial
    free of them: p == 0 iff the result == 0 wherever Q != 0.  None if p mixes several such Q or odd powers remain."""
    rho = [a for a in p.atoms() if P.atom_key(a)[0] == 'inv' and len(P.atom_key(a)[1][1].t) == 1 and
           any(P.atom_key(x)[0] == 'sqrt' for m in P.atom_key(a)[1][1].t for x in m)]
    qs = set()
    for a in rho:
        (m, c), = P.atom_key(a)[1][1].t.items()
        if len(m) != 1 or c != 1:
            return None
        qs.add(m[0])
    if not qs:
        sq = [a for a in p.atoms() if P.atom_key(a)[0] == 'sqrt']
        if len(sq) != 1:
            return p
        qs = set(sq)
    if len(qs) != 1:
        return None
    (sa,) = qs
    Q = P.atom_key(sa)[1][1]
    ra = rho[0] if rho else None
    # p = sum_m c * sa^i * ra^j * rest ; net power of sqrt(Q): i - j
    net = {}
    for m, c in p.t.items():
        e = m.count(sa) - (m.count(ra) if ra is not None else 0)
        rest = tuple(x for x in m if x != sa and x != ra)
        net.setdefault(e, Poly())
        net[e] = net[e] + Poly({rest: c})
    lo = min(net)
    if any((e - lo) % 2 for e in net):
        return None
    out = Poly()
    for e, q in net.items():
        out = out + q * _ppow(Q, (e - lo) // 2)
    return out


def _ppow(q, n):
    r = ONE
    for _ in range(n):
        r = r * q
    return r


def enumerate_rows(terms, limit=12, rels=('lt', 'gt')):
    """all valuations of the comparison atoms the terms need (order relations of operand pairs; booleans for other conditions):
    [(vals, polys, ctx)], atoms, infos   or None when more than `limit` atoms are needed"""
    import itertools
    atoms, infos = [], {}
    while True:
        need = None
        rows = []
        for vals in itertools.product(*[(rels if a_[0] == 'pair' else (False, True)) for a_ in atoms]):
            ctxd = P.DecisionCtx(dict(zip(atoms, vals)))
            try:
                rows.append((vals, tuple(ctxd.fpoly(t) for t in terms), ctxd))
            except P.NeedAtom as e:
                need = e
                break
        if need is None:
            return rows, atoms, infos
        if len(atoms) >= limit:
            return None
        atoms.append(need.key)
        infos[need.key] = need.info


def deep(p, f, pc, depth=0):
    """apply the polynomial rewriting f bottom-up: first inside the argument polynomials of every atom (inv / sqrt / fabs / fn:*), then to p"""
    if depth > 8:
        return f(p)
    for a in sorted(p.atoms()):
        k = P.atom_key(a)
        if k[0] == 'in' or not any(isinstance(x, tuple) and len(x) == 2 and x[0] == 'P' for x in k[1:]):
            continue
        parts = tuple(('P', deep(x[1], f, pc, depth + 1)) if (isinstance(x, tuple) and len(x) == 2 and x[0] == 'P') else x for x in k[1:])
        if parts == tuple(k[1:]):
            continue
        if k[0] == 'inv':
            rep = pc.inv(parts[0][1])
        else:
            rep = Poly.atom((k[0],) + parts)
        p = p.subst(a, rep)
    return f(p)


_UC = {}


def _unit_candidates(qat):
    """rational unit 4-vectors (a, b, c, d) / n with 0 < a < b < c << d, all permutations and a few sign patterns"""
    import itertools, math
    key = tuple(qat)
    if key in _UC:
        return _UC[key]
    quads = []
    for a in range(1, 8):
        for b in range(a + 1, 10):
            for c in range(b + 1, 12):
                for d in range(4 * c + 1, 80):
                    n2 = a * a + b * b + c * c + d * d
                    n = math.isqrt(n2)
                    if n * n == n2:
                        quads.append((a, b, c, d, n))
    quads = quads[:12]
    out = []
    for a, b, c, d, n in quads:
        for perm in itertools.permutations((a, b, c, d)):
            for sg in ((1, 1, 1, 1), (1, -1, 1, -1)):
                out.append({qat[i]: Fraction(perm[i] * sg[i], n) for i in range(4)})
    _UC[key] = out
    return out


def quat_cast_cases(T, lay, cfg, qt, m3, kt, tg):
    k = K('qcast_rt_' + kt, [Par('o', qt, False), Par('q', qt)], '*o = quat_cast(mat3_cast(*q));', cfg)
    nm = 'quat_cast(mat3_cast(q))<%s>' % tg

    def body(ctx):
        import itertools
        lanes = L.out_lanes(ctx, k, qt)
        q = qin('q', qt)
        res = []
        # enumerate the valuations of the comparison atoms (the largest-of-four selection)
        er = enumerate_rows([lanes[c] for c in 'wxyz'])
        if er is None:
            return [R.ob(nm, 'quat_cast', R.UNDECIDED, 'more than 12 comparison atoms')]
        rows, atoms, infos = er
        distinct = {}
        for vals, got, ctxd in rows:
            distinct.setdefault(tuple(g.key() for g in got), (vals, got, ctxd))
        for bi, (key, (vals, got, ctxd)) in enumerate(sorted(distinct.items(), key=lambda kv: str(kv[1][0]))):
            oid = '%s.branch%d' % (nm, bi)
            ok = False
            for elim in range(4):
                # the unit ideal, oriented so that the square of component `elim` is eliminated (any orientation is a sound normal form)
                (ea,), = [m for m in q[elim].t]
                repl = ONE - sum((q[j] * q[j] for j in range(4) if j != elim), Poly())
                post = lambda x, ea=ea, repl=repl: P.reduce_ideal(x, ea, repl, deg=2)
                # push the ideal inside the sqrt / inverse atoms first: rebuild the atoms from normalised arguments (sqrt(4 w^2) -> 2 |w|)
                got_n = tuple(renorm_atoms(g, post, ctxd) for g in got)
                # parallel to q : got_i q_j - got_j q_i == 0   (on both sign regions of the |.| atom)
                ok_par = True
                resid = None
                for i in range(4):
                    for j in range(i + 1, 4):
                        d = got_n[i] * q[j] - got_n[j] * q[i]
                        if not zero_in_all_sign_cases(d, ctxd, post):
                            ok_par, resid = False, post(P.reduce_inv(d))
                n2 = qnorm2(got_n) - ONE
                ok_n = zero_in_all_sign_cases(n2, ctxd, post)
                nrm = lambda x, post=post: post(P.reduce_inv(x))
                n2 = nrm(n2)
                if ok_par and ok_n:
                    ok = True
                    break
            res.append(R.ob(oid, 'quat_cast', R.PROVED if ok else R.UNDECIDED,
                            'result is parallel to q and of unit norm (so it is q or -q): w = %s' % P.show_poly(nrm(got_n[0]), limit=3) if ok else
                            'parallel: %s (residual %s) ; norm^2 - 1 = %s' % (ok_par, P.show_poly(resid, limit=4) if resid is not None else '0', P.show_poly(n2, limit=4)), kernel=k.source()))
        if len(distinct) < 4:
            res.append(R.ob(nm + '.branches', 'quat_cast', R.UNDECIDED, 'expected the four largest-component branches, found %d distinct results' % len(distinct)))
        # conditioning of the pivot: every branch divides by sqrt(P) with P = 4 b^2 for its pivot component b.  For a unit q some component has b^2 >= 1/4;
        # a selection that can take a branch whose pivot is small (P < 1/4, i.e. |b| < 1/4) loses all accuracy although it is exact in real arithmetic.
        bad = None
        nrows = 0
        for vals, got, ctxd in rows:
            piv = None
            for g in got:
                for a_ in g.atoms():
                    ka = P.atom_key(a_)
                    if ka[0] == 'inv':
                        for b_ in ka[1][1].atoms():
                            kb = P.atom_key(b_)
                            if kb[0] == 'sqrt':
                                piv = kb[1][1]
            if piv is None:
                continue
            nrows += 1
            cons = [(v, infos[at][0] - infos[at][1]) for at, v in zip(atoms, vals) if at[0] == 'pair' and v in ('lt', 'gt')]
            if not all(P.transparent(e_) for _, e_ in cons) or not P.transparent(piv):
                continue
            env = None
            qat = [m[0] for x_ in q for m in x_.t]
            # structured candidates first: rational unit quaternions with one dominant component and three distinct small ones, in every arrangement
            for cand in _unit_candidates(qat):
                try:
                    if P.eval_poly(piv, cand) >= Fraction(1, 4):
                        continue
                    if all(((P.eval_poly(e_, cand) < 0) if r_ == 'lt' else (P.eval_poly(e_, cand) > 0)) for r_, e_ in cons):
                        env = cand
                        break
                except P.CantEval:
                    continue
            if env is None:
                env = P.find_witness('lt', piv - Poly.const(Fraction(1, 4)), [ONE], extra=cons, spheres=sph(q), tries=200)
            if env is not None:
                bad = (env, piv, vals)
                break
        if bad:
            env, piv, vals = bad
            res.append(R.ob(nm + '.pivot', 'quat_cast', R.REFUTED,
                            'for the unit quaternion %s the branch taken divides by sqrt(%s) = sqrt(%s): its pivot component is not a large one (every unit quaternion has a component with 4 b^2 >= 1), the result loses its accuracy' % (
                                P.show_env(env), P.show_poly(piv, limit=4), P.eval_poly(piv, env)), kernel=k.source()))
        else:
            # proof on every row that is not contradictory: 4 b^2 - 1 is a sum of (positively oriented) comparison polynomials of the row modulo |q| = 1,
            # hence positive: the pivot is a largest component
            (ea,), = [m for m in q[0].t]
            unitp = lambda x_: P.reduce_ideal(x_, ea, ONE - sum((q[j] * q[j] for j in range(1, 4)), Poly()), deg=2)
            proved, open_rows = 0, 0
            for vals, got, ctxd in rows:
                piv = None
                for g in got:
                    for a_ in g.atoms():
                        ka = P.atom_key(a_)
                        if ka[0] == 'inv':
                            for b_ in ka[1][1].atoms():
                                if P.atom_key(b_)[0] == 'sqrt':
                                    piv = P.atom_key(b_)[1][1]
                if piv is None:
                    continue
                pos = [(e_ if v == 'gt' else -e_) for v, e_ in [(v, infos[at][0] - infos[at][1]) for at, v in zip(atoms, vals) if at[0] == 'pair' and v in ('lt', 'gt')]]
                target = unitp(piv - ONE)
                found = False
                for r_ in range(0, min(len(pos), 4) + 1):
                    for sub in itertools.combinations(range(len(pos)), r_):
                        for mult in itertools.product((1, 2), repeat=len(sub)):
                            d = target - sum((unitp(pos[i_]).scale(Fraction(m_, 4)) for i_, m_ in zip(sub, mult)), Poly())
                            if d.is_zero():
                                found = True
                                break
                        if found:
                            break
                    if found:
                        break
                # a row whose comparisons contradict each other (a > b, b > c, c > a) cannot be taken; it is skipped when some pair of its polynomials sums to zero
                contradictory = any(sum((unitp(pos[i_]) for i_ in sub_), Poly()).is_zero() for r2_ in range(2, len(pos) + 1) for sub_ in itertools.combinations(range(len(pos)), r2_))
                if found:
                    proved += 1
                elif not contradictory:
                    open_rows += 1
            st_ = R.PROVED if (nrows and not open_rows) else R.UNDECIDED
            res.append(R.ob(nm + '.pivot', 'quat_cast', st_, ('on each of the %d decision rows 4 b^2 - 1 of the pivot is a positive combination of the row\'s own comparisons: the pivot is a largest component' % proved) if st_ == R.PROVED else
                            '%d rows proved, %d open; no ill-conditioned witness found' % (proved, open_rows), kernel=k.source()))
        return res
    return [R.Case(nm, [k], guard(nm, [k], body))]


def renorm_atoms(p, f, pc, depth=0):
    """rebuild sqrt / inv / fabs atoms with their argument polynomials normalised by f (bottom-up)"""
    if depth > 6:
        return p
    for a in sorted(p.atoms()):
        k = P.atom_key(a)
        if k[0] in ('sqrt', 'inv', 'fabs') and len(k) == 2 and k[1][0] == 'P':
            arg = f(renorm_atoms(k[1][1], f, pc, depth + 1))
            if k[0] == 'sqrt':
                arg = arg
                rep = Poly.atom(('sqrt', ('P', arg)))
                rep = sqrt_square(rep, pc)
            elif k[0] == 'inv':
                arg = sqrt_square(arg, pc)
                rep = pc.inv(arg)
            else:
                rep = Poly.atom(('fabs', ('P', arg)))
            if rep != Poly.var(a):
                p = p.subst(a, rep)
    return f(p)


# ---- quaternion from two vectors --------------------------------------------------------------------------------------------------------------------

def two_vector_cases(T, lay, cfg, qt, v3, kt, tg, sc):
    cs = []
    w = sc.elem * 8
    pU, pV = Par('u', v3), Par('v', v3)
    k = K('q_uv_' + kt, [Par('o', qt, False), pU, pV], '*o = %s(*u, *v);' % qt.cpp, cfg)
    nm = 'qua(u,v)<%s>' % tg

    def body(ctx):
        lanes = L.out_lanes(ctx, k, qt)
        up, vp = vin('u', v3), vin('v', v3)
        uu = sum((x * x for x in up), Poly())
        vv = sum((x * x for x in vp), Poly())
        dot_ = sum((a_ * b_ for a_, b_ in zip(up, vp)), Poly())
        try:
            leaves = P.decision_paths(lambda a_: P.DecisionCtx(a_), lambda cx: tuple(cx.fpoly(lanes[c]) for c in 'wxyz'), rels=('lt', 'eq', 'gt'))
        except P.TooManyPaths:
            return [R.ob(nm, 'two_vectors', R.UNDECIDED, 'too many decision paths')]
        res = []
        seen = set()
        kinds = {'generic': 0, 'opposite': 0, 'identity': 0}
        refuted_zero = False
        for asg, infos, got, cx in leaves:
            key = tuple(g.key() for g in got)
            is_identity = got[0] == ONE and all(g.is_zero() for g in got[1:])
            if key in seen and not (is_identity and not refuted_zero):
                continue
            seen.add(key)
            post = lambda x: P.reduce_sqrt(P.reduce_inv(P.reduce_sqrt(P.reduce_inv(x))))

            def clear(x):
                y = clear_invsqrt(P.reduce_inv(x), cx)
                return P.reduce_sqrt(y) if y is not None else post(x)
            regime = ', '.join('%s %s %s' % (P.show_poly(infos[at][0], limit=2), {'lt': '<', 'gt': '>', 'eq': '=='}[v], P.show_poly(infos[at][1], limit=2)) for at, v in asg.items() if at[0] == 'pair')[:300]
            if is_identity:
                # normalize()'s zero-length fallback: the identity quaternion.  Legitimate only if the un-normalised quaternion can vanish,
                # which for u != 0 must not happen: look for a non-zero u that takes this path
                kinds['identity'] += 1
                cons = [(v, infos[at][0] - infos[at][1]) for at, v in asg.items() if at[0] == 'pair']
                wit = None
                try:
                    from laneflow import exact as X
                    # the path conditions as terms are not available here; use the polynomial constraints with structured samples
                    import random
                    rng = random.Random(3)
                    lanes_in = sorted(P.lane_atoms([c_[1] for c_ in cons] + [uu]))
                    for _ in range(300):
                        env = {a_: rng.choice(P._POOL) for a_ in lanes_in}
                        if rng.random() < 0.7:
                            us = [m[0] for x in up for m in x.t]
                            vs_ = [m[0] for x in vp for m in x.t]
                            keep = rng.randrange(3)
                            for j, a_ in enumerate(us):
                                if j != keep:
                                    env[a_] = Fraction(0)
                            if env[us[keep]] == 0:
                                env[us[keep]] = Fraction(rng.choice([1, -1, 2, -2]))
                            sgn = rng.choice([-1, -2, Fraction(-1, 2)])
                            for a_, b_ in zip(us, vs_):
                                env[b_] = env[a_] * sgn
                        try:
                            if P.eval_poly(uu, env) == 0:
                                continue
                            okc = True
                            for r_, e_ in cons:
                                val = P.eval_poly(e_, env)
                                if not ((val < 0) if r_ == 'lt' else (val > 0) if r_ == 'gt' else (val == 0)):
                                    okc = False
                                    break
                            if okc:
                                wit = env
                                break
                        except P.CantEval:
                            continue
                except Exception:
                    wit = None
                if wit is not None:
                    refuted_zero = True
                    res.append(R.ob('%s.zero_axis' % nm, 'two_vectors', R.REFUTED,
                                    'for the non-zero u, v at %s the constructor takes the path [%s] on which the un-normalised quaternion is zero and the identity is returned: u is not rotated onto v' % (P.show_env(wit), regime),
                                    kernel=k.source()))
                continue
            if got[0].is_zero():
                kinds['opposite'] += 1
                t = got[1:]
                perp = clear(sum((a_ * b_ for a_, b_ in zip(t, up)), Poly()))
                n2 = clear(sum((a_ * a_ for a_ in t), Poly()) - ONE)
                ok = perp.is_zero() and n2.is_zero()
                res.append(R.ob('%s.opposite_arm%d' % (nm, kinds['opposite']), 'two_vectors', R.PROVED if ok else R.UNDECIDED,
                                'returns (0, t) with t a unit vector perpendicular to u: a half turn that takes u to -u  [%s]' % regime if ok else
                                't.u = %s ; |t|^2 - 1 = %s  [%s]' % (P.show_poly(perp, limit=3), P.show_poly(n2, limit=3), regime), kernel=k.source()))
                continue
            kinds['generic'] += 1
            img = sandwich(got, up)[1:]
            par = [img[1] * vp[2] - img[2] * vp[1], img[2] * vp[0] - img[0] * vp[2], img[0] * vp[1] - img[1] * vp[0]]
            okp = all(clear(x).is_zero() for x in par)
            n2 = clear(qnorm2(got) - ONE)
            # direction: (image . v) * |v|^2 ... the un-normalised identity: image.v == |u|^2 |v|^2 / (|u||v|) ... checked as  (image . v)^2 * (u.u) == (v.v) * (u.u)^2 ... use sign via the real part instead:
            # with q = (r, c)/|q0|, r = |u||v| + u.v > 0 on this arm:  image . v == |u| |v|  > 0   <=>  (image . v)^2 == (u.u)(v.v)  and the arm condition r > 0
            iv = sum((a_ * b_ for a_, b_ in zip(img, vp)), Poly())
            s_ = Poly.atom(('sqrt', ('P', uu * vv)))
            dirn = clear(iv - s_)
            ok = okp and n2.is_zero() and dirn.is_zero()
            res.append(R.ob('%s.generic_arm%d' % (nm, kinds['generic']), 'two_vectors', R.PROVED if ok else R.UNDECIDED,
                            '|q| = 1, q (0,u) conj(q) is parallel to v and (image . v) == |u||v| > 0: u is rotated onto the direction of v  [%s]' % regime if ok else
                            'parallel %s ; |q|^2 - 1 = %s ; image.v - |u||v| = %s  [%s]' % (okp, P.show_poly(n2, limit=3), P.show_poly(dirn, limit=3), regime), kernel=k.source()))
        for kind in ('generic', 'opposite'):
            if not kinds[kind]:
                res.append(R.ob('%s.%s_arm' % (nm, kind), 'two_vectors', R.UNDECIDED, 'no %s arm found among the decision paths' % kind))
        if not any(r['id'].endswith('.zero_axis') for r in res):
            res.append(R.ob('%s.zero_axis' % nm, 'two_vectors', R.PROVED if False else R.UNDECIDED, 'placeholder'))
            res.pop()
        return res
    cs.append(R.Case(nm, [k], guard(nm, [k], body)))
    # gtx rotation(orig, dest) for unit vectors: generic arm (Stan Melax): q = (s/2, (u x v)/s), s = sqrt(2 (1 + u.v))
    k2 = K('rotation_uv_' + kt, [Par('o', qt, False), pU, pV], '*o = rotation(*u, *v);', cfg)
    nm2 = 'rotation(u,v)<%s>' % tg

    def body2(ctx):
        lanes = L.out_lanes(ctx, k2, qt)
        er = enumerate_rows([lanes[c] for c in 'wxyz'])
        if er is None:
            return [R.ob(nm2, 'two_vectors', R.UNDECIDED, 'more than 12 comparison atoms')]
        rows, atoms, infos = er
        up, vp = vin('u', v3), vin('v', v3)
        (ua,), = [m for m in up[2].t]
        (va,), = [m for m in vp[2].t]
        units = lambda x: P.reduce_ideal(P.reduce_ideal(x, ua, ONE - up[0] * up[0] - up[1] * up[1], deg=2), va, ONE - vp[0] * vp[0] - vp[1] * vp[1], deg=2)
        def post(x):
            y = clear_invsqrt(P.reduce_inv(x), ctxd_box[0])
            return units(y) if y is not None else units(P.reduce_inv(P.reduce_sqrt(x)))
        ctxd_box = [None]
        dot_ = sum((a_ * b_ for a_, b_ in zip(up, vp)), Poly())
        res = []
        seen = set()
        kinds = set()
        ident_thresholds = set()
        for vals, got, ctxd in rows:
            key = tuple(g.key() for g in got)
            if key in seen:
                continue
            seen.add(key)
            if got[0] == ONE and all(g.is_zero() for g in got[1:]):
                kinds.add('identity')
                # the shortcut is taken on u.v >= c: c is read off the comparison of this row that involves u.v
                for at, v_ in zip(atoms, vals):
                    if at[0] != 'pair':
                        continue
                    pa, pb = infos[at]
                    for p_, q_ in ((pa, pb), (pb, pa)):
                        if p_.is_const() and p_.t and units(q_ - dot_).is_zero():
                            ident_thresholds.add(Fraction(p_.cval()))
                continue
            if not any(P.atom_key(a)[0] == 'sqrt' and P.atom_key(a)[1][1] == (ONE + dot_).scale(2) for g in got for a in P.lane_atoms([]) | set().union(*[set(x.atoms()) | {b for y in x.atoms() if P.atom_key(y)[0] == 'inv' for b in P.atom_key(y)[1][1].atoms()} for x in got])):
                kinds.add('opposite')
                continue
            kinds.add('generic')
            ctxd_box[0] = ctxd
            img = sandwich(got, up)[1:]
            par = [img[1] * vp[2] - img[2] * vp[1], img[2] * vp[0] - img[0] * vp[2], img[0] * vp[1] - img[1] * vp[0]]
            okp = all(post(x).is_zero() for x in par)
            n2 = post(qnorm2(got) - ONE)
            iv = post(sum((a_ * b_ for a_, b_ in zip(img, vp)), Poly()) - ONE)
            ok = okp and n2.is_zero() and iv.is_zero()
            res.append(R.ob('%s.generic_arm' % nm2, 'two_vectors', R.PROVED if ok else R.UNDECIDED,
                            'for unit u, v: |q| = 1 and q (0,u) conj(q) == v (parallel to v with (image . v) == 1)' if ok else
                            'parallel %s ; |q|^2 - 1 = %s ; image.v - 1 = %s' % (okp, P.show_poly(n2, limit=4), P.show_poly(iv, limit=4)), kernel=k2.source()))
        if 'generic' not in kinds:
            res.append(R.ob('%s.generic_arm' % nm2, 'two_vectors', R.UNDECIDED, 'no generic arm found (kinds: %s)' % sorted(kinds)))
        if 'identity' in kinds:
            # the identity is an approximation of the rotation by the angle acos(u.v): acceptable only within the resolution of the element type.  The threshold c of
            # the shortcut must satisfy 1 - c <= 16 epsilon<T> (GLM uses 1 - epsilon<T>); a float epsilon in the double instantiation treats vectors up to 4.9e-4 rad
            # apart as parallel
            eps_t = Fraction(1, 2 ** (23 if w == 32 else 52))
            cands = sorted(c_ for c_ in ident_thresholds if Fraction(1, 2) < c_ <= 1)
            if not cands:
                res.append(R.ob('%s.same_direction_arm' % nm2, 'two_vectors', R.UNDECIDED, 'identity arm found, its threshold on u.v not identified (%s)' % sorted(map(float, ident_thresholds))[:3], kernel=k2.source()))
            else:
                c_ = cands[0]
                ok = 1 - c_ <= 16 * eps_t
                import math
                res.append(R.ob('%s.same_direction_arm' % nm2, 'two_vectors', R.PROVED if ok else R.REFUTED,
                                'u.v >= 1 - %.3g returns the identity quaternion (within the resolution of %s)' % (float(1 - c_), T) if ok else
                                'the identity is returned whenever u.v >= 1 - %.3g, i.e. for unit vectors up to %.3g rad apart (e.g. u = (1, 0, 0), v = ((1 - t^2)/(1 + t^2), 2t/(1 + t^2), 0), t = 1e-5: '
                                'rotation(u, v) * u = u, off v by 2e-5); %s resolves %.3g' % (float(1 - c_), math.acos(float(c_)), T, float(eps_t)), kernel=k2.source()))
        return res
    cs.append(R.Case(nm2, [k2], guard(nm2, [k2], body2)))
    # gtx rotation(u, -u): the opposite-directions arm.  The returned vector part is a normalised guess axis: it must be perpendicular to u and unit,
    # and the vector handed to normalize() may not vanish for any unit u that takes the path (the second guess exists for exactly that case)
    k3 = K('rotation_opp_' + kt, [Par('o', qt, False), pU], '*o = rotation(*u, -*u);', cfg)
    nm3 = 'rotation(u,-u)<%s>' % tg

    def body3(ctx):
        lanes = L.out_lanes(ctx, k3, qt)
        up = vin('u', v3)
        uat = [m[0] for x in up for m in x.t]
        units = lambda x: P.reduce_ideal(x, uat[2], ONE - up[0] * up[0] - up[1] * up[1], deg=2)
        try:
            leaves = P.decision_paths(lambda a_: P.NormCtx(a_, units), lambda cx: tuple(cx.fpoly(lanes[c]) for c in 'xyz'))
        except P.TooManyPaths:
            return [R.ob(nm3, 'two_vectors', R.UNDECIDED, 'too many decision paths')]
        res = []
        seen = set()
        cands = []
        for i in range(3):
            for sg in (1, -1):
                cands.append({uat[j]: Fraction(sg if j == i else 0) for j in range(3)})
        cands += [{uat[0]: Fraction(3, 7), uat[1]: Fraction(6, 7), uat[2]: Fraction(2, 7)}, {uat[0]: Fraction(-2, 3), uat[1]: Fraction(1, 3), uat[2]: Fraction(2, 3)},
                  {uat[0]: Fraction(3, 5), uat[1]: Fraction(0), uat[2]: Fraction(4, 5)}, {uat[0]: Fraction(0), uat[1]: Fraction(3, 5), uat[2]: Fraction(-4, 5)}]
        n = 0
        for asg, infos, got, cx in leaves:
            key = tuple(g.key() for g in got)
            if key in seen:
                continue
            seen.add(key)
            if all(g.is_const() for g in got):
                continue          # same-direction arm (identity): not reachable for (u, -u)
            n += 1
            regime = ', '.join('%s %s %s' % (P.show_poly(infos[at][0], limit=2), '<' if v == 'lt' else '>', P.show_poly(infos[at][1], limit=2)) for at, v in asg.items() if at[0] == 'pair')[:300]
            post = lambda x: units(P.reduce_sqrt(clear_invsqrt(P.reduce_inv(x), cx) if clear_invsqrt(P.reduce_inv(x), cx) is not None else P.reduce_inv(x)))
            perp = post(sum((a_ * b_ for a_, b_ in zip(got, up)), Poly()))
            n2 = post(sum((a_ * a_ for a_ in got), Poly()) - ONE)
            ok = perp.is_zero() and n2.is_zero()
            res.append(R.ob('%s.arm%d.axis' % (nm3, n), 'two_vectors', R.PROVED if ok else R.UNDECIDED,
                            'vector part is unit and perpendicular to u: a half turn taking u to -u  [%s]' % regime if ok else 'axis.u = %s ; |axis|^2 - 1 = %s  [%s]' % (P.show_poly(perp, limit=3), P.show_poly(n2, limit=3), regime), kernel=k3.source()))
            # non-degeneracy of the normalised guess
            qs = set()
            for g in got:
                for a_ in g.atoms():
                    ka = P.atom_key(a_)
                    if ka[0] == 'inv':
                        for b_ in ka[1][1].atoms():
                            kb = P.atom_key(b_)
                            if kb[0] == 'sqrt':
                                qs.add(kb[1][1].key())
                                qpoly = kb[1][1]
            if len(qs) != 1:
                res.append(R.ob('%s.arm%d.nondegenerate' % (nm3, n), 'two_vectors', R.UNDECIDED, 'normalised quantity not identified', kernel=k3.source()))
                continue
            Qp = units(qpoly)
            cons = [(v, infos[at][0] - infos[at][1]) for at, v in asg.items() if at[0] == 'pair']
            wit = None
            for env in cands:
                try:
                    if P.eval_poly(Qp, env) != 0:
                        continue
                    if all(((P.eval_poly(e_, env) < 0) if r_ == 'lt' else (P.eval_poly(e_, env) > 0)) for r_, e_ in cons):
                        wit = env
                        break
                except P.CantEval:
                    continue
            if wit is not None:
                res.append(R.ob('%s.arm%d.nondegenerate' % (nm3, n), 'two_vectors', R.REFUTED,
                                'for the unit vector u = (%s) this arm is taken [%s] and normalises a zero vector (|guess axis|^2 = %s): rotation(u, -u) is NaN instead of a half turn' % (', '.join(str(wit[a_]) for a_ in uat), regime, P.show_poly(Qp, limit=4)),
                                kernel=k3.source()))
                continue
            # sufficient condition: a path condition bounds Q from below directly, or bounds P < small with Q + P - 1 a sum of squares (Q >= 1 - P)
            proved = False
            for r_, e_ in cons:
                # e_ = lhs - rhs ; 'gt': lhs > rhs
                for sgn_ in (1, -1):
                    d = units(e_.scale(sgn_))
                    c0 = d.t.get((), 0)
                    body = d - Poly.const(c0)
                    holds_gt = (r_ == 'gt' and sgn_ == 1) or (r_ == 'lt' and sgn_ == -1)          # body + c0 > 0
                    if holds_gt and (body - Qp).is_zero() and c0 <= 0:
                        proved = True                       # Q > -c0 >= 0
                    if holds_gt and c0 > 0 and c0 < Fraction(1, 1000):
                        # -P + c0 > 0, i.e. P < c0 (tiny): Q >= 1 - P if Q + P - 1 is a sum of squares
                        Pp = -body
                        rest = units(Qp + Pp - ONE)
                        if all(cf > 0 and all(m.count(x_) % 2 == 0 for x_ in set(m)) for m, cf in rest.t.items()):
                            proved = True
            res.append(R.ob('%s.arm%d.nondegenerate' % (nm3, n), 'two_vectors', R.PROVED if proved else R.UNDECIDED,
                            'the vector handed to normalize() cannot vanish on this arm (|guess|^2 = %s)  [%s]' % (P.show_poly(Qp, limit=4), regime) if proved else 'could not bound |guess|^2 = %s away from zero  [%s]' % (P.show_poly(Qp, limit=4), regime),
                            kernel=k3.source()))
        if not n:
            res.append(R.ob(nm3, 'two_vectors', R.UNDECIDED, 'no opposite-direction arm found'))
        return res
    cs.append(R.Case(nm3, [k3], guard(nm3, [k3], body3)))
    return cs


# ---- angleAxis(angle(q), axis(q)) -----------------------------------------------------------------------------------------------------------------------

def inv_trig(p, pc):
    """cos / sin of  k0 +- acos(u) | asin(u)  with k0 in {0, pi}:  cos(acos u) = u, sin(acos u) = sqrt(1 - u^2), sin(asin u) = u, cos(asin u) = sqrt(1 - u^2)
    (principal values: the square roots are the non-negative ones), cos(pi - t) = -cos t, sin(pi - t) = sin t, cos(-t) = cos t, sin(-t) = -sin t"""
    import math
    for a in sorted(p.atoms()):
        k = P.atom_key(a)
        if k[0] not in ('fn:cos', 'fn:sin') or len(k) != 2:
            continue
        A = k[1][1]
        k0 = A.t.get((), Fraction(0))
        rest = {m: c for m, c in A.t.items() if m != ()}
        if len(rest) != 1:
            continue
        (m, c), = rest.items()
        if len(m) != 1 or c not in (1, -1):
            continue
        kk = P.atom_key(m[0])
        if kk[0] not in ('fn:acos', 'fn:asin') or len(kk) != 2:
            continue
        u = kk[1][1]
        root = Poly.atom(('sqrt', ('P', ONE - u * u)))
        C, S_ = (u, root) if kk[0] == 'fn:acos' else (root, u)
        if c == -1:
            S_ = -S_
        if k0 == 0:
            pass
        elif abs(float(k0) - math.pi) < 1e-5:
            C, S_ = -C, -S_           # cos(pi + x) = -cos x ; sin(pi + x) = -sin x   (x = +-theta already folded in)
        else:
            continue
        p = p.subst(a, C if k[0] == 'fn:cos' else S_)
    return p


def angle_axis_roundtrip(T, lay, cfg, qt, v3, kt, tg, sc):
    k = K('aa_rt_' + kt, [Par('o', qt, False), Par('q', qt)], '*o = angleAxis(angle(*q), axis(*q));', cfg)
    nm = 'angleAxis(angle(q),axis(q))<%s>' % tg

    def body(ctx):
        import itertools
        lanes = L.out_lanes(ctx, k, qt)
        er = enumerate_rows([lanes[c] for c in 'wxyz'])
        if er is None:
            return [R.ob(nm, 'axis_angle', R.UNDECIDED, 'more than 12 comparison atoms')]
        rows, atoms, infos = er
        q = qin('q', qt)
        res = []
        seen = {}
        for vals, got, ctxd in rows:
            # sign of w fixed by the row (if the row compares w with 0)
            wsign = None
            infeasible = False
            for at, v in zip(atoms, vals):
                if at[0] != 'pair':
                    continue
                pa, pb = infos[at]
                if pb.is_zero() and pa == q[0]:
                    wsign = -1 if v == 'lt' else 1
                if pa.is_zero() and pb == q[0]:
                    wsign = 1 if v == 'lt' else -1
                # 1 - w^2 <= 0 is impossible for a unit quaternion except at w = +-1 (x = y = z = 0)
                d_ = pa - pb
                if (d_ == ONE - q[0] * q[0] and v == 'lt') or (d_ == q[0] * q[0] - ONE and v == 'gt'):
                    infeasible = True
            if infeasible:
                continue
            key = tuple(g.key() for g in got) + (wsign,)
            if key in seen:
                continue
            seen[key] = True
            ok = False
            why = ''
            for elim in range(4):
                (ea,), = [m for m in q[elim].t]
                repl = ONE - sum((q[j] * q[j] for j in range(4) if j != elim), Poly())
                post = lambda x, ea=ea, repl=repl: P.reduce_ideal(x, ea, repl, deg=2)
                good = True
                for i in range(4):
                    g = inv_trig(got[i], ctxd)
                    g = renorm_atoms(g, lambda x: post(P.reduce_sqrt(x)), ctxd)
                    g = P.reduce_sqrt(g)
                    fa = sorted(fabs_atoms(g))
                    signs = {}
                    for a in fa:
                        if P.atom_key(a)[1][1] == q[0] and wsign is not None:
                            signs[a] = wsign
                    d = g - q[i]
                    if signs:
                        d = subst_abs(d, signs, ctxd)
                    d = post(P.reduce_inv(d))
                    if not d.is_zero():
                        good = False
                        why = 'lane %s: residual %s' % ('wxyz'[i], P.show_poly(d, limit=4))
                        break
                if good:
                    ok = True
                    break
            regime = ', '.join('%s %s %s' % (P.show_poly(infos[at][0], limit=2), {'lt': '<', 'gt': '>'}.get(v, v), P.show_poly(infos[at][1], limit=2)) for at, v in zip(atoms, vals) if at[0] == 'pair')
            status = R.PROVED if ok else R.UNDECIDED
            if not ok:
                # an explicit unit quaternion of this regime at which a rebuilt component, evaluated exactly, differs from q's
                cons = [(v, infos[at][0] - infos[at][1]) for at, v in zip(atoms, vals) if at[0] == 'pair']
                for i in range(4):
                    g = P.reduce_sqrt(inv_trig(got[i], ctxd))
                    d = g - q[i]
                    if d.is_zero() or not P.transparent(d) or not all(P.transparent(e_) for _, e_ in cons):
                        continue
                    env = P.find_witness(cons[0][0], cons[0][1], [d], extra=cons[1:], spheres=sph(q), tries=1500) if cons else P.find_witness('gt', ONE, [d], spheres=sph(q))
                    if env is not None:
                        status = R.REFUTED
                        why = 'at %s the rebuilt %s component is %s, q has %s' % (P.show_env(env), 'wxyz'[i], P.eval_poly(g, env), P.eval_poly(q[i], env))
                        break
            res.append(R.ob('%s.regime%d' % (nm, len(res)), 'axis_angle', status,
                            ('rebuilds q in the regime [%s]' % regime) if ok else ('%s  (regime [%s])' % (why, regime)), kernel=k.source()))
        if any(r_['status'] == R.UNDECIDED for r_ in res):
            # last resort for a refutation: the four derived lane terms evaluated (IEEE arithmetic, host libm for the inverse trigonometric functions) at unit quaternions of both
            # signs of w and both sides of the asin / acos switch: a rebuilt quaternion that is neither q nor -q within 1e-3 there refutes one undecided regime
            from laneflow import ceval as CE
            w_ = qt.elem * 8
            pts = [(-0.96, 0.28, 0.0, 0.0), (-0.936, 0.0, 0.352, 0.0), (-0.6, 0.8, 0.0, 0.0), (-0.28, 0.0, 0.0, 0.96), (0.96, 0.0, 0.28, 0.0), (0.6, 0.0, 0.0, 0.8), (-0.96, 0.0, 0.168, 0.224)]
            for pt in pts:
                env = {L.in_term('q', qt, c): CE.f2b(w_, v) for c, v in zip('wxyz', pt)}
                try:
                    got_ = [CE.b2f(w_, CE.evaluate(lanes[c], env, approx=True)) for c in 'wxyz']
                except CE.NoValue:
                    continue
                if any(g != g for g in got_):
                    continue
                dpos = max(abs(g - v) for g, v in zip(got_, pt))
                dneg = max(abs(g + v) for g, v in zip(got_, pt))
                if min(dpos, dneg) > 1e-3:
                    for r_ in res:
                        if r_['status'] == R.UNDECIDED:
                            r_['status'] = R.REFUTED
                            r_['detail'] += '  -- at q = (w, x, y, z) = %r the rebuilt quaternion is %r: neither q nor -q' % (pt, tuple(round(g, 6) for g in got_))
                            break
                    break
        return res
    return [R.Case(nm, [k], guard(nm, [k], body))]


# ---- Euler angle matrices ----------------------------------------------------------------------------------------------------------------------------------

AXES3 = ['XYZ', 'YXZ', 'XZX', 'XYX', 'YXY', 'YZY', 'ZYZ', 'ZXZ', 'XZY', 'YZX', 'ZYX', 'ZXY']
AXES2 = ['XY', 'YX', 'XZ', 'ZX', 'YZ', 'ZY']


def euler_cases(T, cfg, kt, tg, sc, m4, m3, v3):
    cs = []
    w = sc.elem * 8
    ps = [Par('a', sc), Par('b', sc), Par('c', sc)]

    def axis_spec(ax, ang):
        """textbook rotation by ang about a coordinate axis, column-major 4x4 of polynomials"""
        c_, s_ = Poly.atom(('fn:cos', ('P', ang))), Poly.atom(('fn:sin', ('P', ang)))
        i = 'XYZ'.index(ax)
        j, k_ = (i + 1) % 3, (i + 2) % 3
        M = {(c, r): (ONE if c == r else ZERO) for c in range(4) for r in range(4)}
        M[(j, j)], M[(k_, k_)] = c_, c_
        M[(j, k_)] = s_          # column j, row k
        M[(k_, j)] = -s_
        return M
    nrm = lambda p_: sincos(trig_sign(p_))
    for ax in 'XYZ':
        k = K('euler%s_%s' % (ax, kt), [Par('o', m4, False), ps[0]], '*o = eulerAngle%s(*a);' % ax, cfg)

        def body(ctx, k=k, ax=ax, nm='eulerAngle%s<%s>' % (ax, tg)):
            pc = P.PCtx()
            got = poly_lanes(ctx, k, m4, pc)
            want = axis_spec(ax, L.in_atom('a', sc, 0))
            return [judge_identity('%s[%s]' % (nm, lane), 'euler_build', got[lane], want[lane], k.source(), norm=nrm, text='rotation about %s by the angle (counter-clockwise, column vectors)' % ax) for lane in sorted(got)]
        nm = 'eulerAngle%s<%s>' % (ax, tg)
        cs.append(R.Case(nm, [k], guard(nm, [k], body)))
    combos = [(a, 'eulerAngle' + a, len(a)) for a in AXES2 + AXES3] + [('YXZ', 'yawPitchRoll', 3)]
    for axes, fn_, n in combos:
        args = ', '.join('*' + p_.name if hasattr(p_, 'name') else '*' + 'abc'[i] for i, p_ in enumerate(ps[:n]))
        k1 = K('%s_%s' % (fn_, kt), [Par('o', m4, False)] + ps[:n], '*o = %s(%s);' % (fn_, ', '.join('*' + 'abc'[i] for i in range(n))), cfg)
        k2 = K('%s_ref_%s' % (fn_, kt), [Par('o', m4, False)] + ps[:n], '*o = %s;' % ' * '.join('eulerAngle%s(*%s)' % (ax, 'abc'[i]) for i, ax in enumerate(axes)), cfg)

        def body(ctx, k1=k1, k2=k2, nm='%s<%s>' % (fn_, tg), axes=axes):
            pc = P.PCtx()
            a, b = poly_lanes(ctx, k1, m4, pc), poly_lanes(ctx, k2, m4, pc)
            return [judge_identity('%s[%s]' % (nm, lane), 'euler_build', a[lane], b[lane], k1.source() + '\n' + k2.source(), norm=nrm,
                                   text='== ' + ' * '.join('eulerAngle%s' % x for x in axes)) for lane in sorted(a)]
        nm = '%s<%s>' % (fn_, tg)
        cs.append(R.Case(nm, [k1, k2], guard(nm, [k1, k2], body)))
    # orientate3 / orientate4 (vec3) == yawPitchRoll(z, x, y)
    for fn_, mt in (('orientate3', m3), ('orientate4', m4)):
        k1 = K('%s_%s' % (fn_, kt), [Par('o', mt, False), Par('v', v3)], '*o = %s(*v);' % fn_, cfg)
        k2 = K('%s_ref_%s' % (fn_, kt), [Par('o', mt, False), Par('v', v3)], '*o = %s(eulerAngleY(v->z) * eulerAngleX(v->x) * eulerAngleZ(v->y));' % mt.cpp, cfg)

        def body(ctx, k1=k1, k2=k2, mt=mt, nm='%s(vec3)<%s>' % (fn_, tg)):
            pc = P.PCtx()
            a, b = poly_lanes(ctx, k1, mt, pc), poly_lanes(ctx, k2, mt, pc)
            return [judge_identity('%s[%s]' % (nm, lane), 'euler_build', a[lane], b[lane], k1.source() + '\n' + k2.source(), norm=nrm,
                                   text='== eulerAngleY(z) * eulerAngleX(x) * eulerAngleZ(y)') for lane in sorted(a)]
        nm = '%s(vec3)<%s>' % (fn_, tg)
        cs.append(R.Case(nm, [k1, k2], guard(nm, [k1, k2], body)))
    # ---- extractEulerAngleABC(eulerAngleABC(a, b, c)) -----------------------------------------------------------------------------
    for axes in AXES3:
        k = K('extract%s_%s' % (axes, kt), [Par('o', v3, False)] + ps,
              '{ %s t1, t2, t3; extractEulerAngle%s(eulerAngle%s(*a, *b, *c), t1, t2, t3); o->x = t1; o->y = t2; o->z = t3; }' % (sc.cpp, axes, axes), cfg)
        nm = 'extractEulerAngle%s<%s>' % (axes, tg)
        cs.append(R.Case(nm, [k], guard(nm, [k], lambda ctx, k=k, nm=nm, axes=axes: extract_body(ctx, k, nm, axes, sc, v3))))
    return cs


def extract_body(ctx, k, nm, axes, sc, v3):
    """each returned angle is  s * atan2(y, x)  with (y, x) == lambda * (sin(s t), cos(s t)) for the angle t it must reproduce, lambda the regime factor"""
    pc = P.PCtx()
    out = poly_lanes(ctx, k, v3, pc)
    ang = [L.in_atom(n_, sc, 0) for n_ in 'abc']
    sn = [Poly.atom(('fn:sin', ('P', a_))) for a_ in ang]
    cs_ = [Poly.atom(('fn:cos', ('P', a_))) for a_ in ang]
    proper = axes[0] == axes[2]                         # ABA: regime sin b > 0 ; ABC: regime cos b > 0
    regime_atom = (sn if proper else cs_)[1]
    regime = 'sin(b) > 0' if proper else 'cos(b) > 0'
    known = {}                                          # atan2 atom -> (sign, index of the angle)

    def rewrite(q):
        # sin / cos of an already identified atan2
        for a in sorted(q.atoms()):
            kk = P.atom_key(a)
            if kk[0] in ('fn:sin', 'fn:cos') and len(kk) == 2:
                A = kk[1][1]
                if len(A.t) == 1:
                    (m, c), = A.t.items()
                    if len(m) == 1 and m[0] in known and c in (1, -1):
                        sg, idx = known[m[0]]
                        sg = sg * int(c)
                        q = q.subst(a, (sn[idx].scale(sg)) if kk[0] == 'fn:sin' else cs_[idx])
        q = sincos(trig_sign(q))
        # square roots of perfect squares -> |.| -> the regime's sign
        def sq_arg(x):
            x = sincos(trig_sign(x))
            if len(x.t) > 1:
                y = cossin(x)               # the other orientation of sin^2 + cos^2 = 1 may expose the perfect square
                if len(y.t) < len(x.t):
                    return y
            return x
        q = renorm_atoms(q, sq_arg, pc)
        q = sqrt_square(q, pc)
        signs = {a: 1 for a in fabs_atoms(q) if P.atom_key(a)[1][1] == regime_atom}
        if signs:
            q = subst_abs(q, signs, pc)
        return sincos(q)
    res = []
    for i in range(3):
        oid = '%s.t%d' % (nm, i + 1)
        p_ = out[i]
        if len(p_.t) != 1:
            res.append(R.ob(oid, 'euler_extract', R.UNDECIDED, 'angle %d is not +-atan2(..): %s' % (i + 1, P.show_poly(p_, limit=3)), kernel=k.source()))
            return res
        (m, c), = p_.t.items()
        if len(m) != 1 or c not in (1, -1) or P.atom_key(m[0])[0] != 'fn:atan2':
            res.append(R.ob(oid, 'euler_extract', R.UNDECIDED, 'angle %d is not +-atan2(..): %s' % (i + 1, P.show_poly(p_, limit=3)), kernel=k.source()))
            return res
        sg = int(c)
        kk = P.atom_key(m[0])
        y, x = rewrite(kk[1][1]), rewrite(kk[2][1])
        cross_ = sincos(y * cs_[i] - x * sn[i].scale(sg))
        lam = sincos(y * sn[i].scale(sg) + x * cs_[i])
        lam_ok = False
        if len(lam.t) == 1:
            (lm, lc), = lam.t.items()
            lam_ok = lc > 0 and all(a == list(regime_atom.t)[0][0] for a in lm) and len(lm) <= 1
        if cross_.is_zero() and lam_ok:
            res.append(R.ob(oid, 'euler_extract', R.PROVED, 't%d = %satan2(y, x) with (y, x) = %s * (sin, cos)(%st%d): reproduces t%d for t%d in (-pi, pi]%s' % (
                i + 1, '-' if sg < 0 else '', P.show_poly(lam), '-' if sg < 0 else '', i + 1, i + 1, i + 1, '' if lam == ONE else ' where ' + regime), kernel=k.source()))
        else:
            real = not cross_.is_zero() and P.find_witness('gt', regime_atom, [cross_]) is not None
            res.append(R.ob(oid, 'euler_extract', R.REFUTED if real else R.UNDECIDED,
                            'atan2 arguments of t%d are not a positive multiple of (sin, cos) of the angle (regime %s): y cos t - %sx sin t = %s ; factor = %s' % (
                                i + 1, regime, '-' if sg < 0 else '', P.show_poly(cross_, limit=4), P.show_poly(lam, limit=4)), kernel=k.source()))
            if not (cross_.is_zero()):
                return res
        known[m[0]] = (sg, i)
    return res


def cases(tier):
    cs = []
    for T in ('float', 'double'):
        for lay in ('xyzw', 'wxyz'):
            cs += type_cases(T, lay, tier)
    cs += ctor_order_cases(cs)
    import sys
    from rules import c04_dq
    cs += c04_dq.cases(tier, sys.modules[__name__])
    cs += c04_dq.exponential_cases(tier, sys.modules[__name__])
    cs += c04_dq.lookat_cases(tier, sys.modules[__name__])
    cs += canaries()
    cs += c04_dq.canaries(sys.modules[__name__])
    from rules import narrow
    cs += narrow.cases(cs, 'C04')
    return cs


CFG_CTOR_XYZW = Cfg('quat_ctor_xyzw', headers=HDR, defines=('GLM_ENABLE_EXPERIMENTAL', 'GLM_FORCE_QUAT_DATA_XYZW'))


def ctor_order_cases(cs):
    """GLM_FORCE_QUAT_DATA_XYZW only changes the argument order of the four-scalar constructor: every kernel of the default layout that does not itself
    call that constructor must yield the same term in every output lane (a library function that builds a quaternion with qua(a, b, c, d) instead of
    qua::wxyz(...) silently permutes components under this macro)"""
    import re
    out = []
    seen = set()
    for c in cs:
        for k in c.kernels:
            if k.cfg is not CFGS['xyzw'] or k.name in seen:
                continue
            seen.add(k.name)
            if re.search(r'qua<[^>]*>\s*\(|quat\s*\(|dquat\s*\(', k.source().split('{', 1)[1]) and re.search(r'\([^()]*,[^()]*,[^()]*,[^()]*\)', k.source().split('{', 1)[1]):
                continue          # the kernel spells a four-scalar construction itself: its meaning legitimately changes
            kc = K(k.name + '__ctor_xyzw', k.params, k.body, CFG_CTOR_XYZW, meta=k.meta, pre=getattr(k, 'pre', ''))
            outs = []
            for pr in k.params:
                if not pr[4]:
                    for off in range(0, pr[3], pr[2]):
                        outs.append(('%s@%d' % (pr[0], off), pr[0], off, off, pr[2]))
            out.append(L.config_pair_case('%s@ctor_xyzw' % k.name[2:], 'ctor_order', k, kc, outs, what='GLM_FORCE_QUAT_DATA_XYZW'))
    return out


def canaries():
    cfg = CFGS['xyzw']
    qt, v3 = G.quat('float'), G.vec(3, 'float')
    pre = ('static glm::vec3 verif_bad_qrot(glm::quat const& q, glm::vec3 const& v){ glm::vec3 u(q.x, q.y, q.z); glm::vec3 uv(glm::cross(u, v)); glm::vec3 uuv(glm::cross(u, uv)); '
           'return v + ((uv * q.w) + uuv) * 2.f + uuv * 0.f - uv * (q.w * 4.f); }')       # rotates the wrong way round
    k = K('canary_qrot', [Par('o', v3, False), Par('q', qt), Par('v', v3)], '*o = verif_bad_qrot(*q, *v);', cfg, pre=pre)

    def judge(ctx):
        pc = P.PCtx()
        got = poly_lanes(ctx, k, v3, pc)
        q, v = qin('q', qt), vin('v', v3)
        want = sandwich(q, v)
        nrm = lambda p_: unit(p_, q)
        return [judge_identity('canary:q*v-rotates-backwards[0]', 'sandwich', got[0], want[1], k.source(), norm=nrm, spheres=sph(q))]
    return [R.Case('canary:q*v-rotates-backwards', [k], judge, canary=True)]


EXPLANATION = ('static: the quaternion operators, casts, axis/angle and Euler-angle functions are instantiated from /repo under both quaternion memory orders; their output lanes, read as polynomials over '
               'the input lanes with cos/sin/sqrt/inverse atoms, are compared with the Hamilton product, the sandwich q (0,v) conj(q), the Rodrigues matrix and products of single-axis rotations as '
               'identities modulo |q| = 1 and sin^2 + cos^2 = 1; quat_cast(mat3_cast(q)) is shown parallel to q with unit norm in each branch of the largest-of-four selection')
ASSUMPTIONS = ['float operations read as exact real arithmetic: the agreement of the forms is an algebraic identity over the rotation group; accuracy near singular configurations is not decided',
               'unit quaternions are modelled by the ideal w^2 + x^2 + y^2 + z^2 = 1',
               'roll / pitch / yaw are decided through the arguments of their atan2 / asin for q = qua(e): the round trip e -> q -> e holds where cos(yaw) > 0 (principal ranges of atan2 / asin are the libm contract); slerp-type functions are C13']
TRUSTED = ['clang/LLVM 14', 'tools/irtool.cc', 'laneflow normal forms', 'the Hamilton product / Rodrigues / axis-rotation formulas in rules/c04.py']
LEVEL = 'proof'
