"""C12 — geometric functions satisfy the Euclidean identities (definitions from the property / GLSL spec).

Each kernel lane is compared with the textbook formula in the P domain (ring-equal rational/sqrt normal forms,
decision structure kept as select atoms over normalised compare operands).  refract additionally obeys a
guard-dominance rule: sqrt(k) may reach the result only under the k >= 0 guard, otherwise total internal reflection
yields NaN instead of the zero vector."""
from laneflow import term as tm
from laneflow import poly as P
from laneflow import gtypes as G
from laneflow import runner as R
from laneflow import rulelib as L
from laneflow import spec as S
from laneflow import interp as I
from laneflow.build import K, P as Par, Cfg

HDR = ('glm/glm.hpp', 'glm/gtx/norm.hpp', 'glm/gtx/projection.hpp', 'glm/gtx/perpendicular.hpp', 'glm/gtx/orthonormalize.hpp', 'glm/gtx/vector_angle.hpp',
       'glm/gtx/closest_point.hpp', 'glm/gtx/normal.hpp', 'glm/gtx/exterior_product.hpp', 'glm/gtx/mixed_product.hpp')
CFG = Cfg('geom', headers=HDR)


def spec_case(name, rule, k, outty, specfn, extra=None):
    """specfn() -> {lane: E}; extra(it, lane, term) -> list of additional obligations"""
    def judge(ctx):
        err = ctx.compile_error(k)
        if err:
            return [R.ob(name, 'existence', R.REFUTED, 'cannot be instantiated: ' + err, kernel=k.source())]
        it = ctx.fn(k)
        lanes = L.out_lanes(ctx, k, outty)
        sp = specfn()
        res = []
        pc = P.PCtx()
        for lane, t in sorted(lanes.items(), key=lambda x: str(x[0])):
            oid = '%s[%s]' % (name, lane)
            st, detail = S.compare(t, sp[lane].t, pc=pc)
            res.append(R.ob(oid, rule, st, detail, where=R.where_of(it, t) if st != R.PROVED else None, kernel=k.source()))
            if extra:
                res += extra(it, oid, t, k)
        return res
    return R.Case(name, [k], judge)


def refract_guard(it, oid, t, k):
    """every sqrt reaching the lane through NaN-propagating arithmetic must sit under a select arm guarded by arg >= 0"""
    bad = S.unguarded_uses(t, lambda x: x.op == 'sqrt')
    if bad:
        return [R.ob(oid, 'guard_dominance', R.REFUTED,
                     'sqrt(k) reaches the result through arithmetic only (%s): for total internal reflection (k < 0) the result is NaN, not 0' % tm.show(t, 3),
                     where=R.where_of(it, bad[0]), kernel=k.source())]
    # there is a sqrt somewhere below a select: check the guard of the arm that contains it
    msgs = []
    ok = True
    for x in tm.walk(t):
        if x.op == 'select' and x.w == t.w:
            for arm, pos in ((x.args[1], True), (x.args[2], False)):
                for sq in S.unguarded_uses(arm, lambda y: y.op == 'sqrt'):
                    c = x.args[0]
                    arg = sq.args[0]
                    good = False
                    if c.op == 'fcmp':
                        pc = P.PCtx()
                        pa = pc.fpoly(arg)
                        a1, a2 = pc.fpoly(c.args[1]), pc.fpoly(c.args[2])
                        zero = P.Poly()
                        # positive arm needs  arg >= 0  (oge/ogt arg,0 == ole/olt 0,arg); negative arm needs !(arg < 0) ...
                        if pos and c.args[0] in ('ole', 'olt') and a1 == zero and a2 == pa:
                            good = True
                        if not pos and c.args[0] in ('olt', 'ult', 'ule', 'ole') and a1 == pa and a2 == zero and c.args[0] in ('olt', 'ult'):
                            good = True
                    if not good:
                        ok = False
                        msgs.append('sqrt(%s) under condition %s on the %s arm' % (tm.show(arg, 2), tm.show(c, 3), 'true' if pos else 'false'))
    if not ok:
        return [R.ob(oid, 'guard_dominance', R.REFUTED, 'sqrt not dominated by a k >= 0 guard: ' + '; '.join(msgs), kernel=k.source())]
    return [R.ob(oid, 'guard_dominance', R.PROVED, 'every sqrt that can reach the result sits on a select arm guarded by its argument being >= 0')]


def lx_case(name, k, sc, ud, dfn):
    def judge(ctx):
        err = ctx.compile_error(k)
        if err:
            return [R.ob(name, 'existence', R.REFUTED, 'cannot be instantiated: ' + err, kernel=k.source())]
        it = ctx.fn(k)
        t = L.out_lanes(ctx, k, sc)[0]
        w = sc.elem * 8
        D = tm.make('uitofp', (L.in_term('d', ud, 0),), w)
        oid = name + '[0]'

        def ob(st, detail, at=None):
            return [R.ob(oid, 'gtx_norm', st, detail, where=R.where_of(it, at if at is not None else t) if st != R.PROVED else None, kernel=k.source())]
        if not (t.op == 'fn' and t.args[0] == 'pow'):
            return ob(R.UNDECIDED, 'result is not a pow call: %s' % tm.show(t, 3))
        base, ex = t.args[1], t.args[2]
        pc = P.PCtx()
        st, detail = S.compare(ex, (S.const(w, 1.0) / S.E(D)).t, pc=pc)
        if st != R.PROVED:
            return ob(st, 'outer exponent is not 1 / float(Depth): ' + detail, ex)
        adds = tm.flatten(base, 'fadd')
        if len(adds) != 3 or not all(a.op == 'fn' and a.args[0] == 'pow' for a in adds):
            return ob(R.REFUTED if all(a.op == 'fn' and a.args[0] == 'pow' for a in adds) else R.UNDECIDED, 'the outer base is not a sum of three powers: %s' % tm.show(base, 3), base)
        for a in adds:
            if a.args[2] is not D:
                st2, d2 = S.compare(a.args[2], D, pc=pc)
                if st2 != R.PROVED:
                    return ob(st2, 'inner exponent is not float(Depth): ' + d2, a)
        bases = [a.args[1] for a in adds]
        left = list(range(3))
        unmatched = []
        for i in range(3):
            sp = dfn(i).t
            hit = None
            for j in left:
                if S.compare(bases[j], sp, pc=pc)[0] == R.PROVED:
                    hit = j
                    break
            if hit is None:
                unmatched.append(i)
            else:
                left.remove(hit)
        if not unmatched:
            return ob(R.PROVED, '(|d_x|^p + |d_y|^p + |d_z|^p)^(1/p) with p = float(Depth)')
        # verdict of the first missing component against the closest remaining base
        worst = (R.UNDECIDED, 'component %d has no matching |d|^p term' % unmatched[0], None)
        for i in unmatched:
            for j in left:
                st3, d3 = S.compare(bases[j], dfn(i).t, pc=pc)
                if st3 == R.REFUTED and _same_inputs(bases[j], dfn(i).t):
                    return ob(R.REFUTED, 'the base of the power term of component %d is not |d_%s|: %s' % (i, 'xyz'[i], d3), bases[j])
        return ob(worst[0], worst[1])
    return R.Case(name, [k], judge)


def _same_inputs(a, b):
    return {x for x in tm.walk(a) if x.op == 'in'} == {x for x in tm.walk(b) if x.op == 'in'}


def cases(tier):
    cs = []
    types = [('float', 'highp'), ('double', 'highp')]
    if tier == 'thorough':
        types += [('float', 'mediump'), ('double', 'mediump')]
    for T, Q in types:
        cs += type_cases(T, Q)
    cs += canaries()
    from rules import narrow
    cs += narrow.cases(cs, 'C12')
    return cs


def type_cases(T, Q):
    cs = []
    sc = G.scalar(T)
    w = sc.elem * 8
    tg = sc.tag + ('' if Q == 'highp' else '_' + Q)
    c = lambda x: S.const(w, x)
    for n in (1, 2, 3, 4):
        vt = G.vec(n, T, Q)
        A = lambda nm, vt=vt: S.vecE(nm, vt)
        nm = 'vec%d<%s>' % (n, tg)
        k = K('dot_%s' % vt.tag, [Par('o', sc, False), Par('a', vt), Par('b', vt)], '*o = dot(*a, *b);', CFG)
        cs.append(spec_case('dot(%s)' % nm, 'dot', k, sc, lambda A=A: {0: S.dot(A('a'), A('b'))}))
        k = K('length_%s' % vt.tag, [Par('o', sc, False), Par('a', vt)], '*o = length(*a);', CFG)
        cs.append(spec_case('length(%s)' % nm, 'length', k, sc, lambda A=A: {0: S.sqrt(S.dot(A('a'), A('a')))}))
        k = K('distance_%s' % vt.tag, [Par('o', sc, False), Par('a', vt), Par('b', vt)], '*o = distance(*a, *b);', CFG)
        cs.append(spec_case('distance(%s)' % nm, 'distance', k, sc, lambda A=A: {0: S.sqrt(S.dot(S.vsub(A('a'), A('b')), S.vsub(A('a'), A('b'))))}))
        k = K('normalize_%s' % vt.tag, [Par('o', vt, False), Par('a', vt)], '*o = normalize(*a);', CFG)
        cs.append(spec_case('normalize(%s)' % nm, 'normalize', k, vt, lambda A=A, n=n: dict(enumerate(S.normalize(A('a'))))))
        k = K('reflect_%s' % vt.tag, [Par('o', vt, False), Par('a', vt), Par('b', vt)], '*o = reflect(*a, *b);', CFG)

        def reflect(A=A, n=n):
            I_, N_ = A('a'), A('b')
            d = S.dot(N_, I_)
            return {i: I_[i] - N_[i] * d * 2 for i in range(n)}
        cs.append(spec_case('reflect(%s)' % nm, 'reflect', k, vt, reflect))
        k = K('refract_%s' % vt.tag, [Par('o', vt, False), Par('a', vt), Par('b', vt), Par('e', sc)], '*o = refract(*a, *b, *e);', CFG)

        def refract(A=A, n=n):
            I_, N_ = A('a'), A('b')
            eta = S.lane('e', sc, 0)
            d = S.dot(N_, I_)
            kk = 1 - eta * eta * (1 - d * d)
            return {i: S.sel(kk.ge(0), eta * I_[i] - (eta * d + S.sqrt(kk)) * N_[i], c(0)) for i in range(n)}
        cs.append(spec_case('refract(%s)' % nm, 'refract', k, vt, refract, extra=refract_guard))
        k = K('faceforward_%s' % vt.tag, [Par('o', vt, False), Par('a', vt), Par('b', vt), Par('c', vt)], '*o = faceforward(*a, *b, *c);', CFG)

        def faceforward(A=A, n=n):
            N_, I_, R_ = A('a'), A('b'), A('c')
            d = S.dot(R_, I_)
            return {i: S.sel(d.lt(0), N_[i], -N_[i]) for i in range(n)}
        cs.append(spec_case('faceforward(%s)' % nm, 'faceforward', k, vt, faceforward))
        # gtx
        k = K('length2_%s' % vt.tag, [Par('o', sc, False), Par('a', vt)], '*o = length2(*a);', CFG)
        cs.append(spec_case('length2(%s)' % nm, 'gtx_norm', k, sc, lambda A=A: {0: S.dot(A('a'), A('a'))}))
        k = K('distance2_%s' % vt.tag, [Par('o', sc, False), Par('a', vt), Par('b', vt)], '*o = distance2(*a, *b);', CFG)
        cs.append(spec_case('distance2(%s)' % nm, 'gtx_norm', k, sc, lambda A=A: {0: S.dot(S.vsub(A('a'), A('b')), S.vsub(A('a'), A('b')))}))
        if n >= 2:
            k = K('proj_%s' % vt.tag, [Par('o', vt, False), Par('a', vt), Par('b', vt)], '*o = proj(*a, *b);', CFG)

            def proj(A=A, n=n):
                x, nn = A('a'), A('b')
                f = S.dot(x, nn) / S.dot(nn, nn)
                return {i: f * nn[i] for i in range(n)}
            cs.append(spec_case('proj(%s)' % nm, 'gtx_projection', k, vt, proj))
            k = K('perp_%s' % vt.tag, [Par('o', vt, False), Par('a', vt), Par('b', vt)], '*o = perp(*a, *b);', CFG)

            def perp(A=A, n=n):
                x, nn = A('a'), A('b')
                f = S.dot(x, nn) / S.dot(nn, nn)
                return {i: x[i] - f * nn[i] for i in range(n)}
            cs.append(spec_case('perp(%s)' % nm, 'gtx_projection', k, vt, perp))
            k = K('angle_%s' % vt.tag, [Par('o', sc, False), Par('a', vt), Par('b', vt)], '*o = angle(*a, *b);', CFG)
            cs.append(spec_case('angle(%s)' % nm, 'gtx_vector_angle', k, sc, lambda A=A: {0: S.fn('acos', S.gclamp(S.dot(A('a'), A('b')), c(-1), c(1)))}))
    # scalar (genType) overloads
    k = K('s_refract_%s' % tg, [Par('o', sc, False), Par('a', sc), Par('b', sc), Par('e', sc)], '*o = refract(*a, *b, *e);', CFG)

    def srefract():
        I_, N_, eta = S.lane('a', sc, 0), S.lane('b', sc, 0), S.lane('e', sc, 0)
        d = N_ * I_
        kk = 1 - eta * eta * (1 - d * d)
        return {0: S.sel(kk.ge(0), eta * I_ - (eta * d + S.sqrt(kk)) * N_, c(0))}
    cs.append(spec_case('refract(scalar<%s>)' % tg, 'refract', k, sc, srefract, extra=refract_guard))
    k = K('s_reflect_%s' % tg, [Par('o', sc, False), Par('a', sc), Par('b', sc)], '*o = reflect(*a, *b);', CFG)
    cs.append(spec_case('reflect(scalar<%s>)' % tg, 'reflect', k, sc, lambda: {0: S.lane('a', sc, 0) - S.lane('b', sc, 0) * (S.lane('b', sc, 0) * S.lane('a', sc, 0)) * 2}))
    k = K('s_faceforward_%s' % tg, [Par('o', sc, False), Par('a', sc), Par('b', sc), Par('c', sc)], '*o = faceforward(*a, *b, *c);', CFG)
    cs.append(spec_case('faceforward(scalar<%s>)' % tg, 'faceforward', k, sc,
                        lambda: {0: S.sel((S.lane('c', sc, 0) * S.lane('b', sc, 0)).lt(0), S.lane('a', sc, 0), -S.lane('a', sc, 0))}))
    k = K('s_length_%s' % tg, [Par('o', sc, False), Par('a', sc)], '*o = length(*a);', CFG)
    cs.append(spec_case('length(scalar<%s>)' % tg, 'length', k, sc, lambda: {0: S.fabs(S.lane('a', sc, 0))}))
    k = K('s_distance_%s' % tg, [Par('o', sc, False), Par('a', sc), Par('b', sc)], '*o = distance(*a, *b);', CFG)
    cs.append(spec_case('distance(scalar<%s>)' % tg, 'distance', k, sc, lambda: {0: S.fabs(S.lane('b', sc, 0) - S.lane('a', sc, 0))}))
    k = K('s_dot_%s' % tg, [Par('o', sc, False), Par('a', sc), Par('b', sc)], '*o = dot(*a, *b);', CFG)
    cs.append(spec_case('dot(scalar<%s>)' % tg, 'dot', k, sc, lambda: {0: S.lane('a', sc, 0) * S.lane('b', sc, 0)}))
    # vec3-only
    v3 = G.vec(3, T, Q)
    v2 = G.vec(2, T, Q)
    A3 = lambda nm: S.vecE(nm, v3)
    k = K('cross_%s' % v3.tag, [Par('o', v3, False), Par('a', v3), Par('b', v3)], '*o = cross(*a, *b);', CFG)
    cs.append(spec_case('cross(vec3<%s>)' % tg, 'cross', k, v3, lambda: dict(enumerate(S.cross(A3('a'), A3('b'))))))
    k = K('cross2_%s' % v2.tag, [Par('o', sc, False), Par('a', v2), Par('b', v2)], '*o = cross(*a, *b);', CFG)
    cs.append(spec_case('cross(vec2<%s>)' % tg, 'gtx_exterior', k, sc, lambda: {0: S.lane('a', v2, 0) * S.lane('b', v2, 1) - S.lane('b', v2, 0) * S.lane('a', v2, 1)}))
    k = K('mixed_%s' % v3.tag, [Par('o', sc, False), Par('a', v3), Par('b', v3), Par('c', v3)], '*o = mixedProduct(*a, *b, *c);', CFG)
    cs.append(spec_case('mixedProduct(vec3<%s>)' % tg, 'gtx_mixed', k, sc, lambda: {0: S.dot(S.cross(A3('a'), A3('b')), A3('c'))}))
    k = K('trinormal_%s' % v3.tag, [Par('o', v3, False), Par('a', v3), Par('b', v3), Par('c', v3)], '*o = triangleNormal(*a, *b, *c);', CFG)
    cs.append(spec_case('triangleNormal(vec3<%s>)' % tg, 'gtx_normal', k, v3,
                        lambda: dict(enumerate(S.normalize(S.cross(S.vsub(A3('a'), A3('b')), S.vsub(A3('a'), A3('c'))))))))
    k = K('orthov_%s' % v3.tag, [Par('o', v3, False), Par('a', v3), Par('b', v3)], '*o = orthonormalize(*a, *b);', CFG)

    def orthov():
        x, y = A3('a'), A3('b')
        d = S.dot(y, x)
        return dict(enumerate(S.normalize([x[i] - y[i] * d for i in range(3)])))
    cs.append(spec_case('orthonormalize(vec3<%s>)' % tg, 'gtx_orthonormalize', k, v3, orthov))
    m3 = G.mat(3, 3, T, Q)
    k = K('orthom_%s' % m3.tag, [Par('o', m3, False), Par('m', m3)], '*o = orthonormalize(*m);', CFG)

    def orthom():
        r = [[S.lane('m', m3, (c_, r_)) for r_ in range(3)] for c_ in range(3)]
        r0 = S.normalize(r[0])
        d0 = S.dot(r0, r[1])
        r1 = S.normalize([r[1][i] - r0[i] * d0 for i in range(3)])
        d1 = S.dot(r1, r[2])
        d0b = S.dot(r0, r[2])
        r2 = S.normalize([r[2][i] - (r0[i] * d0b + r1[i] * d1) for i in range(3)])
        out = {}
        for c_, col in enumerate((r0, r1, r2)):
            for r_ in range(3):
                out[(c_, r_)] = col[r_]
        return out
    cs.append(spec_case('orthonormalize(mat3<%s>)' % tg, 'gtx_orthonormalize', k, m3, orthom))
    for nm_, body, fnn in (('l1Norm2', '*o = l1Norm(*a, *b);', lambda: {0: S.fabs(S.lane('b', v3, 0) - S.lane('a', v3, 0)) + S.fabs(S.lane('b', v3, 1) - S.lane('a', v3, 1)) + S.fabs(S.lane('b', v3, 2) - S.lane('a', v3, 2))}),
                           ('l2Norm2', '*o = l2Norm(*a, *b);', lambda: {0: S.sqrt(S.dot(S.vsub(A3('b'), A3('a')), S.vsub(A3('b'), A3('a'))))})):
        k = K('%s_%s' % (nm_, v3.tag), [Par('o', sc, False), Par('a', v3), Par('b', v3)], body, CFG)
        cs.append(spec_case('%s(vec3<%s>)' % (nm_, tg), 'gtx_norm', k, sc, fnn))
    for nm_, body, fnn in (('l1Norm1', '*o = l1Norm(*a);', lambda: {0: S.fabs(S.lane('a', v3, 0)) + S.fabs(S.lane('a', v3, 1)) + S.fabs(S.lane('a', v3, 2))}),
                           ('l2Norm1', '*o = l2Norm(*a);', lambda: {0: S.sqrt(S.dot(A3('a'), A3('a')))})):
        k = K('%s_%s' % (nm_, v3.tag), [Par('o', sc, False), Par('a', v3)], body, CFG)
        cs.append(spec_case('%s(vec3<%s>)' % (nm_, tg), 'gtx_norm', k, sc, fnn))
    # lxNorm: (sum_i |d_i|^p)^(1/p) -- pow stays an opaque call, so the rule is structural: outer pow with exponent 1 / float(Depth), three inner pow with exponent float(Depth),
    # and the three bases are, in some order, |d_x|, |d_y|, |d_z| (each compared with the definition in the usual way); lMaxNorm: max of the three absolute values
    ud = G.scalar('uint')
    for nm_, params, body, dfn in (('lxNorm2', [Par('a', v3), Par('b', v3), Par('d', ud)], '*o = lxNorm(*a, *b, *d);', lambda i: S.fabs(S.lane('b', v3, i) - S.lane('a', v3, i))),
                                   ('lxNorm1', [Par('a', v3), Par('d', ud)], '*o = lxNorm(*a, *d);', lambda i: S.fabs(S.lane('a', v3, i)))):
        k = K('%s_%s' % (nm_, v3.tag), [Par('o', sc, False)] + params, body, CFG)
        cs.append(lx_case('%s(vec3<%s>)' % (nm_, tg), k, sc, ud, dfn))
    for nm_, params, body, dfn in (('lMaxNorm2', [Par('a', v3), Par('b', v3)], '*o = lMaxNorm(*a, *b);', lambda i: S.fabs(S.lane('b', v3, i) - S.lane('a', v3, i))),
                                   ('lMaxNorm1', [Par('a', v3)], '*o = lMaxNorm(*a);', lambda i: S.fabs(S.lane('a', v3, i)))):
        k = K('%s_%s' % (nm_, v3.tag), [Par('o', sc, False)] + params, body, CFG)
        cs.append(spec_case('%s(vec3<%s>)' % (nm_, tg), 'gtx_norm', k, sc, lambda dfn=dfn: {0: S.gmax(S.gmax(dfn(0), dfn(1)), dfn(2))}))
    # closestPointOnLine: clamped-parameter shape
    for vt in (v2, v3):
        n = vt.n
        k = K('closest_%s' % vt.tag, [Par('o', vt, False), Par('p', vt), Par('a', vt), Par('b', vt)], '*o = closestPointOnLine(*p, *a, *b);', CFG)

        def closest(vt=vt, n=n):
            p, a, b = S.vecE('p', vt), S.vecE('a', vt), S.vecE('b', vt)
            ll = S.sqrt(S.dot(S.vsub(a, b), S.vsub(a, b)))
            ld = [(b[i] - a[i]) / ll for i in range(n)]
            dist = S.dot(S.vsub(p, a), ld)
            return {i: S.sel(dist.le(0), a[i], S.sel(dist.ge(ll), b[i], a[i] + ld[i] * dist)) for i in range(n)}
        cs.append(spec_case('closestPointOnLine(vec%d<%s>)' % (n, tg), 'gtx_closest_point', k, vt, closest))
    # orientedAngle: sign selection
    k = K('oangle2_%s' % v2.tag, [Par('o', sc, False), Par('a', v2), Par('b', v2)], '*o = orientedAngle(*a, *b);', CFG)

    def oangle2():
        x, y = S.vecE('a', v2), S.vecE('b', v2)
        ang = S.fn('acos', S.gclamp(S.dot(x, y), c(-1), c(1)))
        pcross = x[0] * y[1] - y[0] * x[1]
        return {0: S.sel(pcross.gt(0), ang, -ang)}
    cs.append(spec_case('orientedAngle(vec2<%s>)' % tg, 'gtx_vector_angle', k, sc, oangle2))
    k = K('oangle3_%s' % v3.tag, [Par('o', sc, False), Par('a', v3), Par('b', v3), Par('c', v3)], '*o = orientedAngle(*a, *b, *c);', CFG)

    def oangle3():
        x, y, ref = A3('a'), A3('b'), A3('c')
        ang = S.fn('acos', S.gclamp(S.dot(x, y), c(-1), c(1)))
        return {0: S.sel(S.dot(ref, S.cross(x, y)).lt(0), -ang, ang)}
    cs.append(spec_case('orientedAngle(vec3<%s>)' % tg, 'gtx_vector_angle', k, sc, oangle3))
    return cs


def canaries():
    sc = G.scalar('float')
    v3 = G.vec(3, 'float')
    pre = ('static glm::vec3 verif_bad_refract(glm::vec3 const& I, glm::vec3 const& N, float eta){ float d = glm::dot(N, I); float k = 1.f - eta*eta*(1.f - d*d); '
           'return (eta * I - (eta * d + std::sqrt(k)) * N) * float(k >= 0.f); }')
    k = K('canary_refract', [Par('o', v3, False), Par('a', v3), Par('b', v3), Par('e', sc)], '*o = verif_bad_refract(*a, *b, *e);', CFG, pre=pre)

    def judge(ctx):
        it = ctx.fn(k)
        t = L.out_lanes(ctx, k, v3)[0]
        return [r for r in refract_guard(it, 'canary:refract-multiplies-by-bool[0]', t, k)]
    c1 = R.Case('canary:refract-multiplies-by-bool', [k], judge, canary=True)
    pre2 = 'static glm::vec3 verif_bad_cross(glm::vec3 const& x, glm::vec3 const& y){ return glm::vec3(x.y*y.z - y.y*x.z, x.z*y.x - y.z*x.x, x.x*y.y - y.x*x.x); }'
    k2 = K('canary_cross', [Par('o', v3, False), Par('a', v3), Par('b', v3)], '*o = verif_bad_cross(*a, *b);', CFG, pre=pre2)
    c2 = spec_case('canary:wrong-index-in-cross', 'cross', k2, v3, lambda: dict(enumerate(S.cross(S.vecE('a', v3), S.vecE('b', v3)))))
    j2 = c2.judge
    c2.judge = lambda ctx: [r for r in j2(ctx) if r['id'].endswith('[2]')]
    c2.canary = True
    return [c1, c2]


EXPLANATION = ('static: dot/length/distance/cross/normalize/reflect/refract/faceforward (vec1-4 and genType overloads) and the gtx norm/projection/perpendicular/orthonormalize/'
               'vector_angle/closest_point/normal/exterior/mixed-product helpers are instantiated from /repo and every output lane is compared with the textbook formula as a '
               'normal form over the input lanes (rational functions with sqrt/acos atoms, decisions kept as selections over normalised compare operands); refract must guard sqrt(k) by k >= 0')
ASSUMPTIONS = ['float operations read as exact real arithmetic: the Euclidean identities are decided as algebraic identities, unit length / Snell numerics are not',
               'NaN propagates through fadd/fsub/fmul/fdiv/fneg/fma/sqrt (IEEE 754), used by the guard-dominance rule',
               'clang 14 -O2 pipeline without fast-math preserves values']
TRUSTED = ['clang/LLVM 14', 'tools/irtool.cc', 'laneflow normal forms', 'formulas in rules/c12.py (each a few lines, quoted from the property / GLSL spec)']
LEVEL = 'proof'
