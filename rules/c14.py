"""C14 — ULP stepping and epsilon / ULP comparisons.

  step_direction   nextFloat / prevFloat (ext and gtc copies, float and double, scalar and vector, every #if arm this platform
                   compiles: default, GLM_FORCE_CXX98, GLM_FORCE_CXX03) are one call of the next-after primitive whose direction
                   constant is above every finite value (+max / +inf), resp. below every finite value (-max / -inf); the n-step
                   overloads are n nested single steps with the same direction
  epsilon_pred     equal / notEqual / epsilonEqual / epsilonNotEqual with an epsilon are |x - y| <= eps (resp. >) per component,
                   for scalar, vector, matrix (per column) and quaternion overloads — decided under every order relation of
                   (|x - y|, eps)
  ulp_equal        equal(x, y, maxULPs): as a boolean function of the bit patterns it is
                   signs equal ? |a.i - b.i| <= n : (both magnitudes zero), identically for the scalar, vector and matrix overloads
                   (witnesses are built from independent bit fields of the operands)
Not decided: that the next-after primitive is itself correct, floatDistance arithmetic, maxULPs counting across zero.
"""
from laneflow import term as tm
from laneflow import poly as P
from laneflow import gtypes as G
from laneflow import runner as R
from laneflow import rulelib as L
from laneflow import spec as S
from laneflow import bitlogic as BL
from laneflow import interp as I
from laneflow.build import K, P as Par, Cfg

HDR = ('glm/glm.hpp', 'glm/ext/scalar_ulp.hpp', 'glm/ext/vector_ulp.hpp', 'glm/gtc/ulp.hpp', 'glm/ext/scalar_relational.hpp', 'glm/ext/vector_relational.hpp',
       'glm/ext/matrix_relational.hpp', 'glm/ext/quaternion_relational.hpp', 'glm/gtc/epsilon.hpp', 'glm/gtc/quaternion.hpp')
CFGS = [Cfg('ulp', headers=HDR), Cfg('ulp_cxx98', defines=('GLM_FORCE_CXX98',), headers=HDR), Cfg('ulp_cxx03', defines=('GLM_FORCE_CXX03',), headers=HDR)]


def fmax_of(w):
    import struct
    return struct.unpack('<f', struct.pack('<I', 0x7f7fffff))[0] if w == 32 else struct.unpack('<d', struct.pack('<Q', 0x7fefffffffffffff))[0]


def direction_ok(c, up):
    if c.op != 'const':
        return None
    x = tm.fval(c)
    if x != x:
        return False
    m = fmax_of(c.w)
    return x >= m if up else x <= -m


def chain(t):
    """nextafter(nextafter(... x ..., d), d) -> (x, [d...])"""
    ds = []
    while t.op == 'fn' and t.args[0] == 'nextafter':
        ds.append(t.args[2])
        t = t.args[1]
    return t, ds


def step_cases(tier):
    cs = []
    for cfg in CFGS:
        for T in ('float', 'double'):
            sc = G.scalar(T)
            for fn, up in (('nextFloat', True), ('prevFloat', False), ('next_float', True), ('prev_float', False)):
                shapes = [(0, None)] + [(L_, None) for L_ in ((1, 4) if tier == 'quick' else (1, 2, 3, 4))] + [(0, 3), (2, 3), (2, -3), (3, -2)]
                for L_, n in shapes:
                    ty = sc if L_ == 0 else G.vec(L_, T)
                    percomp = n is not None and n < 0           # the overload that takes one step count per component (a vector of ints)
                    if percomp:
                        n = -n
                        call = '%s(*x, glm::vec<%d, int, glm::defaultp>(%d))' % (fn, L_, n)
                    else:
                        call = '%s(*x%s)' % (fn, '' if n is None else ', %d' % n)
                    k = K('%s_%s_%s_%s%s' % (cfg.name, fn, ty.tag if L_ else sc.tag, 's' if L_ == 0 else 'v', '' if n is None else '_n%s%d' % ('v' if percomp else '', n)),
                          [Par('o', ty, False), Par('x', ty)], '*o = %s;' % call, cfg)
                    name = '%s(%s%s)@%s' % (fn, T if L_ == 0 else 'vec%d<%s>' % (L_, T), '' if n is None else (',ivec(%d)' % n if percomp else ',%d' % n), cfg.name)

                    def judge(ctx, k=k, ty=ty, up=up, n=n, name=name, fn=fn):
                        e = ctx.compile_error(k)
                        if e:
                            return [R.ob(name, 'existence', R.REFUTED, 'cannot be instantiated: ' + e, kernel=k.source())]
                        it = ctx.fn(k)
                        res = []
                        for lane, off in ty.lanes.items():
                            t = I.out_lane(it, 'o', off, ty.elem)
                            oid = '%s[%s]' % (name, lane)
                            x, ds = chain(t)
                            want = n or 1
                            if x is not L.in_term('x', ty, lane) or not ds:
                                # not the shape: refuted when the derived term, evaluated exactly (the concrete evaluator models nextafter and the conversions), does not
                                # return the want-th neighbour of a sample value of the component's own format
                                from laneflow import ceval as CE
                                xin = L.in_term('x', ty, lane)
                                w_ = ty.elem * 8
                                big = tm.fconst(w_, (3.4028234663852886e+38 if w_ == 32 else 1.7976931348623157e+308) * (1 if up else -1))
                                ref = xin
                                for _ in range(want):
                                    ref = tm.fn('nextafter', (ref, big), w_)
                                wit = None
                                for v in (1.0, -1.5, 3.0e-30, 123456.0):
                                    env = {xin: CE.f2b(w_, v)}
                                    try:
                                        a_, b_ = CE.evaluate(t, env), CE.evaluate(ref, env)
                                    except CE.NoValue:
                                        continue
                                    if a_ != b_:
                                        wit = (v, a_, b_)
                                        break
                                if wit:
                                    res.append(R.ob(oid, 'step_direction', R.REFUTED, '%s(%r) has the bit pattern %#x, the %s neighbour of the component\'s format (%d step(s)) is %#x; result term: %s' % (
                                        fn, wit[0], wit[1], 'upper' if up else 'lower', want, wit[2], tm.show(t, 4)), where=R.where_of(it, t), kernel=k.source()))
                                else:
                                    res.append(R.ob(oid, 'step_direction', R.UNDECIDED, 'not a next-after chain on the component: %s' % tm.show(t, 4)))
                                continue
                            oks = [direction_ok(d, up) for d in ds]
                            if len(ds) != want:
                                res.append(R.ob(oid, 'step_direction', R.REFUTED, '%d single steps instead of %d' % (len(ds), want), where=R.where_of(it, t), kernel=k.source()))
                            elif all(o is True for o in oks):
                                res.append(R.ob(oid, 'step_direction', R.PROVED, '%d x nextafter(x, %g): direction is %s every finite value' % (want, tm.fval(ds[0]), 'above' if up else 'below'), kernel=k.source()))
                            elif any(o is False for o in oks):
                                d = ds[oks.index(False)]
                                res.append(R.ob(oid, 'step_direction', R.REFUTED,
                                                '%s steps towards %g, which is not %s every finite value: for every x %s that constant the result moves the wrong way' % (
                                                    fn, tm.fval(d), 'above' if up else 'below', 'above' if up else 'below'), where=R.where_of(it, t), kernel=k.source()))
                            else:
                                res.append(R.ob(oid, 'step_direction', R.UNDECIDED, 'direction is not a constant: %s' % tm.show(ds[0], 3)))
                        return res
                    cs.append(R.Case(name, [k], judge))
    return cs


def bool_lane(it, base, off):
    return tm.slice_(I.out_lane(it, base, off, 1), 0, 1)


def eps_cases(tier):
    cs = []
    cfg = CFGS[0]
    for T in ('float', 'double'):
        sc, bo = G.scalar(T), G.scalar('bool')
        w = sc.elem * 8

        def spec_pred(kind, x, y, e):
            d = S.fabs(x - y)
            return d.le(e) if kind == 'eq' else d.gt(e)
        fams = [('equal', 'eq'), ('notEqual', 'ne'), ('epsilonEqual', 'eq'), ('epsilonNotEqual', 'ne')]
        for fn, kind in fams:
            shapes = [('s', 0)] + [('v', L_) for L_ in ((1, 4) if tier == 'quick' else (1, 2, 3, 4))] + [('ve', 3)]
            if fn in ('equal', 'notEqual'):
                shapes += [('m', 3), ('m', 4), ('me', 2), ('m', (4, 2)), ('m', (2, 3)), ('me', (3, 2)), ('me', (2, 4))]
            shapes += [('q', 4)]
            for sh, L_ in shapes:
                if sh == 's':
                    ty, et, oty = sc, sc, bo
                elif sh in ('v', 've'):
                    ty, et, oty = G.vec(L_, T), (G.vec(L_, T) if sh == 've' else sc), G.vec(L_, 'bool')
                elif sh in ('m', 'me'):
                    C_, R_ = L_ if isinstance(L_, tuple) else (L_, L_)
                    ty, et, oty = G.mat(C_, R_, T), (G.vec(C_, T) if sh == 'me' else sc), G.vec(C_, 'bool')
                else:
                    ty, et, oty = G.quat(T), sc, G.vec(4, 'bool')
                Ls = ('%dx%d' % L_) if isinstance(L_, tuple) else str(L_)
                k = K('eps_%s_%s_%s%s' % (fn, sc.tag, sh, Ls), [Par('o', oty, False), Par('a', ty), Par('b', ty), Par('e', et)], '*o = %s(*a, *b, *e);' % fn, cfg)
                name = '%s(%s,eps)<%s>' % (fn, {'s': 'scalar', 'v': 'vec%s' % Ls, 've': 'vec%s,vec eps' % Ls, 'm': 'mat%s' % Ls, 'me': 'mat%s,vec eps' % Ls, 'q': 'quat'}[sh], T)

                def judge(ctx, k=k, ty=ty, et=et, oty=oty, sh=sh, L_=L_, kind=kind, name=name):
                    e = ctx.compile_error(k)
                    if e:
                        if 'no matching function' in e or 'ambiguous' in e:
                            return []
                        return [R.ob(name, 'existence', R.REFUTED, 'cannot be instantiated: ' + e, kernel=k.source())]
                    it = ctx.fn(k)
                    res = []
                    for olane, ooff in oty.lanes.items():
                        got = bool_lane(it, 'o', ooff)
                        if sh in ('m', 'me'):
                            comps = [(L.in_term('a', ty, (olane, r)), L.in_term('b', ty, (olane, r))) for r in range(L_[1] if isinstance(L_, tuple) else L_)]
                        elif sh == 'q':
                            c = 'xyzw'[olane]
                            comps = [(L.in_term('a', ty, c), L.in_term('b', ty, c))]
                        else:
                            comps = [(L.in_term('a', ty, olane), L.in_term('b', ty, olane))]
                        eps = L.in_term('e', et, olane if et.kind == 'vec' else 0)
                        preds = [spec_pred(kind, S.E(x), S.E(y), S.E(eps)) for x, y in comps]
                        exp = preds[0]
                        for p_ in preds[1:]:
                            exp = tm.and_(exp, p_) if kind == 'eq' else tm.or_(exp, p_)
                        oid = '%s[%s]' % (name, olane)
                        one, zero = tm.fconst(w, 1.0), tm.fconst(w, 0.0)
                        r = P.decision_equal(tm.select(got, one, zero), tm.select(exp, one, zero), nan=False, max_atoms=8)
                        if r is True:
                            res.append(R.ob(oid, 'epsilon_pred', R.PROVED, 'true exactly when |x - y| %s eps%s' % ('<=' if kind == 'eq' else '>', ' for every component of the column' if sh in ('m', 'me') else ''), kernel=k.source()))
                        elif r:
                            res.append(R.ob(oid, 'epsilon_pred', R.REFUTED, 'differs from |x - y| %s eps whenever %s: %s' % ('<=' if kind == 'eq' else '>', r[1], tm.show(got, 4)),
                                            where=R.where_of(it, got), kernel=k.source()))
                        else:
                            res.append(R.ob(oid, 'epsilon_pred', R.UNDECIDED, 'not comparable: %s' % tm.show(got, 4)))
                    return res
                cs.append(R.Case(name, [k], judge))
    return cs


def ulp_spec_feq(a, b, n):
    """same function written with the float comparison: for operands of different sign, a == b (as floats) holds exactly when
    both magnitudes are zero (IEEE 754: +0 == -0, every other pair of opposite sign differs, NaN compares false)"""
    w = a.w
    sa, sb = tm.slice_(a, w - 1, 1), tm.slice_(b, w - 1, 1)
    diff = tm.mk('iabs', (tm.arith('sub', a, b),), w)
    nn = n if n.w == w else tm.sext(n, w)
    return tm.select(tm.xor(sa, sb), tm.fcmp('oeq', a, b), tm.icmp('sle', diff, nn))


def ulp_spec(a, b, n):
    """signs equal ? |a.i - b.i| <= n : both magnitudes zero   (a, b: bit patterns; n: int of the same width or 32)"""
    w = a.w
    sa, sb = tm.slice_(a, w - 1, 1), tm.slice_(b, w - 1, 1)
    diff = tm.mk('iabs', (tm.arith('sub', a, b),), w)
    nn = n if n.w == w else tm.sext(n, w)
    close = tm.icmp('sle', diff, nn)
    z = tm.zeros(w - 1)
    both_zero = tm.and_(tm.icmp('eq', tm.slice_(a, 0, w - 1), z), tm.icmp('eq', tm.slice_(b, 0, w - 1), z))
    return tm.select(tm.xor(sa, sb), both_zero, close)


def ulp_cases(tier):
    cs = []
    cfg = CFGS[0]
    it_ = G.scalar('int')
    for T in ('float', 'double'):
        sc, bo = G.scalar(T), G.scalar('bool')
        shapes = [('s', 0), ('v', 1), ('v', 4), ('vn', 3), ('m', 3), ('mn', 2), ('m', (4, 2)), ('m', (2, 3)), ('mn', (3, 2)), ('mn', (2, 4))] + ([('v', 2), ('v', 3), ('m', 4), ('m', 2), ('m', (3, 4)), ('mn', (4, 3))] if tier == 'thorough' else [])
        for fn, neg in (('equal', False), ('notEqual', True)):
            for sh, L_ in shapes:
                if sh == 's':
                    ty, nt, oty = sc, it_, bo
                elif sh in ('v', 'vn'):
                    ty, nt, oty = G.vec(L_, T), (G.vec(L_, 'int') if sh == 'vn' else it_), G.vec(L_, 'bool')
                else:
                    C_, R_ = L_ if isinstance(L_, tuple) else (L_, L_)
                    ty, nt, oty = G.mat(C_, R_, T), (G.vec(C_, 'int') if sh == 'mn' else it_), G.vec(C_, 'bool')
                Ls = ('%dx%d' % L_) if isinstance(L_, tuple) else str(L_)
                k = K('ulp_%s_%s_%s%s' % (fn, sc.tag, sh, Ls), [Par('o', oty, False), Par('a', ty), Par('b', ty), Par('n', nt)], '*o = %s(*a, *b, *n);' % fn, cfg)
                name = '%s(%s,ULPs)<%s>' % (fn, {'s': 'scalar', 'v': 'vec%s' % Ls, 'vn': 'vec%s,ivec' % Ls, 'm': 'mat%s' % Ls, 'mn': 'mat%s,ivec' % Ls}[sh], T)

                def judge(ctx, k=k, ty=ty, nt=nt, oty=oty, sh=sh, L_=L_, neg=neg, name=name):
                    e = ctx.compile_error(k)
                    if e:
                        return [R.ob(name, 'existence', R.REFUTED, 'cannot be instantiated: ' + e, kernel=k.source())]
                    it = ctx.fn(k)
                    res = []
                    for olane, ooff in oty.lanes.items():
                        got = bool_lane(it, 'o', ooff)
                        if sh in ('m', 'mn'):
                            comps = [(L.in_term('a', ty, (olane, r)), L.in_term('b', ty, (olane, r))) for r in range(L_[1] if isinstance(L_, tuple) else L_)]
                        else:
                            comps = [(L.in_term('a', ty, olane), L.in_term('b', ty, olane))]
                        n = L.in_term('n', nt, olane if nt.kind == 'vec' else 0)
                        exp = exp2 = None
                        for x, y in comps:
                            p_, q_ = ulp_spec(x, y, n), ulp_spec_feq(x, y, n)
                            exp = p_ if exp is None else tm.and_(exp, p_)
                            exp2 = q_ if exp2 is None else tm.and_(exp2, q_)
                        if neg:
                            exp, exp2 = tm.not_(exp), tm.not_(exp2)
                        if got is exp2 or BL.separate(got, exp2) is True:
                            res.append(R.ob('%s[%s]' % (name, olane), 'ulp_equal', R.PROVED, 'signs equal ? |a.i - b.i| <= n : (a == b as floats, i.e. +0 and -0)', kernel=k.source()))
                            continue
                        oid = '%s[%s]' % (name, olane)
                        if got is exp:
                            res.append(R.ob(oid, 'ulp_equal', R.PROVED, 'signs equal ? |a.i - b.i| <= n : both zero', kernel=k.source()))
                            continue
                        r = BL.separate(got, exp)
                        if r is True:
                            res.append(R.ob(oid, 'ulp_equal', R.PROVED, 'same boolean function of the bit patterns as: signs equal ? |a.i - b.i| <= n : both zero', kernel=k.source()))
                        elif r:
                            res.append(R.ob(oid, 'ulp_equal', R.REFUTED, 'differs from "signs equal ? |a.i-b.i| <= n : (+0 and -0)" when %s ; got %s' % (r, tm.show(got, 5)),
                                            where=R.where_of(it, got), kernel=k.source()))
                        else:
                            wit = L.pattern_witness(got, exp)
                            if wit is None:
                                # distant pairs (the comparison of a truncated distance only shows beyond 2^31 ULPs)
                                from laneflow import ceval as CE
                                ins = sorted({x_ for x_ in tm.walk(got) if x_.op == 'in'} | {x_ for x_ in tm.walk(exp) if x_.op == 'in'}, key=lambda q_: q_.id)
                                fl = [x_ for x_ in ins if x_.w == ty.elem * 8]
                                others = [x_ for x_ in ins if x_ not in fl]
                                if len(fl) == 2:
                                    for pa, pb in ((1.0, 2.0), (1.0, 1.5), (0.0, 1.0), (1.0, -1.0)):
                                        env = {fl[0]: CE.f2b(fl[0].w, pa), fl[1]: CE.f2b(fl[1].w, pb)}
                                        env.update({o_: 0 for o_ in others})
                                        try:
                                            va, vb = CE.evaluate(got, env), CE.evaluate(exp, env)
                                        except CE.NoValue:
                                            continue
                                        if va != vb:
                                            wit = ({'x': pa, 'y': pb, 'maxULPs': 0}, va, vb)
                                            break
                            if wit:
                                res.append(R.ob(oid, 'ulp_equal', R.REFUTED, 'differs from "signs equal ? |a.i-b.i| <= n : (+0 and -0)" at %s: the overload returns %d, the definition %d ; got %s' % (wit[0], wit[1], wit[2], tm.show(got, 5)),
                                                where=R.where_of(it, got), kernel=k.source()))
                            else:
                                res.append(R.ob(oid, 'ulp_equal', R.UNDECIDED, 'got %s' % tm.show(got, 5)))
                    return res
                cs.append(R.Case(name, [k], judge))
    return cs


# ---- floatDistance ---------------------------------------------------------------------------------------------------------------------------------

def distance_cases(tier):
    """floatDistance / float_distance(x, y) is the number of representable values between x and y: |key(x) - key(y)| on the monotone integer scale
    key = +magnitude for positive, -magnitude for negative patterns.  Decided per sign combination (magnitudes symbolic) as polynomials mod 2^w."""
    from laneflow import ceval as CE
    cs = []
    cfg = CFGS[0]
    for T, W, IT in (('float', 32, 'int'), ('double', 64, 'int64')):
        sc, it_ = G.scalar(T), G.scalar(IT)
        for fn in ('floatDistance', 'float_distance'):
            k = K('dist_%s_%s' % (fn, sc.tag), [Par('o', it_, False), Par('x', sc), Par('y', sc)], '*o = %s(*x, *y);' % fn, cfg)
            name = '%s<%s>' % (fn, T)

            def judge(ctx, k=k, name=name, W=W):
                e = ctx.compile_error(k)
                if e:
                    return [R.ob(name, 'existence', R.REFUTED, 'cannot be instantiated: ' + e, kernel=k.source())]
                it = ctx.fn(k)
                t = I.out_lane(it, 'o', 0, W // 8)
                x, y = tm.inp('x', 0, W), tm.inp('y', 0, W)
                mx, my = tm.slice_(x, 0, W - 1), tm.slice_(y, 0, W - 1)
                pc = P.PCtx()
                res = []
                for sx in (0, 1):
                    for sy in (0, 1):
                        oid = '%s[sign x = %d, sign y = %d]' % (name, sx, sy)
                        r = tm.substitute(t, {x: tm.concat([mx, tm.const(1, sx)]), y: tm.concat([my, tm.const(1, sy)])})
                        # specification on the monotone scale
                        kx = tm.zext(mx, W) if not sx else tm.arith('sub', tm.zeros(W), tm.zext(mx, W))
                        ky = tm.zext(my, W) if not sy else tm.arith('sub', tm.zeros(W), tm.zext(my, W))
                        spec_in = tm.arith('sub', kx, ky)
                        ok = False
                        if r.op == 'iabs':
                            try:
                                pg, ps = pc.ipoly(r.args[0], W), pc.ipoly(spec_in, W)
                                ok = pg == ps or pg == -ps
                            except Exception:
                                ok = False
                        if ok:
                            res.append(R.ob(oid, 'float_distance', R.PROVED, '|key(x) - key(y)| with key = +-magnitude', kernel=k.source()))
                            continue
                        # witness: smallest magnitudes around zero and a generic pair
                        wit = None
                        for a_, b_ in ((1, 1), (0, 1), (1, 0), (5, 3), (0x3f800000 if W == 32 else 0x3ff0000000000000, 2)):
                            env = {x: a_ | (sx << (W - 1)), y: b_ | (sy << (W - 1))}
                            try:
                                got = CE.evaluate(t, env)
                            except CE.NoValue:
                                continue
                            want = abs((-a_ if sx else a_) - (-b_ if sy else b_))
                            if got != want:
                                wit = (env[x], env[y], got, want)
                                break
                        if wit:
                            res.append(R.ob(oid, 'float_distance', R.REFUTED, 'for the bit patterns x = %#x, y = %#x the result is %#x; there are %d representable values between them (the code subtracts the raw sign-magnitude patterns: %s)' % (wit + (tm.show(r, 4),)),
                                            where=R.where_of(it, t), kernel=k.source()))
                        else:
                            res.append(R.ob(oid, 'float_distance', R.UNDECIDED, 'got %s' % tm.show(r, 4), kernel=k.source()))
                return res
            cs.append(R.Case(name, [k], judge))
    return cs


def cases(tier):
    return step_cases(tier) + eps_cases(tier) + ulp_cases(tier) + distance_cases(tier) + canaries()


def canaries():
    sc = G.scalar('float')
    cfg = CFGS[0]
    k = K('canary_prev', [Par('o', sc, False), Par('x', sc)], '*o = std::nextafter(*x, 0.0f);', cfg)

    def judge(ctx):
        it = ctx.fn(k)
        t = I.out_lane(it, 'o', 0, 4)
        x, ds = chain(t)
        ok = ds and direction_ok(ds[0], False)
        return [R.ob('canary:prev-steps-towards-zero', 'step_direction', R.PROVED if ok else R.REFUTED, 'direction %s' % (tm.show(ds[0]) if ds else '?'))]
    return [R.Case('canary:prev-steps-towards-zero', [k], judge, canary=True)]


EXPLANATION = ('static: nextFloat/prevFloat (ext + gtc, float/double, scalar/vector, 1 and n steps) are instantiated under the default, GLM_FORCE_CXX98 and GLM_FORCE_CXX03 configurations and must '
               'be chains of the next-after primitive whose direction constant dominates every finite value; the epsilon comparisons are compared with |x-y| <= eps / > eps under every order '
               'relation of the compared quantities (scalar, vector, matrix per column, quaternion); the ULP comparisons are compared, as boolean functions of the operand bit patterns, with '
               '"signs equal ? |a.i-b.i| <= n : both zero", witnesses being assembled from independent bit fields')
ASSUMPTIONS = ['std::nextafter / nextafterf / the bundled nextafter are correct next-after primitives (not analysed)',
               'floatDistance and the exact ULP count across zero are value-dependent integer arithmetic and are not decided', 'NaN operands are outside the stated domain (finite x)']
TRUSTED = ['clang/LLVM 14', 'tools/irtool.cc', 'laneflow decision tables and bit-level equality logic']
LEVEL = 'other'
