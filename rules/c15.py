"""C15 — non-semantic configuration macros never change results (configuration differential).

One configuration-agnostic kernel corpus (harvested from the C01 / C02 / C10 / C12 rule modules: every default-configuration
kernel) is instantiated again under each non-semantic configuration; for every output object the term written by the
configured build must be the term written by the default build:

  D1  identical term (=> bit-identical result for all inputs) — or identical integer polynomial / boolean function;
      float terms that are only ring-equal, or that differ in an opaque libm atom vs an arithmetic fallback, are UNDECIDED
      unless the O / float-class domains exhibit a class of inputs where they provably differ (REFUTED)
  D2  the corpus instantiates under every configuration
"""
import importlib
import re
from laneflow import term as tm
from laneflow import poly as P
from laneflow import runner as R
from laneflow import rulelib as L
from laneflow import order as O
from laneflow import fclass as FC
from laneflow import interp as I
from laneflow.build import K, Cfg

CONFIGS = [
    ('CXX98', ('GLM_FORCE_CXX98',), None), ('CXX03', ('GLM_FORCE_CXX03',), None), ('CXX11', ('GLM_FORCE_CXX11',), None),
    ('CXX14', ('GLM_FORCE_CXX14',), None), ('CXX17', ('GLM_FORCE_CXX17',), None), ('CXX20', ('GLM_FORCE_CXX20',), 'gnu++20'),
    ('INLINE', ('GLM_FORCE_INLINE',), None), ('EXPLICIT_CTOR', ('GLM_FORCE_EXPLICIT_CTOR',), None), ('CTOR_INIT', ('GLM_FORCE_CTOR_INIT',), None),
    ('SIZE_T_LENGTH', ('GLM_FORCE_SIZE_T_LENGTH',), None), ('XYZW_ONLY', ('GLM_FORCE_XYZW_ONLY',), None), ('SWIZZLE', ('GLM_FORCE_SWIZZLE',), None),
    ('UNRESTRICTED_GENTYPE', ('GLM_FORCE_UNRESTRICTED_GENTYPE',), None), ('QUAT_DATA_WXYZ', ('GLM_FORCE_QUAT_DATA_WXYZ',), None),
    ('COMPILER_UNKNOWN', ('GLM_FORCE_COMPILER_UNKNOWN',), None), ('PLATFORM_UNKNOWN', ('GLM_FORCE_PLATFORM_UNKNOWN',), None), ('ARCH_UNKNOWN', ('GLM_FORCE_ARCH_UNKNOWN',), None),
    ('PURE', ('GLM_FORCE_PURE',), None), ('SILENT_WARNINGS', ('GLM_FORCE_SILENT_WARNINGS',), None),
    ('DEFAULT@gccview', (), None), ('CXX98@gccview', ('GLM_FORCE_CXX98',), None), ('CXX03@gccview', ('GLM_FORCE_CXX03',), None), ('CXX11@gccview', ('GLM_FORCE_CXX11',), None),
]
COMBOS = [
    ('CXX98+XYZW_ONLY', ('GLM_FORCE_CXX98', 'GLM_FORCE_XYZW_ONLY'), None), ('CXX11+SIZE_T+CTOR_INIT', ('GLM_FORCE_CXX11', 'GLM_FORCE_SIZE_T_LENGTH', 'GLM_FORCE_CTOR_INIT'), None),
    ('INLINE+EXPLICIT+UNRESTRICTED', ('GLM_FORCE_INLINE', 'GLM_FORCE_EXPLICIT_CTOR', 'GLM_FORCE_UNRESTRICTED_GENTYPE'), None),
    ('CXX03+ARCH_UNKNOWN+COMPILER_UNKNOWN', ('GLM_FORCE_CXX03', 'GLM_FORCE_ARCH_UNKNOWN', 'GLM_FORCE_COMPILER_UNKNOWN'), None),
    ('CXX14+SWIZZLE+WXYZ', ('GLM_FORCE_CXX14', 'GLM_FORCE_SWIZZLE', 'GLM_FORCE_QUAT_DATA_WXYZ'), None),
]


def corpus(tier):
    """(kernel, origin property) for every default-configuration kernel of the other rule modules"""
    out = []
    seen = set()
    for prop in ('c01', 'c12', 'c10', 'c14', 'c02'):
        mod = importlib.import_module('rules.' + prop)
        for c in mod.cases('quick'):
            if c.canary:
                continue
            for k in c.kernels:
                if k.cfg.defines or k.cfg.flags or k.pre or k.name in seen:
                    continue
                if tier == 'quick':
                    # sample: C12 and C10 completely; C01 scalar and length-4 kernels of float/int; C02 float 4x4 only
                    n = k.name
                    if prop == 'c01':
                        if not (n.endswith(('_4f', '_4i', '_f', '_i')) or '_4f_' in n or '_4i_' in n):
                            continue
                    if prop == 'c02' and not ('m4x4f' in n and n.endswith('_f')):
                        continue
                seen.add(k.name)
                out.append((k, prop.upper()))
    return out


# The baseline is built with g++; GLM keys several feature macros (GLM_HAS_INITIALIZER_LISTS, GLM_HAS_CONSTEXPR ...) on the *compiler* under clang
# (__has_feature) but on the *forced language level* under g++, so the pre-C++11 arms of the sources are only compiled by g++ under GLM_FORCE_CXX98/03.
# The 'gccview' configurations make clang preprocess GLM the way g++ does: the standard headers are included first with the real compiler identity,
# then __clang__ is undefined and __GNUC__ set to the baseline compiler's version before the GLM headers are read.
GCC_VIEW = ('#include <cmath>\n#include <cstddef>\n#include <cstdint>\n#include <cstdlib>\n#include <cstring>\n#include <cfloat>\n#include <climits>\n#include <limits>\n#include <cassert>\n#include <type_traits>\n'
            '#include <utility>\n#include <functional>\n#include <algorithm>\n#include <string>\n#include <cstdio>\n#include <ctime>\n'
            '#pragma clang diagnostic ignored "-Wbuiltin-macro-redefined"\n#undef __clang__\n#undef __GNUC__\n#define __GNUC__ 12\n#undef __GNUC_MINOR__\n#define __GNUC_MINOR__ 2\n')


def reconf(k, cname, defines, std):
    gcc = cname.endswith('@gccview')
    cfg = Cfg(k.cfg.name + '@' + cname, defines=defines, headers=k.cfg.headers, std=std, pre_text=GCC_VIEW if gcc else '')
    return K(k.name + '__' + cname, k.params, k.body, cfg, meta=k.meta)


def outputs(k):
    return [(p[0], p[3]) for p in k.params if not p[4]]


def compare(td, tc):
    if td is tc:
        return R.PROVED, 'identical term'
    ti, tj = L.float_idioms(td), L.float_idioms(tc)
    if ti is tj:
        return R.PROVED, 'identical term once the portable spelling of trunc / round (floor-based, exact) is read as the function it is'
    td, tc = ti, tj
    w = td.w
    # integer / boolean reading first (exact)
    pc = P.PCtx()
    if w <= 64:
        try:
            a, b = pc.ipoly(td, w), pc.ipoly(tc, w)
            if a == b and L.lanes_only(a):
                return R.PROVED, 'same integer polynomial mod 2^%d' % w
        except Exception:
            pass
    if O.in_fragment(td) and O.in_fragment(tc):
        r = O.equivalent(td, tc)
        if r is True:
            return R.PROVED, 'same selection in every ordering x NaN case'
        if r:
            return R.REFUTED, 'different selection in case [%s]: default %s, configured %s' % (r[1], r[2], r[3])
    if w in (32, 64):
        wit = FC.differ(td, tc)
        if wit:
            return R.REFUTED, 'different float results on %s: default %s, configured %s' % (wit[0], FC.name(wit[1]), FC.name(wit[2]))
        try:
            a, b = pc.fpoly(td), pc.fpoly(tc)
            if a != b and L.lanes_only(a - b):
                return R.REFUTED, 'different polynomial: default %s ; configured %s' % (P.show_poly(a), P.show_poly(b))
        except (P.NonFinite, P.TooBig):
            pass
    d = tm.diff(td, tc)
    wit = L.pattern_witness(td, tc)
    if wit:
        return R.REFUTED, 'different values for the input bit patterns %s: default %#x, configured %#x (terms differ at %s: default %s ; configured %s)' % (wit[0], wit[1], wit[2], d[0], tm.show(d[1], 4), tm.show(d[2], 4))
    return R.UNDECIDED, 'terms differ at %s: default %s ; configured %s' % (d[0], tm.show(d[1], 4), tm.show(d[2], 4))


def pair_case(k, origin, cname, defines, std):
    kc = reconf(k, cname, defines, std)
    name = '%s@%s' % (k.name[2:], cname)

    def judge(ctx):
        ed = ctx.compile_error(k)
        if ed:
            return []          # not part of the corpus in the default configuration (reported by its own property)
        ec = ctx.compile_error(kc)
        if ec:
            return [R.ob(name, 'existence', R.REFUTED, 'kernel of %s compiles in the default configuration but not under %s: %s' % (origin, cname, ec), kernel=kc.source())]
        try:
            itd = ctx.fn(k)
        except I.Unsupported as e:
            return [R.ob(name, 'engine', R.UNDECIDED, 'default build not analysable: %s' % e)]
        itc = ctx.fn(kc)
        res = []
        for oname, size in outputs(k):
            # compare in chunks of the element size so that a report names the lane
            elem = dict((p[0], p[2]) for p in k.params)[oname]
            for off in range(0, size, elem):
                td = I.out_lane(itd, oname, off, elem)
                tc = I.out_lane(itc, oname, off, elem)
                st, detail = compare(td, tc)
                res.append(R.ob('%s.%s@%d' % (name, oname, off), 'config_identical', st, detail, where=R.where_of(itc, tc) if st != R.PROVED else None,
                                kernel=kc.source() + '  // ' + kc.cfg.describe()))
        return res
    return R.Case(name, [k, kc], judge)


EXTRA_MODULES = ('c11', 'c05', 'c06', 'c18', 'c19', 'c13', 'c04', 'c09', 'c08', 'c17')
EXTRA_CONFIGS_QUICK = ('CXX98@gccview', 'CXX98', 'CTOR_INIT')


def extra_corpus(tier):
    """default-configuration kernels of the remaining rule modules (their only define is GLM_ENABLE_EXPERIMENTAL): compared under the language-level
    configurations as well, where the pre-C++11 arms of gtc / gtx / ext sources live"""
    out = []
    seen = set()
    for prop in EXTRA_MODULES:
        mod = importlib.import_module('rules.' + prop)
        for c in mod.cases('quick'):
            if c.canary:
                continue
            for k in c.kernels:
                if set(k.cfg.defines) - {'GLM_ENABLE_EXPERIMENTAL'} or k.cfg.flags or k.pre or getattr(k.cfg, 'peel', 0) or k.cfg.noinline or k.name in seen:
                    continue
                if prop == 'c17' and not k.name.startswith(('k_ctor_', 'k_mctor_', 'k_qctor_')):
                    continue      # constructors only: the swizzle forms are configuration-specific by construction (C17 analyses each form under its own macro)
                if re.search(r'glm::mat<[34], [34], \w+, glm::\w+>\(\*q\)', k.source()):
                    continue      # mat3(q) / mat4(q) use qua's explicit conversion operators, which only exist with GLM_HAS_EXPLICIT_CONVERSION_OPERATORS (C++11): not part of the pre-C++11 API
                seen.add(k.name)
                out.append((k, prop.upper()))
    return out


def cases(tier):
    cs = []
    corp = corpus(tier)
    confs = CONFIGS + (COMBOS if tier == 'thorough' else COMBOS[:1])
    for cname, defines, std in confs:
        for k, origin in corp:
            if 'QUAT_DATA_WXYZ' in ' '.join(defines) and ('glm::qua' in k.source()):
                continue      # layout-changing for quaternions: compared by component name under C04
            cs.append(pair_case(k, origin, cname, defines, std))
    if tier == 'quick':
        # every shape conversion / constructor of float matrices under the g++ view of the pre-C++11 level: each type_matCxR.inl has a second,
        # assignment-style arm for !GLM_HAS_INITIALIZER_LISTS that only this configuration compiles
        have = {k.name for k, _ in corp}
        mod = importlib.import_module('rules.c02')
        for c in mod.cases('quick'):
            if c.canary:
                continue
            for k in c.kernels:
                if k.name in have or k.cfg.defines or k.cfg.flags or k.pre:
                    continue
                if k.name.endswith('_f') and k.name.split('_')[1] in ('conv', 'diag', 'cols', 'elems'):
                    have.add(k.name)
                    cs.append(pair_case(k, 'C02', 'CXX98@gccview', ('GLM_FORCE_CXX98',), None))
    ex = extra_corpus(tier)
    for cname, defines, std in CONFIGS:
        if 'QUAT_DATA_WXYZ' in ' '.join(defines):
            continue
        if tier == 'quick' and cname not in EXTRA_CONFIGS_QUICK:
            continue
        for k, origin in ex:
            cs.append(pair_case(k, origin, cname, tuple(k.cfg.defines) + tuple(defines), std))
    cs += canaries()
    return cs


def canaries():
    from laneflow import gtypes as G
    from laneflow.build import P as Par
    sc = G.scalar('float')
    base = Cfg('core', headers=('glm/glm.hpp',))
    k = K('canary_cfg', [Par('o', sc, False), Par('a', sc)],
          '\n#ifdef VERIF_CANARY_ALT\n*o = (*a < 0.f) ? -*a : *a;\n#else\n*o = (*a <= 0.f) ? -*a : *a;\n#endif\n', base)
    kc = K('canary_cfg__ALT', k.params, k.body, Cfg('core@ALT', defines=('VERIF_CANARY_ALT',), headers=base.headers))

    def judge(ctx):
        itd, itc = ctx.fn(k), ctx.fn(kc)
        st, d = compare(I.out_lane(itd, 'o', 0, 4), I.out_lane(itc, 'o', 0, 4))
        return [R.ob('canary:config-changes-abs-of-zero', 'config_identical', st, d)]
    return [R.Case('canary:config-changes-abs-of-zero', [k, kc], judge, canary=True)]


EXPLANATION = ('static configuration differential: the default-configuration kernels of the C01/C02/C10/C12 corpora are instantiated again under each of 19 single-macro configurations '
               '(language levels CXX98..CXX20, FORCE_INLINE, EXPLICIT_CTOR, CTOR_INIT, SIZE_T_LENGTH, XYZW_ONLY, SWIZZLE, UNRESTRICTED_GENTYPE, QUAT_DATA_WXYZ, COMPILER/PLATFORM/ARCH_UNKNOWN, PURE, '
               'SILENT_WARNINGS) and selected combinations; the term stored to every output lane must be the same term as in the default build')
ASSUMPTIONS = ['one optimisation pipeline (-O2 without fast-math) is analysed: independence from the optimisation level is not decided (see C20 for the UB clause)',
               'aligned types without intrinsics are not a constructible configuration on this toolchain (see C16)',
               'quaternion kernels under QUAT_DATA_WXYZ are compared by component name in C04, not here']
TRUSTED = ['clang/LLVM 14', 'tools/irtool.cc', 'laneflow term normaliser']
LEVEL = 'translation_validation'
