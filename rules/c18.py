"""C18 — power-of-two, multiple and bitfield utilities.

  interleave    every bitfieldInterleave overload (2, 3, 4 operands, 8/16/32-bit, signed and unsigned, the vec2 forms): the normalised result term is,
                bit for bit, the placement "bit i of operand k at bit n*i + k" (operands truncated to floor(result width / n) bits, remaining
                result bits zero); bitfieldDeinterleave(bitfieldInterleave(x, y)) is the pair (x, y) as a term identity
  patterns      mask(n), bitfieldFillOne / FillZero(v, first, count), bitfieldRotateLeft / Right(v, s) for every constant n / first / count / s
                in range: the result term is exactly the documented bit pattern / bit permutation of v
  pow2          isPowerOfTwo(x) == (popcount(|x|) < 2); ceilPowerOfTwo is the smear ladder: every bit of the value before the final + 1 is the OR of
                all higher-or-equal bits of |x| - 1 (or-set abstract domain), multiplied by sign(x) for signed types
  multiple      isMultiple(x, m) == (x % m == 0); ceil / floor / round / next / prevMultiple, integers and floats:
                  tie        with the remainder atom set to 0 the result is x itself (an exact multiple is returned unchanged)
                  congruence substituting the division relation  t = q*m + r  for the dividend of the remainder atom makes the result q'*m with an
                             integer polynomial q' (the result is a multiple of m) and result - x is a linear form in (m, r) that lies in the
                             window of the direction for every remainder 0 <= |r| < m
                  corner     unsigned ceilMultiple at x = 0 (the x - 1 idiom wraps): partial evaluation of the term at (0, 3)
                  nearest    roundMultiple is the nearer of floorMultiple and floorMultiple + m (structural), not floorMultiple itself
"""
from fractions import Fraction
from laneflow import term as tm
from laneflow import poly as P
from laneflow import gtypes as G
from laneflow import runner as R
from laneflow import rulelib as L
from laneflow import interp as I
from laneflow.build import K, P as Par, Cfg
from laneflow.poly import Poly

HDR = ('glm/glm.hpp', 'glm/gtc/bitfield.hpp', 'glm/gtc/round.hpp', 'glm/ext/scalar_integer.hpp', 'glm/ext/vector_integer.hpp', 'glm/gtc/integer.hpp', 'glm/gtx/integer.hpp', 'glm/gtx/bit.hpp')
CFG = Cfg('bitutil', headers=HDR, defines=('GLM_ENABLE_EXPERIMENTAL',))

INTS = {8: ('int8', 'uint8'), 16: ('int16', 'uint16'), 32: ('int32', 'uint32'), 64: ('int64', 'uint64')}


# ---- interleave --------------------------------------------------------------------------------------------------------------------------------

def interleave_cases():
    cs = []
    combos = [(2, 8, 16), (2, 16, 32), (2, 32, 64), (3, 8, 32), (3, 16, 64), (3, 32, 64), (4, 8, 32), (4, 16, 64)]
    names = 'xyzw'
    for n, wi, wo in combos:
        for sgn in (0, 1):
            it_, ot = G.scalar(INTS[wi][sgn]), G.scalar(INTS[wo][sgn])
            ps = [Par(names[i], it_) for i in range(n)]
            k = K('il%d_%s' % (n, it_.tag), [Par('o', ot, False)] + ps, '*o = bitfieldInterleave(%s);' % ', '.join('*' + names[i] for i in range(n)), CFG)
            name = 'bitfieldInterleave(%s)' % ', '.join([INTS[wi][sgn]] * n)

            def judge(ctx, k=k, n=n, wi=wi, wo=wo, name=name):
                err = ctx.compile_error(k)
                if err:
                    return [R.ob(name, 'existence', R.REFUTED, 'cannot be instantiated: ' + err, kernel=k.source())]
                it = ctx.fn(k)
                t = I.out_lane(it, 'o', 0, wo // 8)
                keep = wi
                res = []
                bad = []
                for j in range(wo):
                    b = tm.slice_(t, j, 1)
                    kk, i = j % n, j // n
                    want = tm.slice_(tm.inp(names[kk], 0, wi), i, 1) if i < keep else tm.const(1, 0)
                    if b is not want:
                        bad.append((j, tm.show(b, 2), tm.show(want, 2)))
                if not bad:
                    res.append(R.ob(name, 'interleave', R.PROVED, 'result bit %d*i + k is bit i of operand k for every %d*i + k < %d, the remaining bits are zero' % (n, n, wo), kernel=k.source()))
                else:
                    real = all(tm.slice_(t, j, 1).op in ('slice', 'in', 'const') for j, _, _ in bad)
                    wtxt = ''
                    if not real:
                        # a differing bit that is not a plain selection: the derived term evaluated exactly at the one-hot input that should set only that result bit
                        from laneflow import ceval as CE
                        for j, _, _ in bad:
                            kk, i = j % n, j // n
                            if i >= keep:
                                continue
                            env = {tm.inp(names[q], 0, wi): ((1 << i) if q == kk else 0) for q in range(n)}
                            try:
                                got = CE.evaluate(t, env)
                            except CE.NoValue:
                                continue
                            if got != 1 << j:
                                real = True
                                wtxt = ' ; with bit %d of operand %d set and nothing else the result is %#x instead of %#x' % (i, kk, got, 1 << j)
                                break
                    res.append(R.ob(name, 'interleave', R.REFUTED if real else R.UNDECIDED,
                                    'result bit %d is %s, the documented placement puts %s there (%d bits differ)%s' % (bad[0][0], bad[0][1], bad[0][2], len(bad), wtxt), where=R.where_of(it, t), kernel=k.source()))
                return res
            cs.append(R.Case(name, [k], judge))
    # vec2 forms and the round trip
    for wi, wo in ((8, 16), (16, 32), (32, 64)):
        it_, ot = G.scalar(INTS[wi][1]), G.scalar(INTS[wo][1])
        vt = G.vec(2, INTS[wi][1])
        kv = K('ilv_%s' % it_.tag, [Par('o', ot, False), Par('v', vt)], '*o = bitfieldInterleave(*v);', CFG)
        ks = K('ils_%s' % it_.tag, [Par('o', ot, False), Par('v', vt)], '*o = bitfieldInterleave(v->x, v->y);', CFG)
        kd = K('dil_%s' % it_.tag, [Par('o', vt, False), Par('x', it_), Par('y', it_)], '*o = bitfieldDeinterleave(bitfieldInterleave(*x, *y));', CFG)
        name = 'bitfieldInterleave(u%dvec2)' % wi

        def jv(ctx, kv=kv, ks=ks, wo=wo, name=name):
            a, b = I.out_lane(ctx.fn(kv), 'o', 0, wo // 8), I.out_lane(ctx.fn(ks), 'o', 0, wo // 8)
            return [R.ob(name, 'interleave', R.PROVED if a is b else R.REFUTED, 'same term as the two-scalar overload on (v.x, v.y)' if a is b else 'differs from bitfieldInterleave(v.x, v.y): %s' % str(tm.diff(a, b))[:200], kernel=kv.source())]
        cs.append(R.Case(name, [kv, ks], jv))
        name2 = 'bitfieldDeinterleave(bitfieldInterleave(x, y))<uint%d>' % wi

        def jd(ctx, kd=kd, vt=vt, wi=wi, name2=name2):
            lanes = L.out_lanes(ctx, kd, vt)
            res = []
            for i, nm_ in enumerate('xy'):
                ok = lanes[i] is tm.inp(nm_, 0, wi)
                res.append(R.ob('%s.%s' % (name2, nm_), 'interleave', R.PROVED if ok else (R.REFUTED if all(x.op in ('in', 'slice', 'concat', 'const') for x in tm.walk(lanes[i])) else R.UNDECIDED),
                                'component %s is returned unchanged' % nm_ if ok else 'component %s comes back as %s' % (nm_, tm.show(lanes[i], 4)), kernel=kd.source()))
            return res
        cs.append(R.Case(name2, [kd], jd))
    return cs


# ---- mask / fill / rotate for constant parameters -------------------------------------------------------------------------------------------------

def pattern_cases(tier):
    cs = []
    widths = (8, 32) if tier == 'quick' else (8, 16, 32, 64)
    for w in widths:
        for sgn in ((1,) if tier == 'quick' else (0, 1)):
            T = INTS[w][sgn]
            ty = G.scalar(T)
            x = tm.inp('x', 0, w)
            counts = list(range(0, w + 1)) if w <= 16 else [0, 1, 2, 7, 8, 15, 16, 17, w // 2, w - 2, w - 1, w]
            ks = []
            for n in counts:
                ks.append(('mask', n, K('mask_%s_%d' % (ty.tag, n), [Par('o', ty, False)], '*o = mask(%s(%d));' % (ty.cpp, n), CFG)))
            for s in [c for c in counts if c < w]:
                ks.append(('ror', s, K('ror_%s_%d' % (ty.tag, s), [Par('o', ty, False), Par('x', ty)], '*o = bitfieldRotateRight(*x, %d);' % s, CFG)))
                ks.append(('rol', s, K('rol_%s_%d' % (ty.tag, s), [Par('o', ty, False), Par('x', ty)], '*o = bitfieldRotateLeft(*x, %d);' % s, CFG)))
            fills = [(f, c) for f in sorted(set([0, 1, 3, w // 2, w - 2])) for c in sorted(set([1, 2, 3, w // 2])) if f + c <= w]
            for f, c in fills:
                ks.append(('fill1', (f, c), K('fill1_%s_%d_%d' % (ty.tag, f, c), [Par('o', ty, False), Par('x', ty)], '*o = bitfieldFillOne(*x, %d, %d);' % (f, c), CFG)))
                ks.append(('fill0', (f, c), K('fill0_%s_%d_%d' % (ty.tag, f, c), [Par('o', ty, False), Par('x', ty)], '*o = bitfieldFillZero(*x, %d, %d);' % (f, c), CFG)))
            name = 'patterns<%s>' % T

            def judge(ctx, ks=ks, w=w, T=T, x=x):
                res = []
                for kind, par, k in ks:
                    oid = '%s(%s)<%s>' % ({'mask': 'mask', 'ror': 'bitfieldRotateRight', 'rol': 'bitfieldRotateLeft', 'fill1': 'bitfieldFillOne', 'fill0': 'bitfieldFillZero'}[kind], par, T)
                    err = ctx.compile_error(k)
                    if err:
                        res.append(R.ob(oid, 'existence', R.REFUTED, 'cannot be instantiated: ' + err, kernel=k.source()))
                        continue
                    t = I.out_lane(ctx.fn(k), 'o', 0, w // 8)
                    if kind == 'mask':
                        want = tm.const(w, (1 << par) - 1 if par < w else (1 << w) - 1)
                        what = 'the %d low bits set' % min(par, w)
                    elif kind in ('ror', 'rol'):
                        s = par if kind == 'ror' else (w - par) % w
                        want = tm.concat([tm.slice_(x, s, w - s), tm.slice_(x, 0, s)]) if s else x
                        what = 'v rotated %s by %d' % ('right' if kind == 'ror' else 'left', par)
                    else:
                        f, c = par
                        mid = tm.const(c, (1 << c) - 1 if kind == 'fill1' else 0)
                        parts = ([tm.slice_(x, 0, f)] if f else []) + [mid] + ([tm.slice_(x, f + c, w - f - c)] if f + c < w else [])
                        want = tm.concat(parts)
                        what = 'bits %d..%d %s, the others unchanged' % (f, f + c - 1, 'set' if kind == 'fill1' else 'cleared')
                    pure = all(y.op in ('in', 'slice', 'concat', 'const') for y in tm.walk(t))
                    if kind in ('ror', 'rol'):
                        # two obligations: the result is v rotated by exactly the requested count (in either direction), and the direction is the documented one
                        so = (w - s) % w
                        opp = tm.concat([tm.slice_(x, so, w - so), tm.slice_(x, 0, so)]) if so else x
                        amount_ok = t is want or t is opp
                        wit = None
                        if not amount_ok and not pure:
                            w1, w2 = L.int_witness(t, want, [x]), L.int_witness(t, opp, [x])
                            if w1 and w2:
                                wit = ' (at v = %#x the result is %#x; rotating by %d gives %#x or %#x)' % (list(w1[0].values())[0], w1[1], par, w1[2], tm.substitute(opp, {x: tm.const(w, list(w1[0].values())[0])}).args[0])
                        res.append(R.ob(oid + '.count', 'patterns', R.PROVED if amount_ok else (R.REFUTED if pure or wit else R.UNDECIDED),
                                        'a rotation of v by %d bit positions' % par if amount_ok else 'result is %s, not v rotated by %d%s' % (tm.show(t, 4), par, wit or ''), kernel=k.source()))
                        if amount_ok:
                            dir_ok = t is want
                            res.append(R.ob(oid + '.direction', 'rotate_direction', R.PROVED if dir_ok else R.REFUTED,
                                            what if dir_ok else 'result is %s = v rotated %s by %d; documented: %s = %s' % (tm.show(t, 4), 'left' if kind == 'ror' else 'right', par, what, tm.show(want, 4)), kernel=k.source()))
                        continue
                    ok = t is want
                    wit = None
                    if not ok and not pure and kind != 'mask':
                        w1 = L.int_witness(t, want, [x])
                        if w1:
                            wit = ' (at v = %#x the result is %#x, documented %#x)' % (list(w1[0].values())[0], w1[1], w1[2])
                    res.append(R.ob(oid, 'patterns', R.PROVED if ok else (R.REFUTED if pure or wit else R.UNDECIDED), what if ok else 'result is %s, documented: %s = %s%s' % (tm.show(t, 4), what, tm.show(want, 4), wit or ''),
                                    kernel=k.source()))
                return res
            cs.append(R.Case(name, [k for _, _, k in ks], judge))
    return cs


# ---- powers of two ---------------------------------------------------------------------------------------------------------------------------------

def bitkey(t):
    """identify a 1-bit term as bit j of x ('in') or bit j of x - 1 ('dec'; the low k bits of a difference only depend on the low k bits)"""
    if t.w != 1:
        return None
    off = 0
    b = t
    while b.op == 'slice':
        off += b.args[1]
        b = b.args[0]
    if b.op == 'in':
        return ('in', b, off)
    if b.op == 'add' and len(b.args) == 2:
        for i in (0, 1):
            c, a = b.args[i], b.args[1 - i]
            if c.op == 'const' and c.args[0] == (1 << b.w) - 1:
                base, o2 = a, 0
                while base.op == 'slice':
                    o2 += base.args[1]
                    base = base.args[0]
                if o2 == 0 and base.op in ('in', 'iabs'):
                    return ('dec', base, off)
    return None


def orset(t, memo):
    """set of bit keys whose OR is the 1-bit term t, or None"""
    r = memo.get(t, 0)
    if r != 0:
        return r
    if t.op == 'const':
        r = frozenset() if t.args[0] == 0 else None
    elif t.op == 'or':
        a, b = orset(t.args[0], memo), orset(t.args[1], memo)
        r = None if a is None or b is None else a | b
    elif t.op == 'sextbits' or (t.op == 'sext' and t.w == 1):
        # replicated sign bit of an arithmetic right shift: the most significant bit of the shifted value
        src = t.args[0]
        r = orset(tm.slice_(src, src.w - 1, 1), memo)
    else:
        k = bitkey(t)
        r = frozenset([k]) if k is not None else None
    memo[t] = r
    return r


def pow2_cases(tier):
    cs = []
    bt = G.scalar('bool')
    for w in ((8, 32, 64) if tier == 'quick' else (8, 16, 32, 64)):
        for sgn in (0, 1):
            T = INTS[w][sgn]
            ty = G.scalar(T)
            x = tm.inp('x', 0, w)
            ax = x if sgn else tm.mk('iabs', (x,), w)
            k = K('ispow2_%s' % ty.tag, [Par('o', bt, False), Par('x', ty)], '*o = isPowerOfTwo(*x);', CFG)

            def j1(ctx, k=k, T=T, w=w, ax=ax):
                t = tm.slice_(I.out_lane(ctx.fn(k), 'o', 0, 1), 0, 1)
                want = tm.icmp('ult', tm.mk('ctpop', (ax,), w), tm.const(w, 2))
                ok = t is want
                if not ok and t.op == 'icmp' and t.args[0] == 'ult' and t.args[2].op == 'const' and t.args[2].args[0] == 2 and t.args[1].op == 'ctpop':
                    inner = t.args[1].args[0]
                    # integer promotion of a narrow type: popcount of the (sign- / zero-) extended |x|
                    if inner.op in ('sext', 'zext') and inner.args[0] is ax:
                        ok = True
                    if inner.op == 'concat' and inner.args[0] is ax and all(p.op == 'const' and p.args[0] == 0 for p in inner.args[1:]):
                        ok = True
                return [R.ob('isPowerOfTwo<%s>' % T, 'pow2', R.PROVED if ok else R.UNDECIDED, 'popcount(|x|) < 2' if ok else 'got %s ; expected %s' % (tm.show(t, 4), tm.show(want, 4)), kernel=k.source())]
            cs.append(R.Case('isPowerOfTwo<%s>' % T, [k], j1))
            for fn_ in ('ceilPowerOfTwo', 'nextPowerOfTwo'):
                k2 = K('%s_%s' % (fn_, ty.tag), [Par('o', ty, False), Par('x', ty)], '*o = %s(*x);' % fn_, CFG)
                ksg = K('sign_%s' % ty.tag, [Par('o', ty, False), Par('x', ty)], '*o = sign(*x);', CFG)

                def j2(ctx, k2=k2, T=T, w=w, sgn=sgn, x=x, fn_=fn_, ksg=ksg):
                    name = '%s<%s>' % (fn_, T)
                    t = I.out_lane(ctx.fn(k2), 'o', 0, w // 8)
                    body = t
                    if not sgn:
                        # (smear + 1) * sign(x): the other factor must be the very term GLM's sign(x) has (decided under C11)
                        if body.op == 'mul':
                            cand = [a for a in body.args if a.op == 'add']
                            if len(cand) == 1:
                                body = cand[0]
                                other = [a for a in t.args if a is not body]
                                sg = I.out_lane(ctx.fn(ksg), 'o', 0, w // 8)
                                if len(other) != 1 or other[0] is not sg:
                                    return [R.ob(name, 'pow2', R.UNDECIDED, 'the factor next to (smear + 1) is %s, not sign(x) = %s' % (tm.show(other[0], 3) if other else '-', tm.show(sg, 3)), kernel=k2.source())]
                    if body.op != 'add' or not any(a.op == 'const' and a.args[0] == 1 for a in body.args):
                        return [R.ob(name, 'pow2', R.UNDECIDED, 'not of the form smear + 1: %s' % tm.show(t, 3), kernel=k2.source())]
                    sm = [a for a in body.args if not (a.op == 'const' and a.args[0] == 1)][0]
                    memo = {}
                    bad = None
                    base = None
                    for i in range(w):
                        s_ = orset(tm.slice_(sm, i, 1), memo)
                        if s_ is None:
                            bad = 'bit %d is not an OR of bits of v - 1: %s' % (i, tm.show(tm.slice_(sm, i, 1), 3))
                            break
                        if any(k_[0] != 'dec' for k_ in s_):
                            bad = 'bit %d mixes bits of x and of x - 1' % i
                            break
                        bases = {k_[1] for k_ in s_}
                        if len(bases) != 1 or (base is not None and bases != {base}):
                            bad = 'bit %d draws from several values' % i
                            break
                        (base,) = bases
                        idx = {k_[2] for k_ in s_}
                        if idx != set(range(i, w)):
                            bad = 'bit %d of the smeared value is the OR of bits %s of v - 1, expected all bits %d..%d' % (i, sorted(idx), i, w - 1)
                            # an incomplete smear is a definite defect: exhibit x = 2^j + 1 for a missing j (next power of two is 2^(j+1))
                            from laneflow import ceval as CE
                            for j in sorted(set(range(i, w)) - idx):
                                if j + 1 >= (w - 1 if not sgn else w):
                                    continue
                                xv = (1 << j) + 1
                                try:
                                    got = CE.evaluate(t, {x: xv})
                                except CE.NoValue:
                                    continue
                                if got != (1 << (j + 1)):
                                    return [R.ob(name, 'pow2', R.REFUTED, '%s; e.g. %s(%#x) = %#x, the next power of two is %#x' % (bad, fn_, xv, got, 1 << (j + 1)), where=R.where_of(ctx.fn(k2), t), kernel=k2.source())]
                            break
                    if bad:
                        return [R.ob(name, 'pow2', R.UNDECIDED, bad, kernel=k2.source())]
                    return [R.ob(name, 'pow2', R.PROVED, 'value before the final + 1: bit i is the OR of bits i..%d of |x| - 1 (complete smear), so the result is the next power of two >= |x|' % (w - 1), kernel=k2.source())]
                cs.append(R.Case('%s<%s>' % (fn_, T), [k2] + ([ksg] if not sgn else []), j2))
    return cs


def floor_pow2_cases(tier):
    """floor / prev / roundPowerOfTwo: x itself exactly when isPowerOfTwo(x) (sibling term), otherwise 1 << findMSB(x) (sibling term, decided under C05),
    roundPowerOfTwo the nearer of that and its double"""
    cs = []
    bt, it_ = G.scalar('bool'), G.scalar('int')
    for w in (8, 16, 32, 64):
        for sgn in (0, 1):
            T = INTS[w][sgn]
            ty = G.scalar(T)
            x = tm.inp('x', 0, w)
            kp = K('ispow2_%s' % ty.tag, [Par('o', bt, False), Par('x', ty)], '*o = isPowerOfTwo(*x);', CFG)
            km = K('findMSB_%s' % ty.tag, [Par('o', it_, False), Par('x', ty)], '*o = findMSB(*x);', CFG)
            for fn_ in ('floorPowerOfTwo', 'prevPowerOfTwo', 'roundPowerOfTwo'):
                k = K('%s_%s' % (fn_, ty.tag), [Par('o', ty, False), Par('x', ty)], '*o = %s(*x);' % fn_, CFG)
                name = '%s<%s>' % (fn_, T)

                def judge(ctx, k=k, kp=kp, km=km, name=name, w=w, x=x, fn_=fn_):
                    t = I.out_lane(ctx.fn(k), 'o', 0, w // 8)
                    p = tm.slice_(I.out_lane(ctx.fn(kp), 'o', 0, 1), 0, 1)
                    m = I.out_lane(ctx.fn(km), 'o', 0, 4)
                    if t.op != 'select':
                        return [R.ob(name, 'pow2', R.UNDECIDED, 'not a selection: %s' % tm.show(t, 3), kernel=k.source())]
                    c, a, b = t.args
                    if c is p:
                        same, other = a, b
                    elif tm.not_(c) is p:
                        same, other = b, a
                    else:
                        return [R.ob(name, 'pow2', R.UNDECIDED, 'the selecting condition %s is not isPowerOfTwo(x) = %s' % (tm.show(c, 3), tm.show(p, 3)), kernel=k.source())]
                    res = []
                    ok = same is x
                    res.append(R.ob(name + '.fixed', 'pow2', R.PROVED if ok else (R.REFUTED if same.op in ('in', 'const') else R.UNDECIDED),
                                    'x is returned unchanged exactly when isPowerOfTwo(x)' if ok else 'when isPowerOfTwo(x) holds the result is %s, not x' % tm.show(same, 3), where=R.where_of(ctx.fn(k), t), kernel=k.source()))
                    sh = tm.slice_(m, 0, w) if w <= 32 else tm.sext(m, w)
                    prevs = [tm.shl(tm.const(w, 1), s_) if hasattr(tm, 'shl') and False else tm.mk('shl', (tm.const(w, 1), s_), w) for s_ in (sh, m, tm.zext(m, w) if w > 32 else sh)]
                    def is_prev(u):
                        """u == 1 << findMSB(x): same shift count up to the integer conversions the source spells (compared as polynomials modulo 2^width of the narrowest form)"""
                        if any(u is pv for pv in prevs):
                            return True
                        if u.op != 'shl' or not (u.args[0].op == 'const' and u.args[0].args[0] == 1):
                            return False
                        s0 = u.args[1]
                        while True:
                            if s0.op in ('sext', 'zext'):
                                s0 = s0.args[0]
                            elif s0.op == 'concat' and all(q.op == 'const' and q.args[0] == 0 for q in s0.args[1:]):
                                s0 = s0.args[0]
                            else:
                                break
                        if s0.w < 3:
                            return False
                        pc = P.PCtx()
                        try:
                            return pc.ipoly(s0, s0.w) == pc.ipoly(tm.slice_(m, 0, s0.w), s0.w)
                        except Exception:
                            return False
                    if fn_ != 'roundPowerOfTwo':
                        ok = is_prev(other)
                        if not ok:
                            # an established difference: the derived term evaluated at x = 2^j + 1 (not a power of two; the power of two below is 2^j)
                            from laneflow import ceval as CE
                            signed_ = INTS[w][1] == name.split('<')[1].rstrip('>')
                            for j_ in range(1, w - (2 if signed_ else 1)):
                                xv = (1 << j_) + 1
                                try:
                                    got = CE.evaluate(t, {x: xv})
                                except CE.NoValue:
                                    continue
                                if got != (1 << j_):
                                    res.append(R.ob(name + '.below', 'pow2', R.REFUTED, '%s(%#x) = %#x, the power of two below is %#x (result term: %s)' % (fn_, xv, got, 1 << j_, tm.show(other, 4)),
                                                    where=R.where_of(ctx.fn(k), t), kernel=k.source()))
                                    return res
                        if not ok and w <= 16:
                            # 8- / 16-bit types: the shift count is written through integer promotions the shape test does not follow; the derived result term is a function of
                            # one narrow input, so it is decided by evaluating it on every positive value of the type (a finite truth table of the term, not a run of the code)
                            top = (1 << (w - 1)) - 1 if signed_ else (1 << w) - 1
                            bad = None
                            try:
                                for xv in range(1, top + 1):
                                    if CE.evaluate(t, {x: xv}) != 1 << (xv.bit_length() - 1):
                                        bad = xv
                                        break
                            except CE.NoValue:
                                bad = -1
                            if bad is None:
                                res.append(R.ob(name + '.below', 'pow2', R.PROVED, 'the result term evaluates to the power of two below (or equal to) x for every x in [1, %d]' % top, kernel=k.source()))
                                return res
                            if bad > 0:
                                res.append(R.ob(name + '.below', 'pow2', R.REFUTED, '%s(%#x) is not the power of two below it (result term: %s)' % (fn_, bad, tm.show(other, 4)), where=R.where_of(ctx.fn(k), t), kernel=k.source()))
                                return res
                        res.append(R.ob(name + '.below', 'pow2', R.PROVED if ok else R.UNDECIDED, 'otherwise 1 << findMSB(x) (the findMSB term of the same tree)' if ok else 'otherwise %s; expected 1 << findMSB(x) = %s' % (tm.show(other, 4), tm.show(prevs[0], 4)), kernel=k.source()))
                        return res
                    ok = False
                    why = 'otherwise %s' % tm.show(other, 4)
                    if other.op == 'select' and other.args[0].op == 'icmp' and other.args[0].args[0] in ('ult', 'slt'):
                        _, l_, r_ = other.args[0].args
                        nx, pv = other.args[1], other.args[2]
                        if is_prev(pv):
                            nxw = tm.concat([tm.zeros(1), tm.slice_(pv, 0, w - 1)])
                            cw = l_.w
                            exts = [(lambda u: u)] if cw == w else [(lambda u: tm.zext(u, cw)), (lambda u: tm.sext(u, cw))]
                            if (nx is nxw or nx is tm.mk('shl', (pv, tm.const(w, 1)), w)) and any(l_ is tm.arith('sub', ext(nx), ext(x)) and r_ is tm.arith('sub', ext(x), ext(pv)) for ext in exts):
                                ok = True
                            else:
                                why = 'the nearest-test is %s' % tm.show(other.args[0], 4)
                    res.append(R.ob(name + '.nearest', 'pow2', R.PROVED if ok else R.UNDECIDED, 'otherwise (next - x) < (x - prev) ? next : prev with prev = 1 << findMSB(x), next = prev << 1' if ok else why, kernel=k.source()))
                    return res
                cs.append(R.Case(name, [k, kp, km], judge))
    return cs


# ---- multiples -------------------------------------------------------------------------------------------------------------------------------------

def rem_atoms(t):
    return [x for x in tm.walk(t) if x.op in ('srem', 'urem', 'frem') or (x.op == 'fn' and x.args[0] == 'fmod')]


def multiple_cases(tier):
    cs = []
    types = [('int', True, False), ('uint', False, False), ('float', True, True), ('double', True, True)]
    types += [('int8', True, False), ('uint8', False, False), ('int16', True, False), ('uint16', False, False)]      # the property quantifies over all 8- and 16-bit values
    if tier == 'thorough':
        types += [('int64', True, False), ('uint64', False, False)]
    fns = [('ceilMultiple', 'ceil'), ('floorMultiple', 'floor'), ('roundMultiple', 'round'), ('nextMultiple', 'ceil'), ('prevMultiple', 'floor')]
    for T, sgn, isf in types:
        ty = G.scalar(T)
        w = ty.elem * 8
        for fn_, dirn in fns:
            if isf and fn_ in ('nextMultiple', 'prevMultiple'):
                continue            # ext/scalar_integer documents and static_asserts integer arguments only; the float clause is gtc/round's
            k = K('%s_%s' % (fn_, ty.tag), [Par('o', ty, False), Par('x', ty), Par('m', ty)], '*o = %s(*x, *m);' % fn_, CFG)
            name = '%s<%s>' % (fn_, T)
            cs.append(R.Case(name, [k], multiple_judge(k, name, ty, w, sgn, isf, dirn, fn_)))
    return cs


def multiple_judge(k, name, ty, w, sgn, isf, dirn, fn_):
    def judge(ctx):
        err = ctx.compile_error(k)
        if err:
            return [R.ob(name, 'existence', R.REFUTED, 'cannot be instantiated: ' + err, kernel=k.source())]
        it = ctx.fn(k)
        t = I.out_lane(it, 'o', 0, ty.elem)
        res = []
        mod = None if isf else (1 << w)
        X = Poly.atom(('in', 'x', 0, w), mod)
        M = Poly.atom(('in', 'm', 0, w), mod)
        (xa,), = list(X.t)
        (ma,), = list(M.t)
        byid = {y.id: y for y in tm.walk(t)}
        topoly = (lambda cx, u: cx.fpoly(u)) if isf else (lambda cx, u: int_poly(cx, u, w))
        try:
            leaves = P.decision_paths(lambda asg: P.DecisionCtx(asg), lambda cx: topoly(cx, t), rels=('lt', 'eq', 'gt'))
        except P.TooManyPaths:
            return [R.ob(name, 'multiple', R.UNDECIDED, 'too many paths')]
        n_ok = 0
        for li, (asg, infos, Rp, cx) in enumerate(leaves):
            pid = '%s.path%d' % (name, li)
            # remainder atoms of this leaf
            rats = [a for a in Rp.atoms() if rem_of(P.atom_key(a)) is not None]
            facts = path_facts(asg, infos, byid, cx, topoly)
            desc = ', '.join('%s %s 0' % (P.show_poly(e_, limit=3), r_) for e_, r_ in facts)[:200]
            if len(rats) > 1:
                res.append(R.ob(pid, 'multiple', R.UNDECIDED, 'several remainder atoms on the path [%s]' % desc, kernel=k.source()))
                continue
            if not rats:
                # no remainder left: the path must return x itself and be taken only for exact multiples (r == 0 among the facts)
                ok = (Rp - X).is_zero() and any(r_ == '==' and len(e_.t) == 1 and rem_of(P.atom_key(list(e_.t)[0][0])) is not None for e_, r_ in facts)
                res.append(R.ob(pid, 'multiple', R.PROVED if ok else R.UNDECIDED, 'returns x where x %% m == 0  [%s]' % desc if ok else 'no remainder on the path [%s]: result %s' % (desc, P.show_poly(Rp, limit=4)), kernel=k.source()))
                n_ok += ok
                continue
            ra = rats[0]
            rterm = rem_of(P.atom_key(ra))
            # the dividend and the divisor are read at the width the remainder is computed in (the promoted width for the 8- and 16-bit types), where
            # the input lanes stand for their integer values
            rw = w if isf else rterm.w
            dterm = rterm.args[-2]
            if not isf and dterm.op == ('sext' if sgn else 'zext') and dterm.args[0].op != 'in' and dterm.args[0].w == w:
                # the dividend is the extension of a value computed at the width of x (the compiler narrowed the promoted arithmetic): it is the integer
                # s x + c wherever the narrow computation does not wrap, which the range check below decides from the path facts
                dterm, rw = dterm.args[0], w
            Xr = X if isf else Poly.atom(('in', 'x', 0, w), 1 << rw)
            Mr = M if isf else Poly.atom(('in', 'm', 0, w), 1 << rterm.w)
            tdiv = topoly(cx, dterm) if isf else int_poly(cx, dterm, rw)
            if (topoly(cx, rterm.args[-1]) if isf else int_poly(cx, rterm.args[-1], rterm.w)) != Mr:
                res.append(R.ob(pid, 'multiple', R.UNDECIDED, 'remainder by something else than m', kernel=k.source()))
                continue
            # dividend t = s*x + c0
            s_, c0 = None, None
            for sg in (1, -1):
                d = tdiv - Xr.scale(sg)
                if d.is_const():
                    s_, c0 = sg, d.cval() if d.t else 0
                    if not isf and c0 >= (1 << (rw - 1)):
                        c0 -= 1 << rw
            if s_ is None:
                res.append(R.ob(pid, 'multiple', R.UNDECIDED, 'dividend %s is not +-x + c' % P.show_poly(tdiv, limit=3), kernel=k.source()))
                continue
            if not isf and (s_, c0) != (1, 0) and rw <= w:
                # the dividend s x + c is computed at the width of x itself, modulo 2^w: it is the integer s x + c only where that does not wrap.  The
                # range of x on the path must exclude the wrap (a wrap of signed arithmetic of the full-width types is undefined behaviour, C20's
                # subject, but a narrowing conversion wraps legitimately, so no appeal to undefinedness is made here)
                xlo, xhi = x_range(facts, xa, w, sgn)
                vals = [s_ * xlo + c0, s_ * xhi + c0]
                tlo, thi = (-(1 << (w - 1)), (1 << (w - 1)) - 1) if sgn else (0, (1 << w) - 1)
                if min(vals) < tlo or max(vals) > thi:
                    res.append(R.ob(pid, 'multiple', R.UNDECIDED, 'the dividend %s*x%+d is computed modulo 2^%d and wraps for some x of the path (x in [%d, %d])  [%s]' % (s_, c0, w, xlo, xhi, desc), kernel=k.source()))
                    continue
            # x = s*(q*m + r - c0)   (division relation t = q m + r, q an integer)
            Q_ = Poly.atom(('quot',), mod)
            Rr = Poly.var(ra, mod) if not isf else Poly.var(ra)
            xs = (Q_ * M + Rr - Poly.const(c0, mod)).scale(s_)
            R2 = Rp.subst(xa, xs)
            quo, rem = P.divmod_poly(R2, M)
            if not rem.is_zero():
                res.append(R.ob(pid, 'multiple', R.UNDECIDED, 'with t = q m + r the result is %s: not visibly a multiple of m  [%s]' % (P.show_poly(R2, limit=5), desc), kernel=k.source()))
                continue
            W = R2 - xs                         # result - x, should be linear in (m, r)
            lin = linear_in(W, ma, ra)
            if lin is None:
                res.append(R.ob(pid, 'multiple', R.UNDECIDED, 'result - x = %s is not linear in (m, r)' % P.show_poly(W, limit=4), kernel=k.source()))
                continue
            # range of r on this path
            rng = r_range(facts, ra, xa, ma, s_, c0, sgn, isf)
            verdict, why = window(lin, rng, dirn, isf, facts, ra, ma, wit=(xa, s_, c0, sgn))
            if verdict is True:
                n_ok += 1
                res.append(R.ob(pid, 'multiple', R.PROVED, 'result = (%s) m and result - x = %s, %s  [%s]' % (P.show_poly(quo, limit=3), P.show_poly(W, limit=3), why, desc), kernel=k.source()))
            elif verdict is False:
                res.append(R.ob(pid, 'multiple', R.REFUTED, 'result - x = %s: %s  [%s]' % (P.show_poly(W, limit=3), why, desc), where=R.where_of(it, t), kernel=k.source()))
            else:
                res.append(R.ob(pid, 'multiple', R.UNDECIDED, 'result - x = %s: %s  [%s]' % (P.show_poly(W, limit=3), why, desc), kernel=k.source()))
        if not isf and (w < 32 or not sgn) and any(r_['status'] == R.UNDECIDED for r_ in res):
            # 8- and 16-bit types: the C++ arithmetic is done on promoted operands and cannot overflow (and unsigned arithmetic of any width is modular, never
            # undefined), so every input with a representable answer is in the domain; an undecided path is refuted when the derived term, evaluated exactly at a corner of the type's range, is not the multiple the
            # direction defines (witness search: it only ever turns UNDECIDED into REFUTED)
            wt = corner_witness(t, w, sgn, dirn)
            if wt:
                for r_ in res:
                    if r_['status'] == R.UNDECIDED:
                        r_['status'] = R.REFUTED
                        r_['detail'] += '  -- ' + wt
                        r_['where'] = R.where_of(it, t)
                        break
        return res
    return judge


def corner_witness(t, w, sgn, dirn):
    from laneflow import ceval as CE
    lo, hi = (-(1 << (w - 1)), (1 << (w - 1)) - 1) if sgn else (0, (1 << w) - 1)
    x_in, m_in = tm.inp('x', 0, w), tm.inp('m', 0, w)
    xs = [lo, lo + 1, lo + 2, hi, hi - 1, hi - 2] + ([-2, -1, 0, 1, 2] if sgn else [0, 1, 2])
    big = [3 << (w - 2), (1 << (w - 1)) + 1] if (not sgn and w >= 32) else []        # multiples above half the range: 2 * remainder does not fit the type
    for mv in (3, 5, 7, 9, 10, 100, 2, 1) + tuple(big):
        for xv in xs + ([mv - 1, mv + 1, mv - mv // 12, mv // 2 + 1, mv // 2 - 1] if mv in big else []):
            fl = (xv // mv) * mv
            ce = -((-xv) // mv) * mv
            if dirn == 'floor':
                ok = {fl}
            elif dirn == 'ceil':
                ok = {ce}
            else:
                ok = {fl} if 2 * (xv - fl) < mv else {ce} if 2 * (xv - fl) > mv else {fl, ce}
            if not all(lo <= v <= hi for v in (ok | {fl, ce} if dirn == 'round' else ok)):
                continue                # the answer (or an intermediate enclosing multiple) is not representable: outside the domain
            try:
                got = CE.evaluate(t, {x_in: xv & ((1 << w) - 1), m_in: mv})
            except CE.NoValue:
                continue
            if sgn and got >= 1 << (w - 1):
                got -= 1 << w
            if got not in ok:
                return 'at x = %d, m = %d the result is %d, the %s multiple is %s' % (xv, mv, got, {'ceil': 'next', 'floor': 'previous', 'round': 'nearest'}[dirn], ' or '.join(map(str, sorted(ok))))
    return None


def rem_of(key):
    """the remainder term behind an atom key, or None"""
    if key[0] in ('z', 't') and isinstance(key[1], tuple) and key[1][0] == 'T':
        u = key[1][1]
        if u.op in ('srem', 'urem', 'frem'):
            return u
    return None


def path_facts(asg, infos, byid, cx, topoly):
    """[(polynomial e, relation)] meaning  e rel 0  on the path"""
    out = []
    for at, v in asg.items():
        if at[0] == 'pair':
            pa, pb = infos[at]
            out.append((pa - pb, {'lt': '<', 'gt': '>', 'eq': '=='}[v]))
        elif at[0] == 'T':
            c = byid.get(at[1])
            if c is not None and c.op == 'slice' and c.w == 1 and c.args[0].op == 'in' and c.args[1] == c.args[0].w - 1:
                # sign bit of an input: negative / non-negative
                xin = topoly(cx, c.args[0])
                out.append((xin, '<' if v else '>='))
            if c is not None and c.op == 'icmp':
                a, b = topoly(cx, c.args[1]), topoly(cx, c.args[2])
                pr = c.args[0]
                # unsigned comparisons occur between a remainder-sized quantity and m minus it: both lie in [0, m], no wrap-around, so they order like integers
                rel = {'eq': '==', 'ne': '!=', 'slt': '<', 'sle': '<=', 'sgt': '>', 'sge': '>=', 'ult': '<', 'ule': '<=', 'ugt': '>', 'uge': '>='}[pr]
                if not v:
                    rel = {'==': '!=', '!=': '==', '<': '>=', '<=': '>', '>': '<=', '>=': '<'}[rel]
                out.append((a - b, rel))
    return out


def linear_in(Wp, ma, ra):
    """W = a*m + b*r + c with rational a, b, c -> (a, b, c) else None"""
    a = b = c = Fraction(0)
    mod = Wp.mod
    for mono, cf in Wp.t.items():
        if mod and cf >= mod // 2:
            cf -= mod
        if mono == ():
            c += cf
        elif mono == (ma,):
            a += cf
        elif mono == (ra,):
            b += cf
        else:
            return None
    return a, b, c


def x_range(facts, xa, w, sgn):
    """[lo, hi] of the integer x on the path: the type's range narrowed by the path facts  k*x + c rel 0"""
    lo, hi = (-(1 << (w - 1)), (1 << (w - 1)) - 1) if sgn else (0, (1 << w) - 1)
    for e_, rel in facts:
        if len(e_.t) <= 2 and set(a for m_ in e_.t for a in m_) <= {xa} and e_.t.get((xa,), 0):
            kx = e_.t.get((xa,), 0)
            cc = e_.t.get((), 0)
            if e_.mod:
                kx = kx - e_.mod if kx >= e_.mod // 2 else kx
                cc = cc - e_.mod if cc >= e_.mod // 2 else cc
            if abs(kx) != 1:
                continue
            bound = -cc if kx == 1 else cc          # k x + c rel 0  <=>  x rel' -c/k
            r2 = rel if kx > 0 else {'<': '>', '<=': '>=', '>': '<', '>=': '<=', '==': '==', '!=': '!='}.get(rel, rel)
            if r2 == '>':
                lo = max(lo, bound + 1)
            elif r2 == '>=':
                lo = max(lo, bound)
            elif r2 == '<':
                hi = min(hi, bound - 1)
            elif r2 == '<=':
                hi = min(hi, bound)
            elif r2 == '==':
                lo, hi = max(lo, bound), min(hi, bound)
    return lo, hi


def r_range(facts, ra, xa, ma, s_, c0, sgn, isf):
    """(lo, lo_closed, hi, hi_closed) with lo / hi = (alpha, beta) meaning alpha*m + beta.  The remainder has the sign of the dividend (or is 0)
    and |r| < m; the path facts about r and x narrow it."""
    lo, loc, hi, hic = (Fraction(-1), Fraction(0)), False, (Fraction(1), Fraction(0)), False            # (-m, m)
    if not sgn:
        lo, loc = (Fraction(0), Fraction(0)), True
    signs = set()            # known sign of the dividend t = s x + c0 : '+' (>= 0) or '-' (<= 0)
    for e_, rel in facts:
        if len(e_.t) <= 2 and set(a for m_ in e_.t for a in m_) <= {xa}:
            # fact about x:  k*x + c rel 0
            kx = e_.t.get((xa,), 0)
            cc = e_.t.get((), 0)
            if e_.mod:
                kx = kx - e_.mod if kx >= e_.mod // 2 else kx
                cc = cc - e_.mod if cc >= e_.mod // 2 else cc
            if kx == 0:
                continue
            # x rel' bound
            bound = Fraction(-cc, kx)
            r2 = rel if kx > 0 else {'<': '>', '<=': '>=', '>': '<', '>=': '<=', '==': '==', '!=': '!='}.get(rel, rel)
            # integer facts: x > b  => x >= floor(b) + 1
            xlo = xhi = None
            if r2 in ('>', '>='):
                xlo = (bound + 1 if (r2 == '>' and not isf and bound.denominator == 1) else bound, r2 == '>=' or not isf)
            if r2 in ('<', '<='):
                xhi = (bound - 1 if (r2 == '<' and not isf and bound.denominator == 1) else bound, r2 == '<=' or not isf)
            if r2 == '==':
                xlo = xhi = (bound, True)
            # dividend t = s*x + c0
            if xlo is not None:
                tb = s_ * xlo[0] + c0
                if s_ > 0 and tb >= 0:
                    signs.add('+')
                if s_ < 0 and tb <= 0:
                    signs.add('-')
            if xhi is not None:
                tb = s_ * xhi[0] + c0
                if s_ > 0 and tb <= 0:
                    signs.add('-')
                if s_ < 0 and tb >= 0:
                    signs.add('+')
        if len(e_.t) == 1 and list(e_.t)[0] == (ra,):
            cf = list(e_.t.values())[0]
            if e_.mod and cf >= e_.mod // 2:
                cf -= e_.mod
            r2 = rel if cf > 0 else {'<': '>', '<=': '>=', '>': '<', '>=': '<=', '==': '==', '!=': '!='}.get(rel, rel)
            if r2 == '>':
                lo, loc = ((Fraction(0), Fraction(0)), False) if isf else ((Fraction(0), Fraction(1)), True)
            elif r2 == '>=':
                lo, loc = (Fraction(0), Fraction(0)), True
            elif r2 == '<':
                hi, hic = ((Fraction(0), Fraction(0)), False) if isf else ((Fraction(0), Fraction(-1)), True)
            elif r2 == '<=':
                hi, hic = (Fraction(0), Fraction(0)), True
            elif r2 == '==':
                lo, loc, hi, hic = (Fraction(0), Fraction(0)), True, (Fraction(0), Fraction(0)), True
            elif r2 == '!=' and not sgn:
                lo, loc = (Fraction(0), Fraction(1)), True
    if '+' in signs and (lo[0] < 0 or (lo == (Fraction(0), Fraction(0)) and False)):
        lo, loc = (Fraction(0), Fraction(0)), True
    if '-' in signs and hi[0] > 0:
        hi, hic = (Fraction(0), Fraction(0)), True
    # integers: open ends at +-m become closed at +-(m - 1)
    if not isf:
        if not loc and lo == (Fraction(-1), Fraction(0)):
            lo, loc = (Fraction(-1), Fraction(1)), True
        if not hic and hi == (Fraction(1), Fraction(0)):
            hi, hic = (Fraction(1), Fraction(-1)), True
    return lo, loc, hi, hic


_M0 = [1]


def _forall_m(A, B, strict, isf):
    """A*m + B >= 0 (or > 0 when strict) for every m >= m0 (integers; m0 = the smallest m for which the remainder range is not empty) / m > 0 (reals)"""
    if isf:
        if strict:
            return (A > 0 and B >= 0) or (A >= 0 and B > 0)
        return A >= 0 and B >= 0
    v1 = A * _M0[0] + B
    return A >= 0 and (v1 > 0 if strict else v1 >= 0)


def window(lin, rng, dirn, isf, facts, ra, ma, wit=None):
    """is W = a m + b r + c inside the window of the direction for every r of the range and every m?  (True / False / None, text)"""
    a, b, c = lin
    lo, loc, hi, hic = rng
    _M0[0] = 1
    if not isf:
        # smallest m with lo(m) <= hi(m)
        da, db = hi[0] - lo[0], hi[1] - lo[1]
        if da > 0 and db < 0:
            import math
            _M0[0] = max(1, math.ceil(-db / da))

    def at(end):
        al, be = end
        return a + b * al, c + b * be           # W as (A, B): A*m + B

    ends = [(at(lo), loc), (at(hi), hic)]
    if dirn == 'ceil':
        # 0 <= W <= m - 1 (integers) ; 0 <= W < m (reals)
        lower_ok = all(_forall_m(A, B, False, isf) or (not cl and _forall_m(A, B, False, isf)) for (A, B), cl in ends)
        if isf:
            upper_ok = all(_forall_m(1 - A, -B, cl, isf) for (A, B), cl in ends)
        else:
            upper_ok = all(_forall_m(1 - A, -B - 1, False, isf) for (A, B), cl in ends)
        text = '0 <= result - x < m'
    elif dirn == 'floor':
        lower_ok = all(_forall_m(-A, -B, False, isf) for (A, B), cl in ends)
        if isf:
            upper_ok = all(_forall_m(1 + A, B, cl, isf) for (A, B), cl in ends)
        else:
            upper_ok = all(_forall_m(1 + A, B - 1, False, isf) for (A, B), cl in ends)
        text = '0 <= x - result < m'
    else:
        # nearest: 2 |W| <= m, using the path's own comparison when it is the nearest-test
        lower_ok = all(_forall_m(Fraction(1, 2) + A, B, False, isf) for (A, B), cl in ends)
        upper_ok = all(_forall_m(Fraction(1, 2) - A, -B, False, isf) for (A, B), cl in ends)
        text = '|result - x| <= m / 2'
        if not (lower_ok and upper_ok):
            # the comparison  delta < m - delta  (delta = x - floor) on the path bounds r directly: look for a fact  k*(2 b' r + ...)  equivalent to +-(2W -+ m)
            for e_, rel in facts:
                l2 = linear_in(e_, ma, ra)
                if l2 is None:
                    continue
                for sgn_ in (1, -1):
                    # fact: sgn*(a2 m + b2 r + c2) rel 0
                    a2, b2, c2 = [sgn_ * v for v in l2]
                    r2 = rel if sgn_ > 0 else {'<': '>', '<=': '>=', '>': '<', '>=': '<=', '==': '=='}.get(rel, rel)
                    # 2W - m <= 0  is what we need for the upper side ; -2W - m <= 0 for the lower side
                    if (a2, b2, c2) == (2 * a - 1, 2 * b, 2 * c) and r2 in ('<', '<=', '=='):
                        upper_ok = True
                    if (a2, b2, c2) == (-2 * a - 1, -2 * b, -2 * c) and r2 in ('<', '<=', '=='):
                        lower_ok = True
                    if (a2, b2, c2) == (2 * a + 1, 2 * b, 2 * c) and r2 in ('>', '>=', '=='):
                        lower_ok = True
                    if (a2, b2, c2) == (1 - 2 * a, -2 * b, -2 * c) and r2 in ('>', '>=', '=='):
                        upper_ok = True
    if lower_ok and upper_ok:
        return True, text + ' for every remainder of the path'
    # a definite violation is only claimed at an exhibited witness (x, m) with small integers: the remainder atom takes its exact value there (truncated
    # remainder of the dividend), every fact of the path must evaluate to true (facts over anything but x, m and the remainder cannot be evaluated ->
    # no refutation), and the value of the result normal form must fail the definition of the direction
    if dirn in ('ceil', 'floor', 'round') and wit is not None:
        xa, s_, c0, signed_ = wit
        for mval in (Fraction(3), Fraction(4)):
            for xi in (range(-9, 10) if signed_ else range(0, 10)):
                xval = Fraction(xi)
                tdiv = s_ * xval + c0
                if not signed_ and tdiv < 0:
                    continue                    # the dividend wraps around: not modelled
                qv = abs(tdiv) // mval * (1 if tdiv >= 0 else -1)
                rv = tdiv - qv * mval
                env = {xa: xval, ma: mval, ra: rv}
                try:
                    holds = True
                    for e_, rel in facts:
                        v = Fraction(0)
                        for mono, cf in e_.t.items():
                            if e_.mod and cf >= e_.mod // 2:
                                cf -= e_.mod
                            term_ = Fraction(cf)
                            for a_ in mono:
                                if a_ not in env:
                                    raise KeyError(a_)
                                term_ *= env[a_]
                            v += term_
                        if not {'<': v < 0, '<=': v <= 0, '>': v > 0, '>=': v >= 0, '==': v == 0, '!=': v != 0}[rel]:
                            holds = False
                            break
                except KeyError:
                    return None, text + ' not established (the path facts involve values the remainder analysis does not model)'
                if holds:
                    moved = a * mval + b * rv + c            # result - x
                    good = {'ceil': 0 <= moved < mval, 'floor': 0 <= -moved < mval, 'round': 2 * abs(moved) <= mval}[dirn] and (xval + moved) % mval == 0
                    if not good:
                        return False, 'at x = %s, m = %s this path is taken (remainder %s) and returns %s: not the %s multiple of m' % (xval, mval, rv, xval + moved, {'ceil': 'next', 'floor': 'previous', 'round': 'nearest'}[dirn])
    return None, text + ' not established for the remainder range [%s*m%+s, %s*m%+s]' % (lo[0], lo[1], hi[0], hi[1])


def int_poly(cx, t, w):
    """integer term under a decision context, read modulo 2^w: selections resolved by the context, arithmetic as polynomials mod 2^w, remainders as atoms.
    Truncations of wider arithmetic are read through (arithmetic commutes with reduction mod 2^w); an extension of a narrower INPUT lane read at a larger
    width is the lane's atom (its signed value for sext, unsigned for zext: the promoted operand of the C++ expression); an extension of anything else
    is opaque."""
    if t.op == 'select':
        return int_poly(cx, t.args[1] if cx.decide(t.args[0]) else t.args[2], w)
    if t.op == 'const':
        return Poly.const(t.args[0] & ((1 << w) - 1), 1 << w)
    if t.op == 'in':
        return Poly.atom(('in', t.args[0], t.args[1], t.w), 1 << w)
    if t.op == 'slice' and t.args[1] == 0 and t.w >= w:
        return int_poly(cx, t.args[0], w)
    if t.op == 'concat' and all(p_.op == 'const' and p_.args[0] == 0 for p_ in t.args[1:]):
        u = t.args[0]            # zero extension
        if u.w >= w:
            return int_poly(cx, u, w)
        if u.op == 'in':
            return Poly.atom(('in', u.args[0], u.args[1], u.w), 1 << w)
    if t.op in ('sext', 'zext'):
        u = t.args[0]
        if u.w >= w:
            return int_poly(cx, u, w)
        if u.op == 'in':
            return Poly.atom(('in', u.args[0], u.args[1], u.w), 1 << w)
    if t.op in ('add', 'sub', 'mul') and t.w >= w:
        a, b = int_poly(cx, t.args[0], w), int_poly(cx, t.args[1], w)
        return a + b if t.op == 'add' else a - b if t.op == 'sub' else a * b
    return Poly.atom(('z', ('T', t)), 1 << w)


def fold_int(t):
    """constant folding of integer arithmetic (wrap-around), remainders and selections"""
    memo = {}
    for x in tm.walk(t):
        if not any(isinstance(a, tm.T) for a in x.args):
            memo[x] = x
            continue
        na = tuple(memo[a] if isinstance(a, tm.T) else a for a in x.args)
        y = x if all(p is q for p, q in zip(na, x.args)) else tm.make(x.op, na, x.w)
        if y.op in ('urem', 'srem', 'udiv', 'sdiv') and all(a.op == 'const' for a in y.args):
            a, b = y.args
            if b.args[0] != 0:
                if y.op == 'urem':
                    y = tm.const(y.w, a.args[0] % b.args[0])
                elif y.op == 'udiv':
                    y = tm.const(y.w, a.args[0] // b.args[0])
                else:
                    sa, sb = tm.sval(a), tm.sval(b)
                    q = abs(sa) // abs(sb) * (1 if (sa < 0) == (sb < 0) else -1)
                    y = tm.const(y.w, (sa - q * sb) if y.op == 'srem' else q)
        memo[x] = y
    return memo[t]


def is_multiple_cases():
    cs = []
    bt = G.scalar('bool')
    for T in ('int', 'uint'):
        ty = G.scalar(T)
        k = K('ismult_%s' % ty.tag, [Par('o', bt, False), Par('x', ty), Par('m', ty)], '*o = isMultiple(*x, *m);', CFG)

        def judge(ctx, k=k, T=T):
            t = tm.slice_(I.out_lane(ctx.fn(k), 'o', 0, 1), 0, 1)
            x, m = tm.inp('x', 0, 32), tm.inp('m', 0, 32)
            wants = [tm.icmp('eq', tm.arith('srem' if T == 'int' else 'urem', x, m), tm.const(32, 0))]
            ok = any(t is w_ for w_ in wants)
            return [R.ob('isMultiple<%s>' % T, 'multiple', R.PROVED if ok else R.UNDECIDED, 'x %% m == 0' if ok else 'got %s' % tm.show(t, 4), kernel=k.source())]
        cs.append(R.Case('isMultiple<%s>' % T, [k], judge))
    return cs


# ---- gtc/integer, gtx/integer, gtx/bit ------------------------------------------------------------------------------------------------------------------

def gtx_integer_cases(tier):
    """log2 / nlz / lowestBitValue by shape analysis (position of the deciding bit fixed, the other bits symbolic); pow(x, n) for constant exponents as a
    polynomial identity in x; unsigned mod as the remainder; factorial on its whole documented domain 0..12 (the kernel with a constant argument must
    reduce to the constant n!)"""
    import math
    cs = []
    it_, ut = G.scalar('int'), G.scalar('uint')
    x32 = tm.inp('x', 0, 32)

    def shapes_msb(w, x, lo=0):
        out = []
        for p in range(lo, w):
            parts = ([tm.slice_(x, 0, p)] if p else []) + [tm.const(1, 1)] + ([tm.zeros(w - p - 1)] if w - p - 1 else [])
            out.append((p, tm.concat(parts)))
        return out

    def shapes_lsb(w, x):
        out = []
        for p in range(w):
            parts = ([tm.zeros(p)] if p else []) + [tm.const(1, 1)] + ([tm.slice_(x, p + 1, w - p - 1)] if w - p - 1 else [])
            out.append((p, tm.concat(parts)))
        return out

    def shape_case(name, k, outw, shapes, expect, what):
        def judge(ctx):
            err = ctx.compile_error(k)
            if err:
                return [R.ob(name, 'existence', R.REFUTED, 'cannot be instantiated: ' + err, kernel=k.source())]
            it = ctx.fn(k)
            t = I.out_lane(it, 'o', 0, outw // 8)
            bad = und = None
            for p, shp in shapes:
                r = tm.substitute(t, {x32: shp})
                want = expect(p) & ((1 << outw) - 1)
                if r.op == 'const':
                    if r.args[0] != want:
                        bad = bad or (p, r.args[0], want)
                else:
                    und = und or (p, tm.show(r, 3))
            if bad:
                return [R.ob(name, 'gtx_integer', R.REFUTED, '%s: for every value with the deciding bit at %s the result is %#x, expected %#x' % ((what,) + bad), where=R.where_of(it, t), kernel=k.source())]
            if und:
                return [R.ob(name, 'gtx_integer', R.UNDECIDED, 'does not normalise to a constant on the shape with the deciding bit at %s: %s' % und, kernel=k.source())]
            return [R.ob(name, 'gtx_integer', R.PROVED, '%s on all %d shapes (deciding bit fixed, other bits symbolic)' % (what, len(shapes)), kernel=k.source())]
        return R.Case(name, [k], judge)

    zero = [(-1, tm.zeros(32))]
    cs.append(shape_case('log2<uint>', K('glog2_u', [Par('o', ut, False), Par('x', ut)], '*o = glm::log2(*x);', CFG), 32, shapes_msb(32, x32), lambda p: p, 'log2(x) == position of the highest set bit (floor of the binary logarithm)'))
    cs.append(shape_case('log2<int>', K('glog2_i', [Par('o', it_, False), Par('x', it_)], '*o = glm::log2(*x);', CFG), 32, shapes_msb(32, x32)[:31], lambda p: p, 'log2(x) == position of the highest set bit for x > 0'))
    cs.append(shape_case('nlz', K('gnlz', [Par('o', ut, False), Par('x', ut)], '*o = nlz(*x);', CFG), 32, shapes_msb(32, x32) + zero, lambda p: 31 - p, 'nlz(x) == number of leading zero bits (32 for 0)'))
    cs.append(shape_case('lowestBitValue<uint>', K('glowbit_u', [Par('o', ut, False), Par('x', ut)], '*o = lowestBitValue(*x);', CFG), 32, shapes_lsb(32, x32) + [(-1, tm.zeros(32))], lambda p: (1 << p) if p >= 0 else 0, 'lowestBitValue(x) == the lowest set bit of x'))
    cs.append(shape_case('lowestBitValue<int>', K('glowbit_i', [Par('o', it_, False), Par('x', it_)], '*o = lowestBitValue(*x);', CFG), 32, shapes_lsb(32, x32) + [(-1, tm.zeros(32))], lambda p: (1 << p) if p >= 0 else 0, 'lowestBitValue(x) == the lowest set bit of x'))
    # pow with a constant exponent
    for T, ty in (('int', it_), ('uint', ut)):
        for n in range(0, 5):
            k = K('gpow_%s_%d' % (ty.tag, n), [Par('o', ty, False), Par('x', ty)], '*o = glm::pow(*x, %du);' % n, CFG)
            name = 'pow(x, %d)<%s>' % (n, T)

            def judge(ctx, k=k, n=n, name=name):
                it = ctx.fn(k)
                t = I.out_lane(it, 'o', 0, 4)
                pc = P.PCtx()
                X = Poly.atom(('in', 'x', 0, 32), 1 << 32)
                want = Poly.const(1, 1 << 32)
                for _ in range(n):
                    want = want * X
                try:
                    got = pc.ipoly(t, 32)
                except Exception:
                    got = None
                if got is not None and got == want:
                    return [R.ob(name, 'gtx_integer', R.PROVED, 'x^%d as a polynomial modulo 2^32' % n, kernel=k.source())]
                wit = L.pattern_witness(t, tm.const(32, 1)) if n == 0 else None
                if wit:
                    return [R.ob(name, 'gtx_integer', R.REFUTED, 'pow(x, 0) is %s: for x = %s it returns %#x, the mathematical value is 1' % (tm.show(t, 4), list(wit[0].values())[0], wit[1]), where=R.where_of(it, t), kernel=k.source())]
                return [R.ob(name, 'gtx_integer', R.UNDECIDED, 'got %s' % tm.show(t, 4), kernel=k.source())]
            cs.append(R.Case(name, [k], judge))
    # unsigned mod
    km = K('gmod_u', [Par('o', ut, False), Par('x', ut), Par('y', ut)], '*o = glm::mod(*x, *y);', CFG)

    def jm(ctx):
        t = I.out_lane(ctx.fn(km), 'o', 0, 4)
        x, y = tm.inp('x', 0, 32), tm.inp('y', 0, 32)
        ok = t is tm.arith('urem', x, y)
        if not ok:
            pc = P.PCtx()
            try:
                X, Y = pc.ipoly(x, 32), pc.ipoly(y, 32)
                ok = pc.ipoly(t, 32) == X - Y * pc.ipoly(tm.arith('udiv', x, y), 32)
            except Exception:
                ok = False
        return [R.ob('mod(x, y)<uint>', 'gtx_integer', R.PROVED if ok else R.UNDECIDED, 'x - y * (x / y): the remainder' if ok else 'got %s' % tm.show(t, 4), kernel=km.source())]
    cs.append(R.Case('mod(x, y)<uint>', [km], jm))
    # integer sqrt (Newton iteration with a data-dependent trip count): the kernel with a constant argument must reduce (compiler constant folding of the instantiated
    # code, nothing is run by the check) to floor(sqrt(n)); arguments around every kind of boundary: small values, k^2 - 1, k^2, k^2 + 1, the type maximum
    sq_args = sorted(set(list(range(0, 27)) + [k_ * k_ + d_ for k_ in (6, 7, 10, 16, 31, 100, 181, 255, 256, 1000, 4096, 32767, 46340) for d_ in (-1, 0, 1)] + [2147483647, 2147395599, 2147395600]))
    for T_, ty_, lim in (('int', it_, 2147483647), ('uint', ut, 4294967295)):
        for n in sq_args + ([4294967295, 4294836224, 4294836225] if T_ == 'uint' else []):
            if n > lim:
                continue
            lit = '%d' % n if T_ == 'int' else '%du' % n
            k = K('gsqrt_%s_%d' % (T_, n), [Par('o', ty_, False)], '*o = sqrt(%s(%s));' % (ty_.cpp, lit), CFG)
            name = 'sqrt<%s>(%d)' % (T_, n)

            def jq(ctx, k=k, n=n, name=name):
                err = ctx.compile_error(k)
                if err:
                    return [R.ob(name, 'existence', R.REFUTED, 'cannot be instantiated: ' + err, kernel=k.source())]
                t = I.out_lane(ctx.fn(k), 'o', 0, 4)
                if t.op == 'const':
                    ok = t.args[0] == math.isqrt(n)
                    return [R.ob(name, 'gtx_integer', R.PROVED if ok else R.REFUTED, 'floor(sqrt(%d)) == %d' % (n, math.isqrt(n)) if ok else 'the kernel reduces to %d, floor(sqrt(%d)) is %d' % (t.args[0], n, math.isqrt(n)), kernel=k.source())]
                return [R.ob(name, 'gtx_integer', R.UNDECIDED, 'not reduced to a constant: %s' % tm.show(t, 3), kernel=k.source())]
            cs.append(R.Case(name, [k], jq))
    # gtx/bit power-of-two helpers (highestBitValue is a loop over the set bits) and findNSB (a loop over halving steps): kernels with constant arguments must fold to the
    # documented value: highest set bit value; the power of two above / below / nearest (the value itself when it is one; ties of 'nearest' go to the lower one, as
    # (next - x) < (x - prev) is strict); the position of the n-th set bit or -1
    def _hb(n):
        return 0 if n == 0 else 1 << (n.bit_length() - 1)

    def _pow2(n):
        return n != 0 and n & (n - 1) == 0

    def _nearest(n):
        if _pow2(n):
            return n
        pv = _hb(n)
        nx = pv << 1
        return nx if (nx - n) < (n - pv) else pv

    def _nsb(x, n_):
        pos = [i for i in range(64) if (x >> i) & 1]
        return pos[n_ - 1] if 1 <= n_ <= len(pos) else -1
    bit_args = [1, 2, 3, 4, 5, 6, 7, 8, 9, 12, 15, 16, 17, 24, 255, 256, 257, 1000, 65535, 65536, 65537, 3 << 20, (1 << 30) - 1, 1 << 30, (1 << 30) + 1]
    gfuncs = [('highestBitValue', _hb), ('powerOfTwoAbove', lambda n: n if _pow2(n) else _hb(n) << 1), ('powerOfTwoBelow', lambda n: n if _pow2(n) else _hb(n)), ('powerOfTwoNearest', _nearest)]
    CFG_BIT = Cfg('gtxbit', headers=CFG.headers + ('glm/gtx/bit.hpp',) if 'glm/gtx/bit.hpp' not in CFG.headers else CFG.headers, defines=CFG.defines)
    CFG_NSB = Cfg('gtxbit_peel', headers=CFG_BIT.headers, defines=CFG_BIT.defines, peel=8)       # the halving loop of findNSB has at most log2(width) iterations: peeled, it folds
    for fn_, ref in gfuncs:
        for n in bit_args:
            k = K('gbit_%s_%d' % (fn_, n), [Par('o', ut, False)], '*o = %s(%s(%du));' % (fn_, ut.cpp, n), CFG_BIT)
            name = '%s<uint>(%d)' % (fn_, n)

            def jb(ctx, k=k, n=n, name=name, ref=ref, fn_=fn_):
                err = ctx.compile_error(k)
                if err:
                    return [R.ob(name, 'existence', R.REFUTED, 'cannot be instantiated: ' + err, kernel=k.source())]
                t = I.out_lane(ctx.fn(k), 'o', 0, 4)
                if t.op == 'const':
                    want = ref(n) & 0xffffffff
                    ok = t.args[0] == want
                    return [R.ob(name, 'gtx_bit', R.PROVED if ok else R.REFUTED, '%s(%d) == %d' % (fn_, n, want) if ok else 'the kernel reduces to %d, %s(%d) is %d' % (t.args[0], fn_, n, want), kernel=k.source())]
                return [R.ob(name, 'gtx_bit', R.UNDECIDED, 'not reduced to a constant: %s' % tm.show(t, 3), kernel=k.source())]
            cs.append(R.Case(name, [k], jb))
    nsb_args = [(0x1, 1), (0x1, 2), (0x10, 1), (0xF0, 1), (0xF0, 4), (0xF0, 5), (0x80000001, 1), (0x80000001, 2), (0x80000001, 3), (0xFFFFFFFF, 1), (0xFFFFFFFF, 17), (0xFFFFFFFF, 32), (0xA5A5A5A5, 7), (0xA5A5A5A5, 16), (0x00010000, 1), (0, 1)]
    for xv, nn in nsb_args:
        k = K('gnsb_%x_%d' % (xv, nn), [Par('o', it_, False)], '*o = findNSB(%s(%du), %d);' % (ut.cpp, xv, nn), CFG_NSB)
        name = 'findNSB<uint>(%#x, %d)' % (xv, nn)

        def jn(ctx, k=k, xv=xv, nn=nn, name=name):
            err = ctx.compile_error(k)
            if err:
                return [R.ob(name, 'existence', R.REFUTED, 'cannot be instantiated: ' + err, kernel=k.source())]
            t = I.out_lane(ctx.fn(k), 'o', 0, 4)
            if t.op == 'const':
                got = tm.sval(t)
                want = _nsb(xv, nn)
                return [R.ob(name, 'gtx_bit', R.PROVED if got == want else R.REFUTED, 'position of set bit number %d of %#x == %d' % (nn, xv, want) if got == want else 'the kernel reduces to %d, the position of set bit number %d of %#x is %d' % (got, nn, xv, want), kernel=k.source())]
            return [R.ob(name, 'gtx_bit', R.UNDECIDED, 'not reduced to a constant: %s' % tm.show(t, 3), kernel=k.source())]
        cs.append(R.Case(name, [k], jn))
    # factorial on 0..12
    for n in range(0, 13):
        k = K('gfact_%d' % n, [Par('o', it_, False)], '*o = factorial(%d);' % n, CFG)
        name = 'factorial(%d)' % n

        def jf(ctx, k=k, n=n, name=name):
            t = I.out_lane(ctx.fn(k), 'o', 0, 4)
            if t.op == 'const':
                ok = t.args[0] == math.factorial(n)
                return [R.ob(name, 'gtx_integer', R.PROVED if ok else R.REFUTED, '%d! == %d' % (n, math.factorial(n)) if ok else 'the kernel reduces to %d, %d! is %d' % (t.args[0], n, math.factorial(n)), kernel=k.source())]
            return [R.ob(name, 'gtx_integer', R.UNDECIDED, 'not reduced to a constant: %s' % tm.show(t, 3), kernel=k.source())]
        cs.append(R.Case(name, [k], jf))
    return cs


def cases(tier):
    cs = []
    cs += interleave_cases()
    cs += pattern_cases(tier)
    cs += pow2_cases(tier)
    cs += floor_pow2_cases(tier)
    cs += multiple_cases(tier)
    cs += is_multiple_cases()
    cs += gtx_integer_cases(tier)
    cs += canaries()
    return cs


def canaries():
    u8, u16 = G.scalar('uint8'), G.scalar('uint16')
    pre = 'static glm::uint16 verif_bad_il(glm::uint8 x, glm::uint8 y){ return glm::bitfieldInterleave(y, x); }'
    k = K('canary_il', [Par('o', u16, False), Par('x', u8), Par('y', u8)], '*o = verif_bad_il(*x, *y);', CFG, pre=pre)

    def judge(ctx):
        t = I.out_lane(ctx.fn(k), 'o', 0, 2)
        b = tm.slice_(t, 0, 1)
        want = tm.slice_(tm.inp('x', 0, 8), 0, 1)
        return [R.ob('canary:interleave-operands-swapped', 'interleave', R.REFUTED if b is not want else R.PROVED, 'bit 0 is %s' % tm.show(b, 2))]
    return [R.Case('canary:interleave-operands-swapped', [k], judge, canary=True)]


EXPLANATION = ('static: the bitfield and power-of-two / multiple utilities are instantiated from /repo; interleave / deinterleave / mask / fill / rotate results are normalised to bit placements and compared bit for bit '
               'with the documented pattern (all constant parameters in range); isPowerOfTwo and the smear ladder of ceilPowerOfTwo are checked structurally (or-set domain); the multiple functions are analysed '
               'symbolically around their remainder atom: exact multiples map to themselves, the unsigned x - 1 idiom is evaluated at its wrap-around corner')
ASSUMPTIONS = ['integer arithmetic is two\'s complement wrap-around as in LLVM IR; % is C++ truncated remainder, std::fmod has the sign of the dividend',
               'findNSB (loop), integer log2 / sqrt / pow / factorial / mod of gtc/gtx integer, floorPowerOfTwo / roundPowerOfTwo numerics and gtx/bit are not decided here']
TRUSTED = ['clang/LLVM 14', 'tools/irtool.cc', 'laneflow term normaliser (bit placement rules)']
LEVEL = 'other'
