"""C03 — SIMD-intrinsic builds return what the pure C++ path returns (translation-validation style differential).

The same one-call kernel is instantiated twice from /repo: pure (GLM_FORCE_PURE, packed types) and intrinsic
(GLM_FORCE_INTRINSICS, aligned types, -m<isa>); output lanes are matched by component name.
  class A  (integer, bitwise, comparison, selection, conversion, rounding-to-integer, single correctly rounded float op):
           identical term, or same polynomial and same decisions under every order relation of the compared operands
           (sign of a zero / NaN payload differences are not part of the documented domain and are not distinguished)
  class B  (multi-term float expressions): ring-equal normal forms with the same branch decisions
  D3       only lowp kernels may contain hardware rcp / rsqrt approximations
  D4       every kernel instantiates at every ISA level
Pairs that implement the same function with different numeric algorithms end UNDECIDED and are listed.
"""
from laneflow import term as tm
from laneflow import poly as P
from laneflow.poly import Poly
from laneflow import gtypes as G
from laneflow import runner as R
from laneflow import rulelib as L
from laneflow import spec as S
from laneflow import order as O
from laneflow import interp as I
from laneflow.build import K, P as Par, Cfg

NEEDS_X86 = True
HDR = ('glm/glm.hpp', 'glm/gtc/quaternion.hpp', 'glm/gtc/type_aligned.hpp', 'glm/ext/matrix_integer.hpp')
HDR_PURE = ('glm/glm.hpp', 'glm/gtc/quaternion.hpp', 'glm/ext/matrix_integer.hpp')
PURE = Cfg('pure', defines=('GLM_FORCE_PURE',), headers=HDR_PURE)
ISAS = {
    'sse2': ('-msse2',), 'sse3': ('-msse3',), 'ssse3': ('-mssse3',), 'sse41': ('-msse4.1',), 'sse42': ('-msse4.2',),
    'avx': ('-mavx',), 'avx2': ('-mavx2', '-mfma'), 'avx2nofma': ('-mavx2',),
}
# the baseline compiler is g++: GLM selects some SIMD arms by compiler (e.g. compute_fma<4, double> uses _mm256_fmadd_pd unless the compiler is clang). The '@gcc' levels make
# clang read the GLM headers the way g++ does (rules/c15.py: GCC_VIEW), so that those arms are instantiated and compared as well.
from rules.c15 import GCC_VIEW


def simd_cfg(isa, wxyz=False):
    d = ('GLM_FORCE_INTRINSICS',) + (('GLM_FORCE_QUAT_DATA_WXYZ',) if wxyz else ())
    gcc = isa.endswith('@gcc')
    return Cfg('simd_' + isa.replace('@', '_') + ('_wxyz' if wxyz else ''), defines=d, flags=ISAS[isa.split('@')[0]], headers=HDR,
               pre_text=('#include <immintrin.h>\n' + GCC_VIEW) if gcc else '')


PURE_WXYZ = Cfg('pure_wxyz', defines=('GLM_FORCE_PURE', 'GLM_FORCE_QUAT_DATA_WXYZ'), headers=HDR_PURE)

# (name, class, expression over *a,*b,*c, argument kinds, result kind, element types)
# kinds: V vec4, W vec3, S scalar, M mat4, N mat3, Q quat, B bool, I int scalar
OPS = [
    ('add', 'A', '*a + *b', 'VV', 'V', 'fiud'), ('sub', 'A', '*a - *b', 'VV', 'V', 'fiud'), ('mul', 'A', '*a * *b', 'VV', 'V', 'fiud'),
    ('div', 'A', '*a / *b', 'VV', 'V', 'fd'), ('add_s', 'A', '*a + *b', 'VS', 'V', 'fid'), ('mul_s', 'A', '*a * *b', 'VS', 'V', 'fid'),
    ('div_s', 'A', '*a / *b', 'VS', 'V', 'f'), ('neg', 'A', '-*a', 'V', 'V', 'fid'),
    ('and', 'A', '*a & *b', 'VV', 'V', 'iu'), ('or', 'A', '*a | *b', 'VV', 'V', 'iu'), ('xor', 'A', '*a ^ *b', 'VV', 'V', 'iu'), ('not', 'A', '~*a', 'V', 'V', 'iu'),
    ('shl', 'A', '*a << *b', 'VV', 'V', 'iu'), ('shr', 'A', '*a >> *b', 'VV', 'V', 'iu'),
    ('eq', 'A', '(*a == *b)', 'VV', 'B', 'fiu'), ('ne', 'A', '(*a != *b)', 'VV', 'B', 'fiu'),
    ('abs', 'A', 'abs(*a)', 'V', 'V', 'fid'), ('sign', 'A', 'sign(*a)', 'V', 'V', 'f'), ('floor', 'A', 'floor(*a)', 'V', 'V', 'f'), ('ceil', 'A', 'ceil(*a)', 'V', 'V', 'f'),
    ('round', 'A', 'round(*a)', 'V', 'V', 'f'), ('roundEven', 'A', 'roundEven(*a)', 'V', 'V', 'f'), ('trunc', 'A', 'trunc(*a)', 'V', 'V', 'f'),
    ('fract', 'A', 'fract(*a)', 'V', 'V', 'f'), ('mod', 'B', 'mod(*a, *b)', 'VV', 'V', 'f'),
    ('min', 'A', 'min(*a, *b)', 'VV', 'V', 'fiud'), ('max', 'A', 'max(*a, *b)', 'VV', 'V', 'fiud'), ('clamp', 'A', 'clamp(*a, *b, *c)', 'VVV', 'V', 'fiu'),
    ('clamp_s', 'A', 'clamp(*a, *b, *c)', 'VSS', 'V', 'fiu'), ('min_s', 'A', 'min(*a, *b)', 'VS', 'V', 'fiu'), ('max_s', 'A', 'max(*a, *b)', 'VS', 'V', 'fiu'),
    ('step', 'A', 'step(*a, *b)', 'VV', 'V', 'f'), ('sqrt', 'A', 'sqrt(*a)', 'V', 'V', 'f'), ('inversesqrt', 'B', 'inversesqrt(*a)', 'V', 'V', 'f'),
    ('mix', 'B', 'mix(*a, *b, *c)', 'VVV', 'V', 'fd'), ('smoothstep', 'B', 'smoothstep(*a, *b, *c)', 'VVV', 'V', 'f'), ('fma', 'B', 'fma(*a, *b, *c)', 'VVV', 'V', 'fd'),
    ('dot', 'B', 'dot(*a, *b)', 'VV', 'S', 'fd'), ('length', 'B', 'length(*a)', 'V', 'S', 'fd'), ('distance', 'B', 'distance(*a, *b)', 'VV', 'S', 'fd'),
    ('normalize', 'B', 'normalize(*a)', 'V', 'V', 'f'), ('faceforward', 'B', 'faceforward(*a, *b, *c)', 'VVV', 'V', 'f'),
    ('reflect', 'B', 'reflect(*a, *b)', 'VV', 'V', 'f'), ('refract', 'B', 'refract(*a, *b, *c)', 'VVS', 'V', 'f'),
    ('dot3', 'B', 'dot(*a, *b)', 'WW', 'S', 'f'), ('cross', 'B', 'cross(*a, *b)', 'WW', 'W', 'f'), ('normalize3', 'B', 'normalize(*a)', 'W', 'W', 'f'),
    ('length3', 'B', 'length(*a)', 'W', 'S', 'f'), ('add3', 'A', '*a + *b', 'WW', 'W', 'fi'), ('mul3', 'A', '*a * *b', 'WW', 'W', 'f'),
    ('m4_mul_v4', 'B', '*a * *b', 'MV', 'V', 'fd'), ('v4_mul_m4', 'B', '*a * *b', 'VM', 'V', 'fd'), ('m4_mul_m4', 'B', '*a * *b', 'MM', 'M', 'fd'),
    ('m4_add', 'A', '*a + *b', 'MM', 'M', 'fd'), ('m4_sub', 'A', '*a - *b', 'MM', 'M', 'fd'), ('m4_compmult', 'A', 'matrixCompMult(*a, *b)', 'MM', 'M', 'fd'),
    ('m4_transpose', 'A', 'transpose(*a)', 'M', 'M', 'fd'), ('m4_det', 'B', 'determinant(*a)', 'M', 'S', 'fd'), ('m4_inverse', 'B', 'inverse(*a)', 'M', 'M', 'fd'),
    ('m4_outer', 'A', 'outerProduct(*a, *b)', 'VV', 'M', 'fd'), ('m4_mul_s', 'A', '*a * *b', 'MS', 'M', 'fd'),
    ('splatX', 'A', 'splatX(*a)', 'V', 'V', 'fd'), ('splatY', 'A', 'splatY(*a)', 'V', 'V', 'fd'), ('splatZ', 'A', 'splatZ(*a)', 'V', 'V', 'fd'), ('splatW', 'A', 'splatW(*a)', 'V', 'V', 'fd'),
    ('m3_transpose', 'A', 'transpose(*a)', 'N', 'N', 'fd'), ('m3_mul_v3', 'B', '*a * *b', 'NW', 'W', 'fd'), ('m3_mul_m3', 'B', '*a * *b', 'NN', 'N', 'fd'),
    ('m3_inverse', 'B', 'inverse(*a)', 'N', 'N', 'f'), ('m3_det', 'B', 'determinant(*a)', 'N', 'S', 'f'),
    ('q_mul', 'B', '*a * *b', 'QQ', 'Q', 'f'), ('q_mul_v3', 'B', '*a * *b', 'QW', 'W', 'f'), ('q_mul_v4', 'B', '*a * *b', 'QV', 'V', 'f'),
    ('q_add', 'A', '*a + *b', 'QQ', 'Q', 'f'), ('q_sub', 'A', '*a - *b', 'QQ', 'Q', 'f'), ('q_mul_s', 'A', '*a * *b', 'QS', 'Q', 'f'), ('q_div_s', 'A', '*a / *b', 'QS', 'Q', 'f'),
    ('q_dot', 'B', 'dot(*a, *b)', 'QQ', 'S', 'f'), ('q_conj', 'A', 'conjugate(*a)', 'Q', 'Q', 'f'), ('q_inverse', 'B', 'inverse(*a)', 'Q', 'Q', 'f'),
    ('q_length', 'B', 'length(*a)', 'Q', 'S', 'f'), ('q_normalize', 'B', 'normalize(*a)', 'Q', 'Q', 'f'), ('q_lerp', 'B', 'lerp(*a, *b, *c)', 'QQS', 'Q', 'f'),
    ('q_eq', 'A', '(*a == *b)', 'QQ', 'B', 'f'),
    ('cvt_i2f', 'A', 'glm::vec<4, float, QUAL>(*a)', 'V', 'V', 'i>f'), ('cvt_f2i', 'A', 'glm::vec<4, int, QUAL>(*a)', 'V', 'V', 'f>i'),
    ('cvt_u2f', 'A', 'glm::vec<4, float, QUAL>(*a)', 'V', 'V', 'u>f'),
]
TNAME = {'f': 'float', 'i': 'int', 'u': 'uint', 'd': 'double'}


def mk_type(kind, T, Q, wxyz=False):
    if kind == 'V':
        return G.vec(4, T, Q)
    if kind == 'W':
        return G.vec(3, T, Q)
    if kind == 'S':
        return G.scalar(T)
    if kind == 'M':
        return G.mat(4, 4, T, Q)
    if kind == 'N':
        return G.mat(3, 3, T, Q)
    if kind == 'Q':
        return G.quat(T, Q, wxyz=wxyz)
    if kind == 'B':
        return G.scalar('bool')
    raise ValueError(kind)


def make_pair(op, T, prec, isa, wxyz=False):
    name, cls, expr, args, ret, types = op
    Tin, Tout = T, T
    if '>' in types:
        Tin, Tout = TNAME[types[0]], TNAME[types[2]]
    pq, aq = 'packed_' + prec, 'aligned_' + prec
    pcfg = PURE_WXYZ if wxyz else PURE
    scfg = simd_cfg(isa, wxyz)
    out = []
    for cfg, Q in ((pcfg, pq), (scfg, aq)):
        params = []
        rty = mk_type(ret, Tout, Q, wxyz)
        params.append(Par('o', rty, False))
        tys = []
        for i, kch in enumerate(args):
            ty = mk_type(kch, Tin, Q, wxyz)
            tys.append(ty)
            params.append(Par('abc'[i], ty))
        e = expr.replace('QUAL', 'glm::' + Q)
        k = K('%s_%s_%s_%s%s' % (cfg.name, name, G.scalar(Tin).tag, prec, '_w' if wxyz else ''), params, '*o = %s;' % e, cfg)
        out.append((k, rty, tys))
    return out


def pair_case(op, T, prec, isa, wxyz=False):
    name, cls, expr, args, ret, types = op
    (kp, rp, tp), (ks, rs, ts) = make_pair(op, T, prec, isa, wxyz)
    cname = '%s<%s,%s>@%s%s' % (name, T, prec, isa, '+wxyz' if wxyz else '')

    def judge(ctx):
        res = []
        es, ep = ctx.compile_error(ks), ctx.compile_error(kp)
        if ep:
            return [R.ob(cname, 'engine', R.UNDECIDED, 'pure reference does not instantiate: ' + ep)]
        if es:
            return [R.ob(cname, 'existence', R.REFUTED, 'kernel does not instantiate in the intrinsic build although the pure build accepts it: ' + es, kernel=ks.source())]
        its, itp = ctx.fn(ks), ctx.fn(kp)
        # rename the intrinsic kernel's input lanes to the pure kernel's by component name
        m = {}
        for i, (a, b) in enumerate(zip(ts, tp)):
            an = 'abc'[i]
            for lane, off in a.lanes.items():
                src = tm.inp(an, off * 8, a.elem * 8)
                dst = tm.inp(an, b.lanes[lane] * 8, b.elem * 8)
                if src is not dst:
                    m[src] = dst
        pc = P.PCtx()
        for lane, offs in sorted(rs.lanes.items(), key=lambda x: str(x[0])):
            oid = '%s[%s]' % (cname, lane)
            t_s0 = I.out_lane(its, 'o', offs, rs.elem)
            # padding independence: a result lane may not be computed from the hidden lane of an aligned vec3 operand (its content is arbitrary:
            # 0 * pad is NaN for a non-finite pad even where the algebra cancels it)
            named = {('abc'[i], off) for i, a in enumerate(ts) for off in a.lanes.values()}
            pads = sorted({(an, off // 8) for an, off, w_ in tm.inputs_of(t_s0) if an in 'abc'[:len(ts)] and (an, off // 8) not in named})
            if pads and rs.isfloat:
                res.append(R.ob(oid, 'padding', R.REFUTED, 'the intrinsic build computes this component from the padding lane of operand %s (byte offset %d), whose content is unspecified: a non-finite padding value turns the result into NaN' % pads[0],
                                where=R.where_of(its, t_s0), kernel=ks.source()))
                continue
            t_s = tm.substitute(t_s0, m)
            t_p = I.out_lane(itp, 'o', rp.lanes[lane], rp.elem)
            # D3: approximations only in lowp
            approx = [x for x in tm.walk(t_s) if x.op == 'fn' and x.args[0] in ('x86.rcp', 'x86.rsqrt')]
            if approx and prec != 'lowp':
                res.append(R.ob(oid, 'approx_only_lowp', R.REFUTED,
                                'the %s build uses the hardware %s approximation (relative error 2^-11) on a %s type; only lowp may' % (isa, approx[0].args[0][4:], prec),
                                where=R.where_of(its, approx[0]), kernel=ks.source()))
                continue
            if approx:
                res.append(R.ob(oid, 'approx_only_lowp', R.PROVED, 'approximation atoms appear on a lowp type only'))
                st, detail = approx_within_bound(t_p, t_s, approx, rs.elem * 8)
                res.append(R.ob(oid, 'class_' + cls, st, detail, where=R.where_of(its, t_s) if st == R.REFUTED else None, kernel=ks.source() + '\n' + kp.source()))
                continue
            if name in ('clamp', 'clamp_s') and t_p is not t_s:
                # GLSL leaves clamp undefined for minVal > maxVal: the builds are compared on minVal <= maxVal only
                def operand(i):
                    ty = tp[i]
                    off = ty.lanes[lane] if ty.kind != 'scalar' and lane in ty.lanes else 0
                    return tm.inp('abc'[i], off * 8, ty.elem * 8)
                lo_, hi_ = operand(1), operand(2)
                g_ = tm.fcmp('ole', lo_, hi_) if rs.isfloat else tm.icmp('sle' if G.scalar(T).signed else 'ule', lo_, hi_)
                if rs.isfloat:
                    t_p, t_s = tm.select(g_, t_p, tm.zeros(t_p.w)), tm.select(g_, t_s, tm.zeros(t_s.w))
                    g_ = None
            else:
                g_ = None
            st, detail = compare_builds(t_p, t_s, cls, rs, pc, assume=g_)
            res.append(R.ob(oid, 'class_' + cls, st, detail, where=R.where_of(its, t_s) if st != R.PROVED else None, kernel=ks.source() + '\n' + kp.source()))
        return res
    return R.Case(cname, [kp, ks], judge)


def approx_within_bound(t_p, t_s, approx, w):
    """lowp: the hardware approximations RCPPS / RSQRTPS have relative error at most 1.5 * 2^-12 (Intel SDM).  Each approximation atom is replaced by the exact
    quantity times an error factor E_i = 1 + e_i; the intrinsic lane must then be the pure lane times ONE such factor identically (relative error |e_i| <=
    1.5 * 2^-12 < 2^-11, float roundings aside as everywhere in class B); a lane that is the exact formula times two or more factors, or not a multiple of it at
    all, is not within the documented bound by this argument"""
    sub = {}
    Es = []
    for i, a in enumerate(sorted(set(approx), key=lambda q: q.id)):
        y = a.args[1]
        e = tm.inp('approx_err%d' % i, 0, w)
        one = tm.fconst(w, 1.0)
        exact = tm.arith('fdiv', one, y) if a.args[0] == 'x86.rcp' else tm.arith('fdiv', one, tm.mk('sqrt', (y,), w))
        sub[a] = tm.arith('fmul', exact, e)
        Es.append(e)
    t2 = tm.substitute(t_s, sub)
    pc = P.PCtx()
    try:
        S_, P_ = pc.fpoly(t2), pc.fpoly(t_p)
    except (P.NonFinite, P.TooBig, ValueError) as e:
        return R.UNDECIDED, 'lowp approximation: no normal form (%r)' % e
    red = lambda q: P.reduce_sqrt(P.reduce_inv(q))
    Ep = [pc.fpoly(e) for e in Es]

    def zero(d):
        d = red(d)
        if d.is_zero():
            return True
        for a in P.atoms_of_kind(d, 'sqrt'):
            if red(d * Poly.var(a)).is_zero():        # valid where the square root is non-zero (at 0 both builds return the same special value)
                return True
        return False
    for e in Ep:
        if zero(S_ - P_ * e):
            return R.PROVED, 'intrinsic lane == pure lane * (1 + e), one hardware approximation with |e| <= 1.5 * 2^-12 < 2^-11'
    for e in Ep:
        if zero(S_ * e - P_):
            return R.PROVED, 'intrinsic lane == pure lane / (1 + e), one hardware approximation with |e| <= 1.5 * 2^-12: relative error <= 1.5 * 2^-12 / (1 - 2^-11) < 2^-11'
    if zero(S_ - P_):
        return R.PROVED, 'the approximation cancels: same normal form as the pure build'
    for e1 in Ep:
        for e2 in Ep:
            if zero(S_ - P_ * e1 * e2):
                return R.UNDECIDED, 'intrinsic lane == pure lane * (1 + e)(1 + e\'): two approximation errors compound to 3 * 2^-12 > 2^-11; not within the bound by this argument'
    return R.UNDECIDED, 'lowp approximation: the intrinsic lane is not the pure lane times one error factor: %s versus %s' % (P.show_poly(red(S_), limit=4), P.show_poly(red(P_), limit=4))


def sign_xor_to_select(t):
    """{x[0 .. w-2], c ^ x[w-1]}  ->  select(c, -x, x): the intrinsic code flips the sign bit of a float under a mask where the pure code selects between x and -x"""
    memo = {}
    for x in tm.walk(t):
        if not any(isinstance(a, tm.T) for a in x.args):
            memo[x] = x
            continue
        na = tuple(memo[a] if isinstance(a, tm.T) else a for a in x.args)
        y = x if all(p is q for p, q in zip(na, x.args)) else tm.make(x.op, na, x.w)
        if y.op == 'concat' and len(y.args) == 2 and y.args[1].w == 1 and y.args[1].op == 'xor' and y.args[0].op == 'slice' and y.args[0].args[1] == 0:
            base = y.args[0].args[0]
            if base.w == y.w:
                sb = tm.slice_(base, y.w - 1, 1)
                for i in (0, 1):
                    if y.args[1].args[i] is sb:
                        y = tm.select(y.args[1].args[1 - i], tm.fneg(base), base)
                        break
        memo[x] = y
    return memo[t]


def int_simplify(t):
    """two sound rewrites of integer selections: select(x == c, T, E) -> E when E with x := c folds to T (the special case is redundant), and
    select(x < 0, 0 - x, x) -> |x|"""
    memo = {}
    for x in tm.walk(t):
        if not any(isinstance(a, tm.T) for a in x.args):
            memo[x] = x
            continue
        na = tuple(memo[a] if isinstance(a, tm.T) else a for a in x.args)
        y = x if all(p is q for p, q in zip(na, x.args)) else tm.make(x.op, na, x.w)
        if y.op == 'select':
            c, a, b = y.args
            if c.op == 'slice' and c.w == 1 and c.args[1] == c.args[0].w - 1 and b is c.args[0] and a.op == 'sub' and a.args[1] is b and a.args[0].op == 'const' and a.args[0].args[0] == 0:
                y = tm.mk('iabs', (b,), b.w)
        if y.op == 'select':
            c, a, b = y.args
            if c.op == 'icmp' and c.args[0] == 'eq':
                for xi, ki in ((c.args[1], c.args[2]), (c.args[2], c.args[1])):
                    if ki.op == 'const' and xi.op != 'const':
                        b0 = tm.substitute(b, {xi: ki})
                        if b0.op == 'iabs' and b0.args[0].op == 'const':
                            v = tm.sval(b0.args[0])
                            b0 = tm.const(b0.w, abs(v) & ((1 << b0.w) - 1))
                        if b0 is a:
                            y = b
                            break
        memo[x] = y
    return memo[t]


def compare_builds(t_p, t_s, cls, rty, pc, assume=None):
    if t_p is t_s:
        return R.PROVED, 'identical term in both builds'
    if not rty.isfloat and rty.T != 'bool':
        t_s, t_p = int_simplify(t_s), int_simplify(t_p)
        if t_p is t_s:
            return R.PROVED, 'identical term in both builds (after removing a redundant special case / reading select(x < 0, -x, x) as |x|)'
    if rty.isfloat:
        t_s = sign_xor_to_select(t_s)
        if t_p is t_s:
            return R.PROVED, 'identical term in both builds (sign flip under a mask read as a selection between x and -x)'
    if rty.T == 'bool' or not rty.isfloat:
        w = rty.elem * 8
        if rty.T == 'bool':
            bp, bs = tm.slice_(t_p, 0, 1), tm.slice_(t_s, 0, 1)
            r = L.always(tm.xor(bp, bs), False)
            if r is True:
                return R.PROVED, 'same boolean function of the comparison atoms'
            if O.in_fragment(bp) and O.in_fragment(bs):
                r2 = O.equivalent(bp, bs, boolean=True, max_ops=9, nan=False)
                if r2 is True:
                    return R.PROVED, 'same decision in every ordering x NaN case'
                if r2:
                    return R.REFUTED, 'decision differs in case [%s]: pure %s, intrinsic %s' % (r2[1], r2[2], r2[3])
            return R.UNDECIDED, 'boolean terms differ: pure %s ; intrinsic %s' % (tm.show(bp, 5), tm.show(bs, 5))
        try:
            pp, ps = pc.ipoly(t_p, w), pc.ipoly(t_s, w)
        except (P.TooBig, ValueError):
            return R.UNDECIDED, 'no integer normal form'
        if pp == ps:
            return R.PROVED, 'same polynomial mod 2^%d' % w
        if L.lanes_only(pp - ps) and assume is None:
            return R.REFUTED, 'different integer polynomial: pure %s ; intrinsic %s' % (P.show_poly(pp), P.show_poly(ps))
        r3 = O.int_equivalent(t_p, t_s, assume=assume)
        if r3 is True:
            return R.PROVED, 'same selection for every unsigned ordering of the operands and every sign-boundary position'
        if r3:
            return R.REFUTED, 'integer selection differs when %s: pure picks %s, intrinsic picks %s ; intrinsic: %s' % (r3[1], r3[2], r3[3], tm.show(t_s, 4))
        d = tm.diff(t_p, t_s)
        return R.UNDECIDED, 'terms differ at %s: pure %s ; intrinsic %s' % (d[0], tm.show(d[1], 4), tm.show(d[2], 4))
    st, detail = S.compare(t_s, t_p, pc=pc, nan=False)
    if st == R.PROVED:
        return st, ('class %s: ' % cls) + detail.replace('the definition', 'the pure build')
    if st == R.UNDECIDED and cls == 'A':
        # class A promises identical values: an undecided pair is refuted when the two derived terms, evaluated exactly, give different numbers at an input
        # (ties, integers at and beyond 2^23, small and large magnitudes; -0 and +0 count as the same number, NaN inputs / results are not compared)
        wit = class_a_witness(t_p, t_s, rty.elem * 8)
        if wit:
            return R.REFUTED, 'the builds return different values for %s: pure %s, intrinsic %s  (%s)' % (wit[0], wit[1], wit[2], detail.replace('the definition', 'the pure build')[:200])
    if st == R.UNDECIDED and cls == 'B':
        wit = class_b_witness(t_p, t_s, rty.elem * 8)
        if wit:
            return R.REFUTED, 'the builds take different decisions for %s: pure %s, intrinsic %s  (%s)' % (wit[0], wit[1], wit[2], detail.replace('the definition', 'the pure build')[:200])
    return st, detail.replace('the definition', 'the pure build').replace('definition', 'pure')


_B_POOL = [0.6, -0.8, 0.5, 0.25, 1.0, -1.0, 2.0, 0.75, -0.5, 0.0, 1.5, -0.25, 3.0, 0.125]


def class_b_witness(t_p, t_s, w):
    """class B tolerates a few units of rounding, never a different branch: a witness is an input of moderate magnitude at which one build returns exactly 0 or
    NaN and the other a finite value of magnitude >= 2^-10 (inputs and intermediate terms are O(1), a few units of rounding are ~1e-6)"""
    from laneflow import ceval as CE
    import random
    ins = sorted({x for t in (t_p, t_s) for x in tm.walk(t) if x.op == 'in'}, key=lambda q: q.id)
    if not ins or any(x.w != w for x in ins):
        return None
    rng = random.Random(3)
    for trial in range(80):
        vals = [rng.choice(_B_POOL) for _ in ins]
        env = {x: CE.f2b(w, v) for x, v in zip(ins, vals)}
        try:
            a, b = CE.b2f(w, CE.evaluate(t_p, env)), CE.b2f(w, CE.evaluate(t_s, env))
        except CE.NoValue:
            continue
        for u, v in ((a, b), (b, a)):
            if (u == 0 or u != u) and v == v and abs(v) >= 2.0 ** -10 and abs(v) < 2.0 ** 20:
                return ', '.join('%s = %r' % (tm.show(x), q) for x, q in zip(ins, vals)), repr(a), repr(b)
    return None


_A_VALUES = [2.5, -2.5, 0.5, -0.5, 1.5, 3.5, -0.3, 0.3, 0.75, -7.25, 8388609.0, -8388609.0, 8388607.5, 16777215.0, 4194304.5, 1e10, -1e10, 1.0, 0.0, 123.456, 4503599627370497.0, 2251799813685248.5]


def class_a_witness(t_p, t_s, w):
    from laneflow import ceval as CE
    import itertools
    import math
    ins = sorted({x for t in (t_p, t_s) for x in tm.walk(t) if x.op == 'in'}, key=lambda q: q.id)
    if not ins or len(ins) > 2 or any(x.w != w for x in ins):
        return None
    vals = [v for v in _A_VALUES if CE.b2f(w, CE.f2b(w, v)) == v]
    for combo in itertools.islice(itertools.product(vals, repeat=len(ins)), 600):
        env = {x: CE.f2b(w, v) for x, v in zip(ins, combo)}
        try:
            a, b = CE.b2f(w, CE.evaluate(t_p, env)), CE.b2f(w, CE.evaluate(t_s, env))
        except CE.NoValue:
            continue
        if a != a or b != b:
            continue
        if a != b:
            return ', '.join('%s = %r' % (tm.show(x), v) for x, v in zip(ins, combo)), repr(a), repr(b)
    return None


def cases(tier):
    cs = []
    isas = ['sse2', 'avx2', 'avx'] if tier == 'quick' else list(ISAS)         # quick: avx only for double (the 256-bit double code has AVX arms of its own)
    precs = ['highp', 'mediump', 'lowp']          # the SIMD files carry separate (copy-pasted) specialisations per qualifier: all three in every tier
    for isa in isas:
        for op in OPS:
            types = op[5]
            tl = [TNAME[types[0]]] if '>' in types else [TNAME[c] for c in types]
            for T in tl:
                if tier == 'quick' and ((T == 'double') != (isa == 'avx')) and not (T == 'double' and isa == 'avx2'):
                    continue
                for prec in precs:
                    if prec != 'highp' and T not in ('float',):
                        continue
                    cs.append(pair_case(op, T, prec, isa))
        # quaternion storage order
        for op in OPS:
            if tier == 'quick' and isa == 'avx':
                break
            if 'Q' in op[3] or op[4] == 'Q':
                cs.append(pair_case(op, 'float', 'highp', isa, wxyz=True))
    # the g++ view of the headers (compiler-keyed arms), with and without FMA at the AVX2 level
    for isa in (('avx2@gcc', 'avx2nofma@gcc', 'sse2@gcc') if tier == 'quick' else ('avx2@gcc', 'avx2nofma@gcc', 'avx@gcc', 'sse41@gcc', 'sse2@gcc', 'avx2nofma')):
        for op in OPS:
            types = op[5]
            tl = [TNAME[types[0]]] if '>' in types else [TNAME[c] for c in types]
            for T in tl:
                if tier == 'quick' and isa == 'sse2@gcc' and T == 'double':
                    continue
                cs.append(pair_case(op, T, 'highp', isa))
    cs += canaries()
    return cs


def canaries():
    v4p, v4a = G.vec(4, 'float', 'packed_highp'), G.vec(4, 'float', 'aligned_highp')
    scfg = simd_cfg('sse2')
    pre = ('static glm::vec<4, float, glm::aligned_highp> verif_bad_cross(glm::vec<4, float, glm::aligned_highp> const& a, glm::vec<4, float, glm::aligned_highp> const& b){ '
           'glm::vec<4, float, glm::aligned_highp> r; __m128 s0 = _mm_shuffle_ps(a.data, a.data, _MM_SHUFFLE(3,0,2,1)); __m128 s1 = _mm_shuffle_ps(b.data, b.data, _MM_SHUFFLE(3,1,0,2)); '
           '__m128 s2 = _mm_shuffle_ps(a.data, a.data, _MM_SHUFFLE(3,1,0,2)); __m128 s3 = _mm_shuffle_ps(b.data, b.data, _MM_SHUFFLE(3,0,1,2)); '
           'r.data = _mm_sub_ps(_mm_mul_ps(s0, s1), _mm_mul_ps(s2, s3)); return r; }')
    ks = K('canary_simd_cross', [Par('o', v4a, False), Par('a', v4a), Par('b', v4a)], '*o = verif_bad_cross(*a, *b);', scfg, pre=pre)
    kp = K('canary_pure_cross', [Par('o', v4p, False), Par('a', v4p), Par('b', v4p)],
           '*o = glm::vec<4, float, glm::packed_highp>(cross(glm::vec<3, float, glm::packed_highp>(*a), glm::vec<3, float, glm::packed_highp>(*b)), 0.f);', PURE)

    def judge(ctx):
        its, itp = ctx.fn(ks), ctx.fn(kp)
        pc = P.PCtx()
        out = []
        for i in range(3):
            st, d = compare_builds(I.out_lane(itp, 'o', 4 * i, 4), I.out_lane(its, 'o', 4 * i, 4), 'B', v4a, pc)
            out.append(R.ob('canary:wrong-shuffle-mask-in-simd-cross[%d]' % i, 'class_B', st, d))
        bad = [r for r in out if r['status'] == R.REFUTED]
        return bad[:1] or out[:1]
    return [R.Case('canary:wrong-shuffle-mask-in-simd-cross', [ks, kp], judge, canary=True)]


EXPLANATION = ('static differential between builds: every vec3/vec4/mat3/mat4/quat operation that has a SIMD specialisation (and the generic operators on aligned types) is instantiated from '
               '/repo under GLM_FORCE_PURE with packed types and under GLM_FORCE_INTRINSICS with aligned types at each ISA level; output lanes are matched by component name and compared as '
               'terms / polynomial normal forms / decision tables; x86 intrinsics that clang does not lower are interpreted lane-wise from the Intel pseudo-code')
ASSUMPTIONS = ['clang 14 lowering of SSE/AVX intrinsics to generic IR is value-preserving', 'lane-wise transfer functions in laneflow/x86.py follow the Intel SDM',
               'sign of zero results and NaN operands are outside the documented domain of C03 and are not distinguished',
               'pairs implemented by different numeric algorithms (SSE2 magic-constant rounding, rcp/rsqrt accuracy) are UNDECIDED, not claimed']
TRUSTED = ['clang/LLVM 14', 'tools/irtool.cc', 'laneflow/x86.py', 'laneflow normal forms']
LEVEL = 'translation_validation'
